/* C10: the threshold sweeps of the fits (stump.cpp / hinge.cpp: cache_t::clear and the per-feature callback of do_fit):
 *   "... returns the minimum RSS attainable over its hypothesis class (all features, all MID-POINT thresholds ...), and the
 *    fitted learner's predictions REPRODUCE that RSS".
 * Not the minimum itself (float optimisation, not_decided), but what makes the reported score the score of a member of the
 * hypothesis class, evaluated on the partition its predictor will use:
 *   clear():   every sample position of the subset with a given value becomes exactly one (value, sample) entry and one
 *              contribution to the total accumulator, a missing value exactly one contribution to the missing statistics
 *              and nothing else; the entries are then sorted (whole vector); the left accumulator is empty;
 *   sweep:     a candidate is evaluated only between two DIFFERENT consecutive sorted values v1 < v2; at that moment the
 *              left accumulator holds exactly the sorted entries before the cut (all values <= v1) and, with the total,
 *              the right side exactly the others (all values >= v2);
 *   store:     what is stored for a better candidate is one consistent candidate: the score of that evaluation, the
 *              feature of this callback, the threshold 0.5 * (v1 + v2) of exactly that cut, and coefficients computed
 *              from the accumulators of that moment (left -> row 0, right -> row 1 for the stump).
 * Over the reals v1 < 0.5 * (v1 + v2) <= v2 (SMT lemma), so "value < threshold" selects exactly the left entries.
 * Followed: one entry -- in clear() the sample POSITION nv_g of the subset, in the sweep the sorted POSITION nv_p.  An
 * entry is identified by the address its sample index is read from (row views remember it), so that a sample that occurs
 * twice in the subset is two entries. */
#include "wl.h"
union nv_bits { double d; uint64_t u; };
#define NV_IDENT(a, b) (((union nv_bits){ .d = (a) }).u == ((union nv_bits){ .d = (b) }).u)
struct nv_grow { int64_t tensor, row; const void* from; };    /* tensor.array(k): which tensor, which row, where k was read from */
struct nv_acc { int64_t ver; int64_t cnt; double val; };          /* accumulator_t: #contributions since clear(), #contributions of the followed entry
                                                                   * and the feature value it was entered with (hinge: update(value, residuals)) */
struct nv_ival { double first; int64_t second; };                 /* std::pair<scalar_t, tensor_size_t> */
struct nv_t1dv { double* p; int64_t n; };                         /* scalar_cmap_t */
struct nv_tuple2 { double _0, _1; };                              /* std::tuple<double, double> (missing_rss, missing_cnt) */
#ifdef NV_FIT_CLEAR
struct nv_ivec { uint64_t n; int64_t pushed; double pushed_value; int64_t pushed_sample; _Bool sorted; };   /* entries: count + the pushes from position nv_g */
#else
struct nv_ivec { struct nv_ival* p; uint64_t n; };                /* the sorted entries */
#endif
struct nv_coef { int32_t kind; int64_t ver; };                    /* an Eigen expression over the accumulators: which side, at which moment */
enum { NV_SIDE_NONE = 0, NV_SIDE_NEG = 1, NV_SIDE_POS = 2, NV_SIDE_DERIVED = 3 };
struct nv_fitcache { struct nv_ivec m_ivalues; struct nv_acc m_acc_sum, m_acc_neg; struct nv_t4 m_tables; int64_t m_feature; double m_threshold;
                     double m_score; uint8_t m_hinge; };
struct nv_cvec { uint64_t n; struct nv_fitcache* cur; };          /* std::vector<cache_t>: size + the cache of the calling thread */

const void* nv_track;      /* address the followed entry's sample index is read from (only compared, never dereferenced) */
int64_t nv_grad_id, nv_grad_rows;
_Bool nv_fitbad;

/* ASSUMED (tensor): gradients.array(k) / tables.array(k) is row k (first index checked where the row index is the followed one) */
static struct nv_grow nv_t4_array(const struct nv_t4* t, const void* from, int64_t k)
{
  if (from == nv_track || t->id != nv_grad_id) __CPROVER_assert(0 <= k && k < t->rows, "tensor.array(k): first index in range");
  struct nv_grow r; r.tensor = t->id; r.row = k; r.from = from; return r;
}
/* ASSUMED (accumulator_t, include/nano/wlearner/accumulator.h): update adds one contribution, clear removes all */
static void nv_acc_update(struct nv_acc* a, struct nv_grow g)
{
  if (g.tensor != nv_grad_id) nv_fitbad = 1;          /* the residuals come from the gradients tensor */
  if (a->ver < NV_MAXN) a->ver = a->ver + 1; else nv_fitbad = 1;
  if (g.from == nv_track) a->cnt = a->cnt + 1;
}
static void nv_acc_update_x(struct nv_acc* a, double value, struct nv_grow g) { nv_acc_update(a, g); if (g.from == nv_track) a->val = value; }
static void nv_acc_clear(struct nv_acc* a) { a->ver = 0; a->cnt = 0; }
/* std::pair relational operators: lexicographic (C++ [pairs.spec]) */
static _Bool nv_pair_lt(const struct nv_ival* a, const struct nv_ival* b) { return a->first < b->first || (!(b->first < a->first) && a->second < b->second); }
#define NV_PAIR_LE(a, b) (!nv_pair_lt(&(b), &(a)))

#ifdef NV_FIT_CLEAR
/* ================================================================================================ cache_t::clear */
int64_t nv_miss_rss;          /* contributions of position nv_g to missing_rss (missing_cnt += 1.0 sits in the same branch; a float sum is not counted) */
double __CPROVER_uninterpreted_sqsum(int64_t, int64_t);
static struct nv_grow nv_square(struct nv_grow g) { return g; }
static double nv_sqsum(struct nv_grow g)
{
  if (g.tensor != nv_grad_id) nv_fitbad = 1;
  if (g.from == nv_track) nv_miss_rss = nv_miss_rss + 1;
  return __CPROVER_uninterpreted_sqsum(g.tensor, g.row);
}
static void nv_ivec_clear(struct nv_ivec* v) { v->n = 0; v->pushed = 0; v->sorted = 0; }
static void nv_ivec_push(struct nv_ivec* v, double value, const int64_t* sample)
{
  if (v->sorted) nv_fitbad = 1;
  if (sample == nv_track) { v->pushed = v->pushed + 1; v->pushed_value = value; v->pushed_sample = *sample; }
  if (v->n < NV_MAXN) v->n = v->n + 1; else nv_fitbad = 1;
}
/* ASSUMED: std::sort(begin, end) sorts [begin, end) ascending and permutes it; checked: it is the whole vector, once */
static void nv_sort(uint64_t begin, uint64_t end, struct nv_ivec* v)
{
  if (begin != 0 || end != v->n || v->sorted) nv_fitbad = 1;
  v->sorted = 1;
}
#define NV_GIVEN_G NV_ISFIN(values->p[nv_g])
#define NV_CONTRACT_FIT_CLEAR \
__CPROVER_requires(__CPROVER_is_fresh(self, sizeof(*self)) && __CPROVER_is_fresh(gradients, sizeof(*gradients)) && __CPROVER_is_fresh(values, sizeof(*values)) \
  && NV_T1D_OK(*values) && __CPROVER_is_fresh(samples, sizeof(*samples)) && NV_T1I_OK(*samples) && samples->n == values->n) \
/* one value per sample of the subset (select_iterator_t::loop); samples index rows of gradients (wlearner_t::fit asserts it) */ \
__CPROVER_requires(0 <= nv_g && nv_g < samples->n && nv_track == &samples->p[nv_g] && 0 <= samples->p[nv_g] && samples->p[nv_g] < gradients->rows \
  && nv_grad_id == gradients->id && nv_grad_rows == gradients->rows && !nv_fitbad && nv_miss_rss == 0) \
__CPROVER_assigns(self->m_ivalues, self->m_acc_sum, self->m_acc_neg, nv_fitbad, nv_miss_rss) \
__CPROVER_ensures(!nv_fitbad && self->m_ivalues.sorted && self->m_acc_neg.ver == 0 && self->m_acc_neg.cnt == 0) \
/* .2 a given value: one entry (value, sample), one contribution to the total, none to the missing statistics */ \
__CPROVER_ensures(NV_GIVEN_G ==> (self->m_ivalues.pushed == 1 && NV_IDENT(self->m_ivalues.pushed_value, values->p[nv_g]) && self->m_ivalues.pushed_sample == samples->p[nv_g] \
   && self->m_acc_sum.cnt == 1 && nv_miss_rss == 0)) \
/* .3 a missing value: no entry, no contribution to the total, one to the missing residual sum */ \
__CPROVER_ensures(!NV_GIVEN_G ==> (self->m_ivalues.pushed == 0 && self->m_acc_sum.cnt == 0 && nv_miss_rss == 1)) \
/* .4 the total holds one contribution per entry */ \
__CPROVER_ensures(self->m_ivalues.n <= NV_MAXN && self->m_acc_sum.ver == (int64_t)self->m_ivalues.n)
#define NV_CONTRACT_stump_cache_clear NV_CONTRACT_FIT_CLEAR
/* hinge: the total is entered with the feature value of the same position */
#define NV_CONTRACT_hinge_cache_clear NV_CONTRACT_FIT_CLEAR __CPROVER_ensures(NV_GIVEN_G ==> NV_IDENT(self->m_acc_sum.val, values->p[nv_g]))
#define NV_LOOP_FIT_CLEAR \
__CPROVER_assigns(i, missing_rss, missing_cnt, self->m_ivalues, self->m_acc_sum, nv_fitbad, nv_miss_rss) \
__CPROVER_loop_invariant(0 <= i && i <= values->n && !nv_fitbad && !self->m_ivalues.sorted && self->m_ivalues.n <= (uint64_t)i && self->m_acc_sum.ver == (int64_t)self->m_ivalues.n) \
__CPROVER_loop_invariant(self->m_ivalues.pushed == ((i > nv_g && NV_GIVEN_G) ? 1 : 0) && self->m_acc_sum.cnt == self->m_ivalues.pushed \
  && nv_miss_rss == ((i > nv_g && !NV_GIVEN_G) ? 1 : 0)) \
__CPROVER_loop_invariant(self->m_ivalues.pushed == 1 ==> (NV_IDENT(self->m_ivalues.pushed_value, values->p[nv_g]) && self->m_ivalues.pushed_sample == samples->p[nv_g]))
#define NV_LOOP_stump_cache_clear_1 NV_LOOP_FIT_CLEAR __CPROVER_decreases(values->n - i)
#define NV_LOOP_hinge_cache_clear_1 NV_LOOP_FIT_CLEAR __CPROVER_loop_invariant(self->m_acc_sum.cnt == 1 ==> NV_IDENT(self->m_acc_sum.val, values->p[nv_g])) __CPROVER_decreases(values->n - i)
#else
/* ================================================================================================ the sweep */
uint64_t nv_p;                 /* the followed sorted position */
int64_t nv_feature;            /* ghost name of the callback's feature argument */
/* the latest evaluation of a candidate: where the cut was, its score, its mid-point; and the candidate stored last */
int64_t nv_evals, nv_eval_ver; double nv_eval_score, nv_eval_mid, nv_eval_thr; int32_t nv_eval_side;      /* thr: the threshold the candidate was scored with (hinge) */
int64_t nv_stores, nv_store_ver; double nv_store_score, nv_store_mid, nv_store_thr; int32_t nv_store_side;
int64_t nv_row0_sets, nv_row1_sets, nv_row0_ver, nv_row1_ver; int32_t nv_row0_kind, nv_row1_kind;
double __CPROVER_uninterpreted_fitscore(int32_t, int64_t, int64_t, double, double, int32_t, double);
/* "the minimum over ALL candidates": the ghost CUT nv_c (number of entries left of it).  If it is a boundary between two different
 * consecutive sorted values, it is evaluated exactly once per direction (stump: once; hinge: left and right hinge), and the score
 * the cache ends with is <= every finite score evaluated there.  nv_c_score_a: stump / left hinge, nv_c_score_b: right hinge */
/* targets *_fit_sweep_opt_visit / *_fit_sweep_opt_best (NV_OPT_VISIT / NV_OPT_BEST): the ghost-cut clauses; the plain *_fit_sweep targets carry none of them */
#if defined(NV_OPT_VISIT) || defined(NV_OPT_BEST)
#define NV_OPT 1
/* the best score so far is a number: no_fit_score() (cache_t's default member initialiser) or a finite score stored by an earlier sweep (.best: preserved) */
#define NV_OPT_REQ __CPROVER_requires(nv_c_evals == 0 && nv_c_evals_b == 0 && NV_NOT_NAN(caches->cur->m_score))
#define NV_OPT_GHOST nv_c_evals, nv_c_evals_b, nv_c_score_a, nv_c_score_b,
#else
#define NV_OPT_REQ
#define NV_OPT_GHOST
#endif
uint64_t nv_c; int64_t nv_c_evals, nv_c_evals_b; double nv_c_score_a, nv_c_score_b;
#define NV_IS_BOUNDARY(c, V) (1 <= (V) && (V) < (c)->m_ivalues.n && (c)->m_ivalues.p[(V) - 1].first < (c)->m_ivalues.p[V].first)
#define NV_NOT_NAN(x) ((x) == (x))

/* ASSUMED: caches has one cache per thread and tnum is the calling thread (select_iterator_t::loop) */
static struct nv_fitcache* nv_cvec_at(const struct nv_cvec* v, uint64_t k)
{
  __CPROVER_assert(k < v->n, "caches[tnum]: index in range");
  return v->cur;
}
/* m_ivalues[k].  ASSUMED: the entries are sorted ascending as pairs and hold finite values (cache_t::clear: only given
 * values are entered, then std::sort; proved in targets *_cache_clear), instantiated between the element read and the
 * followed element */
static struct nv_ival* nv_ivec_at(const struct nv_ivec* v, uint64_t k)
{
  __CPROVER_assert(k < v->n, "m_ivalues[k]: index in range");
  __CPROVER_assume(NV_ISFIN(v->p[k].first));
  if (nv_p < v->n)
  {
    __CPROVER_assume(NV_ISFIN(v->p[nv_p].first));
    if (nv_p < k) __CPROVER_assume(NV_PAIR_LE(v->p[nv_p], v->p[k]));
    if (nv_p > k) __CPROVER_assume(NV_PAIR_LE(v->p[k], v->p[nv_p]));
  }
  if (k + 1 < v->n) __CPROVER_assume(NV_PAIR_LE(v->p[k], v->p[k + 1]));
  return &v->p[k];
}
/* cache.clear(gradients, fvalues, samples) by its contract (targets stump_cache_clear / hinge_cache_clear): sorted entries,
 * one contribution per entry in the total, empty left accumulator */
static struct nv_tuple2 nv_cache_clear(struct nv_fitcache* c)
{
  c->m_acc_neg.ver = 0; c->m_acc_neg.cnt = 0;
  c->m_acc_sum.ver = (int64_t)c->m_ivalues.n; c->m_acc_sum.cnt = (nv_p < c->m_ivalues.n) ? 1 : 0;
  struct nv_tuple2 t; t._0 = nv_nondet_double(); t._1 = nv_nondet_double(); return t;
}
/* a threshold t is usable for the cut V iff `value < t` holds for the last left entry and fails for the first right one */
#define NV_SEPARATES(c, V, t) ((c)->m_ivalues.p[(V) - 1].first < (t) && (t) <= (c)->m_ivalues.p[V].first)
/* THE EVENT "a candidate is evaluated" (cache.score(..) / score_neg(..) / score_pos(..)): the accumulators define the cut
 * V = #entries in the left accumulator.  Obligations: the cut lies between two different consecutive sorted values, and
 * the left / right side hold exactly the entries before / after the cut */
static double nv_candidate(const struct nv_fitcache* c, int32_t side, double threshold_used, _Bool has_threshold, int32_t criterion, double mrss, double mcnt)
{
  int64_t V = c->m_acc_neg.ver;
  uint64_t n = c->m_ivalues.n;
  __CPROVER_assert(1 <= V && (uint64_t)V < n, "fit: a candidate threshold is evaluated only with a non-empty left and right side");
  if (!(1 <= V && (uint64_t)V < n)) { nv_fitbad = 1; return nv_nondet_double(); }
  __CPROVER_assert(c->m_ivalues.p[V - 1].first < c->m_ivalues.p[V].first, "fit: a candidate threshold is evaluated only between two different consecutive sorted feature values");
  __CPROVER_assert(c->m_acc_neg.cnt == ((nv_p < (uint64_t)V) ? 1 : 0), "fit: the left accumulator holds exactly the sorted entries before the cut, once each");
  __CPROVER_assert(c->m_acc_sum.cnt - c->m_acc_neg.cnt == ((nv_p >= (uint64_t)V && nv_p < n) ? 1 : 0), "fit: total minus left holds exactly the sorted entries after the cut, once each");
  if (nv_p < n)
    __CPROVER_assert((nv_p < (uint64_t)V) ? (c->m_ivalues.p[nv_p].first <= c->m_ivalues.p[V - 1].first) : (c->m_ivalues.p[nv_p].first >= c->m_ivalues.p[V].first),
                     "fit: entries left of the cut have values <= v1, entries right of it values >= v2");
  double mid = NV_FMUL(0.5, NV_FADD(c->m_ivalues.p[V - 1].first, c->m_ivalues.p[V].first));
  if (has_threshold)
  {
    __CPROVER_assert(NV_SEPARATES(c, V, threshold_used), "fit: the threshold a candidate is scored with separates the two sides of its cut under `value < threshold`: v1 < threshold <= v2");
    __CPROVER_assert(NV_SEPARATES(c, V, mid) ==> NV_IDENT(threshold_used, mid), "fit: the candidate is scored with the mid-point 0.5 * (v1 + v2) of its cut as the threshold (whenever that mid-point separates)");
  }
  nv_eval_thr = has_threshold ? threshold_used : mid;
  nv_evals = (nv_evals < NV_MAXN) ? nv_evals + 1 : nv_evals;
  nv_eval_ver = V; nv_eval_mid = mid; nv_eval_side = side;
  nv_eval_score = __CPROVER_uninterpreted_fitscore(side, V, c->m_acc_sum.ver, mrss, mcnt, criterion, mid);
#ifdef NV_OPT
  if ((uint64_t)V == nv_c)
#else
  if (0)
#endif
  {
    if (side == NV_SIDE_POS) { nv_c_evals_b = (nv_c_evals_b < NV_MAXN) ? nv_c_evals_b + 1 : nv_c_evals_b; nv_c_score_b = nv_eval_score; }
    else { nv_c_evals = (nv_c_evals < NV_MAXN) ? nv_c_evals + 1 : nv_c_evals; nv_c_score_a = nv_eval_score; }
  }
  return nv_eval_score;
}
/* coefficients computed from the accumulators (output_neg / output_pos / beta_neg / beta_pos): which side, at which moment */
static struct nv_coef nv_coef_of(const struct nv_fitcache* c, int32_t kind) { struct nv_coef e; e.kind = kind; e.ver = c->m_acc_neg.ver; return e; }
/* hinge: beta_neg(threshold) / beta_pos(threshold): as above, and the threshold used is the mid-point of the evaluated cut */
static struct nv_coef nv_coef_of_t(const struct nv_fitcache* c, int32_t kind, double threshold)
{
  __CPROVER_assert(nv_evals > 0 && NV_IDENT(threshold, nv_eval_thr), "fit: the coefficients are computed for the threshold the candidate was scored with");
  return nv_coef_of(c, kind);
}
/* hinge: factor * cache.m_tables.array(0), the intercept row: obligations = it is derived from row 0 as just stored, with
 * the factor -threshold of the evaluated cut (so that tables[1] == -threshold * tables[0]: the prediction tables[0] * x +
 * tables[1] vanishes at the threshold, the hypothesis of the MARS-hinge lemmas of the spec) */
static struct nv_coef nv_coef_scaled(double factor, struct nv_grow row, const struct nv_fitcache* c)
{
  __CPROVER_assert(row.tensor == c->m_tables.id && row.row == 0 && nv_row0_sets > 0 && nv_row0_ver == nv_eval_ver, "fit: the intercept row is derived from the slope row stored for the same candidate");
  __CPROVER_assert(NV_IDENT(factor, NV_FNEG(nv_eval_thr)), "fit: the intercept row is -threshold * slope row for the threshold the candidate was scored with");
  struct nv_coef e; e.kind = NV_SIDE_DERIVED; e.ver = nv_row0_ver; return e;
}
/* cache.m_tables.array(r) = coefficients: THE EVENT "a candidate is stored" (recorded per row; the stored candidate is the
 * latest evaluation: obligation) */
static void nv_row_store(struct nv_grow dst, struct nv_coef e, const struct nv_fitcache* c)
{
  __CPROVER_assert(dst.tensor == c->m_tables.id && (dst.row == 0 || dst.row == 1), "fit: coefficients are stored in rows 0 / 1 of the cache's tables");
  __CPROVER_assert(nv_evals > 0 && e.ver == nv_eval_ver, "fit: the coefficients stored are computed from the accumulators of the evaluated candidate");
  if (dst.row == 0) { nv_row0_sets = (nv_row0_sets < 2 * NV_MAXN) ? nv_row0_sets + 1 : nv_row0_sets; nv_row0_ver = e.ver; nv_row0_kind = e.kind; }
  else { nv_row1_sets = (nv_row1_sets < 2 * NV_MAXN) ? nv_row1_sets + 1 : nv_row1_sets; nv_row1_ver = e.ver; nv_row1_kind = e.kind; }
  nv_stores = nv_row0_sets + nv_row1_sets;
  nv_store_ver = nv_eval_ver; nv_store_score = nv_eval_score; nv_store_mid = nv_eval_mid; nv_store_thr = nv_eval_thr; nv_store_side = nv_eval_side;
}

/* the cache's tables have 2 rows (cache_t's constructor: cat_dims(2, tdims)) */
#define NV_FITCACHE_OK(c) (__CPROVER_is_fresh(c, sizeof(*(c))) && (c)->m_ivalues.n <= NV_MAXN && (c)->m_tables.rows == 2 \
  && __CPROVER_is_fresh((c)->m_ivalues.p, ((c)->m_ivalues.n > 0 ? (c)->m_ivalues.n : 1) * sizeof(struct nv_ival)))
#define NV_SWEEP_REQ \
__CPROVER_requires(__CPROVER_is_fresh(caches, sizeof(*caches)) && NV_FITCACHE_OK(caches->cur) && tnum < caches->n && __CPROVER_is_fresh(gradients, sizeof(*gradients)) \
  && __CPROVER_is_fresh(samples, sizeof(*samples)) && __CPROVER_is_fresh(criterion, sizeof(*criterion)) && nv_grad_id == gradients->id && nv_grad_rows == gradients->rows && caches->cur->m_tables.id != gradients->id) \
/* the followed entry; its sample indexes a row of gradients (samples index rows of gradients: wlearner_t::fit asserts it) */ \
__CPROVER_requires((nv_p < caches->cur->m_ivalues.n) ? (nv_track == &caches->cur->m_ivalues.p[nv_p].second && 0 <= caches->cur->m_ivalues.p[nv_p].second \
   && caches->cur->m_ivalues.p[nv_p].second < gradients->rows) : nv_track == NULL) \
__CPROVER_requires(nv_feature == feature && !nv_fitbad && nv_evals == 0 && nv_stores == 0 && nv_row0_sets == 0 && nv_row1_sets == 0) NV_OPT_REQ
#define NV_SWEEP_GHOST NV_OPT_GHOST nv_fitbad, nv_evals, nv_eval_ver, nv_eval_score, nv_eval_mid, nv_eval_side, nv_stores, nv_store_ver, nv_store_score, nv_store_mid, nv_store_thr, nv_store_side, nv_eval_thr, \
  nv_row0_sets, nv_row1_sets, nv_row0_ver, nv_row1_ver, nv_row0_kind, nv_row1_kind
#define NV_SWEEP_ASSIGNS __CPROVER_assigns(caches->cur->m_acc_sum, caches->cur->m_acc_neg, caches->cur->m_feature, caches->cur->m_threshold, caches->cur->m_score, caches->cur->m_hinge, NV_SWEEP_GHOST)
/* the cache after the sweep: untouched if nothing was stored, else one consistent candidate */
#define NV_STORED_CONSISTENT(c) (0 <= nv_evals && 0 <= nv_row0_sets && nv_row0_sets <= 2 * NV_MAXN && nv_row0_sets == nv_row1_sets && 2 * nv_row0_sets == nv_stores \
  && (nv_stores > 0 ==> (nv_row0_ver == nv_store_ver && nv_row1_ver == nv_store_ver && 1 <= nv_store_ver && (uint64_t)nv_store_ver < (c)->m_ivalues.n \
        && NV_IDENT((c)->m_score, nv_store_score) && (c)->m_feature == nv_feature \
        && (NV_SEPARATES(c, nv_store_ver, nv_store_mid) ==> NV_IDENT((c)->m_threshold, nv_store_mid)))))
/* the stored threshold reproduces the partition the score was computed for: v1 < threshold <= v2 */
#define NV_STORED_SEPARATES(c) (nv_stores > 0 ==> NV_SEPARATES(c, nv_store_ver, (c)->m_threshold))
#define NV_STUMP_STORED(c) (nv_stores > 0 ==> (nv_row0_kind == NV_SIDE_NEG && nv_row1_kind == NV_SIDE_POS))
#define NV_CONTRACT_stump_fit_sweep NV_SWEEP_REQ NV_SWEEP_ASSIGNS \
__CPROVER_ensures(!nv_fitbad && NV_STORED_CONSISTENT(caches->cur) && NV_STUMP_STORED(caches->cur)) \
__CPROVER_ensures(NV_STORED_SEPARATES(caches->cur)) \
__CPROVER_ensures(nv_stores == 0 ==> (NV_IDENT(caches->cur->m_score, __CPROVER_old(caches->cur->m_score)) && NV_IDENT(caches->cur->m_threshold, __CPROVER_old(caches->cur->m_threshold)) \
   && caches->cur->m_feature == __CPROVER_old(caches->cur->m_feature))) \
/* the threshold stored (NV_STORED_CONSISTENT: bit-identical with nv_store_mid, which nv_candidate computed as 0.5 * (v1 + v2) \
 * from the two sorted entries around the cut nv_store_ver) belongs to a cut between two different consecutive values */ \
__CPROVER_ensures(nv_stores > 0 ==> caches->cur->m_ivalues.p[nv_store_ver - 1].first < caches->cur->m_ivalues.p[nv_store_ver].first) \
/* .best: EVERY boundary between two different consecutive sorted values (ghost cut nv_c) was evaluated exactly once, the final score is <= the \
 * score evaluated there (if finite) and <= the score before the sweep; it is that old score or the score of a candidate (STORED_CONSISTENT) */ \
NV_BEST_POST(1)
#define NV_SWEEP_INV(c) \
__CPROVER_loop_invariant(sv == (c)->m_ivalues.n && sv <= NV_MAXN && ((sv == 0) ? (iv == 0) : (iv < sv)) && !nv_fitbad) \
__CPROVER_loop_invariant((c)->m_acc_neg.ver == (int64_t)iv && (c)->m_acc_neg.cnt == ((nv_p < iv) ? 1 : 0)) \
__CPROVER_loop_invariant((c)->m_acc_sum.ver == (int64_t)(c)->m_ivalues.n && (c)->m_acc_sum.cnt == ((nv_p < (c)->m_ivalues.n) ? 1 : 0)) \
__CPROVER_loop_invariant(NV_STORED_CONSISTENT(c) && nv_row0_sets <= NV_STORES_PER_CUT * (int64_t)iv) \
__CPROVER_loop_invariant(nv_stores > 0 ==> (c)->m_ivalues.p[nv_store_ver - 1].first < (c)->m_ivalues.p[nv_store_ver].first) \
__CPROVER_loop_invariant(NV_STORED_SEPARATES(c))
/* best so far: every boundary up to the sweep position was evaluated (once per direction) and the cache's score is <= every finite
 * score evaluated at the ghost boundary, and never worse than the score the sweep started with */
#ifdef NV_OPT_VISIT
#define NV_VISITED(c, visited, dirs) (nv_c_evals == ((NV_IS_BOUNDARY(c, nv_c) && (visited)) ? 1 : 0) && nv_c_evals_b == ((NV_IS_BOUNDARY(c, nv_c) && (visited) && (dirs) == 2) ? 1 : 0))
#else
#define NV_VISITED(c, visited, dirs) 1
#endif
#ifdef NV_OPT_BEST
#define NV_MINIMUM(c, old) (NV_NOT_NAN((c)->m_score) && (c)->m_score <= (old) \
  && ((nv_c_evals > 0 && NV_ISFIN(nv_c_score_a)) ==> (c)->m_score <= nv_c_score_a) && ((nv_c_evals_b > 0 && NV_ISFIN(nv_c_score_b)) ==> (c)->m_score <= nv_c_score_b))
#else
#define NV_MINIMUM(c, old) 1
#endif
#ifdef NV_OPT
#define NV_BEST_POST(dirs) __CPROVER_ensures(NV_VISITED(caches->cur, 1, dirs) && NV_MINIMUM(caches->cur, __CPROVER_old(caches->cur->m_score)))
#define NV_BEST_INV(dirs) __CPROVER_loop_invariant(NV_VISITED(cache, nv_c <= iv, dirs) && NV_MINIMUM(cache, __CPROVER_loop_entry(cache->m_score)))
#else
#define NV_BEST_POST(dirs)
#define NV_BEST_INV(dirs)
#endif
#define NV_STORES_PER_CUT 2      /* the hinge may store twice per cut (left and right direction), the stump once */
#define NV_LOOP_stump_fit_sweep_1 \
__CPROVER_assigns(iv, cache->m_acc_neg, cache->m_feature, cache->m_threshold, cache->m_score, NV_SWEEP_GHOST) \
NV_SWEEP_INV(cache) \
__CPROVER_loop_invariant(NV_STUMP_STORED(cache)) \
NV_BEST_INV(1) \
__CPROVER_loop_invariant(nv_stores == 0 ==> (NV_IDENT(cache->m_score, __CPROVER_loop_entry(cache->m_score)) && NV_IDENT(cache->m_threshold, __CPROVER_loop_entry(cache->m_threshold)) \
   && cache->m_feature == __CPROVER_loop_entry(cache->m_feature))) \
__CPROVER_decreases(sv - iv)
/* ---- hinge: two directions per cut; the direction stored is the one whose score was stored */
#define NVE_hinge_type_left 0      /* pinned by static_asserts in drivers/inst_wlearner.cpp */
#define NVE_hinge_type_right 1
#define NV_HINGE_STORED(c) (nv_stores > 0 ==> (nv_row1_kind == NV_SIDE_DERIVED && nv_row0_kind == nv_store_side && NV_IDENT((c)->m_threshold, nv_store_thr) \
  && (((c)->m_hinge == NVE_hinge_type_left) ? (nv_store_side == NV_SIDE_NEG) : ((c)->m_hinge == NVE_hinge_type_right && nv_store_side == NV_SIDE_POS))))
#define NV_CONTRACT_hinge_fit_sweep NV_SWEEP_REQ NV_SWEEP_ASSIGNS \
__CPROVER_ensures(!nv_fitbad && NV_STORED_CONSISTENT(caches->cur) && NV_HINGE_STORED(caches->cur)) \
__CPROVER_ensures(NV_STORED_SEPARATES(caches->cur)) \
__CPROVER_ensures(nv_stores == 0 ==> (NV_IDENT(caches->cur->m_score, __CPROVER_old(caches->cur->m_score)) && NV_IDENT(caches->cur->m_threshold, __CPROVER_old(caches->cur->m_threshold)) \
   && caches->cur->m_feature == __CPROVER_old(caches->cur->m_feature) && caches->cur->m_hinge == __CPROVER_old(caches->cur->m_hinge))) \
__CPROVER_ensures(nv_stores > 0 ==> caches->cur->m_ivalues.p[nv_store_ver - 1].first < caches->cur->m_ivalues.p[nv_store_ver].first) \
/* .best: every boundary was evaluated exactly once per direction; the final score is <= both scores (if finite) and <= the old score */ \
NV_BEST_POST(2)
#define NV_LOOP_hinge_fit_sweep_1 \
__CPROVER_assigns(iv, cache->m_acc_neg, cache->m_feature, cache->m_threshold, cache->m_score, cache->m_hinge, NV_SWEEP_GHOST) \
NV_SWEEP_INV(cache) \
__CPROVER_loop_invariant(NV_HINGE_STORED(cache) && ((nv_p < iv) ==> NV_IDENT(cache->m_acc_neg.val, cache->m_ivalues.p[nv_p].first))) \
NV_BEST_INV(2) \
__CPROVER_loop_invariant(nv_stores == 0 ==> (NV_IDENT(cache->m_score, __CPROVER_loop_entry(cache->m_score)) && NV_IDENT(cache->m_threshold, __CPROVER_loop_entry(cache->m_threshold)) \
   && cache->m_feature == __CPROVER_loop_entry(cache->m_feature) && cache->m_hinge == __CPROVER_loop_entry(cache->m_hinge))) \
__CPROVER_decreases(sv - iv)
#endif
