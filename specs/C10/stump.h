/* C10: decision stump (include/nano/wlearner/stump.h):
 *   stump(x) = tables[0] if x(feature) is given and x(feature) < threshold,
 *              tables[1] if x(feature) is given and x(feature) >= threshold, zero if missing;
 *   split() reports group 0 / 1 under the same rule, no group if missing.  The spec function of the rule: */
#include "wl.h"     /* NV_STUMP_GROUP(v, thr), the spec function of the rule, is shared with dtree.h */
struct nv_stump { int64_t m_feature; struct nv_t4 m_tables; double m_threshold; };
static struct nv_row nv_sfw_vector(const struct nv_stump* self, int64_t k) { return nv_t4_vector(&self->m_tables, k); }  /* single_feature_wlearner_t::vector(k) = m_tables.vector(k) */

/* loop_scalar(dataset, samples, feature, op) by its contract proved in loops.h, at the ghost position: op(nv_g, nv_v) is called
 * exactly once iff the value nv_v of sample position nv_g is finite (given).  The stubs nv_ls_stump_* and the prototypes of the
 * extracted lambda bodies are generated from the lambdas' current capture lists (spec.py LS_BODY, engine/hooks.py lambda_stub_hook) */

#define NV_STUMP_OK(self) (__CPROVER_is_fresh(self, sizeof(*(self))) && (self)->m_tables.rows == 2)

/* do_predict(dataset, samples, outputs): outputs has one row per sample (learner_t::predict asserts
 * outputs.dims() == cat_dims(samples.size(), tdims)); tables has 2 rows (do_fit stores cat_dims(2, tdims); the function's
 * own assert).  For the sample at position nv_g with feature value nv_v:
 *   given   => exactly one update, outputs.row(nv_g) += tables.row(value < threshold ? 0 : 1);
 *   missing => no update at all (prediction zero).   The loop runs over the learner's own feature and the given samples. */
#define NV_CONTRACT_stump_do_predict \
__CPROVER_requires(NV_STUMP_OK(self) && __CPROVER_is_fresh(dataset, sizeof(*dataset)) && NV_T1I_OK(samples) && outputs.rows == samples.n) \
__CPROVER_requires(0 <= nv_g && nv_g < samples.n && NV_GHOST_INIT && outputs.id != self->m_tables.id) \
NV_GHOST_ASSIGNS \
__CPROVER_ensures(NV_LS_CALLED_WITH(dataset, samples, self->m_feature)) \
__CPROVER_ensures(NV_ISFIN(nv_v) ==> (nv_add_count == 1 && nv_add_dst.tensor == outputs.id && nv_add_dst.row == nv_g \
  && nv_add_src.tensor == self->m_tables.id && nv_add_src.row == NV_STUMP_GROUP(nv_v, self->m_threshold))) \
__CPROVER_ensures(!NV_ISFIN(nv_v) ==> nv_add_count == 0)

/* split(dataset, samples, feature, threshold) (static) and do_split: the cluster covers dataset.samples() samples in 2
 * groups; the sample at position nv_g is assigned group (value < threshold ? 0 : 1) iff its value is given.
 * samples index valid dataset samples (dataset_t::select reads exactly these rows before the callback runs). */
#define NV_SPLIT_POST(thr) \
__CPROVER_ensures(__CPROVER_return_value.samples == dataset->samples && __CPROVER_return_value.groups == 2) \
__CPROVER_ensures(NV_ISFIN(nv_v) ==> (nv_as_count == 1 && nv_as_sample == samples->p[nv_g] && nv_as_group == NV_STUMP_GROUP(nv_v, thr))) \
__CPROVER_ensures(!NV_ISFIN(nv_v) ==> nv_as_count == 0)
#define NV_CONTRACT_stump_split \
__CPROVER_requires(__CPROVER_is_fresh(dataset, sizeof(*dataset)) && NV_SAMPLES_OK(samples, dataset) && NV_GHOST_INIT) \
NV_GHOST_ASSIGNS \
__CPROVER_ensures(NV_LS_CALLED_WITH(dataset, *samples, feature)) \
NV_SPLIT_POST(threshold)
#define NV_CONTRACT_stump_do_split \
__CPROVER_requires(NV_STUMP_OK(self) && __CPROVER_is_fresh(dataset, sizeof(*dataset)) && NV_SAMPLES_OK(samples, dataset) && NV_GHOST_INIT) \
NV_GHOST_ASSIGNS \
__CPROVER_ensures(NV_LS_CALLED_WITH(dataset, *samples, self->m_feature)) \
NV_SPLIT_POST(self->m_threshold)
