/* C10: the per-feature callback of affine_wlearner_t::do_fit (src/wlearner/affine.cpp): no thresholds, but the same
 * bookkeeping as the sweeps of fit.h: every sample position of the subset contributes exactly once -- a given value to the
 * moments of the affine bin (with the feature value of that position), a missing value to the bin of the missed samples;
 * the score is evaluated after ALL positions were accumulated, and what is stored for a better feature is one candidate:
 * that score, this feature, slope w() -> row 0 and intercept b() -> row 1 of the same accumulators.
 * Followed: the sample position nv_g (identified by the address its sample index is read from, as in fit.h). */
#include "wl.h"
union nv_bits { double d; uint64_t u; };
#define NV_IDENT(a, b) (((union nv_bits){ .d = (a) }).u == ((union nv_bits){ .d = (b) }).u)
struct nv_grow { int64_t tensor, row; const void* from; };
struct nv_bin { int64_t ver, cnt; double val; };
struct nv_t1dv { double* p; int64_t n; };
struct nv_coef { int32_t kind; int64_t ver; };
enum { NV_COEF_W = 1, NV_COEF_B = 2 };
struct nv_fitcache { struct nv_bin bin0, bin1; struct nv_t4 m_tables; int64_t m_feature; double m_score; };    /* cache_t : accumulator_t (bins 0 = affine, 1 = missed) */
struct nv_cvec { uint64_t n; struct nv_fitcache* cur; };
const void* nv_track; int64_t nv_grad_id; _Bool nv_fitbad;
int64_t nv_evals, nv_eval_ver; double nv_eval_score; int64_t nv_row0_sets, nv_row1_sets, nv_row0_ver, nv_row1_ver; int32_t nv_row0_kind, nv_row1_kind;
double __CPROVER_uninterpreted_affscore(int32_t, int64_t, int64_t);
static struct nv_fitcache* nv_cvec_at(const struct nv_cvec* v, uint64_t k) { __CPROVER_assert(k < v->n, "caches[tnum]: index in range"); return v->cur; }
static struct nv_grow nv_t4_array(const struct nv_t4* t, const void* from, int64_t k)
{
  if (from == nv_track || t->id != nv_grad_id) __CPROVER_assert(0 <= k && k < t->rows, "tensor.array(k): first index in range");
  struct nv_grow r; r.tensor = t->id; r.row = k; r.from = from; return r;
}
/* ASSUMED (accumulator_t): clear(bins) resizes to `bins` bins and empties them; update(.., bin) adds one contribution to that bin */
static void nv_aff_clear(struct nv_fitcache* c, int64_t bins)
{
  if (bins != 2) nv_fitbad = 1;
  c->bin0.ver = 0; c->bin0.cnt = 0; c->bin1.ver = 0; c->bin1.cnt = 0;
}
static void nv_aff_update(struct nv_fitcache* c, _Bool has_value, double value, struct nv_grow g, int64_t bin)
{
  struct nv_bin* b = (bin == 0) ? &c->bin0 : &c->bin1;
  if ((bin != 0 && bin != 1) || g.tensor != nv_grad_id || b->ver >= NV_MAXN) { nv_fitbad = 1; return; }
  b->ver = b->ver + 1;
  if (g.from == nv_track) { b->cnt = b->cnt + 1; if (has_value) b->val = value; }
}
static double nv_aff_score(const struct nv_fitcache* c, int32_t criterion)
{
  nv_evals = (nv_evals < NV_MAXN) ? nv_evals + 1 : nv_evals;
  nv_eval_ver = c->bin0.ver + c->bin1.ver;
  nv_eval_score = __CPROVER_uninterpreted_affscore(criterion, c->bin0.ver, c->bin1.ver);
  return nv_eval_score;
}
static struct nv_coef nv_aff_coef(const struct nv_fitcache* c, int32_t kind) { struct nv_coef e; e.kind = kind; e.ver = c->bin0.ver + c->bin1.ver; return e; }
static void nv_row_store(struct nv_grow dst, struct nv_coef e, const struct nv_fitcache* c)
{
  __CPROVER_assert(dst.tensor == c->m_tables.id && (dst.row == 0 || dst.row == 1), "fit: coefficients are stored in rows 0 / 1 of the cache's tables");
  __CPROVER_assert(nv_evals > 0 && e.ver == nv_eval_ver, "fit: the coefficients stored are computed from the accumulators of the evaluated candidate");
  if (dst.row == 0) { nv_row0_sets = nv_row0_sets + 1; nv_row0_ver = e.ver; nv_row0_kind = e.kind; }
  else { nv_row1_sets = nv_row1_sets + 1; nv_row1_ver = e.ver; nv_row1_kind = e.kind; }
}
#define NV_GIVEN_G NV_ISFIN(fvalues.p[nv_g])
#define NV_CONTRACT_affine_fit_feature \
__CPROVER_requires(__CPROVER_is_fresh(caches, sizeof(*caches)) && __CPROVER_is_fresh(caches->cur, sizeof(*caches->cur)) && tnum < caches->n && caches->cur->m_tables.rows == 2 \
  && __CPROVER_is_fresh(gradients, sizeof(*gradients)) && __CPROVER_is_fresh(samples, sizeof(*samples)) && NV_T1I_OK(*samples) && __CPROVER_is_fresh(criterion, sizeof(*criterion)) \
  && NV_T1D_OK(fvalues) && fvalues.n == samples->n && nv_grad_id == gradients->id && caches->cur->m_tables.id != gradients->id) \
__CPROVER_requires(0 <= nv_g && nv_g < samples->n && nv_track == &samples->p[nv_g] && 0 <= samples->p[nv_g] && samples->p[nv_g] < gradients->rows \
  && !nv_fitbad && nv_evals == 0 && nv_row0_sets == 0 && nv_row1_sets == 0) \
__CPROVER_assigns(caches->cur->bin0, caches->cur->bin1, caches->cur->m_feature, caches->cur->m_score, nv_fitbad, nv_evals, nv_eval_ver, nv_eval_score, \
  nv_row0_sets, nv_row1_sets, nv_row0_ver, nv_row1_ver, nv_row0_kind, nv_row1_kind) \
/* .1 every position is accumulated exactly once, in the bin of its kind, with its own feature value */ \
__CPROVER_ensures(!nv_fitbad && caches->cur->bin0.ver + caches->cur->bin1.ver == samples->n) \
__CPROVER_ensures(NV_GIVEN_G ? (caches->cur->bin0.cnt == 1 && caches->cur->bin1.cnt == 0 && NV_IDENT(caches->cur->bin0.val, fvalues.p[nv_g])) \
                             : (caches->cur->bin0.cnt == 0 && caches->cur->bin1.cnt == 1)) \
/* .3 one evaluation, after all positions; .4 a store is that candidate, whole */ \
__CPROVER_ensures(nv_evals == 1 && nv_eval_ver == samples->n && nv_row0_sets == nv_row1_sets && nv_row0_sets <= 1) \
__CPROVER_ensures(nv_row0_sets == 1 ? (NV_IDENT(caches->cur->m_score, nv_eval_score) && caches->cur->m_feature == feature && nv_row0_kind == NV_COEF_W && nv_row1_kind == NV_COEF_B \
     && nv_row0_ver == nv_eval_ver && nv_row1_ver == nv_eval_ver) \
   : (NV_IDENT(caches->cur->m_score, __CPROVER_old(caches->cur->m_score)) && caches->cur->m_feature == __CPROVER_old(caches->cur->m_feature)))
#define NV_LOOP_affine_fit_feature_1 \
__CPROVER_assigns(i, cache->bin0, cache->bin1, nv_fitbad) \
__CPROVER_loop_invariant(0 <= i && i <= samples->n && !nv_fitbad && 0 <= cache->bin0.ver && cache->bin0.ver <= i && 0 <= cache->bin1.ver && cache->bin1.ver <= i && cache->bin0.ver + cache->bin1.ver == i) \
__CPROVER_loop_invariant(cache->bin0.cnt == ((i > nv_g && NV_GIVEN_G) ? 1 : 0) && cache->bin1.cnt == ((i > nv_g && !NV_GIVEN_G) ? 1 : 0)) \
__CPROVER_loop_invariant(cache->bin0.cnt == 1 ==> NV_IDENT(cache->bin0.val, fvalues.p[nv_g])) \
__CPROVER_decreases(samples->n - i)
