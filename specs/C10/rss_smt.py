"""C10, headline clause "returns the minimum RSS attainable over its hypothesis class ... least-squares coefficients", as far as
contracts reach: the score a fit computes for ONE candidate (a fixed partition of the samples / a fixed threshold and direction) IS
the minimum over the coefficients of the residual sum of squares of that candidate, and the coefficients it stores are the minimiser.

Back end B (double as Real) on the REAL scoring code, walked in generic-coordinate mode (specs/C06/eig.EigWP: one output coefficient
of a SYMBOLIC number of outputs, `E.sum()` = `(nv_sum summand)`):
  stump.cpp  cache_t::score  with  x0_neg / r1_neg / r2_neg / x0_pos / r1_pos / r2_pos / output_neg / output_pos  and the file-local
             template ::score inlined at their calls;
  hinge.cpp  cache_t::score_neg / score_pos (4 parameters)  with  score_neg / score_pos (1 parameter), beta_neg / beta_pos, beta0, the twelve
             moment accessors and the file-local templates ::beta / ::score inlined;
  table.cpp  cache_t::score(bin).
The accumulators (accumulator_t) are the opaque inputs: x0 / x1 / x2 are real constants, r1 / rx / r2 arrays over the outputs (their
generic coefficient), separately for m_acc_neg and m_acc_sum.  What the moments ARE (sums over the samples entered: proved for
accumulator_t::update in accum.h) enters through the induction lemmas below.

Obligations per candidate kind (all over the reals; x0 > 0 resp. the normal-equation denominator > 0 are hypotheses: both sides of
the cut are non-empty -- proved for the sweeps in fit.h -- and the active side has two different feature values or one different
from the threshold):
  rss_opened       the rss handed to make_score, opened at the generic output (finite sums are linear), is the sum over the groups
                   of the spec term  min-RSS(group, output)
  rss_sum_free     ... and its part outside the reductions is exactly missing_rss
  coef_is_argmin   the coefficient expression the sweep stores (output_neg / output_pos / beta_neg / beta_pos) is the minimiser
  lemma min_rss    for every constant c:  RSS(c) >= min-RSS,  RSS(argmin) == min-RSS  (completing the square)
  lemma moments    induction over the samples entered: RSS_S(c) == r2 - 2 c r1 + x0 c^2 is preserved by accumulator_t::update
                   (x0 + 1, r1 - g, r2 + g^2; residual = -gradient), and holds for the cleared accumulator (hinge: the same with
                   the feature moments x1, x2, rx and the one-sided linear prediction beta * (x - threshold))
"""
import os
import re
import sys

sys.path.insert(0, os.path.join(os.path.dirname(os.path.abspath(__file__)), '..', 'C06'))
import astload
import nvwp
import sx
from core import VC
from nvwp import V, Unsupported
from cxx2c import unwrap, strip_cv, qual
from eig import EigWP, AV, type_str
import vcgen

HERE = os.path.join(astload.VERIF, 'specs/C10/rss_smt.py')
ACC_FIELDS = {'x0': 'S', 'x1': 'S', 'x2': 'S', 'r1': 'A', 'rx': 'A', 'r2': 'A'}


def class_methods(tu, cls):
    """the methods (with bodies) of the class `cls` defined in the translation unit: name -> [decl, ...]"""
    out = {}
    for d in astload.dump(tu, cls):
        if d.get('kind') == 'CXXRecordDecl' and d.get('name') == cls and (d.get('_file') or '').startswith(astload.REPO + '/'):
            for c in d.get('inner', []):
                if c.get('kind') == 'CXXMethodDecl' and astload.has_body(c):
                    out.setdefault(c['name'], []).append(c)
    if not out:
        raise astload.ExtractionError(f'{tu}: class {cls} has no method with a body')
    return out


def helper_instances(tu, name):
    """the instantiated definitions of the file-local function template `name`: (name, function type) -> decl (decl ids differ
    between clang runs, the instantiated function type identifies the specialisation)"""
    out = {}
    for d in astload.dump(tu, name):
        if d.get('kind') == 'FunctionTemplateDecl' and d.get('name') == name and (d.get('_file') or '').startswith(astload.REPO + '/'):
            for c in d.get('inner', []):
                if c.get('kind') == 'FunctionDecl' and astload.has_body(c) and astload.template_args(c):
                    out[(name, c['type']['qualType'])] = c
    return out


class FitWP(EigWP):
    """EigWP (generic output coefficient) + the scoring vocabulary of the fit caches: methods of the cache walked at the call (the
    real bodies), accumulator_t accessors as opaque inputs, file-local helper templates walked at the call, make_score observed"""

    def __init__(self, name, tu, cls, helpers=(), zero_members=()):
        super().__init__(name)
        self.tu_rel = tu
        self.methods = class_methods(tu, cls)
        self.cls = cls
        self.helpers = {}
        for h in helpers:
            self.helpers.update(helper_instances(tu, h))
        self.depth = 0
        self.make_score = []            # (rss, k, n) per call
        self.acc_read = set()
        self.const('outs', 'Int', 'long')
        self.assume('(>= outs 0)')
        for m in zero_members:
            self.env['self.' + m] = AV(['0.0'], 'outs')
            self.ver['self.' + m] = 0
        self.calls = list(self.calls) + [(r'^make_score\|', self.h_make_score), (r'^size\|', self.h_size)]

    # ---------------------------------------------------------------------------------------------- observation points
    def h_make_score(self, wp, n, args, callee):
        rss = self.ev(args[1])
        k = self.ev(args[2])
        cnt = self.ev(args[3])
        self.make_score.append((rss, k, cnt, self.guard))
        return self.fresh('Real', 'make_score', 'double')

    def h_size(self, wp, n, args, callee):
        # ::nano::size(tdims()): the number of outputs
        if 'tdims' not in (astload.node_source(args[0]) or ''):
            raise Unsupported(f'{self.name}: size() of something that is not tdims()')
        return V('outs', 'Int', 'long')

    # ---------------------------------------------------------------------------------------------- accumulators
    def acc_tag(self, obj):
        u = unwrap(obj)
        if u.get('kind') == 'MemberExpr' and unwrap(u['inner'][0]).get('kind') == 'CXXThisExpr' and 'accumulator_t' in type_str(u):
            return u['name']
        if u.get('kind') == 'CXXThisExpr' and self.cls_is_accumulator:
            return 'this'
        return None

    cls_is_accumulator = False

    def acc_field(self, tag, field, args, node):
        if args and unwrap(args[0]).get('kind') != 'CXXDefaultArgExpr':
            b = self.ev(args[0])
            if not (isinstance(b, V) and b.t == self.bin_term):
                raise Unsupported(f'{self.name}: accumulator accessor {field}() at a bin that is not the walked one')
        nm = f'{tag}.{field}'
        self.acc_read.add(nm)
        if ACC_FIELDS[field] == 'S':
            c = f'|{nm}|'
            if f'(declare-const {c} Real)' not in self.decls:
                self.decls.append(f'(declare-const {c} Real)')
            return V(c, 'Real', 'double')
        return AV([self.leaf(nm)], 'outs')

    bin_term = '0'

    # ---------------------------------------------------------------------------------------------- member calls
    def eigen_member(self, n):
        me = n['inner'][0]
        if me.get('kind') != 'MemberExpr':
            return super().eigen_member(n)
        name, obj, args = me.get('name'), me['inner'][0], n['inner'][1:]
        tag = self.acc_tag(obj)
        if tag is not None and name in ACC_FIELDS:
            return self.acc_field(tag, name, args, n)
        if unwrap(obj).get('kind') == 'CXXThisExpr' and name in self.methods:
            cands = [m for m in self.methods[name] if len([p for p in m['inner'] if p['kind'] == 'ParmVarDecl']) == len(args)]
            if len(cands) != 1:
                raise Unsupported(f'{self.name}: {len(cands)} overloads of {self.cls}::{name} with {len(args)} parameters')
            return self.inline(cands[0], args, f'{self.cls}::{name}')
        return super().eigen_member(n)

    def call(self, n):
        callee = unwrap(n['inner'][0])
        rd = callee.get('referencedDecl') or {}
        hk = (rd.get('name'), (rd.get('type') or {}).get('qualType'))
        if hk in self.helpers:
            return self.inline(self.helpers[hk], n['inner'][1:], '::' + rd.get('name', '?'))
        return super().call(n)

    def inline(self, fn, args, what):
        """walk the body of a cache method / file-local helper at its call: parameters bound to the argument VALUES (evaluated in the
        caller's environment first), the body must end in its single return and write nothing"""
        if self.depth > 6:
            raise Unsupported(f'{self.name}: calls nested deeper than 6')
        params = [c for c in fn['inner'] if c['kind'] == 'ParmVarDecl']
        vals = [self.ev(a) for a in args]
        env0, g0, idmap0 = dict(self.env), self.guard, dict(self.idmap)
        for p, v in zip(params, vals):
            if isinstance(v, V):
                s_, c_ = self.sort_of(p['type'])
                v = self.conv(v, s_, c_)
            key = f'{p["name"]}#{self.depth + 1}'
            self.idmap[p.get('id')] = key
            self.env[key] = v
            self.ver[key] = 0
        body = [c for c in fn['inner'] if c['kind'] == 'CompoundStmt'][0]
        saved = (self.post, self.ret_sort, self.returns)
        got = []
        self.post = lambda w, rv: (got.append((w.guard, rv)), [])[1]
        self.ret_sort = None
        written0 = set(getattr(self, 'written', set()))
        self.depth += 1
        try:
            self.ex(body)
        finally:
            self.depth -= 1
            self.post, self.ret_sort, self.returns = saved
        if len(got) != 1 or got[0][0] != g0 or got[0][1] is None:
            raise Unsupported(f'{self.name}: {what} does not end in its single return')
        if set(getattr(self, 'written', set())) != written0:
            raise Unsupported(f'{self.name}: {what} writes an array')
        for k, v in env0.items():
            if k.startswith('self.') and self.env.get(k) is not v:
                raise Unsupported(f'{self.name}: {what} changes {k}')
        self.env, self.guard, self.idmap = env0, g0, idmap0
        self.note(f'{what} walked at its call')
        return got[0][1]

    def accessor(self, name, nargs=0, args=()):
        """value of the cache method `name` called with the given argument VALUES (used to read the stored coefficient expressions)"""
        cands = [m for m in self.methods.get(name, []) if len([p for p in m['inner'] if p['kind'] == 'ParmVarDecl']) == nargs]
        if len(cands) != 1:
            raise Unsupported(f'{self.name}: {len(cands)} definitions of {self.cls}::{name}/{nargs}')
        fn = cands[0]
        params = [c for c in fn['inner'] if c['kind'] == 'ParmVarDecl']
        env0, idmap0 = dict(self.env), dict(self.idmap)
        for p, v in zip(params, args):
            self.idmap[p.get('id')] = p['name'] + '#0'
            self.env[p['name'] + '#0'] = v
        body = [c for c in fn['inner'] if c['kind'] == 'CompoundStmt'][0]
        saved = (self.post, self.ret_sort, getattr(self, 'returns', 0))
        got = []
        self.post = lambda w, rv: (got.append(rv), [])[1]
        self.ret_sort = None
        self.guard = 'true'
        self.ex(body)
        self.post, self.ret_sort, self.returns = saved
        self.env, self.idmap = env0, idmap0
        if len(got) != 1:
            raise Unsupported(f'{self.name}: {self.cls}::{name} does not end in its single return')
        return got[0]


# ------------------------------------------------------------------------------------------------ term helpers
def P(s):
    return sx.parse(s) if isinstance(s, str) else s


def zero_sums(t):
    if isinstance(t, str):
        return t
    if t[0] == 'nv_sum':
        return '0.0'
    return (t[0],) + tuple(zero_sums(x) for x in t[1:])


def open_sums(t):
    """per-coordinate term of t = c0 + SUM_k c_k * (nv_sum phi_k), sum-free c: SUM_k c_k * phi_k (STATED FACT: finite sums are linear)"""
    if isinstance(t, str) or not sx.subterms(t, 'nv_sum'):
        return '0.0'
    op, a = t[0], t[1:]
    if op == 'nv_sum':
        if sx.subterms(a[0], 'nv_sum'):
            raise Unsupported('nested reductions')
        return a[0]
    if op == '+' or (op == '-' and len(a) > 1):
        return (op,) + tuple(open_sums(x) for x in a)
    if op == '-' and len(a) == 1:
        return ('-', open_sums(a[0]))
    if op == '*':
        w = [x for x in a if sx.subterms(x, 'nv_sum')]
        if len(w) == 1:
            return ('*',) + tuple(open_sums(x) if x is w[0] else x for x in a)
    if op == '/' and not sx.subterms(a[1], 'nv_sum'):
        return ('/', open_sums(a[0]), a[1])
    raise Unsupported(f'the rss is not linear in its reductions: {sx.show(t)[:200]}')


def script(decls, hyps, claim, expect='unsat'):
    body = [nvwp.PRELUDE] + list(decls) + [f'(assert {sx.show(P(h))})' for h in hyps]
    if expect == 'unsat':
        body.append(f'(assert (not {sx.show(P(claim))}))')
    body.append('(check-sat)')
    return '\n'.join(body) + '\n'


def mkvc(name, decls, hyps, claim, about, file, expect='unsat', timeout=20):
    return VC(name, script(decls, hyps, claim, expect), about=about, source={'file': file}, expect=expect, timeout=timeout)


def obligations_of(wp, prefix, file, hyps):
    """the obligations the walk itself raised (every division executed is defined, integer arithmetic / conversions in range) under
    the stated hypotheses; sums closed by one constant per summand"""
    gen = vcgen.Gen(wp.decls, hyps=())
    return gen.from_wp(wp, prefix, file=file, hyps=hyps)


# ------------------------------------------------------------------------------------------------ stump
def spec_min_rss(r1, r2, x0):
    return f'(- {r2} (/ (* {r1} {r1}) {x0}))'


def stump_vcs():
    tu = 'src/wlearner/stump.cpp'
    path = astload.resolve_tu(tu)
    wp = FitWP('stump cache_t::score', tu, 'cache_t', helpers=('score',))
    fn = [m for m in wp.methods['score'] if len([p for p in m['inner'] if p['kind'] == 'ParmVarDecl']) == 3]
    if len(fn) != 1:
        raise astload.ExtractionError('stump.cpp: cache_t::score(criterion, missing_rss, missing_cnt) not found')
    fn = fn[0]
    for key, p in wp.bind_params(fn):
        if key in ('missing_rss', 'missing_cnt'):
            wp.env[key] = wp.const(key, 'Real', 'double')
        else:
            wp.env[key] = wp.const('criterion', 'Int', 'int')
    wp.tu = path
    wp.post = lambda w, rv: []
    wp.run(fn, path)
    if len(wp.make_score) != 1:
        raise Unsupported(f'stump cache_t::score: {len(wp.make_score)} calls of make_score')
    rss, k, cnt, guard = wp.make_score[0]
    out_neg = wp.accessor('output_neg')
    out_pos = wp.accessor('output_pos')
    T = P(rss.t)
    N = lambda f: f'|m_acc_neg.{f}|' if ACC_FIELDS[f] == 'S' else f'|m_acc_neg.{f}@i|'
    S = lambda f: f'|m_acc_sum.{f}|' if ACC_FIELDS[f] == 'S' else f'|m_acc_sum.{f}@i|'
    R = lambda f: f'(- {S(f)} {N(f)})'
    for f in ('x0', 'r1', 'r2'):
        for tag in ('m_acc_neg', 'm_acc_sum'):
            if f'{tag}.{f}' not in wp.acc_read:
                raise Unsupported(f'stump cache_t::score does not read {tag}.{f}')
    hyps = [f'(> {N("x0")} 0.0)', f'(> {R("x0")} 0.0)']
    about = 'stump: the score of a candidate threshold is computed from the left accumulator (entries before the cut) and total minus left (entries after it): fit.h'
    vcs = []
    spec = f'(+ {spec_min_rss(N("r1"), N("r2"), N("x0"))} {spec_min_rss(R("r1"), R("r2"), R("x0"))})'
    vcs.append(mkvc('rss/stump/rss_opened: the rss handed to make_score, opened at the generic output, == min-RSS(left) + min-RSS(right) = (r2 - r1^2/x0) per side',
                    wp.decls, hyps, ('=', open_sums(T), P(spec)), about, path))
    vcs.append(mkvc('rss/stump/rss_sum_free: outside the reductions the rss is exactly missing_rss', wp.decls, hyps, ('=', zero_sums(T), 'missing_rss'), about, path))
    for side, ov, (r1, x0) in (('left', out_neg, (N('r1'), N('x0'))), ('right', out_pos, (R('r1'), R('x0')))):
        if not isinstance(ov, AV):
            raise Unsupported('stump output_neg / output_pos is not an array expression')
        vcs.append(mkvc(f'rss/stump/coef_is_argmin_{side}: the coefficient stored for the {side} side (output_{"neg" if side == "left" else "pos"}()) is the group mean r1 / x0',
                        wp.decls, hyps, ('=', P(ov.c[0]), P(f'(/ {r1} {x0})')), about, path))
    SIZES = ['(<= outs 2147483648)', f'(>= (+ {S("x0")} missing_cnt) 0.0)', f'(<= (+ {S("x0")} missing_cnt) 4611686018427387904.0)']
    vcs.append(mkvc('rss/stump/count: make_score gets n = the count of the TOTAL accumulator plus the missing count (truncated to an integer)', wp.decls, [],
                    ('=', P(cnt.t), P(f'(rtrunc (+ {S("x0")} missing_cnt))')), about, path))
    vcs.append(mkvc('rss/stump/canary: both sides non-empty is satisfiable', wp.decls, hyps, 'true', 'vacuity guard (must be sat)', path, expect='sat'))
    vcs += obligations_of(wp, 'rss/stump/walk', path, hyps + SIZES)
    return vcs, wp


def constant_lemmas():
    """pure algebra, per group and per output: RSS of predicting the constant c for a group with moments (x0, r1, r2)"""
    d = ['(declare-const r1 Real)(declare-const r2 Real)(declare-const x0 Real)(declare-const c Real)(declare-const g Real)']
    rss = lambda c, r1='r1', r2='r2', x0='x0': f'(+ (- {r2} (* 2.0 {c} {r1})) (* {x0} {c} {c}))'
    about = 'per output; residual = -gradient; RSS_S(c) = SUM_{s in S} (res_s - c)^2'
    return [
        mkvc('lemma/min_rss constant: x0 > 0  =>  for every c: r2 - 2 c r1 + x0 c^2 >= r2 - r1^2/x0  (completing the square)', d, ['(> x0 0.0)'],
             ('>=', P(rss('c')), P(spec_min_rss('r1', 'r2', 'x0'))), about, HERE),
        mkvc('lemma/min_rss constant attained: x0 > 0  =>  RSS(r1/x0) == r2 - r1^2/x0', d, ['(> x0 0.0)'],
             ('=', P(rss('(/ r1 x0)')), P(spec_min_rss('r1', 'r2', 'x0'))), about, HERE),
        mkvc('lemma/min_rss constant unique: x0 > 0 and RSS(c) == min  =>  c == r1/x0', d, ['(> x0 0.0)', f'(= {rss("c")} {spec_min_rss("r1", "r2", "x0")})'],
             ('=', 'c', P('(/ r1 x0)')), about, HERE),
        mkvc('lemma/moments constant, step: RSS_S(c) == r2 - 2 c r1 + x0 c^2 is preserved by update(g): (x0 + 1, r1 - g, r2 + g^2) and RSS + (-g - c)^2', d, [],
             ('=', P(f'(+ {rss("c")} (* (- (- g) c) (- (- g) c)))'), P(rss('c', '(- r1 g)', '(+ r2 (* g g))', '(+ x0 1.0)'))), about + '; accumulator_t::update proved in accum.h', HERE),
        mkvc('lemma/moments constant, base: the cleared accumulator (0, 0, 0) is the RSS of the empty group', d, [], ('=', P(rss('c', '0.0', '0.0', '0.0')), '0.0'), about, HERE),
        mkvc('lemma/moments difference: the moments of (total minus left) are the moments of the entries not in left: RSS by (S - N) == RSS_total - RSS_left', d +
             ['(declare-const n1 Real)(declare-const n2 Real)(declare-const n0 Real)'], [],
             ('=', P(rss('c', '(- r1 n1)', '(- r2 n2)', '(- x0 n0)')), P(f'(- {rss("c")} {rss("c", "n1", "n2", "n0")})')), about, HERE),
    ]


# ------------------------------------------------------------------------------------------------ hinge
def hinge_D(x0, x1, x2, t='threshold'):
    return f'(- (+ {x2} (* {x0} {t} {t})) (* 2.0 {x1} {t}))'


def hinge_B(r1, rx, t='threshold'):
    return f'(- {rx} (* {r1} {t}))'


def check_beta0_is_zero(path):
    """m_beta0 (the coefficients of the inactive side) is zero: every mention of it in hinge.cpp is its declaration, its constructor
    initialiser, `m_beta0.zero()` in the constructor body, or the read `m_beta0.array()` of the const accessor beta0()"""
    allowed = (r'^\s*tensor3d_t\s+m_beta0;', r'^\s*:\s*m_beta0\(tdims\)\s*$', r'^\s*m_beta0\.zero\(\);\s*$', r'^\s*auto beta0\(\) const \{ return m_beta0\.array\(\); \}\s*$')
    for ln in open(path, encoding='utf-8', errors='replace'):
        if 'm_beta0' in ln and not any(re.search(a, ln.split('//')[0].rstrip() + '') for a in allowed):
            raise Unsupported(f'hinge.cpp: m_beta0 is mentioned outside declaration / constructor / beta0(): {ln.strip()!r} (the zero inactive-side coefficient is no longer evident)')


def hinge_vcs():
    tu = 'src/wlearner/hinge.cpp'
    path = astload.resolve_tu(tu)
    check_beta0_is_zero(path)
    vcs = []
    for which in ('neg', 'pos'):
        wp = FitWP(f'hinge cache_t::score_{which}', tu, 'cache_t', helpers=('score', 'beta'), zero_members=('m_beta0',))
        fn = [m for m in wp.methods[f'score_{which}'] if len([p for p in m['inner'] if p['kind'] == 'ParmVarDecl']) == 4]
        if len(fn) != 1:
            raise astload.ExtractionError(f'hinge.cpp: cache_t::score_{which}(threshold, criterion, missing_rss, missing_cnt) not found')
        fn = fn[0]
        for key, p in wp.bind_params(fn):
            if key in ('missing_rss', 'missing_cnt', 'threshold'):
                wp.env[key] = wp.const(key, 'Real', 'double')
            else:
                wp.env[key] = wp.const('criterion', 'Int', 'int')
        wp.tu = path
        wp.post = lambda w, rv: []
        wp.run(fn, path)
        if len(wp.make_score) != 1:
            raise Unsupported(f'hinge cache_t::score_{which}: {len(wp.make_score)} calls of make_score')
        rss, k, cnt, guard = wp.make_score[0]
        coef = wp.accessor(f'beta_{which}', 1, [wp.env['threshold']])
        if not isinstance(coef, AV):
            raise Unsupported(f'hinge beta_{which} is not an array expression')
        T = P(rss.t)
        N = lambda f: f'|m_acc_neg.{f}|' if ACC_FIELDS[f] == 'S' else f'|m_acc_neg.{f}@i|'
        S = lambda f: f'|m_acc_sum.{f}|' if ACC_FIELDS[f] == 'S' else f'|m_acc_sum.{f}@i|'
        R = lambda f: f'(- {S(f)} {N(f)})'
        A, I = (N, R) if which == 'neg' else (R, N)        # active / inactive side
        for f in ACC_FIELDS:
            for tag in ('m_acc_neg', 'm_acc_sum'):
                if f'{tag}.{f}' not in wp.acc_read:
                    raise Unsupported(f'hinge cache_t::score_{which} does not read {tag}.{f}')
        D = hinge_D(A('x0'), A('x1'), A('x2'))
        B = hinge_B(A('r1'), A('rx'))
        hyps = [f'(> {D} 0.0)']
        side = 'left' if which == 'neg' else 'right'
        about = (f'{side} hinge: prediction beta * (x - threshold) on the {"left" if which == "neg" else "right"} entries of the cut, 0 on the others; the active moments are those of '
                 f'{"the left accumulator" if which == "neg" else "total minus left"} (fit.h)')
        spec = f'(+ (- {A("r2")} (/ (* {B} {B}) {D})) {I("r2")})'
        pre = f'rss/hinge_{side}'
        vcs.append(mkvc(f'{pre}/rss_opened: the rss handed to make_score, opened at the generic output, == (r2 - B^2/D)(active side) + r2(inactive side), B = rx - t r1, D = x2 - 2 t x1 + t^2 x0',
                        wp.decls, hyps, ('=', open_sums(T), P(spec)), about, path))
        vcs.append(mkvc(f'{pre}/rss_sum_free: outside the reductions the rss is exactly missing_rss', wp.decls, hyps, ('=', zero_sums(T), 'missing_rss'), about, path))
        vcs.append(mkvc(f'{pre}/coef_is_argmin: the slope stored (beta_{which}(threshold)) solves the normal equation: beta == B / D', wp.decls, hyps,
                        ('=', P(coef.c[0]), P(f'(/ {B} {D})')), about, path))
        vcs.append(mkvc(f'{pre}/canary: a positive normal-equation denominator is satisfiable', wp.decls, hyps, 'true', 'vacuity guard (must be sat)', path, expect='sat'))
        SIZES = ['(<= outs 2147483648)', f'(>= (+ {A("x0")} missing_cnt) 0.0)', f'(<= (+ {A("x0")} missing_cnt) 4611686018427387904.0)']
        vcs += obligations_of(wp, f'{pre}/walk', path, hyps + SIZES)
    return vcs


def hinge_lemmas():
    d = ['(declare-const r1 Real)(declare-const r2 Real)(declare-const rx Real)(declare-const x0 Real)(declare-const x1 Real)(declare-const x2 Real)'
         '(declare-const b Real)(declare-const g Real)(declare-const x Real)(declare-const threshold Real)']
    D = lambda x0='x0', x1='x1', x2='x2': hinge_D(x0, x1, x2)
    B = lambda r1='r1', rx='rx': hinge_B(r1, rx)
    Q = lambda b, r1='r1', rx='rx', r2='r2', x0='x0', x1='x1', x2='x2': f'(+ (- {r2} (* 2.0 {b} {B(r1, rx)})) (* {b} {b} {D(x0, x1, x2)}))'
    mn = f'(- r2 (/ (* {B()} {B()}) {D()}))'
    about = 'per output; residual = -gradient; RSS_S(beta) = SUM_{s in S} (res_s - beta * (x_s - threshold))^2 for the active entries'
    upd = dict(r1='(- r1 g)', rx='(- rx (* g x))', r2='(+ r2 (* g g))', x0='(+ x0 1.0)', x1='(+ x1 x)', x2='(+ x2 (* x x))')
    return [
        mkvc('lemma/min_rss hinge: D > 0  =>  for every slope b: r2 - 2 b B + b^2 D >= r2 - B^2/D  (normal equation of the one-sided linear function)', d, [f'(> {D()} 0.0)'],
             ('>=', P(Q('b')), P(mn)), about, HERE),
        mkvc('lemma/min_rss hinge attained: D > 0  =>  RSS(B/D) == r2 - B^2/D', d, [f'(> {D()} 0.0)'], ('=', P(Q(f'(/ {B()} {D()})')), P(mn)), about, HERE),
        mkvc('lemma/min_rss hinge inactive side: RSS(0) == r2', d, [], ('=', P(Q('0.0')), 'r2'), about, HERE),
        mkvc('lemma/moments hinge, step: RSS_S(b) == r2 - 2 b (rx - t r1) + b^2 (x2 - 2 t x1 + t^2 x0) is preserved by update(x, g) and RSS + (-g - b (x - t))^2', d, [],
             ('=', P(f'(+ {Q("b")} (* (- (- g) (* b (- x threshold))) (- (- g) (* b (- x threshold)))))'), P(Q('b', **upd))), about + '; accumulator_t::update(value, vgrad) proved in accum.h', HERE),
        mkvc('lemma/moments hinge, base: the cleared accumulator is the RSS of the empty group', d, [], ('=', P(Q('b', '0.0', '0.0', '0.0', '0.0', '0.0', '0.0')), '0.0'), about, HERE),
        mkvc('lemma/moments hinge, D: the denominator is SUM (x - t)^2: preserved by update(x, .) and 0 for the cleared accumulator', d, [],
             ('and', ('=', P(f'(+ {D()} (* (- x threshold) (- x threshold)))'), P(D(upd['x0'], upd['x1'], upd['x2']))), ('=', P(D('0.0', '0.0', '0.0')), '0.0')), about, HERE),
    ]


# ------------------------------------------------------------------------------------------------ tables
def table_vcs():
    """table.cpp cache_t::score(bin) (cache_t derives from accumulator_t: x0(bin) / r1(bin) / r2(bin) are its own cells)"""
    tu = 'src/wlearner/table.cpp'
    path = astload.resolve_tu(tu)
    wp = FitWP('table cache_t::score', tu, 'cache_t')
    wp.cls_is_accumulator = True
    wp.bin_term = 'bin'
    fn = [m for m in wp.methods.get('score', []) if len([p for p in m['inner'] if p['kind'] == 'ParmVarDecl']) == 1]
    if len(fn) != 1:
        raise astload.ExtractionError('table.cpp: cache_t::score(bin) not found')
    fn = fn[0]
    for key, p in wp.bind_params(fn):
        wp.env[key] = wp.const('bin', 'Int', 'long')
    wp.tu = path
    got = []
    wp.post = lambda w, rv: (got.append(rv), [])[1]
    wp.run(fn, path)
    if len(got) != 1 or not isinstance(got[0], V):
        raise Unsupported('table cache_t::score(bin) does not end in its single scalar return')
    T = P(got[0].t)
    C = lambda f: f'|this.{f}|' if ACC_FIELDS[f] == 'S' else f'|this.{f}@i|'
    hyps = [f'(> {C("x0")} 0.0)']
    about = 'tables: the bin holds the samples whose label hashes to it (cache_t::update); score_dense adds score(bin) over the bins and stores r1(bin) / x0(bin) (accum.h)'
    return [mkvc('rss/table/rss_opened: score(bin), opened at the generic output, == min-RSS(bin) = r2 - r1^2/x0', wp.decls, hyps,
                 ('=', open_sums(T), P(spec_min_rss(C('r1'), C('r2'), C('x0')))), about, path),
            mkvc('rss/table/rss_sum_free: score(bin) has no part outside the reduction', wp.decls, hyps, ('=', zero_sums(T), '0.0'), about, path),
            mkvc('rss/table/canary: a non-empty bin is satisfiable', wp.decls, hyps, 'true', 'vacuity guard (must be sat)', path, expect='sat')] + \
        obligations_of(wp, 'rss/table/walk', path, hyps)


def build_vcs():
    """all of it (one clang run per translation unit and filter; the three walks run concurrently)"""
    from core import parallel
    parts = parallel([lambda: stump_vcs()[0], hinge_vcs, table_vcs])
    return parts[0] + parts[1] + parts[2] + constant_lemmas() + hinge_lemmas()
