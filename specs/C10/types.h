/* C10: C models of the feature-value tensors shared by loops.h and the weak-learner preludes */
#ifndef NV_C10_TYPES_H
#define NV_C10_TYPES_H
#include "nv_tensor.h"
struct nv_t1i32 { int32_t* p; int64_t n; };                    /* sclass_cmap_t = tensor_cmap_t<int32_t, 1> */
#define NV_T1I32_OK(t) ((t).n >= 0 && (t).n <= NV_MAXN && __CPROVER_is_fresh((t).p, ((t).n > 0 ? (t).n : 1) * sizeof(int32_t)))
/* mclass_cmap_t = tensor_cmap_t<int8_t, 2> (samples x classes).  Only column 0 is materialised (`first[i]` is element
 * (i, 0)); a row view remembers which row it is.  Reading any other column yields an arbitrary value (havoc). */
struct nv_t2i8 { int8_t* first; int64_t rows; int64_t cols; };
#define NV_T2I8_OK(t) ((t).rows >= 0 && (t).rows <= NV_MAXN && (t).cols >= 0 && __CPROVER_is_fresh((t).first, ((t).rows > 0 ? (t).rows : 1)))
struct nv_mrow { int64_t row; int64_t n; int8_t v0; };          /* Eigen::Map<const Matrix<int8_t,-1,1>> over one row */
#define NV_ISFIN(x) (!__CPROVER_isnand(x) && !__CPROVER_isinfd(x))
#endif
