/* C10: look-up tables (include/nano/wlearner/table.h):
 *   table(x) = tables[hash2tables[k]]  if x[feature] is given and hashes[k] is the hash of its labeling (k = find(hashes, x)),
 *              zero                    otherwise (feature missing, or labeling not among the fitted hashes);
 *   split() reports group hash2tables[k] under the same rule, no group otherwise.
 * do_predict / do_split share the file-local template process<op>(); everything between the member function and the
 * ghost records (do_* -> process<lambda> -> loop_sclass|loop_mclass callback -> lambda) is extracted code. */
#include "wl.h"
struct nv_t1u { uint64_t* p; int64_t n; };                                    /* hashes_t = tensor_mem_t<uint64_t, 1> */
struct nv_table { int64_t m_feature; struct nv_t4 m_tables; struct nv_t1u m_hashes; struct nv_t1i m_hash2tables; };
struct nv_feature { int32_t type; };                                          /* feature_t: only type() */
#define NVE_feature_type_sclass 10   /* both pinned by static_asserts in drivers/inst_wlearner.cpp (compiled on every run) */
#define NVE_feature_type_mclass 11
/* closure objects of the two lambdas handed to process(): their captures, in capture order */
struct nv_clo_predict { struct nv_t4* outputs; struct nv_table* self; };
struct nv_clo_split { struct nv_cluster* cluster; struct nv_t1i* samples; };

static struct nv_row nv_tbl_vector(const struct nv_table* self, int64_t k) { return nv_t4_vector(&self->m_tables, k); }   /* single_feature_wlearner_t::vector(k) */
static struct nv_feature nv_dataset_feature(const struct nv_dataset* d, int64_t f) { struct nv_feature r; r.type = d->ftype; return r; }

/* ghost: the label value of the sample at position nv_g (single-label: nv_iv; multi-label: first label nv_mv0), and the
 * result of nano::find(hashes, that value).
 * Contract of nano::find (include/nano/dataset/hash.h) used here: a pure function of (hashes, value) returning -1 or a
 * position in [0, hashes.size()).  Single-label values: PROVED (target find_sclass, find.h); multi-label: ASSUMED. */
int32_t nv_iv; int8_t nv_mv0; int64_t nv_mcols;
int64_t nv_find_idx, nv_find_count; const uint64_t* nv_find_hashes; _Bool nv_find_arg_ok;
static int64_t nv_find_sclass(const struct nv_t1u* hashes, const int32_t* value)
{
  nv_find_count = nv_find_count + 1; nv_find_hashes = hashes->p; nv_find_arg_ok = (*value == nv_iv);
  __CPROVER_assume(-1 <= nv_find_idx && nv_find_idx < hashes->n);
  return nv_find_idx;
}
static int64_t nv_find_mclass(const struct nv_t1u* hashes, const struct nv_mrow* values)
{
  nv_find_count = nv_find_count + 1; nv_find_hashes = hashes->p; nv_find_arg_ok = (values->row == nv_g && values->v0 == nv_mv0);
  __CPROVER_assume(-1 <= nv_find_idx && nv_find_idx < hashes->n);
  return nv_find_idx;
}

void table_process_P_sclass(int64_t i, int32_t value, struct nv_t1u* hashes, struct nv_clo_predict* op, struct nv_t1i* hash2tables);
void table_process_P_mclass(int64_t i, struct nv_mrow* values, struct nv_t1u* hashes, struct nv_clo_predict* op, struct nv_t1i* hash2tables);
void table_process_S_sclass(int64_t i, int32_t value, struct nv_t1u* hashes, struct nv_clo_split* op, struct nv_t1i* hash2tables);
void table_process_S_mclass(int64_t i, struct nv_mrow* values, struct nv_t1u* hashes, struct nv_clo_split* op, struct nv_t1i* hash2tables);

/* loop_sclass / loop_mclass by the contract proved in loops.h, at the ghost position: the callback is invoked exactly once
 * with (nv_g, value of sample nv_g) iff that value is given (label >= 0 / first label >= 0) */
int32_t nv_ls_kind;   /* 1: loop_sclass was called, 2: loop_mclass */
#define NV_LOOP_STUBS(P, CLO) \
static void nv_loop_sclass_##P(const struct nv_dataset* d, const struct nv_t1i* s, int64_t f, struct nv_t1u* hashes, struct nv_t1i* hash2tables, CLO* op) \
{ NV_LS_RECORD(d, s, f) nv_ls_kind = 1; \
  if (0 <= nv_g && nv_g < s->n && nv_iv >= 0) table_process_##P##_sclass(nv_g, nv_iv, hashes, op, hash2tables); } \
static void nv_loop_mclass_##P(const struct nv_dataset* d, const struct nv_t1i* s, int64_t f, struct nv_t1u* hashes, struct nv_t1i* hash2tables, CLO* op) \
{ NV_LS_RECORD(d, s, f) nv_ls_kind = 2; \
  struct nv_mrow r; r.row = nv_g; r.n = nv_mcols; r.v0 = nv_mv0; \
  if (0 <= nv_g && nv_g < s->n && nv_mv0 >= 0) table_process_##P##_mclass(nv_g, &r, hashes, op, hash2tables); }
NV_LOOP_STUBS(P, struct nv_clo_predict)
NV_LOOP_STUBS(S, struct nv_clo_split)

/* representation invariant of a fitted table learner (score_dense / score_kbest / score_ksplit in table.cpp):
 * one table index per hash, every table index addresses a row of the coefficient tensor.  Stated at nv_find_idx. */
#define NV_TABLE_OK(self) (__CPROVER_is_fresh(self, sizeof(*(self))) && (self)->m_tables.rows >= 0 \
  && (self)->m_hashes.n >= 0 && (self)->m_hashes.n <= NV_MAXN && __CPROVER_is_fresh((self)->m_hashes.p, ((self)->m_hashes.n > 0 ? (self)->m_hashes.n : 1) * sizeof(uint64_t)) \
  && NV_T1I_OK((self)->m_hash2tables) && (self)->m_hash2tables.n == (self)->m_hashes.n \
  && ((0 <= nv_find_idx && nv_find_idx < (self)->m_hash2tables.n) ==> (0 <= (self)->m_hash2tables.p[nv_find_idx] && (self)->m_hash2tables.p[nv_find_idx] < (self)->m_tables.rows)))
#define NV_TBL_GHOST_ASSIGNS NV_GHOST_ASSIGNS __CPROVER_assigns(nv_find_count, nv_find_hashes, nv_find_arg_ok, nv_ls_kind)
/* the sample at position nv_g has a given value (by the type of the selected feature) */
#define NV_TBL_GIVEN ((dataset->ftype == NVE_feature_type_sclass) ? (nv_iv >= 0) : (nv_mv0 >= 0))
/* ... and its labeling is among the fitted hashes */
#define NV_TBL_HIT (NV_TBL_GIVEN && nv_find_idx >= 0)
#define NV_TBL_COMMON_POST \
__CPROVER_ensures(nv_ls_kind == ((dataset->ftype == NVE_feature_type_sclass) ? 1 : 2)) \
__CPROVER_ensures(NV_TBL_GIVEN ==> (nv_find_count == 1 && nv_find_hashes == self->m_hashes.p && nv_find_arg_ok)) \
__CPROVER_ensures(!NV_TBL_GIVEN ==> nv_find_count == 0)

/* do_predict: outputs has one row per sample (learner_t::predict asserts it) */
#define NV_CONTRACT_table_do_predict \
__CPROVER_requires(NV_TABLE_OK(self) && __CPROVER_is_fresh(dataset, sizeof(*dataset)) && NV_T1I_OK(samples) && outputs.rows == samples.n) \
__CPROVER_requires(0 <= nv_g && nv_g < samples.n && NV_GHOST_INIT && nv_find_count == 0 && outputs.id != self->m_tables.id) \
NV_TBL_GHOST_ASSIGNS \
__CPROVER_ensures(NV_LS_CALLED_WITH(dataset, samples, self->m_feature)) \
NV_TBL_COMMON_POST \
__CPROVER_ensures(NV_TBL_HIT ==> (nv_add_count == 1 && nv_add_dst.tensor == outputs.id && nv_add_dst.row == nv_g \
  && nv_add_src.tensor == self->m_tables.id && nv_add_src.row == self->m_hash2tables.p[nv_find_idx])) \
__CPROVER_ensures(!NV_TBL_HIT ==> nv_add_count == 0)

/* do_split: one group per table row */
#define NV_CONTRACT_table_do_split \
__CPROVER_requires(NV_TABLE_OK(self) && __CPROVER_is_fresh(dataset, sizeof(*dataset)) && NV_SAMPLES_OK(samples, dataset) && NV_GHOST_INIT && nv_find_count == 0) \
NV_TBL_GHOST_ASSIGNS \
__CPROVER_ensures(NV_LS_CALLED_WITH(dataset, *samples, self->m_feature)) \
NV_TBL_COMMON_POST \
__CPROVER_ensures(__CPROVER_return_value.samples == dataset->samples && __CPROVER_return_value.groups == self->m_tables.rows) \
__CPROVER_ensures(NV_TBL_HIT ==> (nv_as_count == 1 && nv_as_sample == samples->p[nv_g] && nv_as_group == self->m_hash2tables.p[nv_find_idx])) \
__CPROVER_ensures(!NV_TBL_HIT ==> nv_as_count == 0)
