/* C10: affine and hinge weak learners (include/nano/wlearner/affine.h, hinge.h), consistency clauses:
 *   affine(x) = tables[0] * x(feature) + tables[1]                        if the feature value is given, zero otherwise;
 *   hinge(x)  = tables[0] * x(feature) + tables[1]  on the active side     (left: x < threshold, right: x >= threshold)
 *               of a given value, zero on the other side and for a missing value.  do_fit stores tables[1] =
 *               -threshold * tables[0], so that over the reals this is beta * (x - threshold) = -beta * (threshold - x)+
 *               resp. beta * (x - threshold)+  (the MARS hinges; real-arithmetic identity, see the SMT lemma of the spec);
 *   split() reports the single group 0 exactly for the samples that receive a (possibly non-zero) prediction.
 * Ghost-element model: outputs and tables are tracked at ONE output coefficient nv_c; outputs at the row nv_g of the
 * sample under consideration, every other row of outputs is folded into the ghost cell nv_other (a write to any other
 * row changes it).  The Eigen statement `outputs.vector(i) += w * value + b` is lifted by engine/eigencw to its scalar
 * kernel at that coefficient (floating-point operations uninterpreted: the proved identity holds for IEEE arithmetic). */
#include "wl.h"
struct nv_rv { double* g; int64_t n, k; };                               /* Eigen::Map<[const] VectorXd>: tensor.vector(row) */
struct nv_tbl2 { int64_t rows, cols; double g0, g1; };                   /* tables: coefficient nv_c of rows 0 and 1 */
struct nv_outm { int64_t rows, cols; double* g; };                       /* tensor4d_map_t outputs: coefficient (nv_g, nv_c) */
struct nv_lin { int64_t m_feature; struct nv_tbl2 m_tables; double m_threshold; uint8_t m_hinge; };
#define NVE_hinge_type_left 0      /* pinned by static_asserts in drivers/inst_wlearner.cpp */
#define NVE_hinge_type_right 1
union nv_bits { double d; uint64_t u; };
#define NV_IDENT(a, b) (((union nv_bits){ .d = (a) }).u == ((union nv_bits){ .d = (b) }).u)     /* the same bit pattern */

int64_t nv_c;              /* ghost output coefficient */
double nv_other;           /* ghost: all coefficients of outputs outside row nv_g */
/* ASSUMED: single_feature_wlearner_t::vector(k) = m_tables.vector(k), the k-th slice along the first dimension (index
 * checked), tensor_map.vector(i) likewise */
static struct nv_rv nv_lin_vector(const struct nv_lin* self, int64_t k)
{
  __CPROVER_assert(0 <= k && k < self->m_tables.rows, "tables.vector(k): first index in range");
  struct nv_rv v; v.n = self->m_tables.cols; v.k = nv_c; v.g = (double*)(k == 0 ? &self->m_tables.g0 : &self->m_tables.g1); return v;
}
static struct nv_rv nv_out_vector(const struct nv_outm* t, int64_t i)
{
  __CPROVER_assert(0 <= i && i < t->rows, "outputs.vector(i): first index in range");
  struct nv_rv v; v.n = t->cols; v.k = nv_c; v.g = (i == nv_g) ? t->g : &nv_other; return v;
}

#define NV_LIN_OK(self) (__CPROVER_is_fresh(self, sizeof(*(self))) && (self)->m_tables.rows == 2)
/* outputs has one row per sample and the coefficient shape of the tables (learner_t::predict asserts outputs.dims() ==
 * cat_dims(samples.size(), target dims); the function's own assert says tables().dims() == cat_dims(2, target dims)) */
#define NV_LIN_PREDICT_REQ \
__CPROVER_requires(NV_LIN_OK(self) && __CPROVER_is_fresh(dataset, sizeof(*dataset)) && NV_T1I_OK(samples) && outputs.rows == samples.n) \
__CPROVER_requires(outputs.cols == self->m_tables.cols && 0 <= nv_c && nv_c < outputs.cols && __CPROVER_is_fresh(outputs.g, sizeof(double))) \
__CPROVER_requires(0 <= nv_g && nv_g < samples.n && NV_GHOST_INIT)
#define NV_LIN_ASSIGNS __CPROVER_assigns(*outputs.g, nv_other, nv_ls_count, nv_ls_feature, nv_ls_dataset, nv_ls_samples)
/* the value the property prescribes for an active sample: w * v + b at the ghost coefficient */
#define NV_LIN_VALUE(self) NV_FADD(NV_FMUL((self)->m_tables.g0, nv_v), (self)->m_tables.g1)
#define NV_LIN_PREDICT_ENS(active) \
__CPROVER_ensures(NV_LS_CALLED_WITH(dataset, samples, self->m_feature)) \
__CPROVER_ensures((active) ==> NV_IDENT(*outputs.g, NV_FADD(__CPROVER_old(*outputs.g), NV_LIN_VALUE(self)))) \
__CPROVER_ensures(!(active) ==> NV_IDENT(*outputs.g, __CPROVER_old(*outputs.g))) \
__CPROVER_ensures(NV_IDENT(nv_other, __CPROVER_old(nv_other)))
#define NV_LIN_SPLIT_REQ \
__CPROVER_requires(__CPROVER_is_fresh(self, sizeof(*self)) && __CPROVER_is_fresh(dataset, sizeof(*dataset)) && NV_SAMPLES_OK(samples, dataset) && NV_GHOST_INIT)
#define NV_LIN_SPLIT_ENS(active) \
NV_GHOST_ASSIGNS \
__CPROVER_ensures(NV_LS_CALLED_WITH(dataset, *samples, self->m_feature)) \
__CPROVER_ensures(__CPROVER_return_value.samples == dataset->samples && __CPROVER_return_value.groups == 1) \
__CPROVER_ensures((active) ==> (nv_as_count == 1 && nv_as_sample == samples->p[nv_g] && nv_as_group == 0)) \
__CPROVER_ensures(!(active) ==> nv_as_count == 0)

/* ---- affine */
/* the loop_scalar stubs (nv_ls_affine_*, nv_ls_hinge_*) and the prototypes of the extracted lambda bodies are generated from
 * the lambdas' current capture lists (spec.py LS_BODY, engine/hooks.py lambda_stub_hook) */
#define NV_CONTRACT_affine_do_predict NV_LIN_PREDICT_REQ NV_LIN_ASSIGNS NV_LIN_PREDICT_ENS(NV_ISFIN(nv_v))
#define NV_CONTRACT_affine_do_split NV_LIN_SPLIT_REQ NV_LIN_SPLIT_ENS(NV_ISFIN(nv_v))

/* ---- hinge: the active side.  m_hinge is one of the two enumerators (representation invariant: set by do_fit from
 * hinge_type::left / right only; read() does not re-validate the stored byte) */
#define NV_HINGE_OK(self) ((self)->m_hinge == NVE_hinge_type_left || (self)->m_hinge == NVE_hinge_type_right)
#define NV_HINGE_ACTIVE(self) (NV_ISFIN(nv_v) && (((self)->m_hinge == NVE_hinge_type_left) ? (nv_v < (self)->m_threshold) : (nv_v >= (self)->m_threshold)))
#define NV_CONTRACT_hinge_do_predict NV_LIN_PREDICT_REQ __CPROVER_requires(NV_HINGE_OK(self)) NV_LIN_ASSIGNS NV_LIN_PREDICT_ENS(NV_HINGE_ACTIVE(self))
#define NV_CONTRACT_hinge_do_split NV_LIN_SPLIT_REQ __CPROVER_requires(NV_HINGE_OK(self)) NV_LIN_SPLIT_ENS(NV_HINGE_ACTIVE(self))
