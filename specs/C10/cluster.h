/* C10 (k-split tables): accumulator_t::cluster() (src/wlearner/accumulator.cpp) -- greedy agglomerative merging of the bins.
 * Level 0: every bin is its own cluster; level t (row t of the returned tensors) is level t - 1 with the two closest clusters
 * c1 < c2 merged into c1 and the clusters above c2 renumbered down by one, so that level t has bins - t clusters.
 * Representation invariant proved (ghost bins nv_b, nv_b2, ghost levels nv_L < nv_L2; symbolic number of bins):
 *   - cluster_id(L, b) is in [0, bins - L): every bin belongs to exactly one cluster of its level, an index below the level's
 *     number of clusters; level 0 is the identity;
 *   - levels are nested: two bins in one cluster at level L are in one cluster at every later level L2;
 *   - ghost membership of the moment sums: the cell (level, c) of cluster_x0 / cluster_r1 / cluster_r2 contains the moments of bin b
 *     exactly once if c == cluster_id(level, b) and not at all otherwise (multiplicity of b's contribution at a ghost column nv_c);
 *   - index discipline: every access of the 2-D / 5-D tensors has its first index < bins and its second < bins; rows are built in
 *     order, each from the previous one, and a finished row is never touched again; all seven loops terminate.
 * Which two clusters are merged (the float distances) is arbitrary here: 0 <= c1 < c2 < #clusters is all the proof uses.
 * The numeric VALUES of the sums / means are not tracked (Eigen coefficient-wise statements are recorded as membership updates). */
#include "nv_tensor.h"
struct nv_dims4c { int64_t _0, _1, _2, _3; };
struct nv_clacc { struct nv_dims4c m_r1; };                 /* accumulator_t: the dims of m_r1 (bins x the three output dims) */
int64_t nv_b, nv_b2, nv_L, nv_L2;
int64_t nv_other_i, nv_last_r, nv_last_c; double nv_other_d;
struct nv_c2 { int64_t rows, cols; };                       /* cluster_x0 */
struct nv_c5 { int64_t rows, cols; };                       /* cluster_r1 / r2 / rx: rows x cols rows of outputs */
struct nv_cwv { int64_t dummy; };                           /* a row / cell view or an Eigen expression over one */
/* cluster_id: the cells (cur_row, nv_b) and (cur_row, nv_b2) of the row being built, and their values frozen at the levels nv_L, nv_L2 */
struct nv_cid { int64_t rows, cols, cur_row, cur, cur2; _Bool lv_set, lvB_set; int64_t lv, lv2, lvB, lv2B; };
struct nv_idrow { struct nv_cid* t; int64_t row; };
struct nv_cret { struct nv_cid id; };

static struct nv_dims4c nv_clacc_dims(const struct nv_dims4c* d) { return *d; }
static struct nv_c2 nv_c2_make(int64_t r, int64_t c) { struct nv_c2 t; t.rows = r; t.cols = c; return t; }
static struct nv_c5 nv_c5_make(int64_t r, int64_t c) { struct nv_c5 t; t.rows = r; t.cols = c; return t; }
static struct nv_cid nv_cid_make(int64_t r, int64_t c)
{ struct nv_cid t; t.rows = r; t.cols = c; t.cur_row = 0; t.cur = nv_nondet_int64_t(); t.cur2 = nv_nondet_int64_t(); t.lv_set = 0; t.lvB_set = 0;
  t.lv = nv_nondet_int64_t(); t.lv2 = nv_nondet_int64_t(); t.lvB = nv_nondet_int64_t(); t.lv2B = nv_nondet_int64_t(); return t; }
/* ASSUMED (tensor): t.array(i) / t.array(i, j) / t(i, j) address the slice with those leading indices (checked: in range) */
static struct nv_cwv nv_c2_row(const struct nv_c2* t, int64_t i)
{ __CPROVER_assert(0 <= i && i < t->rows, "cluster_x0.array(i): first index in range"); struct nv_cwv v; v.dummy = 0; return v; }
static struct nv_cwv nv_c5_row(const struct nv_c5* t, int64_t i)
{ __CPROVER_assert(0 <= i && i < t->rows, "cluster_r*.array(i): first index in range"); struct nv_cwv v; v.dummy = 0; return v; }
static struct nv_cwv nv_c5_row2(const struct nv_c5* t, int64_t i, int64_t j)
{ __CPROVER_assert(0 <= i && i < t->rows, "cluster_r*.array(i, j): first index in range"); __CPROVER_assert(0 <= j && j < t->cols, "cluster_r*.array(i, j): second index in range");
  struct nv_cwv v; v.dummy = 0; return v; }
static double* nv_c2_at(const struct nv_c2* t, int64_t i, int64_t j)
{ __CPROVER_assert(0 <= i && i < t->rows, "cluster_x0(i, j): first index in range"); __CPROVER_assert(0 <= j && j < t->cols, "cluster_x0(i, j): second index in range");
  nv_other_d = nv_nondet_double(); return &nv_other_d; }
static struct nv_cwv nv_cw_any(void) { struct nv_cwv v; v.dummy = 0; return v; }
static struct nv_cwv nv_cw_op(struct nv_cwv a) { return a; }
static void nv_cw_store(struct nv_cwv dst, struct nv_cwv src) { }
/* cluster_id(r, c): only the row being built is accessed (finished rows are final: obligation) */
static int64_t* nv_cid_at(struct nv_cid* t, int64_t r, int64_t c)
{
  __CPROVER_assert(0 <= r && r < t->rows, "cluster_id(r, c): first index in range"); __CPROVER_assert(0 <= c && c < t->cols, "cluster_id(r, c): second index in range");
  __CPROVER_assert(r == t->cur_row, "cluster_id is read and written in the row being built only (finished levels are final)");
  if (r == t->cur_row && c == nv_b) return &t->cur;
  if (r == t->cur_row && c == nv_b2) return &t->cur2;
  /* any other cell: an arbitrary value, stable while the same cell is accessed again (`if (id(t, b) > c2) id(t, b) -= 1`) */
  if (r != nv_last_r || c != nv_last_c) { nv_other_i = nv_nondet_int64_t(); nv_last_r = r; nv_last_c = c; }
  return &nv_other_i;
}
static struct nv_idrow nv_cid_row(struct nv_cid* t, int64_t r)
{ __CPROVER_assert(0 <= r && r < t->rows, "cluster_id.array(r): first index in range"); struct nv_idrow v; v.t = t; v.row = r; return v; }
static void nv_cid_freeze(struct nv_cid* t)
{
  if (t->cur_row == nv_L) { t->lv = t->cur; t->lv2 = t->cur2; t->lv_set = 1; }
  if (t->cur_row == nv_L2) { t->lvB = t->cur; t->lv2B = t->cur2; t->lvB_set = 1; }
}
/* cluster_id.array(dst) = cluster_id.array(src): the next row starts as a copy of the row just finished */
static void nv_idrow_copy(struct nv_idrow dst, struct nv_idrow src)
{
  __CPROVER_assert(dst.t == src.t && src.row == src.t->cur_row && dst.row == src.t->cur_row + 1, "cluster_id: row t is started as a copy of the finished row t - 1");
  nv_cid_freeze(src.t);
  src.t->cur_row = dst.row;
}
static struct nv_cret nv_cret_make(struct nv_cid id) { nv_cid_freeze(&id); struct nv_cret r; r.id = id; return r; }

#define NV_BINS (self->m_r1._0)
#define NV_ID cluster_id
#define NV_RANGE(x, n) (0 <= (x) && (x) < (n))
/* the frozen levels */
#define NV_FROZEN(id, bins) (((id).lv_set ==> (NV_RANGE((id).lv, (bins) - nv_L) && (nv_b2 != nv_b ==> NV_RANGE((id).lv2, (bins) - nv_L)) && (nv_L == 0 ==> ((id).lv == nv_b && (nv_b2 != nv_b ==> (id).lv2 == nv_b2))))) \
  && ((id).lvB_set ==> (NV_RANGE((id).lvB, (bins) - nv_L2) && (nv_b2 != nv_b ==> NV_RANGE((id).lv2B, (bins) - nv_L2)))) \
  && (((id).lv_set && (id).lvB_set && nv_b2 != nv_b && (id).lv == (id).lv2) ==> (id).lvB == (id).lv2B))
#define NV_CONTRACT_acc_cluster \
__CPROVER_requires(__CPROVER_is_fresh(self, sizeof(*self)) && 1 <= NV_BINS && NV_BINS <= NV_MAXN && NV_RANGE(nv_b, NV_BINS) && NV_RANGE(nv_b2, NV_BINS) && 0 <= nv_L && nv_L < nv_L2 && nv_L2 < NV_BINS) \
__CPROVER_assigns(nv_other_i, nv_other_d, nv_last_r, nv_last_c) \
/* .1 every level is built: both ghost levels were frozen, the last row is bins - 1 */ \
__CPROVER_ensures(__CPROVER_return_value.id.lv_set && __CPROVER_return_value.id.lvB_set && __CPROVER_return_value.id.cur_row == NV_BINS - 1 && __CPROVER_return_value.id.rows == NV_BINS && __CPROVER_return_value.id.cols == NV_BINS) \
/* .2 at level L every bin has a cluster index in [0, bins - L) (level 0: its own); bins together at level L stay together at level L2 > L */ \
__CPROVER_ensures(NV_FROZEN(__CPROVER_return_value.id, NV_BINS))
#define NV_LOOP_acc_cluster_1 \
__CPROVER_assigns(bin, NV_ID.cur, NV_ID.cur2, nv_other_i, nv_last_r, nv_last_c) \
__CPROVER_loop_invariant(0 <= bin && bin <= bins && bins == NV_BINS && NV_ID.cur_row == 0 && NV_ID.rows == bins && NV_ID.cols == bins && !NV_ID.lv_set && !NV_ID.lvB_set) \
__CPROVER_loop_invariant((bin > nv_b ==> NV_ID.cur == nv_b) && ((bin > nv_b2 && nv_b2 != nv_b) ==> NV_ID.cur2 == nv_b2)) \
__CPROVER_decreases(bins - bin)
#define NV_LOOP_acc_cluster_2 \
__CPROVER_assigns(trial, n_clusters, NV_ID.cur_row, NV_ID.cur, NV_ID.cur2, NV_ID.lv_set, NV_ID.lvB_set, NV_ID.lv, NV_ID.lv2, NV_ID.lvB, NV_ID.lv2B, nv_other_i, nv_other_d, nv_last_r, nv_last_c) \
__CPROVER_loop_invariant(1 <= trial && trial <= bins && bins == NV_BINS && n_clusters == bins - trial + 1 && NV_ID.cur_row == trial - 1 && NV_ID.rows == bins && NV_ID.cols == bins) \
__CPROVER_loop_invariant(NV_RANGE(NV_ID.cur, n_clusters) && (nv_b2 != nv_b ==> NV_RANGE(NV_ID.cur2, n_clusters)) && (trial == 1 ==> (NV_ID.cur == nv_b && (nv_b2 != nv_b ==> NV_ID.cur2 == nv_b2)))) \
__CPROVER_loop_invariant((NV_ID.lv_set != 0) == (nv_L + 1 < trial) && (NV_ID.lvB_set != 0) == (nv_L2 + 1 < trial) && NV_FROZEN(NV_ID, bins)) \
__CPROVER_loop_invariant((NV_ID.lv_set && nv_b2 != nv_b && NV_ID.lv == NV_ID.lv2) ==> NV_ID.cur == NV_ID.cur2) \
__CPROVER_decreases(bins - trial)
#define NV_PAIR_OK (0 <= cluster1 && cluster1 < cluster2 && cluster2 < n_clusters)
#define NV_LOOP_acc_cluster_3 \
__CPROVER_assigns(icluster1, distance, cluster1, cluster2) \
__CPROVER_loop_invariant(0 <= icluster1 && icluster1 <= n_clusters - 1 && NV_PAIR_OK) __CPROVER_decreases(n_clusters - icluster1)
#define NV_LOOP_acc_cluster_4 \
__CPROVER_assigns(icluster2, distance, cluster1, cluster2) \
__CPROVER_loop_invariant(icluster1 + 1 <= icluster2 && icluster2 <= n_clusters && NV_PAIR_OK) __CPROVER_decreases(n_clusters - icluster2)
#define NV_LOOP_acc_cluster_5 \
__CPROVER_assigns(cluster, nv_other_d) \
__CPROVER_loop_invariant(cluster2 <= cluster && cluster <= n_clusters - 1) __CPROVER_decreases(n_clusters - cluster)
#define NV_RELABEL1(k) (((k) == cluster2) ? cluster1 : (k))
#define NV_RELABEL2(k) (((k) > cluster2) ? (k) - 1 : (k))
#define NV_LOOP_acc_cluster_6 \
__CPROVER_assigns(bin, NV_ID.cur, NV_ID.cur2, nv_other_i, nv_last_r, nv_last_c) \
__CPROVER_loop_invariant(0 <= bin && bin <= bins && NV_ID.cur_row == trial) \
__CPROVER_loop_invariant(NV_ID.cur == ((bin > nv_b) ? NV_RELABEL1(__CPROVER_loop_entry(NV_ID.cur)) : __CPROVER_loop_entry(NV_ID.cur))) \
__CPROVER_loop_invariant(nv_b2 != nv_b ==> NV_ID.cur2 == ((bin > nv_b2) ? NV_RELABEL1(__CPROVER_loop_entry(NV_ID.cur2)) : __CPROVER_loop_entry(NV_ID.cur2))) \
__CPROVER_decreases(bins - bin)
#define NV_LOOP_acc_cluster_7 \
__CPROVER_assigns(bin, NV_ID.cur, NV_ID.cur2, nv_other_i, nv_last_r, nv_last_c) \
__CPROVER_loop_invariant(0 <= bin && bin <= bins && NV_ID.cur_row == trial) \
/* (after the first relabelling no tracked bin is in cluster2 any more: `> cluster2` and `>= cluster2` renumber alike) */ \
__CPROVER_loop_invariant(__CPROVER_loop_entry(NV_ID.cur) != cluster2 && (nv_b2 != nv_b ==> __CPROVER_loop_entry(NV_ID.cur2) != cluster2)) \
__CPROVER_loop_invariant(NV_ID.cur == ((bin > nv_b) ? NV_RELABEL2(__CPROVER_loop_entry(NV_ID.cur)) : __CPROVER_loop_entry(NV_ID.cur))) \
__CPROVER_loop_invariant(nv_b2 != nv_b ==> NV_ID.cur2 == ((bin > nv_b2) ? NV_RELABEL2(__CPROVER_loop_entry(NV_ID.cur2)) : __CPROVER_loop_entry(NV_ID.cur2))) \
__CPROVER_decreases(bins - bin)
