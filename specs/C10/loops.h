/* C10, clause "predictions ... are zero for samples whose selected feature is missing, depend only on the sample":
 * include/nano/wlearner/util.h  loop_scalar / loop_sclass / loop_mclass  call  op(i, value)
 *   - only for 0 <= i < samples.size(), in strictly increasing order of i (so at most once per sample),
 *   - only for given values (scalar: finite; single-label: >= 0; multi-label: first label >= 0),
 *   - with value == the feature value of sample i,
 *   - and for EVERY given value (exactly once).
 * "For every i" is stated at a ghost index nv_g (nondeterministic, fixed before the call). */
#ifndef NV_C10_LOOPS_H
#define NV_C10_LOOPS_H
#include "types.h"
struct nv_op { int32_t dummy; };                                /* the opaque operator */
static _Bool nv_isfinite(double a) { return NV_ISFIN(a); }     /* std::isfinite */

/* ghost state of the operator stubs */
int64_t nv_g;          /* ghost sample position */
int64_t nv_op_n;       /* samples.size() of the running loop (fixed by the contract's requires) */
_Bool   nv_op_bad;     /* some call had i out of range / not increasing / a missing value */
int64_t nv_op_last;    /* i of the last call (-1: none) */
int64_t nv_op_calls_g; /* number of calls with i == nv_g */
double  nv_op_val_g;   /* value of the call with i == nv_g */
int64_t nv_op_ival_g;  /* same for label values / row identity */

static void nv_op_scalar(int64_t i, double value)
{
  if (!(0 <= i && i < nv_op_n) || i <= nv_op_last || !NV_ISFIN(value)) nv_op_bad = 1;
  nv_op_last = i;
  if (i == nv_g) { nv_op_calls_g = nv_op_calls_g + 1; nv_op_val_g = value; }
}
static void nv_op_sclass(int64_t i, int32_t value)
{
  if (!(0 <= i && i < nv_op_n) || i <= nv_op_last || !(value >= 0)) nv_op_bad = 1;
  nv_op_last = i;
  if (i == nv_g) { nv_op_calls_g = nv_op_calls_g + 1; nv_op_ival_g = value; }
}
static void nv_op_mclass(int64_t i, const struct nv_mrow* values)
{
  if (!(0 <= i && i < nv_op_n) || i <= nv_op_last || !(values->v0 >= 0)) nv_op_bad = 1;
  nv_op_last = i;
  if (i == nv_g) { nv_op_calls_g = nv_op_calls_g + 1; nv_op_ival_g = values->row; }
}
/* tensor_t::vector(i) on the rank-2 label tensor: the i-th row (index asserted in range, as the tensor's own assert) */
static struct nv_mrow nv_t2i8_vector(const struct nv_t2i8* t, int64_t i)
{
  __CPROVER_assert(0 <= i && i < t->rows, "mclass fvalues.vector(i): row index in range");
  struct nv_mrow r; r.row = i; r.n = t->cols; r.v0 = t->first[i]; return r;
}
/* Eigen coefficient access values(k) on a row view */
static int8_t nv_mrow_at(const struct nv_mrow* r, int64_t k)
{
  __CPROVER_assert(0 <= k && k < r->n, "mclass values(k): column index in range");
  if (k == 0) return r->v0;
  int8_t x; return x;
}

#define NV_OP_GHOST_INIT (nv_op_bad == 0 && nv_op_last == -1 && nv_op_calls_g == 0)
#define NV_OP_ASSIGNS __CPROVER_assigns(nv_op_bad, nv_op_last, nv_op_calls_g, nv_op_val_g, nv_op_ival_g)

/* ---- loop_scalar: the callback handed to select_iterator_t::loop.  fvalues holds one value per sample
 * (select_iterator_t::loop -> dataset.select(samples, feature, buffer) returns buffer.slice(0, samples.size())). */
#define NV_CONTRACT_loop_scalar_body \
__CPROVER_requires(__CPROVER_is_fresh(fvalues, sizeof(*fvalues)) && NV_T1D_OK(*fvalues)) \
__CPROVER_requires(__CPROVER_is_fresh(samples, sizeof(*samples)) && samples->n == fvalues->n && __CPROVER_is_fresh(op, sizeof(*op))) \
__CPROVER_requires(nv_op_n == samples->n && 0 <= nv_g && nv_g < samples->n && NV_OP_GHOST_INIT) \
NV_OP_ASSIGNS \
__CPROVER_ensures(!nv_op_bad) \
__CPROVER_ensures(nv_op_calls_g == (NV_ISFIN(fvalues->p[nv_g]) ? 1 : 0)) \
__CPROVER_ensures(nv_op_calls_g == 1 ==> NV_SAME(nv_op_val_g, fvalues->p[nv_g]))
#define NV_LOOP_loop_scalar_body_1 \
__CPROVER_assigns(i, nv_op_bad, nv_op_last, nv_op_calls_g, nv_op_val_g) \
__CPROVER_loop_invariant(0 <= i && i <= samples->n && !nv_op_bad && nv_op_last < i) \
__CPROVER_loop_invariant(nv_op_calls_g == ((nv_g < i && NV_ISFIN(fvalues->p[nv_g])) ? 1 : 0)) \
__CPROVER_loop_invariant(nv_op_calls_g == 1 ==> NV_SAME(nv_op_val_g, fvalues->p[nv_g])) \
__CPROVER_decreases(samples->n - i)

/* ---- loop_sclass */
#define NV_CONTRACT_loop_sclass_body \
__CPROVER_requires(__CPROVER_is_fresh(fvalues, sizeof(*fvalues)) && NV_T1I32_OK(*fvalues)) \
__CPROVER_requires(__CPROVER_is_fresh(samples, sizeof(*samples)) && samples->n == fvalues->n && __CPROVER_is_fresh(op, sizeof(*op))) \
__CPROVER_requires(nv_op_n == samples->n && 0 <= nv_g && nv_g < samples->n && NV_OP_GHOST_INIT) \
NV_OP_ASSIGNS \
__CPROVER_ensures(!nv_op_bad) \
__CPROVER_ensures(nv_op_calls_g == ((fvalues->p[nv_g] >= 0) ? 1 : 0)) \
__CPROVER_ensures(nv_op_calls_g == 1 ==> nv_op_ival_g == fvalues->p[nv_g])
#define NV_LOOP_loop_sclass_body_1 \
__CPROVER_assigns(i, nv_op_bad, nv_op_last, nv_op_calls_g, nv_op_ival_g) \
__CPROVER_loop_invariant(0 <= i && i <= samples->n && !nv_op_bad && nv_op_last < i) \
__CPROVER_loop_invariant(nv_op_calls_g == ((nv_g < i && fvalues->p[nv_g] >= 0) ? 1 : 0)) \
__CPROVER_loop_invariant(nv_op_calls_g == 1 ==> nv_op_ival_g == fvalues->p[nv_g]) \
__CPROVER_decreases(samples->n - i)

/* ---- loop_mclass: a multi-label value is missing iff its first label is negative (dataset storage convention);
 * the operator receives the row of sample i */
#define NV_CONTRACT_loop_mclass_body \
__CPROVER_requires(__CPROVER_is_fresh(fvalues, sizeof(*fvalues)) && NV_T2I8_OK(*fvalues) && fvalues->cols >= 1) \
__CPROVER_requires(__CPROVER_is_fresh(samples, sizeof(*samples)) && samples->n == fvalues->rows && __CPROVER_is_fresh(op, sizeof(*op))) \
__CPROVER_requires(nv_op_n == samples->n && 0 <= nv_g && nv_g < samples->n && NV_OP_GHOST_INIT) \
NV_OP_ASSIGNS \
__CPROVER_ensures(!nv_op_bad) \
__CPROVER_ensures(nv_op_calls_g == ((fvalues->first[nv_g] >= 0) ? 1 : 0)) \
__CPROVER_ensures(nv_op_calls_g == 1 ==> nv_op_ival_g == nv_g)
#define NV_LOOP_loop_mclass_body_1 \
__CPROVER_assigns(i, nv_op_bad, nv_op_last, nv_op_calls_g, nv_op_ival_g) \
__CPROVER_loop_invariant(0 <= i && i <= samples->n && !nv_op_bad && nv_op_last < i) \
__CPROVER_loop_invariant(nv_op_calls_g == ((nv_g < i && fvalues->first[nv_g] >= 0) ? 1 : 0)) \
__CPROVER_loop_invariant(nv_op_calls_g == 1 ==> nv_op_ival_g == nv_g) \
__CPROVER_decreases(samples->n - i)

/* ---- the enclosing functions loop_scalar / loop_sclass / loop_mclass(dataset, samples, feature, op): they build a
 * select_iterator_t over the given dataset and hand the callback to iterator.loop(samples, feature, callback) exactly once,
 * with the given samples and the given feature.
 * ASSUMED (src/dataset/iterator.cpp: select_iterator_t::loop(samples, ifeature, callback)): that function calls
 * callback(ifeature, 0, dataset().select(samples, ifeature, buffer)) once, and the selected values hold one entry per
 * sample -- which is the precondition fvalues.size == samples.size() of the callback contracts above. */
struct nv_dataset { int32_t dummy; };
struct nv_iter { const struct nv_dataset* dataset; };          /* select_iterator_t */
int64_t nv_il_count, nv_il_feature; int32_t nv_il_kind; const struct nv_dataset* nv_il_dataset; struct nv_t1i nv_il_samples;
static struct nv_iter nv_iter_make(const struct nv_dataset* d) { struct nv_iter it; it.dataset = d; return it; }
static void nv_iter_loop(const struct nv_iter* it, struct nv_t1i samples, int64_t feature, int32_t kind)
{ nv_il_count = nv_il_count + 1; nv_il_dataset = it->dataset; nv_il_samples = samples; nv_il_feature = feature; nv_il_kind = kind; }
#define NV_OUTER_CONTRACT(kind) \
__CPROVER_requires(__CPROVER_is_fresh(dataset, sizeof(*dataset)) && __CPROVER_is_fresh(samples, sizeof(*samples)) && __CPROVER_is_fresh(op, sizeof(*op)) && nv_il_count == 0) \
__CPROVER_assigns(nv_il_count, nv_il_feature, nv_il_kind, nv_il_dataset, nv_il_samples) \
__CPROVER_ensures(nv_il_count == 1 && nv_il_kind == (kind) && nv_il_dataset == dataset && nv_il_feature == feature) \
__CPROVER_ensures(nv_il_samples.p == samples->p && nv_il_samples.n == samples->n)
#define NV_CONTRACT_loop_scalar NV_OUTER_CONTRACT(0)
#define NV_CONTRACT_loop_sclass NV_OUTER_CONTRACT(1)
#define NV_CONTRACT_loop_mclass NV_OUTER_CONTRACT(2)
#endif
