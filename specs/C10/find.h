/* C10: nano::find(hashes, value) for single-label values (include/nano/dataset/hash.h), the look-up used by both
 * table_wlearner_t::do_predict and do_split.  Proved here what table.h assumes about it (result -1 or a position in
 * range) and more: a hit is the position of the value's hash; a miss means the hash is not among the (sorted) hashes. */
#include "types.h"
struct nv_t1u { uint64_t* p; int64_t n; };
#define NV_T1U_OK(t) ((t).n >= 0 && (t).n <= NV_MAXN && __CPROVER_is_fresh((t).p, ((t).n > 0 ? (t).n : 1) * sizeof(uint64_t)))
int64_t nv_g;
/* ASSUMED contract of std::lower_bound(first, last, val) on a range sorted ascending (hashes are produced sorted and
 * unique by make_hashes, src/dataset/hash.cpp): returns the partition point; stated at the ghost position nv_g, with
 * sortedness stated between the returned position and nv_g. */
static const uint64_t* nv_lower_bound_u64(const uint64_t* first, const uint64_t* last, uint64_t val)
{
  int64_t n = last - first, idx = nv_nondet_int64_t();
  __CPROVER_assume(0 <= idx && idx <= n);
  if (0 <= nv_g && nv_g < n)
  {
    __CPROVER_assume((nv_g < idx) ? (first[nv_g] < val) : !(first[nv_g] < val));
    if (idx < n && idx <= nv_g) __CPROVER_assume(first[idx] <= first[nv_g]);
  }
  if (idx < n) __CPROVER_assume(!(first[idx] < val));   /* the element at the returned position is not less than val */
  return first + idx;
}
/* the spec function of hash() for single-label values: the label itself (hash.h: static_cast<uint64_t>(values)) */
#define NV_HASH_SCLASS(v) ((uint64_t)(v))
#define NV_CONTRACT_find_sclass \
__CPROVER_requires(__CPROVER_is_fresh(hashes, sizeof(*hashes)) && NV_T1U_OK(*hashes) && __CPROVER_is_fresh(values, sizeof(*values)) && 0 <= nv_g && nv_g < hashes->n) \
/* callers pass given labels only: loop_sclass invokes its callback only for value >= 0 (proved: loop_sclass_body), \
 * table.cpp cache_t::update calls find only for valid (>= 0) labels */ \
__CPROVER_requires(*values >= 0) \
__CPROVER_assigns() \
__CPROVER_ensures(__CPROVER_return_value == -1 || (0 <= __CPROVER_return_value && __CPROVER_return_value < hashes->n)) \
__CPROVER_ensures(__CPROVER_return_value >= 0 ==> hashes->p[__CPROVER_return_value] == NV_HASH_SCLASS(*values)) \
__CPROVER_ensures(__CPROVER_return_value == -1 ==> hashes->p[nv_g] != NV_HASH_SCLASS(*values))
