/* C10: dtree_wlearner_t::do_fit (src/wlearner/dtree.cpp) -- NOT the optimality of the fitted tree (the stump fits are opaque),
 * but the STRUCTURE it stores, which dtree.h assumes as the representation invariant of m_nodes / m_tables:
 *   nodes are appended in sibling pairs (so pair positions are the even positions); for the pair at the ghost even position
 *   nv_K of the stored tree:  both members are leaves or both are inner nodes;  a leaf pair carries two consecutive rows
 *   of m_tables (m_table, m_table + 1 < size<0>()), filled from rows 0 and 1 of the stump fitted for that pair, in this order;
 *   an inner member's m_next is the (even, later, in range) position of the pair fitted on its side of the split;
 *   both members carry the feature and threshold of the same stump.
 *   => a tree that stops at depth 1 stores the stump's feature, threshold and its two tables in the stump's order at rows 0, 1.
 * Abstractions: std::vector<dtree_node_t> -> its size plus the two nodes of the ghost pair; std::deque<cache_t> -> its size
 * plus the position of the root entry and of the entries that will link the two members of the ghost pair; tensors ->
 * identity and first dimension; the stump learner -> opaque fit result (score, feature, threshold, a 2-row table tensor). */
#include "wl.h"
struct nv_node { int64_t m_feature; double m_threshold; uint64_t m_next; int64_t m_table; };       /* dtree_node_t */
struct nv_nodesg { uint64_t n; struct nv_node a, b; };         /* dtree_nodes_t: size, node nv_K, node nv_K + 1 */
struct nv_ixn { int64_t n; };                                  /* indices_t: size only */
struct nv_cache { struct nv_ixn m_samples; int64_t m_depth; uint64_t m_parent; };                  /* cache_t (m_table is never used) */
struct nv_cq { uint64_t n; _Bool root_has; _Bool a_has; uint64_t a_pos; int64_t a_depth; _Bool b_has; uint64_t b_pos; int64_t b_depth; };
struct nv_stumpobj { int64_t m_feature; struct nv_t4 m_tables; double m_threshold; int64_t fits; };  /* stump_wlearner_t */
struct nv_clu { int64_t samples, groups; };
struct nv_t3v { int64_t tensor, row; };                        /* tensor.tensor(i): one row of a rank-4 tensor */
struct nv_dtree_fit { struct nv_nodesg m_nodes; struct nv_t4 m_tables; struct nv_ixn m_features; };
union nv_bits { double d; uint64_t u; };
#define NV_IDENT(a, b) (((union nv_bits){ .d = (a) }).u == ((union nv_bits){ .d = (b) }).u)

uint64_t nv_K;                      /* the ghost pair position (even) */
struct nv_node nv_node_other;       /* every node outside the ghost pair */
_Bool nv_fbad;
/* ghost: which stump fit created the ghost pair, with which feature / threshold / table tensor; which rows of `tables` its
 * two leaf tables went to, and from which stump rows they were copied */
int64_t nv_pair_fit; int64_t nv_pair_feature; double nv_pair_threshold; int64_t nv_pair_tables;
uint64_t nv_last_push; int64_t nv_ta_idx, nv_ta_row, nv_ta_src, nv_tb_idx, nv_tb_row, nv_tb_src;
_Bool nv_stored;

static int64_t nv_min_i64(int64_t a, int64_t b) { return (b < a) ? b : a; }     /* std::min */
/* ---- parameters, logging, the stump prototype: opaque */
static int64_t nv_param_max_depth(void) { int64_t v = nv_nondet_int64_t(); __CPROVER_assume(1 <= v && v <= 10); return v; }   /* registered domain [1, 10] */
static int64_t nv_param_min_split(void) { int64_t v = nv_nondet_int64_t(); __CPROVER_assume(1 <= v && v <= 10); return v; }   /* registered domain [1, 10] */
static int32_t nv_param_criterion(void) { return nv_nondet_int32_t(); }
#define NV_NO_FIT 1.7976931348623157e308                          /* wlearner_t::no_fit_score() = numeric_limits<double>::max() */
/* ASSUMED contract of stump_wlearner_t::fit / feature / threshold / tables / split: a fit either fails (no_fit_score) or
 * stores a feature, a threshold and a tables tensor with 2 rows (stump.h: cat_dims(2, tdims)); split() has 2 groups */
static struct nv_stumpobj nv_stump_make(void) { struct nv_stumpobj s; s.m_feature = -1; s.m_threshold = 0; s.m_tables.id = 0; s.m_tables.rows = 0; s.fits = 0; return s; }
static double nv_stump_fit(struct nv_stumpobj* s)
{
  double score = nv_nondet_double();
  if (s->fits < NV_MAXN) s->fits = s->fits + 1;
  if (score != NV_NO_FIT) { s->m_feature = nv_nondet_int64_t(); s->m_threshold = nv_nondet_double(); s->m_tables.id = nv_nondet_int64_t(); s->m_tables.rows = 2; }
  return score;
}
static struct nv_clu nv_stump_split_fit(const struct nv_stumpobj* s, const struct nv_dataset* d) { struct nv_clu c; c.samples = d->samples; c.groups = 2; return c; }
static struct nv_ixn nv_clu_indices_n(const struct nv_clu* c, int64_t group)
{
  __CPROVER_assert(0 <= group && group < c->groups, "cluster.indices(group): group in range");
  struct nv_ixn r; r.n = nv_nondet_int64_t(); __CPROVER_assume(0 <= r.n && r.n <= c->samples); return r;
}
static struct nv_t3v nv_t4_tensor(const struct nv_t4* t, int64_t i)
{
  __CPROVER_assert(0 <= i && i < t->rows, "tensor.tensor(i): first index in range");
  struct nv_t3v r; r.tensor = t->id; r.row = i; return r;
}
/* cat_dims(n, dims): the first dimension is n; tensor4d_t{dims}: a new tensor with that first dimension */
static int64_t nv_cat_dims0(int64_t first) { return first; }
static struct nv_t4 nv_t4_make(int64_t rows) { struct nv_t4 t; t.id = nv_nondet_int64_t(); t.rows = rows; return t; }
/* ASSUMED contract of the file-local append(tables, table): the old rows stay where they are, the new one is the last */
static void nv_append(struct nv_t4* tables, struct nv_t3v src)
{
  if (nv_last_push == nv_K) { nv_ta_idx = tables->rows; nv_ta_row = src.row; nv_ta_src = src.tensor; }
  if (nv_last_push == nv_K + 1) { nv_tb_idx = tables->rows; nv_tb_row = src.row; nv_tb_src = src.tensor; }
  __CPROVER_assume(tables->rows < NV_MAXN);
  tables->rows = tables->rows + 1;
}
static struct nv_ixn nv_unique_features(const struct nv_nodesg* nodes) { struct nv_ixn r; r.n = nv_nondet_int64_t(); __CPROVER_assume(0 <= r.n); return r; }

/* ---- std::vector<dtree_node_t> at the ghost pair */
static struct nv_node* nv_ng_at(struct nv_nodesg* v, uint64_t k)
{
  __CPROVER_assert(k < v->n, "nodes[k]: index in range");
  return (k == nv_K) ? &v->a : (k == nv_K + 1) ? &v->b : &nv_node_other;
}
static void nv_ng_push(struct nv_nodesg* v, const struct nv_node* node, const struct nv_stumpobj* stump)
{
  if (v->n == nv_K) { v->a = *node; nv_pair_fit = stump->fits; nv_pair_feature = stump->m_feature; nv_pair_threshold = stump->m_threshold; nv_pair_tables = stump->m_tables.id; }
  if (v->n == nv_K + 1) v->b = *node;
  nv_last_push = v->n;
  __CPROVER_assume(v->n < ((uint64_t)1 << 62));       /* ASSUMED: below max_size() */
  v->n = v->n + 1;
}
/* ---- std::deque<cache_t>, ASSUMED FIFO.  Queue invariant by assume-guarantee: every entry but the root was pushed right
 * after the node it refers to (asserted at push_back), hence refers to an existing node and no two entries to the same one:
 * an entry that is not one of the two followed ones does not refer to a member of the ghost pair. */
static void nv_cq_push_root(struct nv_cq* q, const struct nv_ixn* samples)
{
  if (q->n != 0) nv_fbad = 1;
  q->root_has = 1; q->n = q->n + 1;
}
static void nv_cq_push(struct nv_cq* q, const struct nv_cache* c, const struct nv_nodesg* nodes)
{
  __CPROVER_assert(nodes->n > 0 && c->m_parent == nodes->n - 1, "dtree fit: a queued cache refers to the node appended just before");
  __CPROVER_assert(0 <= c->m_depth && c->m_depth <= NV_MAXN, "dtree fit: the depth of a queued cache is bounded (by max_depth)");
  if (c->m_parent == nv_K) { if (q->a_has) nv_fbad = 1; q->a_has = 1; q->a_pos = q->n; q->a_depth = c->m_depth; }
  if (c->m_parent == nv_K + 1) { if (q->b_has) nv_fbad = 1; q->b_has = 1; q->b_pos = q->n; q->b_depth = c->m_depth; }
  __CPROVER_assume(q->n < ((uint64_t)1 << 62));
  q->n = q->n + 1;
}
static struct nv_cache nv_cq_front(const struct nv_cq* q, const struct nv_nodesg* nodes)
{
  __CPROVER_assert(q->n > 0, "deque::front: the deque is not empty");
  struct nv_cache c; c.m_samples.n = nv_nondet_int64_t(); __CPROVER_assume(0 <= c.m_samples.n && c.m_samples.n <= NV_MAXN);
  if (q->root_has) { c.m_parent = 0; c.m_depth = 0; }
  else if (q->a_has && q->a_pos == 0) { c.m_parent = nv_K; c.m_depth = q->a_depth; }
  else if (q->b_has && q->b_pos == 0) { c.m_parent = nv_K + 1; c.m_depth = q->b_depth; }
  else
  {
    c.m_parent = nv_nondet_uint64_t(); c.m_depth = nv_nondet_int64_t();
    __CPROVER_assume(c.m_parent < nodes->n && c.m_parent != nv_K && c.m_parent != nv_K + 1 && 0 <= c.m_depth && c.m_depth <= NV_MAXN);
  }
  return c;
}
static void nv_cq_pop(struct nv_cq* q)
{
  __CPROVER_assert(q->n > 0, "deque::pop_front: the deque is not empty");
  if (q->root_has) q->root_has = 0;
  else if (q->a_has && q->a_pos == 0) q->a_has = 0;
  else if (q->b_has && q->b_pos == 0) q->b_has = 0;
  if (q->a_has) q->a_pos = q->a_pos - 1;
  if (q->b_has) q->b_pos = q->b_pos - 1;
  q->n = q->n - 1;
}
/* m_nodes = std::move(nodes) etc.: the members take the values of the locals */
static void nv_nodes_store(struct nv_nodesg* dst, const struct nv_nodesg* src) { *dst = *src; nv_stored = 1; }

/* ---- the structure of one pair */
#define NV_EVEN(k) (((k) & 1) == 0)
#define NV_LEAF_PAIR(v, rows) ((v).a.m_next == 0 && (v).b.m_next == 0 && 0 <= (v).a.m_table && (v).a.m_table < (rows) && (rows) <= NV_MAXN && (v).b.m_table == (v).a.m_table + 1 && (v).b.m_table < (rows) \
  && nv_ta_idx == (v).a.m_table && nv_ta_row == 0 && nv_ta_src == nv_pair_tables && nv_tb_idx == (v).b.m_table && nv_tb_row == 1 && nv_tb_src == nv_pair_tables)
#define NV_LINKED(x, v) ((x).m_next != 0 && NV_EVEN((x).m_next) && (x).m_next > nv_K && (x).m_next < (v).n && (v).n - (x).m_next >= 2)
#define NV_SAME_STUMP(v) ((v).a.m_feature == nv_pair_feature && (v).b.m_feature == nv_pair_feature \
  && NV_IDENT((v).a.m_threshold, nv_pair_threshold) && NV_IDENT((v).b.m_threshold, nv_pair_threshold))
/* the stored tree, at the ghost pair: the representation invariant assumed in dtree.h (NV_REP_AT; pair positions = even) */
#define NV_REP_STORED(v, rows) (NV_EVEN((v).n) && ((nv_K < (v).n) ==> (NV_SAME_STUMP(v) \
  && (NV_LEAF_PAIR(v, rows) || ((v).a.m_table == -1 && (v).b.m_table == -1 && NV_LINKED((v).a, v) && NV_LINKED((v).b, v))))))
/* ... while the tree is being grown: an inner member is linked, or the cache that will link it is in the queue */
#define NV_PENDING_OR_LINKED(x, has, pos, v, q) ((has) ? ((x).m_next == 0 && (pos) < (q).n) : NV_LINKED(x, v))
#define NV_GROWING_PAIR(v, rows, q) ((NV_LEAF_PAIR(v, rows) && !(q).a_has && !(q).b_has) \
      || ((v).a.m_table == -1 && (v).b.m_table == -1 && NV_PENDING_OR_LINKED((v).a, (q).a_has, (q).a_pos, v, q) && NV_PENDING_OR_LINKED((v).b, (q).b_has, (q).b_pos, v, q)))

#define NV_CONTRACT_dtree_do_fit \
__CPROVER_requires(__CPROVER_is_fresh(self, sizeof(*self)) && __CPROVER_is_fresh(dataset, sizeof(*dataset)) && __CPROVER_is_fresh(samples, sizeof(*samples)) \
  && __CPROVER_is_fresh(gradients, sizeof(*gradients)) && 0 <= dataset->samples && dataset->samples <= NV_MAXN && 0 <= samples->n && samples->n <= NV_MAXN) \
__CPROVER_requires(NV_EVEN(nv_K) && nv_K < ((uint64_t)1 << 61) && !nv_fbad && !nv_stored) \
__CPROVER_assigns(self->m_nodes, self->m_tables, self->m_features, nv_node_other, nv_fbad, nv_pair_fit, nv_pair_feature, nv_pair_threshold, nv_pair_tables, \
  nv_last_push, nv_ta_idx, nv_ta_row, nv_ta_src, nv_tb_idx, nv_tb_row, nv_tb_src, nv_stored) \
__CPROVER_ensures(!nv_fbad) \
/* the members are replaced exactly when a tree was fitted */ \
__CPROVER_ensures(nv_stored == (__CPROVER_return_value != NV_NO_FIT)) \
/* .3 the stored tree satisfies the representation invariant at the ghost pair; it is not empty */ \
__CPROVER_ensures(nv_stored ==> (self->m_nodes.n >= 2 && NV_REP_STORED(self->m_nodes, self->m_tables.rows))) \
/* .4 depth 1 (the root pair is a leaf pair): the stump's tables 0 and 1 are rows 0 and 1 of m_tables */ \
__CPROVER_ensures((nv_stored && nv_K == 0 && self->m_nodes.a.m_next == 0) ==> (self->m_nodes.a.m_table == 0 && self->m_nodes.b.m_table == 1))

#define NV_FIT_GHOST nv_node_other, nv_fbad, nv_pair_fit, nv_pair_feature, nv_pair_threshold, nv_pair_tables, nv_last_push, nv_ta_idx, nv_ta_row, nv_ta_src, nv_tb_idx, nv_tb_row, nv_tb_src
#define NV_LOOP_dtree_do_fit_1 \
__CPROVER_assigns(score, nodes, tables.rows, stump, caches, NV_FIT_GHOST) \
__CPROVER_loop_invariant(!nv_fbad && !nv_stored && 0 <= tables.rows && tables.rows <= NV_MAXN && NV_EVEN(nodes.n)) \
__CPROVER_loop_invariant((nv_K >= nodes.n ==> (!caches.a_has && !caches.b_has)) && ((caches.a_has && caches.b_has) ==> caches.b_pos == caches.a_pos + 1)) \
__CPROVER_loop_invariant(nv_K < nodes.n ==> NV_SAME_STUMP(nodes)) \
__CPROVER_loop_invariant(nv_K < nodes.n ==> NV_GROWING_PAIR(nodes, tables.rows, caches)) \
__CPROVER_loop_invariant((nodes.n == 0) == (caches.root_has != 0)) \
__CPROVER_loop_invariant(caches.root_has ==> (caches.n == 1 && tables.rows == 0)) \
__CPROVER_loop_invariant(caches.n > 0 || nodes.n >= 2) \
__CPROVER_loop_invariant((nv_K == 0 && nodes.n > 0 && nodes.a.m_table >= 0) ==> nodes.a.m_table == 0) \
__CPROVER_loop_invariant((caches.a_has ==> (0 <= caches.a_depth && caches.a_depth < max_depth)) && (caches.b_has ==> (0 <= caches.b_depth && caches.b_depth < max_depth)))
/* loop 2: the leaf pair is appended, one node and one table per stump row */
#define NV_LOOP_dtree_do_fit_2 \
__CPROVER_assigns(i, node.m_table, nodes, tables.rows, NV_FIT_GHOST) \
__CPROVER_loop_invariant(0 <= i && i <= size && size == 2 && nodes.n == __CPROVER_loop_entry(nodes.n) + (uint64_t)i && tables.rows == __CPROVER_loop_entry(tables.rows) + i && tables.rows <= NV_MAXN && !nv_fbad) \
__CPROVER_loop_invariant(__CPROVER_loop_entry(nodes.n) != nv_K ==> (NV_IDENT_NODE(nodes.a, __CPROVER_loop_entry(nodes.a)) && NV_IDENT_NODE(nodes.b, __CPROVER_loop_entry(nodes.b)) \
   && nv_pair_fit == __CPROVER_loop_entry(nv_pair_fit) && nv_pair_feature == __CPROVER_loop_entry(nv_pair_feature) && NV_IDENT(nv_pair_threshold, __CPROVER_loop_entry(nv_pair_threshold)) \
   && nv_pair_tables == __CPROVER_loop_entry(nv_pair_tables) && nv_ta_idx == __CPROVER_loop_entry(nv_ta_idx) && nv_ta_row == __CPROVER_loop_entry(nv_ta_row) && nv_ta_src == __CPROVER_loop_entry(nv_ta_src) \
   && nv_tb_idx == __CPROVER_loop_entry(nv_tb_idx) && nv_tb_row == __CPROVER_loop_entry(nv_tb_row) && nv_tb_src == __CPROVER_loop_entry(nv_tb_src))) \
__CPROVER_loop_invariant((__CPROVER_loop_entry(nodes.n) == nv_K && i >= 1) ==> (nodes.a.m_next == 0 && nodes.a.m_table == __CPROVER_loop_entry(tables.rows) && nodes.a.m_feature == stump.m_feature \
   && NV_IDENT(nodes.a.m_threshold, stump.m_threshold) && nv_pair_feature == stump.m_feature && NV_IDENT(nv_pair_threshold, stump.m_threshold) && nv_pair_tables == stump.m_tables.id \
   && nv_ta_idx == nodes.a.m_table && nv_ta_row == 0 && nv_ta_src == stump.m_tables.id)) \
__CPROVER_loop_invariant((__CPROVER_loop_entry(nodes.n) == nv_K && i >= 2) ==> (nodes.b.m_next == 0 && nodes.a.m_table <= NV_MAXN && nodes.b.m_table == nodes.a.m_table + 1 && nodes.b.m_feature == stump.m_feature \
   && NV_IDENT(nodes.b.m_threshold, stump.m_threshold) && nv_tb_idx == nodes.b.m_table && nv_tb_row == 1 && nv_tb_src == stump.m_tables.id)) \
__CPROVER_decreases(size - i)
#define NV_IDENT_NODE(x, y) ((x).m_feature == (y).m_feature && NV_IDENT((x).m_threshold, (y).m_threshold) && (x).m_next == (y).m_next && (x).m_table == (y).m_table)
/* loop 3: the inner pair is appended, one node and one queued cache per side */
#define NV_LOOP_dtree_do_fit_3 \
__CPROVER_assigns(i, node.m_table, ncache.m_parent, ncache.m_samples, nodes, caches, NV_FIT_GHOST) \
__CPROVER_loop_invariant(0 <= i && i <= size && size == 2 && nodes.n == __CPROVER_loop_entry(nodes.n) + (uint64_t)i && caches.n == __CPROVER_loop_entry(caches.n) + (uint64_t)i && !nv_fbad \
   && caches.root_has == __CPROVER_loop_entry(caches.root_has) && ncache.m_depth == __CPROVER_loop_entry(ncache.m_depth)) \
__CPROVER_loop_invariant(__CPROVER_loop_entry(nodes.n) != nv_K ==> (NV_IDENT_NODE(nodes.a, __CPROVER_loop_entry(nodes.a)) && NV_IDENT_NODE(nodes.b, __CPROVER_loop_entry(nodes.b)) \
   && nv_pair_fit == __CPROVER_loop_entry(nv_pair_fit) && nv_pair_feature == __CPROVER_loop_entry(nv_pair_feature) && NV_IDENT(nv_pair_threshold, __CPROVER_loop_entry(nv_pair_threshold)) \
   && nv_pair_tables == __CPROVER_loop_entry(nv_pair_tables) && nv_ta_idx == __CPROVER_loop_entry(nv_ta_idx) && nv_ta_row == __CPROVER_loop_entry(nv_ta_row) && nv_ta_src == __CPROVER_loop_entry(nv_ta_src) \
   && nv_tb_idx == __CPROVER_loop_entry(nv_tb_idx) && nv_tb_row == __CPROVER_loop_entry(nv_tb_row) && nv_tb_src == __CPROVER_loop_entry(nv_tb_src) \
   && caches.a_has == __CPROVER_loop_entry(caches.a_has) && caches.a_pos == __CPROVER_loop_entry(caches.a_pos) && caches.b_has == __CPROVER_loop_entry(caches.b_has) && caches.b_pos == __CPROVER_loop_entry(caches.b_pos) \
   && caches.a_depth == __CPROVER_loop_entry(caches.a_depth) && caches.b_depth == __CPROVER_loop_entry(caches.b_depth))) \
__CPROVER_loop_invariant((__CPROVER_loop_entry(nodes.n) == nv_K && i == 0) ==> (!caches.a_has && !caches.b_has)) \
__CPROVER_loop_invariant((__CPROVER_loop_entry(nodes.n) == nv_K && i >= 1) ==> (nodes.a.m_next == 0 && nodes.a.m_table == -1 && nodes.a.m_feature == stump.m_feature \
   && NV_IDENT(nodes.a.m_threshold, stump.m_threshold) && nv_pair_feature == stump.m_feature && NV_IDENT(nv_pair_threshold, stump.m_threshold) && nv_pair_tables == stump.m_tables.id \
   && caches.a_has && caches.a_pos == __CPROVER_loop_entry(caches.n) && caches.a_depth == ncache.m_depth && (i == 1 ==> !caches.b_has))) \
__CPROVER_loop_invariant((__CPROVER_loop_entry(nodes.n) == nv_K && i >= 2) ==> (nodes.b.m_next == 0 && nodes.b.m_table == -1 && nodes.b.m_feature == stump.m_feature \
   && NV_IDENT(nodes.b.m_threshold, stump.m_threshold) && caches.b_has && caches.b_pos == __CPROVER_loop_entry(caches.n) + 1 && caches.b_depth == ncache.m_depth)) \
__CPROVER_decreases(size - i)
