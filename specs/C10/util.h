/* C10: src/wlearner/util.cpp  scale / merge  and  single_feature_wlearner_t::scale
 *   "scale(s) multiplies predictions by s (per group); merging a list of learners leaves the sum of their predictions
 *    unchanged". */
#include "wl.h"
struct nv_sfw { int64_t m_feature; struct nv_t4 m_tables; };    /* single_feature_wlearner_t */
static int64_t nv_min_i64(int64_t a, int64_t b) { return (b < a) ? b : a; }     /* std::min */

/* ---- scale(tables, scale): the row view tables.array(i) is multiplied in place by a scalar (Eigen `*=`, recorded) */
int64_t nv_sc_count_g; double nv_sc_factor_g; _Bool nv_sc_bad; int64_t nv_sc_tensor, nv_sc_rows;
static void nv_row_scale(const struct nv_row* r, double factor)
{
  if (r->tensor != nv_sc_tensor || !(0 <= r->row && r->row < nv_sc_rows)) nv_sc_bad = 1;
  if (r->row == nv_g) { nv_sc_count_g = nv_sc_count_g + 1; nv_sc_factor_g = factor; }
}
/* the factor the property prescribes for group g: the single scale if one-dimensional, else the g-th */
#define NV_SCALE_OF(s, g) ((s).p[(s).n == 1 ? 0 : (g)])
/* precondition = the function's own assert (scale.size() == 1 || scale.size() == tables.size<0>()); callers:
 * gboost/model.cpp passes one factor per split group of the learner or a single factor */
#define NV_SCALE_REQ(t) \
__CPROVER_requires(__CPROVER_is_fresh(scale, sizeof(*scale)) && NV_T1D_OK(*scale) && (scale->n == 1 || scale->n == (t).rows)) \
__CPROVER_requires(0 <= nv_g && nv_g < (t).rows && nv_sc_count_g == 0 && !nv_sc_bad && nv_sc_tensor == (t).id && nv_sc_rows == (t).rows)
#define NV_SCALE_ENS(t) \
__CPROVER_assigns(nv_sc_count_g, nv_sc_factor_g, nv_sc_bad) \
__CPROVER_ensures(!nv_sc_bad && nv_sc_count_g == 1 && NV_SAME(nv_sc_factor_g, NV_SCALE_OF(*scale, nv_g)))
#define NV_CONTRACT_wl_scale __CPROVER_requires(__CPROVER_is_fresh(tables, sizeof(*tables))) NV_SCALE_REQ(*tables) NV_SCALE_ENS(*tables)
#define NV_LOOP_wl_scale_1 \
__CPROVER_assigns(i, nv_sc_count_g, nv_sc_factor_g, nv_sc_bad) \
__CPROVER_loop_invariant(0 <= i && i <= tables->rows && !nv_sc_bad && nv_sc_count_g == ((nv_g < i) ? 1 : 0)) \
__CPROVER_loop_invariant(nv_sc_count_g == 1 ==> NV_SAME(nv_sc_factor_g, NV_SCALE_OF(*scale, nv_g))) \
__CPROVER_decreases(tables->rows - i)
/* single_feature_wlearner_t::scale(scale): the same statement about the learner's own tables */
#define NV_CONTRACT_sfw_scale __CPROVER_requires(__CPROVER_is_fresh(self, sizeof(*self))) NV_SCALE_REQ(self->m_tables) NV_SCALE_ENS(self->m_tables)

/* ---- merge(wlearners): rwlearners_t = std::vector<std::unique_ptr<wlearner_t>> as a real array of slots.
 * Followed through the call: the predictions of ONE learner, the one at ghost position nv_g (non-null on entry).
 *   nv_owner = position of the slot whose learner currently contains those predictions (initially nv_g). */
struct nv_wl { int64_t id; };                                   /* a slot: null (0) / the learner with identity id != 0 */
#define NV_NONNULL(e) ((e).id != 0)
struct nv_wvec { struct nv_wl* p; uint64_t n; };
struct nv_wl* nv_base; int64_t nv_n0;     /* ghost: the vector's storage and size on entry (nv_base is only compared / subtracted, never dereferenced:
                                           * CBMC's points-to sets do not learn from an assumed pointer equality) */
int64_t nv_owner, nv_owner_id;
_Bool   nv_mbad;          /* protocol violation seen (see the stubs) */
int64_t nv_succ_other;    /* position of `other` of the most recent try_merge if it succeeded, else -1 */
int64_t nv_kept_pos;      /* position of the owner's slot after remove_if (-1: it was removed) */
struct nv_wl* nv_rm_result; _Bool nv_rm_called, nv_erase_called;

/* Contract of the virtual wlearner_t::try_merge(other), PROVED for every implementation in trymerge.h (targets base_try_merge,
 * sfw_do_try_merge, table_try_merge, affine_try_merge; only the virtual dispatch is assumed) (include/nano/wlearner.h: "returns true if it is possible
 * to merge in-place ... so that the merged weak learner is equivalent with the sum of the two"): on success *this now
 * also contains whatever `other` contained; every implementation returns false for a null `other` (dynamic_cast of
 * nullptr in table.cpp / affine.cpp, constant false in wlearner.cpp).  Checked here: called through a non-null slot,
 * only with an EARLIER slot as the receiver. */
static _Bool nv_try_merge(struct nv_wl* self, const struct nv_wl* other)
{
  int64_t i = self - nv_base, j = other - nv_base;
  __CPROVER_assert(NV_NONNULL(*self), "merge: try_merge is called through a non-null learner");
  if (!(0 <= i && i < j && j < nv_n0)) nv_mbad = 1;
  _Bool ok = nv_nondet__Bool();
  if (!NV_NONNULL(*other)) ok = 0;
  nv_succ_other = ok ? j : -1;
  if (ok && nv_owner == j) { nv_owner = i; nv_owner_id = self->id; }
  return ok;
}
/* wlearners[j] = nullptr: allowed only right after the successful try_merge that absorbed exactly this slot */
static void nv_wl_reset(struct nv_wl* e)
{
  int64_t j = e - nv_base;
  if (j != nv_succ_other || j == nv_owner) nv_mbad = 1;
  nv_succ_other = -1;
  e->id = 0;
}
_Bool merge_pred(struct nv_wl* wlearner);
/* ASSUMED contract of std::remove_if(first, last, pred), stated for the tracked slot only: a slot for which pred is
 * false is kept (moved to a position kp not after its old one, inside the returned range), relative order of kept
 * slots unchanged (not used); a slot for which pred is true is removed.  pred is the REAL extracted lambda. */
static struct nv_wl* nv_remove_if(struct nv_wl* first, struct nv_wl* last)
{
  int64_t n = last - first, kept = nv_nondet_int64_t(), kp = nv_nondet_int64_t();
  __CPROVER_assume(0 <= kept && kept <= n);
  __CPROVER_assert(first == nv_base && n == nv_n0, "merge: remove_if runs over the whole vector");
  nv_rm_called = 1; nv_kept_pos = -1;
  if (0 <= nv_owner && nv_owner < n)
  {
    struct nv_wl e = first[nv_owner];
    if (!merge_pred(&first[nv_owner]))
    {
      __CPROVER_assume(0 <= kp && kp <= nv_owner && kp < kept);
      first[kp] = e; nv_kept_pos = kp;
    }
  }
  nv_rm_result = first + kept;
  return nv_rm_result;
}
/* ASSUMED contract of std::vector::erase(first, end()): the size becomes first - begin(), slots before first unchanged */
static struct nv_wl* nv_wvec_erase(struct nv_wvec* v, struct nv_wl* first, struct nv_wl* last)
{
  __CPROVER_assert(nv_rm_called && first == nv_rm_result, "merge: erase starts at the iterator returned by remove_if");
  __CPROVER_assert(last == v->p + v->n, "merge: erase ends at end()");
  v->n = (uint64_t)(first - v->p); nv_erase_called = 1;
  return first;
}
#define NV_WVEC_OK(v) (__CPROVER_is_fresh(v, sizeof(*(v))) && (v)->n <= NV_MAXN && __CPROVER_is_fresh((v)->p, ((v)->n > 0 ? (v)->n : 1) * sizeof(struct nv_wl)))
/* merge: (1) a slot is nulled only right after a successful try_merge into an earlier, non-null slot (!nv_mbad);
 * (2) the learner holding the predictions of learner nv_g survives: it is in the final vector, non-null, at a position
 *     not after its old one; (3) the vector does not grow; erase removes exactly the tail returned by remove_if over the
 *     whole vector with the predicate "slot is null" (the extracted lambda). */
#define NV_CONTRACT_wl_merge \
__CPROVER_requires(NV_WVEC_OK(wlearners) && nv_base == wlearners->p && nv_n0 == (int64_t)wlearners->n) \
__CPROVER_requires(0 <= nv_g && nv_g < nv_n0 && NV_NONNULL(wlearners->p[nv_g]) && nv_owner == nv_g && nv_owner_id == wlearners->p[nv_g].id) \
__CPROVER_requires(!nv_mbad && nv_succ_other == -1 && !nv_rm_called && !nv_erase_called) \
__CPROVER_assigns(wlearners->n, __CPROVER_object_whole(wlearners->p), nv_owner, nv_owner_id, nv_mbad, nv_succ_other, nv_kept_pos, nv_rm_result, nv_rm_called, nv_erase_called) \
__CPROVER_ensures(!nv_mbad && nv_rm_called && nv_erase_called && wlearners->p == nv_base && (int64_t)wlearners->n <= nv_n0) \
__CPROVER_ensures(0 <= nv_kept_pos && nv_kept_pos < (int64_t)wlearners->n && nv_kept_pos <= nv_owner && nv_owner <= nv_g) \
__CPROVER_ensures(nv_owner_id != 0 && wlearners->p[nv_kept_pos].id == nv_owner_id)
#define NV_MERGE_INV (wlearners->p == nv_base && (int64_t)wlearners->n == nv_n0 && !nv_mbad && !nv_rm_called && !nv_erase_called \
  && 0 <= nv_owner && nv_owner <= nv_g && nv_owner_id != 0 && wlearners->p[nv_owner].id == nv_owner_id)
#define NV_LOOP_wl_merge_1 \
__CPROVER_assigns(i, __CPROVER_object_whole(wlearners->p), nv_owner, nv_owner_id, nv_mbad, nv_succ_other) \
__CPROVER_loop_invariant(i <= wlearners->n && NV_MERGE_INV && nv_succ_other == -1) \
__CPROVER_decreases(wlearners->n - i)
#define NV_LOOP_wl_merge_2 \
__CPROVER_assigns(j, merged, __CPROVER_object_whole(wlearners->p), nv_owner, nv_owner_id, nv_mbad, nv_succ_other) \
__CPROVER_loop_invariant(i < j && j <= wlearners->n && NV_MERGE_INV && NV_NONNULL(wlearners->p[i]) && nv_succ_other == -1) \
__CPROVER_decreases(wlearners->n - j)
