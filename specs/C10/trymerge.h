/* C10: the try_merge implementations behind wlearner::merge (util.h assumes their contract):
 *   "merging a list of learners leaves the sum of their predictions unchanged"
 * => try_merge(other) may succeed ONLY if *this and *other predict through the same partition of the feature values:
 *    same dynamic family (tables with tables, affine with affine), same feature, same coefficient shape, and for the
 *    tables the SAME hashes and the SAME hash -> table assignment, element by element;
 *    on success the coefficients are summed element-wise (and nothing else changes), on refusal nothing changes; `other`
 *    is never written.  wlearner_t::try_merge (inherited by stump, hinge and dtree) always refuses.
 * Model of a learner object: one struct for every class of the hierarchy plus a ghost tag for its dynamic type. */
#ifndef NV_C10_TRYMERGE_H
#define NV_C10_TRYMERGE_H
#include "types.h"
enum { NV_TAG_affine = 1, NV_TAG_stump, NV_TAG_hinge, NV_TAG_dense, NV_TAG_kbest, NV_TAG_ksplit, NV_TAG_dstep, NV_TAG_dtree };
/* dense / kbest / ksplit / dstep are the (final) classes derived from table_wlearner_t (include/nano/wlearner/table.h) */
#define NV_IS_TABLE(tag) ((tag) == NV_TAG_dense || (tag) == NV_TAG_kbest || (tag) == NV_TAG_ksplit || (tag) == NV_TAG_dstep)
#define NV_IS_AFFINE(tag) ((tag) == NV_TAG_affine)
#define NV_IS_SFW(tag) (NV_TAG_affine <= (tag) && (tag) <= NV_TAG_dstep)        /* everything but the tree derives from single_feature_wlearner_t */

/* tensor4d_t of coefficients, ghost-element model: the four dimensions plus ONE coefficient, the one at the ghost flat
 * position nv_ci (the same position in every tensor; it is meaningful for two tensors of equal dims) */
struct nv_dims4 { int64_t d0, d1, d2, d3; };
struct nv_t4m { struct nv_dims4 dims; double g; };
struct nv_vec { int64_t n; double* g; };                     /* tensor.vector(): Eigen::Map<[const] VectorXd> over all coefficients
                                                              * (a view of a const tensor is only ever read: nv_vec_add writes its first operand) */
struct nv_t1u { uint64_t* p; int64_t n; };                   /* hashes_t */
struct nv_wlobj { int32_t tag; int64_t m_feature; struct nv_t4m m_tables; struct nv_t1u m_hashes; struct nv_t1i m_hash2tables; };
struct nv_rwl { struct nv_wlobj* ptr; };                     /* rwlearner_t = std::unique_ptr<wlearner_t> */
union nv_bits { double d; uint64_t u; };
#define NV_IDENT(a, b) (((union nv_bits){ .d = (a) }).u == ((union nv_bits){ .d = (b) }).u)     /* the same bit pattern */

int64_t nv_kh, nv_kt;        /* ghost positions in hashes / hash2tables the element-wise statements are instantiated at */
int64_t nv_vadd_count;       /* ghost: number of Eigen `+=` executed on coefficient vectors */

/* ASSUMED: tensor::dims() is the member holding the dimensions; std::array == compares all of them; size() is a function of dims */
static _Bool nv_dims4_eq(const struct nv_dims4* a, const struct nv_dims4* b)
{ return a->d0 == b->d0 && a->d1 == b->d1 && a->d2 == b->d2 && a->d3 == b->d3; }
#define NV_DIMS_EQ(a, b) ((a).d0 == (b).d0 && (a).d1 == (b).d1 && (a).d2 == (b).d2 && (a).d3 == (b).d3)
int64_t __CPROVER_uninterpreted_size4(int64_t, int64_t, int64_t, int64_t);
#define NV_SIZE4(d) __CPROVER_uninterpreted_size4((d).d0, (d).d1, (d).d2, (d).d3)
static struct nv_vec nv_t4m_vector(const struct nv_t4m* t) { struct nv_vec v; v.n = NV_SIZE4(t->dims); v.g = (double*)&t->g; return v; }
/* ASSUMED (Eigen): `a += b` on two vector maps requires equal sizes (its own assert, an obligation here) and adds
 * coefficient by coefficient; only a is written */
static void nv_vec_add(const struct nv_vec* a, struct nv_vec b)
{
  __CPROVER_assert(a->n == b.n, "Eigen +=: both coefficient vectors have the same size");
  *a->g = NV_FADD(*a->g, *b.g);
  nv_vadd_count = nv_vadd_count + 1;
}
/* ASSUMED contract of the tensor operator== (include/nano/tensor/numeric.h: lhs.dims() == rhs.dims() && lhs.vector() ==
 * rhs.vector()): "true iff same dims and equal at every index", given at the ghost index: a `true` answer implies equal
 * sizes and equal elements at the ghost position */
static _Bool nv_t1u_eq(const struct nv_t1u* a, const struct nv_t1u* b)
{
  _Bool r = nv_nondet__Bool();
  if (a->n != b->n) r = 0;
  else if (0 <= nv_kh && nv_kh < a->n && a->p[nv_kh] != b->p[nv_kh]) r = 0;
  return r;
}
static _Bool nv_t1i_eq(const struct nv_t1i* a, const struct nv_t1i* b)
{
  _Bool r = nv_nondet__Bool();
  if (a->n != b->n) r = 0;
  else if (0 <= nv_kt && nv_kt < a->n && a->p[nv_kt] != b->p[nv_kt]) r = 0;
  return r;
}
/* ASSUMED contract of RTTI: dynamic_cast<const X*>(p) is null iff p is null or the dynamic type of *p (ghost tag) is not
 * X or derived from X; otherwise it is p */
static const struct nv_wlobj* nv_dyncast_table(const struct nv_wlobj* p) { return (p != NULL && NV_IS_TABLE(p->tag)) ? p : NULL; }
static const struct nv_wlobj* nv_dyncast_affine(const struct nv_wlobj* p) { return (p != NULL && NV_IS_AFFINE(p->tag)) ? p : NULL; }
static const struct nv_wlobj* nv_dyncast_sfw(const struct nv_wlobj* p) { return (p != NULL && NV_IS_SFW(p->tag)) ? p : NULL; }

#define NV_T1U_OK(t) ((t).n >= 0 && (t).n <= NV_MAXN && __CPROVER_is_fresh((t).p, ((t).n > 0 ? (t).n : 1) * sizeof(uint64_t)))
#define NV_WLOBJ_OK(o) (__CPROVER_is_fresh(o, sizeof(*(o))) && NV_T1U_OK((o)->m_hashes) && NV_T1I_OK((o)->m_hash2tables))
/* the receiver and the argument are different learners: merge() passes two distinct slots of a vector of unique_ptr */
#define NV_OTHER_OK(other) (__CPROVER_is_fresh(other, sizeof(*(other))) && ((other)->ptr == NULL || NV_WLOBJ_OK((other)->ptr)))

/* what a successful merge does, and what a refusal does: the coefficient at the ghost position */
#define NV_MERGED(self, othertables) (nv_vadd_count == 1 && NV_IDENT((self)->m_tables.g, NV_FADD(__CPROVER_old((self)->m_tables.g), (othertables).g)))
#define NV_UNMERGED(self) (nv_vadd_count == 0 && NV_IDENT((self)->m_tables.g, __CPROVER_old((self)->m_tables.g)))
/* frame of every try_merge: only the coefficients of *this (feature, dims, hashes, hash2tables, tag and all of `other`
 * are outside the assigns clause, so DFCC proves them unchanged) */
#define NV_TM_ASSIGNS(self) __CPROVER_assigns((self)->m_tables.g, nv_vadd_count)

/* single_feature_wlearner_t::do_try_merge(feature, tables): succeeds iff same feature and same dims */
#define NV_CONTRACT_sfw_do_try_merge \
__CPROVER_requires(__CPROVER_is_fresh(self, sizeof(*self)) && __CPROVER_is_fresh(tables, sizeof(*tables)) && nv_vadd_count == 0) \
NV_TM_ASSIGNS(self) \
__CPROVER_ensures(__CPROVER_return_value == (self->m_feature == feature && NV_DIMS_EQ(self->m_tables.dims, tables->dims))) \
__CPROVER_ensures(__CPROVER_return_value ==> NV_MERGED(self, *tables)) \
__CPROVER_ensures(!__CPROVER_return_value ==> NV_UNMERGED(self))

/* table_wlearner_t::try_merge(other) */
#define NV_SAME_AT(a, b, k) ((a).n == (b).n && ((0 <= (k) && (k) < (a).n) ==> (a).p[k] == (b).p[k]))
#define NV_CONTRACT_table_try_merge \
__CPROVER_requires(NV_WLOBJ_OK(self) && NV_IS_TABLE(self->tag) && NV_OTHER_OK(other) && nv_vadd_count == 0) \
NV_TM_ASSIGNS(self) \
/* .1 same family */ \
__CPROVER_ensures(__CPROVER_return_value ==> (other->ptr != NULL && NV_IS_TABLE(other->ptr->tag))) \
/* .2 same feature, same coefficient shape */ \
__CPROVER_ensures(__CPROVER_return_value ==> (self->m_feature == other->ptr->m_feature && NV_DIMS_EQ(self->m_tables.dims, other->ptr->m_tables.dims))) \
/* .3 the same labelings are known, .4 and they are assigned to the same tables (at the ghost positions) */ \
__CPROVER_ensures(__CPROVER_return_value ==> NV_SAME_AT(self->m_hashes, other->ptr->m_hashes, nv_kh)) \
__CPROVER_ensures(__CPROVER_return_value ==> NV_SAME_AT(self->m_hash2tables, other->ptr->m_hash2tables, nv_kt)) \
__CPROVER_ensures(__CPROVER_return_value ==> NV_MERGED(self, other->ptr->m_tables)) \
__CPROVER_ensures(!__CPROVER_return_value ==> NV_UNMERGED(self))

/* affine_wlearner_t::try_merge(other): h(x) = w * x + b on the same feature; the sum of two such maps is again one */
#define NV_CONTRACT_affine_try_merge \
__CPROVER_requires(NV_WLOBJ_OK(self) && NV_IS_AFFINE(self->tag) && NV_OTHER_OK(other) && nv_vadd_count == 0) \
NV_TM_ASSIGNS(self) \
__CPROVER_ensures(__CPROVER_return_value == (other->ptr != NULL && NV_IS_AFFINE(other->ptr->tag) && self->m_feature == other->ptr->m_feature \
  && NV_DIMS_EQ(self->m_tables.dims, other->ptr->m_tables.dims))) \
__CPROVER_ensures(__CPROVER_return_value ==> NV_MERGED(self, other->ptr->m_tables)) \
__CPROVER_ensures(!__CPROVER_return_value ==> NV_UNMERGED(self))

/* wlearner_t::try_merge(other): the default inherited by stump, hinge and dtree (none of them overrides it: checked on
 * the class declarations by the spec) never merges */
#define NV_CONTRACT_base_try_merge \
__CPROVER_requires(NV_WLOBJ_OK(self) && NV_OTHER_OK(nv_unnamed0) && nv_vadd_count == 0) \
__CPROVER_assigns() \
__CPROVER_ensures(!__CPROVER_return_value && nv_vadd_count == 0)
#endif
