"""C10 (a): accumulator_t::cluster() and table cache_t::score_ksplit under contract (back end A)"""
import astload
from core import Fn, Target

ACC_CPP = 'src/wlearner/accumulator.cpp'
CW = r'^Eigen::(ArrayWrapper|CwiseBinaryOp|CwiseUnaryOp)<'
CL_TYPES = [(r'^nano::wlearner::accumulator_t$', 'struct nv_clacc'),
            (r'^nano::tensor2d_t$|^nano::tensor_t<nano::tensor_vector_storage_t, double, 2>$', 'struct nv_c2'),
            (r'^nano::tensor5d_t$|^nano::tensor_t<nano::tensor_vector_storage_t, double, 5>$', 'struct nv_c5'),
            (r'^nano::tensor_mem_t<nano::tensor_size_t, 2>$|^nano::tensor_t<nano::tensor_vector_storage_t, long, 2>$', 'struct nv_cid'),
            (r'^Eigen::ArrayWrapper<Eigen::Map<Eigen::Matrix<long,', 'struct nv_idrow'),
            (CW, 'struct nv_cwv'),
            (r'^std::tuple<', 'struct nv_cret'),
            (r'^nano::tensor4d_dims_t$|^nano::tensor_dims_t<4>$|^tensor_dims_t<4UL>$|^std::array<long, 4', 'struct nv_dims4c')]
T2 = r'nano::tensor_(t<nano::tensor_vector_storage_t, double, 2>|base_t<double, 2)'
T5 = r'nano::tensor_(t<nano::tensor_vector_storage_t, double, 5>|base_t<double, 5)'
TI = r'nano::tensor_(t<nano::tensor_vector_storage_t, long, 2>|base_t<long, 2)'
CL_CALLS = [(r'^ctor\|nano::tensor_t<nano::tensor_vector_storage_t, double, 2>\|', 'nv_c2_make({0}, {1})'),
            (r'^ctor\|nano::tensor_t<nano::tensor_vector_storage_t, double, 5>\|', 'nv_c5_make({0}, {1})'),
            (r'^ctor\|nano::tensor_t<nano::tensor_vector_storage_t, long, 2>\|', 'nv_cid_make({0}, {1})'),
            (r'^operator\(\)\|.*\|' + T2, '(*nv_c2_at({&0}, {1}, {2}))'),
            (r'^operator\(\)\|.*\|' + TI, '(*nv_cid_at({&0}, {1}, {2}))'),
            (r'^operator=\|.*\|Eigen::ArrayWrapper<Eigen::Map<Eigen::Matrix<long,', 'nv_idrow_copy({0}, {1})'),
            (r'^operator(=|\+=)\|.*\|Eigen::(ArrayBase<Eigen::)?ArrayWrapper<Eigen::Map<Eigen::Matrix<double,', 'nv_cw_store({0}, {1})'),
            (r'^operator[-/]\|', 'nv_cw_op({0})'),
            (r'^max\|', '(1.7976931348623157e308)'),
            (r'^move\|', '{0}'), (r'^make_tuple\|', 'nv_cret_make({4})')]
CL_MEMBERS = [(r'^dims\|nano::tensor_base_t<double, 4', 'nv_clacc_dims({self})'),
              (r'^array\|' + T2 + r'.*\|#1$', 'nv_c2_row({self}, {0})'),
              (r'^array\|' + T5 + r'.*\|#1$', 'nv_c5_row({self}, {0})'),
              (r'^array\|' + T5 + r'.*\|#2$', 'nv_c5_row2({self}, {0}, {1})'),
              (r'^array\|' + TI + r'.*\|#1$', 'nv_cid_row({self}, {0})'),
              (r'^array\|nano::tensor_(t<nano::tensor_vector_storage_t, double, [14]>|base_t<double, [14]).*\|#0$', 'nv_cw_any()'),
              (r'^square\|', '{*self}'), (r'^sum\|', 'nv_nondet_double()')]


def cluster_fn():
    return Fn('acc_cluster', ACC_CPP, 'cluster', flt='accumulator_t::cluster', self_struct='struct nv_clacc', types=CL_TYPES, calls=CL_CALLS, members=CL_MEMBERS)


def cluster_target():
    return Target('acc_cluster', [cluster_fn()], 'specs/C10/cluster.h', cbmc_flags=['--sat-solver', 'cadical'], timeout=900)
