/* C10: wlearner::make_score(criterion, rss, k, n) (src/wlearner/criterion.cpp): the selection criterion every do_fit ranks
 * its candidates with.  Index discipline only: the residual sum of squares is clamped from below by 1e3 * epsilon (so that
 * the logarithms of the information criteria are defined) and handed, with k and n unchanged and in this order, to exactly the
 * formula the criterion names; the plain criterion returns the clamped rss itself.  AIC / AICc / BIC (include/nano/core/
 * stats.h) are uninterpreted: their values are not decided here. */
#include "nv_base.h"
#define NVE_wlearner_criterion_rss 0      /* pinned by static_asserts in drivers/inst_wlearner.cpp */
#define NVE_wlearner_criterion_aic 1
#define NVE_wlearner_criterion_aicc 2
#define NVE_wlearner_criterion_bic 3
union nv_bits { double d; uint64_t u; };
#define NV_IDENT(a, b) (((union nv_bits){ .d = (a) }).u == ((union nv_bits){ .d = (b) }).u)
double __CPROVER_uninterpreted_AIC(double, int64_t, int64_t);
double __CPROVER_uninterpreted_AICc(double, int64_t, int64_t);
double __CPROVER_uninterpreted_BIC(double, int64_t, int64_t);
static double nv_AIC(double rss, int64_t k, int64_t n) { return __CPROVER_uninterpreted_AIC(rss, k, n); }
static double nv_AICc(double rss, int64_t k, int64_t n) { return __CPROVER_uninterpreted_AICc(rss, k, n); }
static double nv_BIC(double rss, int64_t k, int64_t n) { return __CPROVER_uninterpreted_BIC(rss, k, n); }
static double nv_max_d(double a, double b) { return (a < b) ? b : a; }          /* std::max(a, b) */
#define NV_EPS 2.220446049250313e-16                                            /* numeric_limits<double>::epsilon() */
#define NV_CLAMPED(rss) nv_max_d(rss, NV_FMUL(NV_EPS, 1e+3))
#define NV_CONTRACT_make_score \
__CPROVER_assigns() \
__CPROVER_ensures(criterion == NVE_wlearner_criterion_aic ==> NV_IDENT(__CPROVER_return_value, __CPROVER_uninterpreted_AIC(NV_CLAMPED(__CPROVER_old(rss)), k, n))) \
__CPROVER_ensures(criterion == NVE_wlearner_criterion_aicc ==> NV_IDENT(__CPROVER_return_value, __CPROVER_uninterpreted_AICc(NV_CLAMPED(__CPROVER_old(rss)), k, n))) \
__CPROVER_ensures(criterion == NVE_wlearner_criterion_bic ==> NV_IDENT(__CPROVER_return_value, __CPROVER_uninterpreted_BIC(NV_CLAMPED(__CPROVER_old(rss)), k, n))) \
__CPROVER_ensures((criterion != NVE_wlearner_criterion_aic && criterion != NVE_wlearner_criterion_aicc && criterion != NVE_wlearner_criterion_bic) \
  ==> NV_IDENT(__CPROVER_return_value, NV_CLAMPED(__CPROVER_old(rss))))
