/* C10: decision tree (include/nano/wlearner/dtree.h, src/wlearner/dtree.cpp), consistency clauses:
 *   "predictions ... depend only on the sample, equal the table of the group reported by split(); a tree of depth 1
 *    equals a stump".
 * m_nodes is a flat array of SIBLING PAIRS: a stump split of a node appends the two children next to each other (same
 * feature and threshold, group 0 first); m_next of a child is the position of ITS pair of children, 0 for a leaf; a
 * leaf carries the row m_table of m_tables.  split() walks the tree breadth-first with a deque of (pair position, samples).
 *
 * Followed through do_split: ONE sample, the ghost dataset sample nv_s, whose feature values are the uninterpreted
 * function NV_VAL(feature) (so everything proved depends on the sample's own values only).  Abstractions:
 *   indices_t            -> does it contain nv_s?
 *   cluster_t            -> samples(), groups(), the group of nv_s
 *   std::deque<pair<..>> -> the number of entries and the one entry whose samples contain nv_s (position, node);
 *                           any other entry holds SOME previously pushed node position.
 * The walk of nv_s is a ghost state machine (nv_st); every event that concerns nv_s is checked against the step relation
 *   visit pair k:  v = NV_VAL(m_nodes[k].m_feature);  missing -> the walk ends without a group;
 *                  g = (v < m_nodes[k].m_threshold ? 0 : 1)  (the stump rule, proved for stump_wlearner_t::split);
 *                  leaf (m_nodes[k].m_next == 0) -> group m_nodes[k].m_table + g, the walk ends;
 *                  else the next visit is at pair m_nodes[k + g].m_next
 * and any deviation (a second path, a lost sample, a wrong child, a wrong leaf table) sets nv_dbad. */
#include "wl.h"
struct nv_node { int64_t m_feature; double m_threshold; uint64_t m_next; int64_t m_table; };       /* dtree_node_t */
struct nv_nodes { struct nv_node* p; uint64_t n; };                                               /* dtree_nodes_t */
struct nv_dtree { struct nv_nodes m_nodes; struct nv_t4 m_tables; };
struct nv_ixs { _Bool has; };                                                                     /* indices_t */
struct nv_split { uint64_t first; struct nv_ixs second; };                                        /* std::pair<size_t, indices_t> */
struct nv_dq { uint64_t n; _Bool cur_has; uint64_t cur_pos, cur_first; _Bool new_has; uint64_t new_pos, new_first; };
struct nv_clu { int64_t samples, groups, g; };                                                    /* cluster_t */
union nv_bits { double d; uint64_t u; };
#define NV_IDENT(a, b) (((union nv_bits){ .d = (a) }).u == ((union nv_bits){ .d = (b) }).u)     /* the same bit pattern */

int64_t nv_s;                                            /* the ghost sample (an index into the dataset) */
double __CPROVER_uninterpreted_fvalue(int64_t);          /* its value of each feature */
#define NV_VAL(f) __CPROVER_uninterpreted_fvalue(f)
_Bool __CPROVER_uninterpreted_is_pair(uint64_t);         /* "this position of m_nodes starts a sibling pair" */
#define NV_IS_PAIR(k) __CPROVER_uninterpreted_is_pair(k)
double nv_v0;                                            /* ghost name of NV_VAL(feature of the root), for loop invariants */

enum { NV_ST_NONE = 0, NV_ST_QUEUED = 1, NV_ST_VISIT = 2, NV_ST_LEAF = 3, NV_ST_MISSING = 4 };
int32_t nv_st;             /* the walk of nv_s: not among the samples | waiting in the queue | being visited | ended at a leaf | ended at a missing value */
uint64_t nv_exp;           /* QUEUED: the pair it must be visited at next */
uint64_t nv_cur;           /* the pair of its latest visit */
int64_t nv_cur_g;          /* ... and the side taken there (-1: value missing) */
int32_t nv_visits;         /* number of visits, saturating at 2 */
_Bool nv_dbad;

/* Representation invariant of a fitted tree, PROVED for what do_fit stores in dtree_fit.h (target dtree_do_fit: pair
 * positions are the even positions; NV_REP_STORED there is this predicate with NV_IS_PAIR(k) = k even and inside m_nodes),
 * ASSUMED here to hold of *this (no other member function writes m_nodes / m_tables except scale, which keeps the shape,
 * and read(), which does not re-validate it); instantiated at every pair position the code reads.  Not needed (and not assumed):
 * acyclicity (only termination depends on it). */
#define NV_REP_AT(self, k) ((k) < (self)->m_nodes.n && (self)->m_nodes.n - (k) >= 2 \
  && (((self)->m_nodes.p[k].m_next == 0) == ((self)->m_nodes.p[(k) + 1].m_next == 0)) \
  && ((self)->m_nodes.p[k].m_next != 0 ==> (NV_IS_PAIR((self)->m_nodes.p[k].m_next) && NV_IS_PAIR((self)->m_nodes.p[(k) + 1].m_next))) \
  && ((self)->m_nodes.p[k].m_next == 0 ==> (0 <= (self)->m_nodes.p[k].m_table && (self)->m_nodes.p[k].m_table < (self)->m_tables.rows - 1 \
                                             && (self)->m_nodes.p[(k) + 1].m_table == (self)->m_nodes.p[k].m_table + 1)))

static struct nv_node* nv_node_at(const struct nv_nodes* v, uint64_t k)
{
  __CPROVER_assert(k < v->n, "m_nodes[k]: index in range");
  return &v->p[k];
}
/* ASSUMED: tensor.size() is the product of the dimensions, at least size<0>() for non-empty trailing dimensions (target
 * dims >= 1); a pure function of the tensor */
int64_t __CPROVER_uninterpreted_t4size(int64_t, int64_t);
static int64_t nv_t4_size(const struct nv_t4* t)
{ int64_t n = __CPROVER_uninterpreted_t4size(t->id, t->rows); __CPROVER_assume(n >= t->rows); return n; }

/* ---- cluster_t (src/machine/cluster.cpp), ASSUMED: the constructor leaves every sample without a group (-1); group(s)
 * is -1 or a group in range; assign(s, g) requires both in range (its own asserts: obligations) and sets the group of
 * s; indices(g) are the samples of group g */
static struct nv_clu nv_clu_make(int64_t samples, int64_t groups) { struct nv_clu c; c.samples = samples; c.groups = groups; c.g = -1; return c; }
static int64_t nv_clu_group(const struct nv_clu* c, int64_t sample)
{
  __CPROVER_assert(0 <= sample && sample < c->samples, "cluster.group(sample): sample in range");
  if (sample == nv_s) return c->g;
  int64_t g = nv_nondet_int64_t(); __CPROVER_assume(-1 <= g && g < c->groups); return g;
}
static struct nv_ixs nv_clu_indices(const struct nv_clu* c, int64_t group)
{
  __CPROVER_assert(0 <= group && group < c->groups, "cluster.indices(group): group in range");
  struct nv_ixs r; r.has = (c->g == group); return r;
}
static void nv_clu_assign(struct nv_clu* c, int64_t sample, int64_t group, const struct nv_dtree* self)
{
  __CPROVER_assert(0 <= sample && sample < c->samples, "cluster.assign: sample in range");
  __CPROVER_assert(0 <= group && group < c->groups, "cluster.assign: group in range");
  if (sample != nv_s) return;
  /* the ghost sample receives a group: only at the end of a visit of a leaf pair, and it is that leaf's table */
  if (nv_st == NV_ST_VISIT && nv_cur_g >= 0 && nv_cur < self->m_nodes.n && self->m_nodes.p[nv_cur].m_next == 0
      && nv_cur_g <= 1 && 0 <= self->m_nodes.p[nv_cur].m_table && self->m_nodes.p[nv_cur].m_table <= NV_MAXN && group == self->m_nodes.p[nv_cur].m_table + nv_cur_g)
    nv_st = NV_ST_LEAF;
  else
    nv_dbad = 1;
  c->g = group; nv_as_count = nv_as_count + 1; nv_as_group = group;
}
/* ---- stump_wlearner_t::split(dataset, samples, feature, threshold) by its contract (target stump_split, stated there per
 * position of `samples`): a sample of `samples` whose value of `feature` is given is assigned group (value < threshold ?
 * 0 : 1), no other sample is assigned; 2 groups over dataset.samples() samples */
static struct nv_clu nv_dt_stump_split(const struct nv_dataset* d, const struct nv_ixs* s, int64_t feature, double threshold, const struct nv_dtree* self)
{
  struct nv_clu c = nv_clu_make(d->samples, 2);
  if (s->has)
  {
    /* a visit of the ghost sample: it must be the one it is queued for, with that pair's own feature and threshold */
    if (nv_st == NV_ST_QUEUED && nv_exp < self->m_nodes.n && feature == self->m_nodes.p[nv_exp].m_feature && NV_IDENT(threshold, self->m_nodes.p[nv_exp].m_threshold))
    {
      double v = NV_VAL(feature);
      c.g = NV_ISFIN(v) ? NV_STUMP_GROUP(v, threshold) : -1;
      nv_cur = nv_exp; nv_cur_g = c.g; nv_st = NV_ST_VISIT;
      if (nv_visits < 2) nv_visits = nv_visits + 1;
    }
    else
      nv_dbad = 1;
  }
  return c;
}
/* ---- std::deque<std::pair<size_t, indices_t>>, ASSUMED FIFO: front() is the oldest entry not yet popped.
 * Queue invariant "every entry holds a pair position" by assume-guarantee: asserted at every push, assumed at front()
 * together with the representation invariant at that position. */
static void nv_dq_push(struct nv_dq* q, uint64_t first, const struct nv_ixs* s, const struct nv_dtree* self)
{
  __CPROVER_assert(NV_IS_PAIR(first), "dtree: every queued position is the position of a sibling pair of m_nodes");
  if (s->has)
  {
    if (nv_st == NV_ST_NONE && q->n == 0)
    { nv_st = NV_ST_QUEUED; nv_exp = first; q->cur_has = 1; q->cur_pos = 0; q->cur_first = first; }      /* the initial entry */
    else if (nv_st == NV_ST_VISIT && nv_cur_g >= 0 && !q->new_has && nv_cur < self->m_nodes.n && self->m_nodes.n - nv_cur >= 2
             && self->m_nodes.p[nv_cur].m_next != 0 && first == self->m_nodes.p[nv_cur + (uint64_t)nv_cur_g].m_next)
    { nv_st = NV_ST_QUEUED; nv_exp = first; q->new_has = 1; q->new_pos = q->n; q->new_first = first; }  /* the child on its side */
    else
      nv_dbad = 1;
  }
  __CPROVER_assume(q->n < ((uint64_t)1 << 62));      /* ASSUMED: the size of a std::deque stays below max_size() */
  q->n = q->n + 1;
}
static struct nv_split nv_dq_front(const struct nv_dq* q, const struct nv_dtree* self)
{
  __CPROVER_assert(q->n > 0, "deque::front: the deque is not empty");
  struct nv_split e;
  if (q->cur_has && q->cur_pos == 0) { e.first = q->cur_first; e.second.has = 1; }
  else { e.first = nv_nondet_uint64_t(); e.second.has = 0; }
  __CPROVER_assume(NV_IS_PAIR(e.first));
  __CPROVER_assume(NV_REP_AT(self, e.first));
  return e;
}
static void nv_dq_pop(struct nv_dq* q)
{
  __CPROVER_assert(q->n > 0, "deque::pop_front: the deque is not empty");
  if (q->cur_has && q->cur_pos == 0)
  {
    /* the entry of the ghost sample leaves the queue: it was visited and the visit ended at a leaf, at a missing value,
     * or by queueing the child (a sample that is dropped on the way is a violation) */
    if (nv_st == NV_ST_VISIT && nv_cur_g < 0) nv_st = NV_ST_MISSING;
    else if (nv_st == NV_ST_VISIT || (nv_st == NV_ST_QUEUED && !q->new_has)) nv_dbad = 1;
    q->cur_has = (q->new_has != 0);      /* (a havocked _Bool need not be 0 / 1) */
    q->cur_pos = q->new_pos; q->cur_first = q->new_first; q->new_has = 0;
  }
  else if (q->new_has) nv_dbad = 1;
  if (q->cur_has) q->cur_pos = q->cur_pos - 1;
  q->n = q->n - 1;
}

#define NV_DTREE_OK(self) (__CPROVER_is_fresh(self, sizeof(*(self))) && (self)->m_nodes.n >= 2 && (self)->m_nodes.n <= NV_MAXN \
  && __CPROVER_is_fresh((self)->m_nodes.p, (self)->m_nodes.n * sizeof(struct nv_node)) && (self)->m_tables.rows >= 0 && (self)->m_tables.rows <= NV_MAXN && NV_IS_PAIR(0))
#define NV_ROOT(self) ((self)->m_nodes.p[0])
#define NV_DT_GHOST nv_st, nv_exp, nv_cur, nv_cur_g, nv_visits, nv_dbad, nv_as_count, nv_as_group
/* do_split(dataset, samples): a fitted tree (the root pair exists); samples index valid dataset samples */
#define NV_CONTRACT_dtree_do_split \
__CPROVER_requires(NV_DTREE_OK(self) && __CPROVER_is_fresh(dataset, sizeof(*dataset)) && dataset->samples >= 0 && __CPROVER_is_fresh(samples, sizeof(*samples))) \
__CPROVER_requires((samples->has ==> (0 <= nv_s && nv_s < dataset->samples)) && NV_IDENT(nv_v0, NV_VAL(NV_ROOT(self).m_feature))) \
__CPROVER_requires(nv_st == NV_ST_NONE && nv_visits == 0 && nv_cur_g == -1 && !nv_dbad && nv_as_count == 0) \
__CPROVER_assigns(NV_DT_GHOST) \
/* .1 one walk, every step of it the step relation */ \
__CPROVER_ensures(!nv_dbad) \
/* .2 the walk has ended: at a leaf or at a missing value; a sample outside `samples` is never touched */ \
__CPROVER_ensures(samples->has ? (nv_st == NV_ST_LEAF || nv_st == NV_ST_MISSING) : nv_st == NV_ST_NONE) \
/* .3 the reported group: the table of the leaf reached (a row of m_tables), none for a missing value on the way */ \
__CPROVER_ensures(nv_st == NV_ST_LEAF ? (nv_as_count == 1 && __CPROVER_return_value.g == nv_as_group && 0 <= nv_as_group && nv_as_group < self->m_tables.rows \
   && nv_cur < self->m_nodes.n && self->m_nodes.p[nv_cur].m_next == 0 && 0 <= nv_cur_g && nv_cur_g <= 1 && 0 <= self->m_nodes.p[nv_cur].m_table \
   && self->m_nodes.p[nv_cur].m_table <= NV_MAXN && nv_as_group == self->m_nodes.p[nv_cur].m_table + nv_cur_g) \
  : (nv_as_count == 0 && __CPROVER_return_value.g == -1)) \
__CPROVER_ensures(nv_st == NV_ST_MISSING ==> nv_cur_g == -1) \
/* .5 a tree of depth 1 is a stump: one visit, at the root pair, same comparison (with .3: table m_table(root) + side) */ \
__CPROVER_ensures((samples->has && NV_ROOT(self).m_next == 0) ==> (NV_ISFIN(nv_v0) \
   ? (nv_st == NV_ST_LEAF && nv_cur == 0 && nv_cur_g == NV_STUMP_GROUP(nv_v0, NV_ROOT(self).m_threshold)) : nv_st == NV_ST_MISSING)) \
/* .6 the cluster covers the dataset; .7 one group per leaf table (as for every other learner: cluster.groups() == tables.size<0>()) */ \
__CPROVER_ensures(__CPROVER_return_value.samples == dataset->samples) \
NV_DT_GROUPS_CLAUSE
/* clause .7 is REFUTED on the current library (do_split builds the cluster with m_tables.size() groups, the number of
 * coefficients, see replay/C10_replay.cpp): where do_split is used by its contract (do_predict) the clause is left out */
#ifdef NV_DTREE_CALLER
#define NV_DT_GROUPS_CLAUSE
#else
#define NV_DT_GROUPS_CLAUSE __CPROVER_ensures(__CPROVER_return_value.groups == self->m_tables.rows)
#endif

/* loop 1: the breadth-first walk (termination rests on the acyclicity of m_next and is not claimed) */
#define NV_LOOP_dtree_do_split_1 \
__CPROVER_assigns(splits.n, splits.cur_has, splits.cur_pos, splits.cur_first, splits.new_has, splits.new_pos, splits.new_first, cluster.g, NV_DT_GHOST) \
/* the queue holds the ghost sample exactly while its walk is waiting, at the pair it is expected at */ \
__CPROVER_loop_invariant(!nv_dbad && !splits.new_has && (splits.cur_has ==> (splits.cur_pos < splits.n && splits.cur_first == nv_exp))) \
__CPROVER_loop_invariant(((nv_st == NV_ST_QUEUED) == (splits.cur_has != 0)) && (nv_st == NV_ST_NONE || nv_st == NV_ST_QUEUED || nv_st == NV_ST_LEAF || nv_st == NV_ST_MISSING)) \
__CPROVER_loop_invariant(((nv_st == NV_ST_NONE) == !samples->has) && (samples->has ==> (0 <= nv_s && nv_s < dataset->samples)) && cluster.samples == dataset->samples) \
/* a group has been assigned iff the walk ended at a leaf, and it is that leaf's table */ \
__CPROVER_loop_invariant(nv_as_count == ((nv_st == NV_ST_LEAF) ? 1 : 0) && cluster.g == ((nv_st == NV_ST_LEAF) ? nv_as_group : -1) && -1 <= nv_cur_g && nv_cur_g <= 1) \
__CPROVER_loop_invariant(nv_st == NV_ST_LEAF ==> (0 <= nv_as_group && nv_as_group < self->m_tables.rows && nv_cur < self->m_nodes.n && self->m_nodes.p[nv_cur].m_next == 0 \
                                 && nv_cur_g >= 0 && 0 <= self->m_nodes.p[nv_cur].m_table && self->m_nodes.p[nv_cur].m_table <= NV_MAXN && nv_as_group == self->m_nodes.p[nv_cur].m_table + nv_cur_g)) \
__CPROVER_loop_invariant(nv_st == NV_ST_MISSING ==> nv_cur_g == -1) \
/* depth 1: the first visit is at the root pair; if that is a leaf pair it is the only visit */ \
__CPROVER_loop_invariant(0 <= nv_visits && nv_visits <= 2 && (nv_visits == 0 ==> ((nv_st == NV_ST_NONE || nv_st == NV_ST_QUEUED) && (nv_st == NV_ST_QUEUED ==> nv_exp == 0)))) \
__CPROVER_loop_invariant((nv_visits >= 1 && NV_ROOT(self).m_next == 0) ==> (nv_visits == 1 && nv_cur == 0 && (nv_st == NV_ST_LEAF || nv_st == NV_ST_MISSING) \
         && nv_cur_g == (NV_ISFIN(nv_v0) ? NV_STUMP_GROUP(nv_v0, NV_ROOT(self).m_threshold) : -1)))
/* the `sample` loop (keyed by its counter, NV_LOOPBY: the two arms of the if / else may come in either order): a leaf pair hands every sample of the node its table */
#define NV_LOOPBY_dtree_do_split_sample \
__CPROVER_assigns(sample, cluster.g, nv_st, nv_dbad, nv_as_count, nv_as_group) \
__CPROVER_loop_invariant(0 <= sample && sample <= node_cluster.samples && !nv_dbad) \
__CPROVER_loop_invariant((sample <= nv_s || node_cluster.g < 0) ==> (nv_st == __CPROVER_loop_entry(nv_st) && nv_as_count == __CPROVER_loop_entry(nv_as_count) \
   && cluster.g == __CPROVER_loop_entry(cluster.g) && nv_as_group == __CPROVER_loop_entry(nv_as_group))) \
__CPROVER_loop_invariant((sample > nv_s && node_cluster.g >= 0) ==> (nv_st == NV_ST_LEAF && nv_as_count == __CPROVER_loop_entry(nv_as_count) + 1 \
   && cluster.g == nv_as_group && nv_as_group == node->m_table + node_cluster.g)) \
__CPROVER_decreases(node_cluster.samples - sample)
/* the `group` loop: a split pair queues one entry per side */
#define NV_LOOPBY_dtree_do_split_group \
__CPROVER_assigns(group, splits.n, splits.new_has, splits.new_pos, splits.new_first, nv_st, nv_exp, nv_dbad) \
__CPROVER_loop_invariant(0 <= group && group <= node_cluster.groups && !nv_dbad && splits.n == __CPROVER_loop_entry(splits.n) + (uint64_t)group) \
__CPROVER_loop_invariant((group <= node_cluster.g || node_cluster.g < 0) ==> (nv_st == __CPROVER_loop_entry(nv_st) && nv_exp == __CPROVER_loop_entry(nv_exp) && !splits.new_has)) \
__CPROVER_loop_invariant((group > node_cluster.g && node_cluster.g >= 0) ==> (nv_st == NV_ST_QUEUED && splits.new_has \
   && splits.new_pos == __CPROVER_loop_entry(splits.n) + (uint64_t)node_cluster.g && splits.new_first == nv_exp \
   && nv_exp == self->m_nodes.p[split.first + (uint64_t)node_cluster.g].m_next)) \
__CPROVER_decreases(node_cluster.groups - group)

/* ================================================================================================ do_predict
 * split(dataset, samples) [wlearner_t::split: compatibility check (may throw), then the virtual do_split: extracted, the
 * tree's do_split by the contract above], then row i of outputs += m_tables row cluster.group(samples(i)).
 * Followed: the position nv_g of `samples`; the ghost sample is the one at that position. */
_Bool nv_compat_calls;
static void nv_critical_compatible(const struct nv_dtree* self, const struct nv_dataset* d)      /* ASSUMED: throws or returns, nothing else */
{ nv_compat_calls = 1; if (nv_nondet__Bool()) nv_thrown = 1; }
/* ASSUMED: indices_t(indices_cmap_t) copies the indices: the copy contains the sample at position nv_g */
static struct nv_ixs nv_ixs_of(struct nv_t1i s)
{ struct nv_ixs r; r.has = (0 <= nv_g && nv_g < s.n && s.p[nv_g] == nv_s) ? 1 : nv_nondet__Bool(); return r; }
/* cluster.group(sample) on the cluster returned by split(): the ghost sample has the group proved for it; any other
 * sample is a valid dataset sample (caller's precondition, instantiated here) and has no group or the table of a leaf
 * (dtree_do_split.postcondition.3 instantiated at that sample) */
static int64_t nv_clu_group_split(const struct nv_clu* c, int64_t sample, const struct nv_dtree* self)
{
  if (sample == nv_s)
  {
    __CPROVER_assert(0 <= sample && sample < c->samples, "cluster.group(sample): sample in range");
    return c->g;
  }
  int64_t g = nv_nondet_int64_t(); __CPROVER_assume(-1 <= g && g < self->m_tables.rows); return g;
}
/* Eigen `dst += src` on row views: recorded for the followed row */
static void nv_row_add_at(const struct nv_row* dst, struct nv_row src)
{ if (dst->row == nv_g) { nv_add_count = nv_add_count + 1; nv_add_dst = *dst; nv_add_src = src; } }

#define NV_CONTRACT_base_split \
__CPROVER_requires(__CPROVER_is_fresh(self, sizeof(*self)) && __CPROVER_is_fresh(dataset, sizeof(*dataset)) && __CPROVER_is_fresh(samples, sizeof(*samples)))
#define NV_CONTRACT_dtree_do_predict \
__CPROVER_requires(NV_DTREE_OK(self) && __CPROVER_is_fresh(dataset, sizeof(*dataset)) && NV_T1I_OK(samples) && outputs.rows == samples.n && outputs.id != self->m_tables.id) \
/* samples index valid dataset samples (learner_t::predict); the ghost sample is the one at the followed position */ \
__CPROVER_requires(0 <= nv_g && nv_g < samples.n && nv_s == samples.p[nv_g] && 0 <= nv_s && nv_s < dataset->samples && NV_IDENT(nv_v0, NV_VAL(NV_ROOT(self).m_feature))) \
__CPROVER_requires(nv_st == NV_ST_NONE && nv_visits == 0 && nv_cur_g == -1 && !nv_dbad && nv_as_count == 0 && nv_add_count == 0 && !nv_compat_calls) \
__CPROVER_assigns(NV_DT_GHOST, nv_add_count, nv_add_dst, nv_add_src, nv_compat_calls, nv_thrown) \
__CPROVER_ensures(nv_compat_calls) \
/* .2 the walk of the sample ended; .3 at a leaf => exactly one update of its row with that leaf's table */ \
__CPROVER_ensures(nv_thrown || (!nv_dbad && (nv_st == NV_ST_LEAF || nv_st == NV_ST_MISSING))) \
__CPROVER_ensures((!nv_thrown && nv_st == NV_ST_LEAF) ==> (nv_add_count == 1 && nv_add_dst.tensor == outputs.id && nv_add_dst.row == nv_g \
   && nv_add_src.tensor == self->m_tables.id && nv_add_src.row == nv_as_group && nv_cur < self->m_nodes.n && self->m_nodes.p[nv_cur].m_next == 0 \
   && 0 <= nv_cur_g && nv_cur_g <= 1 && 0 <= self->m_nodes.p[nv_cur].m_table && self->m_nodes.p[nv_cur].m_table <= NV_MAXN \
   && nv_as_group == self->m_nodes.p[nv_cur].m_table + nv_cur_g)) \
/* .4 a missing value on the way (or an incompatible dataset) => no update */ \
__CPROVER_ensures((nv_thrown || nv_st != NV_ST_LEAF) ==> nv_add_count == 0) \
/* .5 depth 1 = the contract of stump_do_predict (stump.h) for tables stored in stump order (m_table of the root pair = 0) */ \
__CPROVER_ensures((!nv_thrown && NV_ROOT(self).m_next == 0) ==> (NV_ISFIN(nv_v0) \
   ? (nv_add_count == 1 && nv_cur == 0 && nv_add_src.row == NV_ROOT(self).m_table + NV_STUMP_GROUP(nv_v0, NV_ROOT(self).m_threshold)) : nv_add_count == 0))
#define NV_LOOP_dtree_do_predict_1 \
__CPROVER_assigns(i, nv_add_count, nv_add_dst, nv_add_src) \
__CPROVER_loop_invariant(0 <= i && i <= size && size == samples.n && nv_add_count == ((i > nv_g && cluster.g >= 0) ? 1 : 0)) \
__CPROVER_loop_invariant(nv_add_count == 1 ==> (nv_add_dst.tensor == outputs.id && nv_add_dst.row == nv_g && nv_add_src.tensor == self->m_tables.id && nv_add_src.row == cluster.g)) \
__CPROVER_decreases(size - i)
