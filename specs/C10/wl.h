/* C10 consistency clauses for the single-feature weak learners (stump, tables):
 *   "predictions are added to the given outputs, are zero for samples whose selected feature is missing, ... equal the
 *    table of the group reported by split()".
 * Tensors of coefficients / outputs are opaque: an identity and the first dimension.  A row view (tensor.vector(k))
 * remembers which tensor and which row it is; `+=` between row views and cluster_t::assign are recorded in ghost state.
 * Composition with loop_scalar/loop_sclass/loop_mclass: the stub of loop_* invokes the REAL extracted callback at the
 * ghost sample position nv_g with the ghost feature value, if and only if that value is given -- which is exactly the
 * contract proved for the loop_* bodies in loops.h (at a ghost index). */
#ifndef NV_C10_WL_H
#define NV_C10_WL_H
#include "types.h"
struct nv_t4 { int64_t id; int64_t rows; };                 /* tensor4d_t, tensor4d_map_t: identity + size<0>() */
struct nv_row { int64_t tensor; int64_t row; };             /* Eigen::Map<[const] VectorXd> = tensor.vector(row) */
struct nv_dataset { int64_t samples; int32_t ftype; };      /* dataset_t: samples(), type of the selected feature */
struct nv_cluster { int64_t samples; int64_t groups; };     /* cluster_t: samples(), groups() */

/* ghost: the sample position and feature value the universally quantified statement is instantiated at */
int64_t nv_g; double nv_v;
/* ghost record of `dst += src` on row views */
int64_t nv_add_count; struct nv_row nv_add_dst, nv_add_src;
/* ghost record of cluster.assign(sample, group) */
int64_t nv_as_count, nv_as_sample, nv_as_group;
/* ghost record of the loop_* call */
int64_t nv_ls_count, nv_ls_feature; const struct nv_dataset* nv_ls_dataset; struct nv_t1i nv_ls_samples;

static struct nv_row nv_t4_vector(const struct nv_t4* t, int64_t k)
{
  __CPROVER_assert(0 <= k && k < t->rows, "tensor.vector(k): first index in range");
  struct nv_row r; r.tensor = t->id; r.row = k; return r;
}
static void nv_row_add(const struct nv_row* dst, struct nv_row src)
{ nv_add_count = nv_add_count + 1; nv_add_dst = *dst; nv_add_src = src; }
static struct nv_cluster nv_cluster_make(int64_t samples, int64_t groups)
{ struct nv_cluster c; c.samples = samples; c.groups = groups; return c; }
static void nv_cluster_assign(struct nv_cluster* c, int64_t sample, int64_t group)
{
  __CPROVER_assert(0 <= sample && sample < c->samples, "cluster.assign: sample in range");
  __CPROVER_assert(0 <= group && group < c->groups, "cluster.assign: group in range");
  nv_as_count = nv_as_count + 1; nv_as_sample = sample; nv_as_group = group;
}
static int64_t nv_dataset_samples(const struct nv_dataset* d) { return d->samples; }
/* the stump rule (include/nano/wlearner/stump.h): group 0 below the threshold, group 1 at or above it */
#define NV_STUMP_GROUP(v, thr) (((v) < (thr)) ? 0 : 1)
#define NV_LS_RECORD(d, s, f) { nv_ls_count = nv_ls_count + 1; nv_ls_dataset = (d); nv_ls_samples = *(s); nv_ls_feature = (f); }
#define NV_GHOST_INIT (nv_add_count == 0 && nv_as_count == 0 && nv_ls_count == 0)
#define NV_GHOST_ASSIGNS __CPROVER_assigns(nv_add_count, nv_add_dst, nv_add_src, nv_as_count, nv_as_sample, nv_as_group, nv_ls_count, nv_ls_feature, nv_ls_dataset, nv_ls_samples)
#define NV_SAMPLES_OK(s, d) (__CPROVER_is_fresh(s, sizeof(*(s))) && NV_T1I_OK(*(s)) && 0 <= nv_g && nv_g < (s)->n \
  && 0 <= (s)->p[nv_g] && (s)->p[nv_g] < (d)->samples)
#define NV_LS_CALLED_WITH(d, s, f) (nv_ls_count == 1 && nv_ls_dataset == (d) && nv_ls_samples.p == (s).p && nv_ls_samples.n == (s).n && nv_ls_feature == (f))
#endif
