/* C10: wlearner::accumulator_t (include/nano/wlearner/accumulator.h, src/wlearner/accumulator.cpp) and the scoring helpers of
 * the look-up tables built on it (src/wlearner/table.cpp cache_t), over a SYMBOLIC number of outputs:
 *   x0(bin) = number of samples of the bin, r1(bin, o) = sum of their residuals (minus gradients) for output o, r2(bin, o) =
 *   sum of the squared residuals.  With the optimal constant c(o) = r1(bin, o) / x0(bin) per output the residual sum of squares
 *   of the bin is  SUM_o (r2(bin, o) - r1(bin, o)^2 / x0(bin)),  predicting zero gives SUM_o r2(bin, o), so the GAIN of giving the
 *   bin its own constant is  - SUM_o r1(bin, o)^2 / x0(bin):  a reduction over the outputs of a coefficient-wise square -- NOT
 *   the square of a reduction.  ("... returns the minimum RSS ..., and the fitted learner's predictions reproduce that RSS".)
 * Ghost-element model (engine/eigencw): every tensor is tracked at ONE bin nv_b and ONE output coefficient nv_o; all other cells
 * are folded into one cell.  Coefficient-wise statements are lifted to their kernel at that coefficient; a reduction E.sum() is
 * the uninterpreted NV_RSUM(summand of E at the ghost coefficient): two reductions with bit-identical summand terms at an
 * arbitrary coefficient (for arbitrary cell values) are the same sum.  Floating-point operations are uninterpreted. */
#include "nv_tensor.h"
union nv_bits { double d; uint64_t u; };
#define NV_IDENT(a, b) (((union nv_bits){ .d = (a) }).u == ((union nv_bits){ .d = (b) }).u)
struct nv_av { double* g; int64_t n, k; };                       /* m_r1.array(bin) etc.: one row of a (bins x outputs) tensor */
struct nv_ev { double g; int64_t n, k; };                        /* a returned coefficient-wise expression: its value at the ghost coefficient */
struct nv_accum { int64_t bins, outs; double x0g, x1g, x2g, r1g, rxg, r2g; };      /* cells (nv_b) resp. (nv_b, nv_o) */
struct nv_dvec { uint64_t n; int64_t pushed; double pushed_first; int64_t pushed_second; _Bool sorted; };   /* vector<pair<scalar_t, tensor_size_t>> */
int64_t nv_b, nv_o;
double nv_other;                /* every untracked cell */
_Bool nv_abad;
int64_t nv_red_calls, nv_red_n; double nv_red_summand;
double __CPROVER_uninterpreted_rsum(double);
#define NV_RSUM(summand) __CPROVER_uninterpreted_rsum(summand)
/* the spec functions of the property, as terms over the tracked cells */
#define NV_SQ(x) NV_FMUL(x, x)
#define NV_GAIN(self) NV_FDIV(NV_FNEG(NV_RSUM(NV_SQ((self)->r1g))), (self)->x0g)                          /* - SUM_o r1^2 / x0 */
#define NV_RSS_BIN(self) NV_RSUM(NV_FSUB((self)->r2g, NV_FDIV(NV_SQ((self)->r1g), (self)->x0g)))         /* SUM_o (r2 - r1^2 / x0) */

/* ASSUMED (Eigen): E.sum() adds the coefficients of E */
static double nv_reduce_sum(double summand, int64_t n)
{ nv_red_calls = (nv_red_calls < NV_MAXN) ? nv_red_calls + 1 : nv_red_calls; nv_red_n = n; nv_red_summand = summand; return NV_RSUM(summand); }
/* ASSUMED (accumulator.h inline accessors): x0(bin) = m_x0(bin), r1(bin) = m_r1.array(bin), ... with the bin index in range */
static double* nv_acc_x(struct nv_accum* a, int64_t bin, int which)
{
  __CPROVER_assert(0 <= bin && bin < a->bins, "accumulator: bin index in range");
  if (bin != nv_b) return &nv_other;
  return which == 0 ? &a->x0g : (which == 1 ? &a->x1g : &a->x2g);
}
static struct nv_av nv_acc_r(struct nv_accum* a, int64_t bin, int which)
{
  __CPROVER_assert(0 <= bin && bin < a->bins, "accumulator: bin index in range");
  struct nv_av v; v.n = a->outs; v.k = nv_o;
  v.g = (bin != nv_b) ? &nv_other : (which == 1 ? &a->r1g : (which == 2 ? &a->r2g : &a->rxg));
  return v;
}
static double nv_max_d(double a, double b) { return (a < b) ? b : a; }          /* std::max(a, b) */
/* deltas.emplace_back(value, bin) / std::sort(whole vector) */
static void nv_dvec_push(struct nv_dvec* v, double first, int64_t second, const struct nv_accum* acc)
{
  if (v->sorted) nv_abad = 1;
  if (second == nv_b)
    __CPROVER_assert(NV_IDENT(first, NV_GAIN(acc)), "accumulator sort: the gain of a bin is minus the SUM over the outputs of its squared residual sums, over its sample count: -SUM_o r1(bin, o)^2 / x0(bin)");
  if (second == nv_b) { v->pushed = (v->pushed < NV_MAXN) ? v->pushed + 1 : v->pushed; v->pushed_first = first; v->pushed_second = second; }
  if (v->n < NV_MAXN) v->n = v->n + 1; else nv_abad = 1;
}
static void nv_dvec_sort(uint64_t begin, uint64_t end, struct nv_dvec* v) { if (begin != 0 || end != v->n || v->sorted) nv_abad = 1; v->sorted = 1; }

#define NV_ACC_OK(self) (__CPROVER_is_fresh(self, sizeof(*(self))) && 0 <= (self)->bins && (self)->bins <= NV_MAXN && 0 <= (self)->outs && (self)->outs <= NV_MAXN \
  && 0 <= nv_b && nv_b < (self)->bins && 0 <= nv_o && nv_o < (self)->outs && !nv_abad && nv_red_calls == 0)
#define NV_RED_GHOST nv_red_calls, nv_red_n, nv_red_summand
/* accumulator_t::sort(): one (gain, bin) entry per bin, the whole vector sorted; the gain of bin nv_b is NV_GAIN */
#define NV_LOOP_acc_sort_1 \
__CPROVER_assigns(bin, deltas, nv_abad, NV_RED_GHOST) \
__CPROVER_loop_invariant(0 <= bin && bin <= bins && bins == self->bins && !nv_abad && !deltas.sorted && deltas.n == (uint64_t)bin && deltas.pushed == ((bin > nv_b) ? 1 : 0)) \
__CPROVER_loop_invariant(deltas.pushed == 1 ==> (deltas.pushed_second == nv_b && NV_IDENT(deltas.pushed_first, NV_GAIN_G))) \
__CPROVER_decreases(bins - bin)
/* (no uninterpreted function inside a loop invariant: the expected gain is named by a ghost defined in the precondition) */
double nv_gain_g;
#define NV_GAIN_G nv_gain_g
#define NV_CONTRACT_acc_sort \
__CPROVER_requires(NV_ACC_OK(self) && NV_IDENT(nv_gain_g, NV_GAIN(self))) \
__CPROVER_assigns(nv_abad, NV_RED_GHOST) \
__CPROVER_ensures(!nv_abad && __CPROVER_return_value.n == (uint64_t)self->bins && __CPROVER_return_value.sorted) \
__CPROVER_ensures(__CPROVER_return_value.pushed == 1 && __CPROVER_return_value.pushed_second == nv_b) \
__CPROVER_ensures(NV_IDENT(__CPROVER_return_value.pushed_first, NV_GAIN(self)))

/* table.cpp cache_t::score(bin): the residual sum of squares of the bin with its optimal constants */
#define NV_CONTRACT_tbl_score \
__CPROVER_requires(NV_ACC_OK(self) && bin == nv_b) \
__CPROVER_assigns(NV_RED_GHOST) \
__CPROVER_ensures(NV_IDENT(__CPROVER_return_value, NV_RSS_BIN(self)) && nv_red_calls == 1 && nv_red_n == self->outs)
/* accumulator_t::rss_zero(bin) = SUM_o r2; rss_constant(bin) = SUM_o (r2 - r1 * r1 / max(1, x0)); fit_constant(bin)(o) = r1 / max(1, x0) */
#define NV_CONTRACT_acc_rss_zero \
__CPROVER_requires(NV_ACC_OK(self) && bin == nv_b) __CPROVER_assigns(NV_RED_GHOST) \
__CPROVER_ensures(NV_IDENT(__CPROVER_return_value, NV_RSUM(self->r2g)) && nv_red_calls == 1 && nv_red_n == self->outs)
#define NV_CONTRACT_acc_rss_constant \
__CPROVER_requires(NV_ACC_OK(self) && bin == nv_b) __CPROVER_assigns(NV_RED_GHOST) \
__CPROVER_ensures(NV_IDENT(__CPROVER_return_value, NV_RSUM(NV_FSUB(self->r2g, NV_FDIV(NV_FMUL(self->r1g, self->r1g), nv_max_d(1.0, self->x0g))))) && nv_red_calls == 1 && nv_red_n == self->outs)
#define NV_CONTRACT_acc_fit_constant \
__CPROVER_requires(NV_ACC_OK(self) && bin == nv_b) __CPROVER_assigns() \
__CPROVER_ensures(NV_IDENT(__CPROVER_return_value.g, NV_FDIV(self->r1g, nv_max_d(1.0, self->x0g))) && __CPROVER_return_value.n == self->outs && __CPROVER_return_value.k == nv_o)

/* accumulator_t::update(vgrad, bin) / update(value, vgrad, bin): one more sample in the bin */
#define NV_VGRAD_OK(self) (__CPROVER_is_fresh(vgrad, sizeof(*vgrad)) && __CPROVER_is_fresh(vgrad->g, sizeof(double)) && vgrad->n == (self)->outs && vgrad->k == nv_o)
#define NV_UPDATED_2(self) (NV_IDENT((self)->x0g, NV_FADD(__CPROVER_old((self)->x0g), 1.0)) && NV_IDENT((self)->r1g, NV_FSUB(__CPROVER_old((self)->r1g), *vgrad->g)) \
  && NV_IDENT((self)->r2g, NV_FADD(__CPROVER_old((self)->r2g), NV_FMUL(*vgrad->g, *vgrad->g))))
#define NV_KEPT_2(self) (NV_IDENT((self)->x0g, __CPROVER_old((self)->x0g)) && NV_IDENT((self)->r1g, __CPROVER_old((self)->r1g)) && NV_IDENT((self)->r2g, __CPROVER_old((self)->r2g)))
#define NV_UPDATED_X(self) (NV_IDENT((self)->x1g, NV_FADD(__CPROVER_old((self)->x1g), value)) && NV_IDENT((self)->x2g, NV_FADD(__CPROVER_old((self)->x2g), NV_FMUL(value, value))) \
  && NV_IDENT((self)->rxg, NV_FSUB(__CPROVER_old((self)->rxg), NV_FMUL(*vgrad->g, value))))
#define NV_KEPT_X(self) (NV_IDENT((self)->x1g, __CPROVER_old((self)->x1g)) && NV_IDENT((self)->x2g, __CPROVER_old((self)->x2g)) && NV_IDENT((self)->rxg, __CPROVER_old((self)->rxg)))
#define NV_CONTRACT_acc_update \
__CPROVER_requires(NV_ACC_OK(self) && NV_VGRAD_OK(self) && 0 <= bin && bin < self->bins) \
__CPROVER_assigns(self->x0g, self->r1g, self->r2g, nv_other) \
/* the bin of the sample: count + 1, residual sum - gradient, squared residual sum + gradient^2, per output; any other bin: untouched */ \
__CPROVER_ensures(bin == nv_b ? (NV_UPDATED_2(self) && NV_IDENT(nv_other, __CPROVER_old(nv_other))) : NV_KEPT_2(self))
#define NV_CONTRACT_acc_update_x \
__CPROVER_requires(NV_ACC_OK(self) && NV_VGRAD_OK(self) && 0 <= bin && bin < self->bins) \
__CPROVER_assigns(self->x0g, self->r1g, self->r2g, self->x1g, self->x2g, self->rxg, nv_other) \
__CPROVER_ensures(bin == nv_b ? (NV_UPDATED_2(self) && NV_UPDATED_X(self) && NV_IDENT(nv_other, __CPROVER_old(nv_other))) : (NV_KEPT_2(self) && NV_KEPT_X(self)))
