/* C10: wlearner::accumulator_t (include/nano/wlearner/accumulator.h, src/wlearner/accumulator.cpp) and the scoring helpers of
 * the look-up tables built on it (src/wlearner/table.cpp cache_t), over a SYMBOLIC number of outputs:
 *   x0(bin) = number of samples of the bin, r1(bin, o) = sum of their residuals (minus gradients) for output o, r2(bin, o) =
 *   sum of the squared residuals.  With the optimal constant c(o) = r1(bin, o) / x0(bin) per output the residual sum of squares
 *   of the bin is  SUM_o (r2(bin, o) - r1(bin, o)^2 / x0(bin)),  predicting zero gives SUM_o r2(bin, o), so the GAIN of giving the
 *   bin its own constant is  - SUM_o r1(bin, o)^2 / x0(bin):  a reduction over the outputs of a coefficient-wise square -- NOT
 *   the square of a reduction.  ("... returns the minimum RSS ..., and the fitted learner's predictions reproduce that RSS".)
 * Ghost-element model (engine/eigencw): every tensor is tracked at ONE bin nv_b and ONE output coefficient nv_o; all other cells
 * are folded into one cell.  Coefficient-wise statements are lifted to their kernel at that coefficient; a reduction E.sum() is
 * the uninterpreted NV_RSUM(summand of E at the ghost coefficient): two reductions with bit-identical summand terms at an
 * arbitrary coefficient (for arbitrary cell values) are the same sum.  Floating-point operations are uninterpreted. */
#include "nv_tensor.h"
union nv_bits { double d; uint64_t u; };
#define NV_IDENT(a, b) (((union nv_bits){ .d = (a) }).u == ((union nv_bits){ .d = (b) }).u)
struct nv_av { double* g; int64_t n, k; };                       /* m_r1.array(bin) etc.: one row of a (bins x outputs) tensor */
struct nv_ev { double g; int64_t n, k; };                        /* a returned coefficient-wise expression: its value at the ghost coefficient */
struct nv_h1 { int64_t n, k; uint64_t g; };                      /* hashes_t: size, a tracked index and the element there */
struct nv_i1 { int64_t n, k; int64_t g; };                       /* indices_t */
struct nv_tabg { int64_t rows, outs, kr; double g; };            /* tensor4d_t of coefficients: the cell (kr, nv_o) */
struct nv_dims2 { int64_t rows, outs; };                         /* cat_dims(rows, tdims()) */
struct nv_gpair { double first; int64_t second; };               /* std::pair<scalar_t, tensor_size_t> */
struct nv_mapv { uint64_t n; struct nv_gpair at, other; };       /* the sorted (gain, bin) pairs: the one at position nv_tr, any other */
/* accumulator_t, and table.cpp's cache_t derived from it (cells (nv_b) resp. (nv_b, nv_o); the table members tracked at row nv_tr) */
struct nv_accum { int64_t bins, outs; double x0g, x1g, x2g, r1g, rxg, r2g;
                  int64_t m_samples; double m_missing_rss, m_score; int64_t m_feature; struct nv_h1 m_hashes; struct nv_i1 m_hash2tables; struct nv_tabg m_tables; };
struct nv_dvec { uint64_t n; int64_t pushed; double pushed_first; int64_t pushed_second; _Bool sorted; };   /* vector<pair<scalar_t, tensor_size_t>> */
int64_t nv_b, nv_o;
double nv_other;                /* every untracked cell */
_Bool nv_abad;
int64_t nv_red_calls, nv_red_n; double nv_red_summand;
_Bool nv_red_hit; double nv_rss_summand_g;      /* a reduction of the min-RSS summand of the tracked bin (named in a precondition) was computed */
double __CPROVER_uninterpreted_rsum(double);
#define NV_RSUM(summand) __CPROVER_uninterpreted_rsum(summand)
/* the spec functions of the property, as terms over the tracked cells */
#define NV_SQ(x) NV_FMUL(x, x)
#define NV_GAIN(self) NV_FDIV(NV_FNEG(NV_RSUM(NV_SQ((self)->r1g))), (self)->x0g)                          /* - SUM_o r1^2 / x0 */
#define NV_RSS_BIN(self) NV_RSUM(NV_FSUB((self)->r2g, NV_FDIV(NV_SQ((self)->r1g), (self)->x0g)))         /* SUM_o (r2 - r1^2 / x0) */

/* ASSUMED (Eigen): E.sum() adds the coefficients of E */
static double nv_reduce_sum(double summand, int64_t n)
{ nv_red_calls = (nv_red_calls < NV_MAXN) ? nv_red_calls + 1 : nv_red_calls; nv_red_n = n; nv_red_summand = summand; if (NV_IDENT(summand, nv_rss_summand_g)) nv_red_hit = 1; return NV_RSUM(summand); }
/* ASSUMED (accumulator.h inline accessors): x0(bin) = m_x0(bin), r1(bin) = m_r1.array(bin), ... with the bin index in range */
static double* nv_acc_x(struct nv_accum* a, int64_t bin, int which)
{
  __CPROVER_assert(0 <= bin && bin < a->bins, "accumulator: bin index in range");
  if (bin != nv_b) return &nv_other;
  return which == 0 ? &a->x0g : (which == 1 ? &a->x1g : &a->x2g);
}
static struct nv_av nv_acc_r(struct nv_accum* a, int64_t bin, int which)
{
  __CPROVER_assert(0 <= bin && bin < a->bins, "accumulator: bin index in range");
  struct nv_av v; v.n = a->outs; v.k = nv_o;
  v.g = (bin != nv_b) ? &nv_other : (which == 1 ? &a->r1g : (which == 2 ? &a->r2g : &a->rxg));
  return v;
}
static double nv_max_d(double a, double b) { return (a < b) ? b : a; }          /* std::max(a, b) */
/* deltas.emplace_back(value, bin) / std::sort(whole vector) */
static void nv_dvec_push(struct nv_dvec* v, double first, int64_t second, const struct nv_accum* acc)
{
  if (v->sorted) nv_abad = 1;
  if (second == nv_b)
    __CPROVER_assert(NV_IDENT(first, NV_GAIN(acc)), "accumulator sort: the gain of a bin is minus the SUM over the outputs of its squared residual sums, over its sample count: -SUM_o r1(bin, o)^2 / x0(bin)");
  if (second == nv_b) { v->pushed = (v->pushed < NV_MAXN) ? v->pushed + 1 : v->pushed; v->pushed_first = first; v->pushed_second = second; }
  if (v->n < NV_MAXN) v->n = v->n + 1; else nv_abad = 1;
}
static void nv_dvec_sort(uint64_t begin, uint64_t end, struct nv_dvec* v) { if (begin != 0 || end != v->n || v->sorted) nv_abad = 1; v->sorted = 1; }

#define NV_ACC_OK(self) (__CPROVER_is_fresh(self, sizeof(*(self))) && 0 <= (self)->bins && (self)->bins <= NV_MAXN && 0 <= (self)->outs && (self)->outs <= NV_MAXN \
  && 0 <= nv_b && nv_b < (self)->bins && 0 <= nv_o && nv_o < (self)->outs && !nv_abad && nv_red_calls == 0)
#define NV_RED_GHOST nv_red_calls, nv_red_n, nv_red_summand, nv_red_hit
/* accumulator_t::sort(): one (gain, bin) entry per bin, the whole vector sorted; the gain of bin nv_b is NV_GAIN */
#define NV_LOOP_acc_sort_1 \
__CPROVER_assigns(bin, deltas, nv_abad, NV_RED_GHOST) \
__CPROVER_loop_invariant(0 <= bin && bin <= bins && bins == self->bins && !nv_abad && !deltas.sorted && deltas.n == (uint64_t)bin && deltas.pushed == ((bin > nv_b) ? 1 : 0)) \
__CPROVER_loop_invariant(deltas.pushed == 1 ==> (deltas.pushed_second == nv_b && NV_IDENT(deltas.pushed_first, NV_GAIN_G))) \
__CPROVER_decreases(bins - bin)
/* (no uninterpreted function inside a loop invariant: the expected gain is named by a ghost defined in the precondition) */
double nv_gain_g;
#define NV_GAIN_G nv_gain_g
#define NV_CONTRACT_acc_sort \
__CPROVER_requires(NV_ACC_OK(self) && NV_IDENT(nv_gain_g, NV_GAIN(self))) \
__CPROVER_assigns(nv_abad, NV_RED_GHOST) \
__CPROVER_ensures(!nv_abad && __CPROVER_return_value.n == (uint64_t)self->bins && __CPROVER_return_value.sorted) \
__CPROVER_ensures(__CPROVER_return_value.pushed == 1 && __CPROVER_return_value.pushed_second == nv_b) \
__CPROVER_ensures(NV_IDENT(__CPROVER_return_value.pushed_first, NV_GAIN(self)))

/* table.cpp cache_t::score(bin): the residual sum of squares of the bin with its optimal constants */
#define NV_CONTRACT_tbl_score \
__CPROVER_requires(NV_ACC_OK(self) && bin == nv_b) \
__CPROVER_assigns(NV_RED_GHOST) \
__CPROVER_ensures(NV_IDENT(__CPROVER_return_value, NV_RSS_BIN(self)) && nv_red_calls == 1 && nv_red_n == self->outs)
/* accumulator_t::rss_zero(bin) = SUM_o r2; rss_constant(bin) = SUM_o (r2 - r1 * r1 / max(1, x0)); fit_constant(bin)(o) = r1 / max(1, x0) */
#define NV_CONTRACT_acc_rss_zero \
__CPROVER_requires(NV_ACC_OK(self) && bin == nv_b) __CPROVER_assigns(NV_RED_GHOST) \
__CPROVER_ensures(NV_IDENT(__CPROVER_return_value, NV_RSUM(self->r2g)) && nv_red_calls == 1 && nv_red_n == self->outs)
#define NV_CONTRACT_acc_rss_constant \
__CPROVER_requires(NV_ACC_OK(self) && bin == nv_b) __CPROVER_assigns(NV_RED_GHOST) \
__CPROVER_ensures(NV_IDENT(__CPROVER_return_value, NV_RSUM(NV_FSUB(self->r2g, NV_FDIV(NV_FMUL(self->r1g, self->r1g), nv_max_d(1.0, self->x0g))))) && nv_red_calls == 1 && nv_red_n == self->outs)
#define NV_CONTRACT_acc_fit_constant \
__CPROVER_requires(NV_ACC_OK(self) && bin == nv_b) __CPROVER_assigns() \
__CPROVER_ensures(NV_IDENT(__CPROVER_return_value.g, NV_FDIV(self->r1g, nv_max_d(1.0, self->x0g))) && __CPROVER_return_value.n == self->outs && __CPROVER_return_value.k == nv_o)

/* accumulator_t::update(vgrad, bin) / update(value, vgrad, bin): one more sample in the bin */
#define NV_VGRAD_OK(self) (__CPROVER_is_fresh(vgrad, sizeof(*vgrad)) && __CPROVER_is_fresh(vgrad->g, sizeof(double)) && vgrad->n == (self)->outs && vgrad->k == nv_o)
#define NV_UPDATED_2(self) (NV_IDENT((self)->x0g, NV_FADD(__CPROVER_old((self)->x0g), 1.0)) && NV_IDENT((self)->r1g, NV_FSUB(__CPROVER_old((self)->r1g), *vgrad->g)) \
  && NV_IDENT((self)->r2g, NV_FADD(__CPROVER_old((self)->r2g), NV_FMUL(*vgrad->g, *vgrad->g))))
#define NV_KEPT_2(self) (NV_IDENT((self)->x0g, __CPROVER_old((self)->x0g)) && NV_IDENT((self)->r1g, __CPROVER_old((self)->r1g)) && NV_IDENT((self)->r2g, __CPROVER_old((self)->r2g)))
#define NV_UPDATED_X(self) (NV_IDENT((self)->x1g, NV_FADD(__CPROVER_old((self)->x1g), value)) && NV_IDENT((self)->x2g, NV_FADD(__CPROVER_old((self)->x2g), NV_FMUL(value, value))) \
  && NV_IDENT((self)->rxg, NV_FSUB(__CPROVER_old((self)->rxg), NV_FMUL(*vgrad->g, value))))
#define NV_KEPT_X(self) (NV_IDENT((self)->x1g, __CPROVER_old((self)->x1g)) && NV_IDENT((self)->x2g, __CPROVER_old((self)->x2g)) && NV_IDENT((self)->rxg, __CPROVER_old((self)->rxg)))
#define NV_CONTRACT_acc_update \
__CPROVER_requires(NV_ACC_OK(self) && NV_VGRAD_OK(self) && 0 <= bin && bin < self->bins) \
__CPROVER_assigns(self->x0g, self->r1g, self->r2g, nv_other) \
/* the bin of the sample: count + 1, residual sum - gradient, squared residual sum + gradient^2, per output; any other bin: untouched */ \
__CPROVER_ensures(bin == nv_b ? (NV_UPDATED_2(self) && NV_IDENT(nv_other, __CPROVER_old(nv_other))) : NV_KEPT_2(self))
#define NV_CONTRACT_acc_update_x \
__CPROVER_requires(NV_ACC_OK(self) && NV_VGRAD_OK(self) && 0 <= bin && bin < self->bins) \
__CPROVER_assigns(self->x0g, self->r1g, self->r2g, self->x1g, self->x2g, self->rxg, nv_other) \
__CPROVER_ensures(bin == nv_b ? (NV_UPDATED_2(self) && NV_UPDATED_X(self) && NV_IDENT(nv_other, __CPROVER_old(nv_other))) : (NV_KEPT_2(self) && NV_KEPT_X(self)))

/* ================================================================================================ table.cpp cache_t::score_dense / score_kbest
 * what is STORED for a better candidate is one consistent look-up table: K = number of tables; for the tracked row nv_tr < K the
 * hash is the hash of the bin the row stands for, hash2tables maps it to that row, and the coefficients are the optimal constants
 * r1(bin, o) / x0(bin) of THAT bin (the constant the RSS of the candidate was computed for: lemma "bin RSS"); make_score is called
 * with k = K * #outputs parameters and n = m_samples.  dense: row = bin; k-best: row fv stands for the bin sorted at position fv.
 * (Not tracked: the float accumulation of rss itself.) */
int64_t nv_tr;
uint64_t nv_other_u; int64_t nv_other_i;
int64_t nv_ms_calls, nv_ms_k, nv_ms_n; double nv_ms_score;
int64_t nv_stores_t; int64_t nv_store_k; double nv_store_score_t; extern double nv_kb_score_g;
double __CPROVER_uninterpreted_mscore(int32_t, double, int64_t, int64_t);
static double nv_make_score(int32_t criterion, double rss, int64_t k, int64_t n)
{ nv_ms_calls = (nv_ms_calls < NV_MAXN) ? nv_ms_calls + 1 : nv_ms_calls; nv_ms_k = k; nv_ms_n = n; nv_ms_score = __CPROVER_uninterpreted_mscore(criterion, rss, k, n); return nv_ms_score; }
static uint64_t* nv_h1_at(struct nv_h1* t, int64_t i) { __CPROVER_assert(0 <= i && i < t->n, "hashes(i): index in range"); return (i == t->k) ? &t->g : &nv_other_u; }
static int64_t* nv_i1_at(struct nv_i1* t, int64_t i) { __CPROVER_assert(0 <= i && i < t->n, "indices(i): index in range"); return (i == t->k) ? &t->g : &nv_other_i; }
static void nv_h1_resize(struct nv_h1* t, int64_t n) { t->n = n; t->g = nv_nondet_uint64_t(); }
static void nv_i1_resize(struct nv_i1* t, int64_t n) { t->n = n; t->g = nv_nondet_int64_t(); }
/* tensor = tensor: a copy; the tracked element is known iff both are tracked at the same index */
static void nv_h1_assign(struct nv_h1* d, const struct nv_h1* s) { d->n = s->n; d->g = (d->k == s->k) ? s->g : nv_nondet_uint64_t(); }
static void nv_i1_assign(struct nv_i1* d, struct nv_i1 s) { d->n = s.n; d->g = (d->k == s.k) ? s.g : nv_nondet_int64_t(); }
/* ASSUMED: arange(lo, hi) = lo, lo + 1, .., hi - 1 */
static struct nv_i1 nv_arange(int64_t lo, int64_t hi) { struct nv_i1 r; r.n = hi - lo; r.k = nv_tr; r.g = lo + nv_tr; return r; }
static struct nv_dims2 nv_cat(int64_t rows, int64_t outs) { struct nv_dims2 d; d.rows = rows; d.outs = outs; return d; }
/* m_tables.resize(..): in both functions the first statement that rebuilds the stored coefficients = THE EVENT "a candidate is stored" */
static void nv_tab_resize(struct nv_tabg* t, struct nv_dims2 d)
{
  t->rows = d.rows; t->outs = d.outs; t->g = nv_nondet_double();
  nv_stores_t = (nv_stores_t < NV_MAXN) ? nv_stores_t + 1 : nv_stores_t; nv_store_k = d.rows; nv_store_score_t = nv_ms_score; nv_kb_score_g = nv_ms_score;
}
static struct nv_av nv_tab_array(struct nv_tabg* t, int64_t r)
{ __CPROVER_assert(0 <= r && r < t->rows, "tables.array(r): first index in range"); struct nv_av v; v.n = t->outs; v.k = nv_o; v.g = (r == t->kr) ? &t->g : &nv_other; return v; }
/* this->sort() by its contract (target acc_sort): one (gain, bin) pair per bin, sorted; the pair at position nv_tr is the pair of
 * bin nv_b (ghost choice: for every position there is the bin it belongs to), any other pair belongs to another bin */
static struct nv_mapv nv_sorted(const struct nv_accum* a)
{
  struct nv_mapv m; m.n = (uint64_t)a->bins; m.at.first = NV_GAIN(a); m.at.second = nv_b;
  m.other.first = nv_nondet_double(); m.other.second = nv_nondet_int64_t();
  __CPROVER_assume(0 <= m.other.second && m.other.second < a->bins && m.other.second != nv_b);
  return m;
}
static const struct nv_gpair* nv_mapv_at(const struct nv_mapv* m, uint64_t i)
{ __CPROVER_assert(i < m->n, "mapping[i]: index in range"); return (i == (uint64_t)nv_tr) ? &m->at : &m->other; }

#define NV_TBL_REQ \
__CPROVER_requires(NV_ACC_OK(self) && __CPROVER_is_fresh(hashes, sizeof(*hashes)) && hashes->n == self->bins && hashes->k == nv_b && 0 <= nv_tr && nv_tr < self->bins \
  && self->m_hashes.k == nv_tr && self->m_hash2tables.k == nv_tr && self->m_tables.kr == nv_tr && 0 <= self->m_samples && nv_ms_calls == 0 && nv_stores_t == 0)
#define NV_TBL_ASSIGNS __CPROVER_assigns(self->m_score, self->m_feature, self->m_hashes.n, self->m_hashes.g, self->m_hash2tables.n, self->m_hash2tables.g, self->m_tables.rows, self->m_tables.outs, \
  self->m_tables.g, nv_other, nv_other_u, nv_other_i, NV_RED_GHOST, nv_ms_calls, nv_ms_k, nv_ms_n, nv_ms_score, nv_stores_t, nv_store_k, nv_store_score_t, nv_kb_score_g)
/* the stored table, at the tracked row (K = nv_store_k tables) */
#define NV_TBL_STORED(self, feature, hashes) (nv_stores_t > 0 ==> (1 <= nv_store_k && nv_store_k <= (self)->bins && (self)->m_hashes.n == nv_store_k && (self)->m_hash2tables.n == nv_store_k \
  && (self)->m_tables.rows == nv_store_k && (self)->m_tables.outs == (self)->outs && (self)->m_feature == (feature) && NV_IDENT((self)->m_score, nv_store_score_t) \
  && (nv_tr < nv_store_k ==> ((self)->m_hashes.g == (hashes)->g && (self)->m_hash2tables.g == nv_tr))))
double nv_const_g;      /* ghost name of the optimal constant r1(nv_b, nv_o) / x0(nv_b) (no uninterpreted function inside loop invariants) */
#define NV_CONST_DEF(self) NV_IDENT(nv_const_g, NV_FDIV((self)->r1g, (self)->x0g))
/* ---- score_dense: row = bin, so the tracked row is the tracked bin */
#define NV_CONTRACT_tbl_score_dense NV_TBL_REQ __CPROVER_requires(nv_tr == nv_b && NV_CONST_DEF(self)) \
__CPROVER_requires(!nv_red_hit && NV_IDENT(nv_rss_summand_g, NV_FSUB(self->r2g, NV_FDIV(NV_SQ(self->r1g), self->x0g)))) NV_TBL_ASSIGNS \
__CPROVER_ensures(nv_ms_calls == 1 && nv_ms_n == self->m_samples) \
/* .rss: the rss is accumulated from exactly one reduction per bin; the one of the tracked bin is SUM_o (r2 - r1^2 / x0) of THAT bin (its minimum RSS: rss_smt) */ \
__CPROVER_ensures(nv_red_calls == self->bins && nv_red_hit) \
__CPROVER_ensures(NV_TBL_STORED(self, feature, hashes) && (nv_stores_t > 0 ==> (nv_stores_t == 1 && nv_store_k == self->bins && NV_IDENT(nv_store_score_t, nv_ms_score)))) \
/* .3 the coefficients stored for a bin are its optimal constants */ \
__CPROVER_ensures(nv_stores_t > 0 ==> NV_IDENT(self->m_tables.g, NV_FDIV(self->r1g, self->x0g))) \
__CPROVER_ensures(nv_stores_t == 0 ==> (NV_IDENT(self->m_score, __CPROVER_old(self->m_score)) && self->m_feature == __CPROVER_old(self->m_feature) && self->m_hashes.n == __CPROVER_old(self->m_hashes.n)))
#define NV_LOOP_tbl_score_dense_1 \
__CPROVER_assigns(bin, rss, NV_RED_GHOST) __CPROVER_loop_invariant(0 <= bin && bin <= bins && bins == self->bins && nv_red_calls == bin && ((bin > nv_b) ==> (nv_red_hit != 0))) __CPROVER_decreases(bins - bin)
#define NV_LOOP_tbl_score_dense_2 \
__CPROVER_assigns(bin, self->m_hash2tables.g, self->m_tables.g, nv_other, nv_other_i) \
__CPROVER_loop_invariant(0 <= bin && bin <= bins && bins == self->bins && self->m_hash2tables.n == bins && self->m_tables.rows == bins && self->m_tables.outs == self->outs) \
__CPROVER_loop_invariant(bin > nv_b ==> (self->m_hash2tables.g == nv_b && NV_IDENT(self->m_tables.g, nv_const_g))) \
__CPROVER_decreases(bins - bin)
/* ---- score_kbest: row fv stands for the bin sorted at position fv; the tracked bin is the one sorted at the tracked row */
#define NV_KB_STORED(self, feature, hashes) (NV_TBL_STORED(self, feature, hashes) && (nv_stores_t > 0 ==> (nv_store_k <= NV_LOOPBOUND_tbl_score_kbest_2 && NV_IDENT(nv_store_score_t, nv_kb_score_g) \
  && (nv_tr < nv_store_k ==> NV_IDENT((self)->m_tables.g, nv_const_g)))))
double nv_kb_score_g;
#define NV_CONTRACT_tbl_score_kbest NV_TBL_REQ __CPROVER_requires(NV_CONST_DEF(self) && max_kbest <= self->bins) NV_TBL_ASSIGNS \
__CPROVER_ensures(NV_TBL_STORED(self, feature, hashes)) \
/* .2 the coefficients stored in row fv are the optimal constants of the bin sorted at position fv (whose gain entered the score) */ \
__CPROVER_ensures((nv_stores_t > 0 && nv_tr < nv_store_k) ==> NV_IDENT(self->m_tables.g, NV_FDIV(self->r1g, self->x0g))) \
__CPROVER_ensures(nv_stores_t == 0 ==> (NV_IDENT(self->m_score, __CPROVER_old(self->m_score)) && self->m_feature == __CPROVER_old(self->m_feature) && self->m_hashes.n == __CPROVER_old(self->m_hashes.n)))
#define NV_LOOP_tbl_score_kbest_1 \
__CPROVER_assigns(bin, rss, NV_RED_GHOST) __CPROVER_loop_invariant(0 <= bin && bin <= bins && bins == self->bins) __CPROVER_decreases(bins - bin)
/* the k-best loop's counter and bound are named by their role (NV_LOOPVAR / NV_LOOPBOUND): the source may call them anything */
#define NV_LOOP_tbl_score_kbest_2 \
__CPROVER_assigns(NV_LOOPVAR_tbl_score_kbest_2, rss, self->m_score, self->m_feature, self->m_hashes.n, self->m_hashes.g, self->m_hash2tables.n, self->m_hash2tables.g, self->m_tables.rows, self->m_tables.outs, \
  self->m_tables.g, nv_other, nv_other_u, nv_ms_calls, nv_ms_k, nv_ms_n, nv_ms_score, nv_stores_t, nv_store_k, nv_store_score_t, nv_kb_score_g) \
__CPROVER_loop_invariant(1 <= NV_LOOPVAR_tbl_score_kbest_2 && NV_LOOPVAR_tbl_score_kbest_2 <= NV_LOOPBOUND_tbl_score_kbest_2 + 1 && NV_LOOPBOUND_tbl_score_kbest_2 <= self->bins && bins == self->bins && 0 <= nv_ms_calls && 0 <= nv_stores_t) \
__CPROVER_loop_invariant(NV_KB_STORED(self, feature, hashes) && (nv_stores_t > 0 ==> nv_store_k < NV_LOOPVAR_tbl_score_kbest_2)) \
__CPROVER_loop_invariant(nv_stores_t == 0 ==> (NV_IDENT(self->m_score, __CPROVER_loop_entry(self->m_score)) && self->m_feature == __CPROVER_loop_entry(self->m_feature) \
   && self->m_hashes.n == __CPROVER_loop_entry(self->m_hashes.n))) \
__CPROVER_decreases(NV_LOOPBOUND_tbl_score_kbest_2 + 1 - NV_LOOPVAR_tbl_score_kbest_2)
#define NV_LOOP_tbl_score_kbest_3 \
__CPROVER_assigns(fv, self->m_hashes.g, self->m_tables.g, nv_other, nv_other_u) \
__CPROVER_loop_invariant(0 <= fv && fv <= NV_LOOPVAR_tbl_score_kbest_2 && self->m_hashes.n == NV_LOOPVAR_tbl_score_kbest_2 && self->m_tables.rows == NV_LOOPVAR_tbl_score_kbest_2 && self->m_tables.outs == self->outs) \
__CPROVER_loop_invariant(fv > nv_tr ==> (self->m_hashes.g == hashes->g && NV_IDENT(self->m_tables.g, nv_const_g))) \
__CPROVER_decreases(NV_LOOPVAR_tbl_score_kbest_2 - fv)
