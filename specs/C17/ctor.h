/* C17: pool_t::pool_t(threads) and pool_t::max_size(): the number of workers is clamp(threads, 1, max_size()) >= 1, one
 * thread per worker, worker k gets id k -- hence every worker id is below size(). */
#include "pool.h"
uint32_t nv_hw;               /* std::thread::hardware_concurrency(): any value, 0 included ("not computable") */
uint64_t nv_g;                /* ghost index: an arbitrary worker position */
uint64_t nv_tnum_at_g;        /* the id given to the worker at position nv_g */
uint64_t nv_workers_reserved;
static uint32_t nv_hardware_concurrency(void) { return nv_hw; }
static uint64_t nv_max_u64(uint64_t a, uint64_t b) { return a < b ? b : a; }              /* std::max */
static uint64_t nv_clamp_u64(uint64_t v, uint64_t lo, uint64_t hi)                        /* std::clamp */
{
  __CPROVER_assert(!(hi < lo), "std::clamp precondition: lo <= hi (else undefined behaviour)");
  return v < lo ? lo : (hi < v ? hi : v);
}
static void nv_workers_reserve(struct nv_workers* w, uint64_t n) { nv_workers_reserved = n; }
/* std::vector<worker_t>::emplace_back(queue, tnum) constructs worker_t(queue, tnum) at the back (worker_ctor target) */
static void nv_workers_emplace_back(struct nv_workers* w, struct nv_queue* q, uint64_t tnum)
{
  __CPROVER_assert(tnum == w->size, "constructor: the worker at position k gets id k (ids distinct and below the number of workers)");
  __CPROVER_assert(w->size < nv_workers_reserved, "constructor: capacity was reserved (threads hold references to the workers: no reallocation)");
  if (w->size == nv_g) nv_tnum_at_g = tnum;
  w->size = w->size + 1;
}
/* std::transform(first, last, back_inserter(out), f): one output element per input element, appended */
static void nv_spawn_threads(struct nv_workers* first, struct nv_workers* last, struct nv_threads* out)
{
  __CPROVER_assert(first == last, "constructor: begin/end of the same vector");
  out->size = out->size + first->size;
}
/* queue_t::queue_t() = default: extracted (queue_ctor, default member initialisers included); the constructor
 * expression in pool_t's initialiser list needs a value */
void queue_ctor(struct nv_queue* self);
static struct nv_queue nv_queue_make(void) { struct nv_queue q; queue_ctor(&q); return q; }
#define NV_CONTRACT_queue_ctor \
__CPROVER_requires(__CPROVER_is_fresh(self, sizeof(*self))) __CPROVER_assigns(*self) \
__CPROVER_ensures(!self->m_stop && self->m_tasks.size == 0)
#define NV_MAX_SIZE (nv_hw >= 1 ? (uint64_t)nv_hw : (uint64_t)1)
#define NV_CONTRACT_pool_max_size \
__CPROVER_assigns() \
__CPROVER_ensures(__CPROVER_return_value >= 1 && __CPROVER_return_value == NV_MAX_SIZE)
#define NV_CONTRACT_pool_ctor \
__CPROVER_requires(__CPROVER_is_fresh(self, sizeof(*self))) \
__CPROVER_assigns(*self, nv_tnum_at_g, nv_workers_reserved) \
__CPROVER_ensures(self->m_threads.size == self->m_workers.size && 1 <= self->m_threads.size && self->m_threads.size <= NV_MAX_SIZE) \
__CPROVER_ensures(self->m_threads.size == (threads < 1 ? 1 : (threads > NV_MAX_SIZE ? NV_MAX_SIZE : threads))) \
__CPROVER_ensures(nv_g < self->m_workers.size ==> (nv_tnum_at_g == nv_g && nv_tnum_at_g < self->m_threads.size)) \
__CPROVER_ensures(!self->m_queue.m_stop && self->m_queue.m_tasks.size == 0)
#define NV_LOOP_pool_ctor_1 \
__CPROVER_assigns(tnum, self->m_workers.size, nv_tnum_at_g) \
__CPROVER_loop_invariant(tnum <= n_workers && self->m_workers.size == tnum && (nv_g < tnum ==> nv_tnum_at_g == nv_g)) \
__CPROVER_decreases(n_workers - tnum)

/* pool_t::~pool_t(): stop is set with the queue mutex held, the workers are notified, the mutex is released before they are
 * joined (a join with the mutex held can never return: the workers need it to see the stop), every thread is
 * joined exactly once (stated at the ghost position nv_g). */
_Bool nv_stop_set_locked, nv_notified_d; uint64_t nv_g_joins, nv_joins;
/* `m_queue.m_stop = true` (printed through the spec's stop_write_hook so that the lock state at the write is visible) */
static _Bool nv_set_stop(_Bool* stop, _Bool v)
{
  __CPROVER_assert(nv_mutex_held, "destructor: stop is written with the queue mutex held (else a worker may miss it and sleep forever)");
  *stop = v; nv_stop_set_locked = 1; return v;
}
static void nv_notify_all_d(struct nv_cond* c, struct nv_pool* self)
{
  __CPROVER_assert(self->m_queue.m_stop, "destructor: the workers are notified after stop was set");
  nv_notified_d = 1;
}
struct nv_thread { uint64_t pos; };       /* std::thread: identified by its position in m_threads */
struct nv_thread nv_thread_cur;
static struct nv_thread* nv_thread_at(uint64_t i) { nv_thread_cur.pos = i; return &nv_thread_cur; }
static void nv_thread_join(struct nv_thread* t, struct nv_pool* self)
{
  uint64_t i = t->pos;
  __CPROVER_assert(!nv_mutex_held, "destructor: join with the queue mutex released (else the worker can never see the stop)");
  __CPROVER_assert(self->m_queue.m_stop && nv_notified_d, "destructor: join after stop was set and the workers were notified");
  if (i == nv_g) nv_g_joins = nv_g_joins + 1;
  nv_joins = nv_joins + 1;
}
#define NV_CONTRACT_pool_dtor \
__CPROVER_requires(__CPROVER_is_fresh(self, sizeof(*self)) && !nv_mutex_held && !nv_notified_d && nv_g_joins == 0 && nv_joins == 0) \
__CPROVER_assigns(self->m_queue.m_stop, nv_mutex_held, nv_notified_d, nv_stop_set_locked, nv_g_joins, nv_joins, nv_thread_cur) \
__CPROVER_ensures(self->m_queue.m_stop && nv_notified_d && !nv_mutex_held && nv_joins == self->m_threads.size) \
__CPROVER_ensures(nv_g < self->m_threads.size ==> nv_g_joins == 1)
#define NV_LOOP_pool_dtor_1 \
__CPROVER_assigns(__begin1, nv_g_joins, nv_joins, nv_thread_cur) \
__CPROVER_loop_invariant(__begin1 <= __end1 && __end1 == self->m_threads.size && nv_joins == __begin1 && nv_g_joins == (nv_g < __begin1 ? 1 : 0)) \
__CPROVER_decreases(__end1 - __begin1)
