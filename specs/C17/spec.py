"""C17 -- thread pool: task generation tiles [0, elements) and the sequential worker / shutdown protocol.

Decided (sequentially, for every input): see pool.h.  Everything about interleavings is listed under not_decided.
"""
import astload
from core import Fn, Target, VC
import hooks

TU = 'drivers/inst_parallel.cpp'
SRC = 'src/core/parallel.cpp'
TSIZES = [('i64', 'long', 'int64_t'), ('u64', 'unsigned long', 'uint64_t'), ('i32', 'int', 'int32_t')]

TYPES = [(r'^nano::parallel::pool_t$', 'struct nv_pool'), (r'^nano::parallel::queue_t$', 'struct nv_queue'),
         (r'^nano::parallel::section_t$', 'struct nv_section'), (r'^nvdrv::op_(range|index)_t<', 'struct nv_op'),
         (r'^std::(scoped_lock|unique_lock)<', 'struct nv_lock'), (r'^std::mutex$', 'struct nv_mutex'),
         (r'^std::condition_variable$', 'struct nv_cond'),
         (r'^nano::parallel::future_t$|^std::shared_future<void>$', 'struct nv_future'),
         (r'^nano::parallel::task_t$|^std::packaged_task<void \(unsigned long\)>$', 'struct nv_task'),
         (r'^std::deque<std::packaged_task<void \(unsigned long\)>', 'struct nv_deque'),
         (r'^std::vector<std::thread', 'struct nv_threads'), (r'^std::vector<nano::parallel::worker_t', 'struct nv_workers')]
LOCKS = [(r'^ctor\|std::(scoped_lock|unique_lock)<std::mutex>\|', 'nv_lock_ctor({&0})')]
DTORS = [(r'^std::(scoped_lock|unique_lock)<', 'nv_lock_dtor')]
MAP_DTORS = DTORS + [(r'^nano::parallel::section_t$', 'nv_section_dtor')]
ITER = r'__normal_iterator<std::(shared_future<void>|thread) \*|^std::vector<std::(shared_future<void>|thread)>::iterator$'
ITER_OPS = [(r'^operator!=\|bool \(const __normal_iterator', '({0} != {1})'), (r'^operator\+\+\|.*__normal_iterator', '(++{0})')]


def void_ret(d):
    return d['type']['qualType'].startswith('void')


def mangled(part):
    return lambda d: part in (d.get('mangledName') or '')


def stop_write_hook(P, n):
    """`<queue>.m_stop = v` -> nv_set_stop(&<queue>.m_stop, v): makes the lock state at the write observable"""
    from cxx2c import unwrap
    if n.get('kind') == 'CXXOperatorCallExpr' and len(n.get('inner', [])) == 3 and \
            (unwrap(n['inner'][0]).get('referencedDecl') or {}).get('name') == 'operator=':
        lhs, rhs = n['inner'][1], n['inner'][2]      # `m_stop = v` on a std::atomic<bool> member
    elif n.get('kind') == 'BinaryOperator' and n.get('opcode') == '=':
        lhs, rhs = n['inner'][0], n['inner'][1]
    else:
        return None
    if unwrap(lhs).get('kind') != 'MemberExpr' or unwrap(lhs).get('name') != 'm_stop':
        return None
    P.note('m_stop = v -> nv_set_stop')
    return f'nv_set_stop({P.addr(lhs)}, {P.expr(rhs)})'


def targs(*want):
    return lambda d: astload.template_args(d)[:len(want)] == list(want)


# std::vector<future_t> (section_t's base class, or a local vector of futures) and its iterators, std::shared_future<void>: section.h
FUTVEC = r'std::vector<(nano::parallel::)?future_t>|std::vector<std::shared_future<void>\s*>'
FIT = r'__normal_iterator<(const )?std::shared_future<void> \*|^std::vector<(std::shared_future<void>|(nano::parallel::)?future_t)>::(const_)?iterator$'
FUT_CALLS = [(r'^operator!=\|bool \(const __normal_iterator<(const )?std::shared_future', '({0}.i != {1}.i)'),
             (r'^operator==\|bool \(const __normal_iterator<(const )?std::shared_future', '({0}.i == {1}.i)'),
             (r'^operator\+\+\|.*__normal_iterator<(const )?std::shared_future', '(++{0}.i)'),
             (r'^operator\*\|.*__normal_iterator<(const )?std::shared_future', '(*nv_future_at({0}.v, {0}.i))'),
             (r'^operator\+\|.*__normal_iterator<(const )?std::shared_future', 'nv_fit_plus({0}, {1})'),
             (r'^ctor\|(%s)\|void \((std::)?vector<.*> &&\)' % FUTVEC, 'nv_futvec_move({&0})'),
             (r'^operator=\|.*vector<.*> &&\)\|(%s|nano::parallel::section_t)' % FUTVEC, 'nv_futvec_move_assign({&0}, {&1})'),
             (r'^ctor\|(%s)\|void \(__gnu_cxx::__normal_iterator<(const )?std::shared_future<void> \*.*, __gnu_cxx::__normal_iterator<' % FUTVEC, 'nv_futvec_range({0}, {1})'),
             (r'^operator=\|.*\(const (std::)?vector<.*> &\)\|(%s|nano::parallel::section_t)' % FUTVEC, 'nv_futvec_copy_assign({&0}, {&1})'),
             (r'^swap\|.*\|(%s|nano::parallel::section_t)' % FUTVEC, 'nv_futvec_swap({&0}, {&1})'), (r'^move\|', '{0}')]
FUT_MEMBERS = [(r'^c?begin\|std::vector<std::shared_future', 'nv_fit_begin({self})'),
               (r'^c?end\|std::vector<std::shared_future', 'nv_fit_end({self})'),
               (r'^swap\|std::vector<std::shared_future', 'nv_futvec_swap({self}, {&0})'),
               (r'^clear\|std::vector<std::shared_future', 'nv_futvec_clear'), (r'^empty\|std::vector<std::shared_future', 'nv_futvec_empty'),
               (r'^size\|std::vector<std::shared_future', '{self}->size'),
               (r'^valid\|std::__basic_future<void>', 'nv_future_valid'), (r'^get\|std::shared_future<void>', 'nv_future_get!'),
               (r'^wait\|std::__basic_future<void>', 'nv_future_wait'),
               (r'^wait_(for|until)\|std::__basic_future<void>', 'nv_future_wait_for({self})')]


def section_fns():
    """section_t::block(raise) and ~section_t() (contracts: section.h); ~section_t calls block through its contract"""
    scommon = dict(self_struct='struct nv_section', types=[(r'::difference_type$', 'int64_t'), (FIT, 'struct nv_fit'), (r'^(%s)$' % FUTVEC, 'struct nv_section')] + TYPES, uf_float=False)
    block = Fn('section_block', SRC, 'block', flt='section_t::block', calls=FUT_CALLS, members=FUT_MEMBERS, **scommon)
    sdtor = Fn('section_dtor', SRC, '~section_t', flt='section_t::~section_t', kinds=('CXXDestructorDecl',),
               calls=FUT_CALLS, members=[(r'^block\|nano::parallel::section_t', 'nv_call_block({self}, {0})!')] + FUT_MEMBERS, **scommon)
    return block, sdtor


def pool_size():
    return Fn('pool_size', TU, 'size', flt='nano::parallel::pool_t::size', self_struct='struct nv_pool', types=TYPES,
              members=[(r'^size\|std::vector<std::thread', '{self}->size')], uf_float=False)


def map_fns(tag, cxx):
    """pool_t::map<tsize, op> (chunked / un-chunked) and the bodies of the lambdas it pushes into the queue"""
    common = dict(self_struct='struct nv_pool', types=TYPES, dtors=MAP_DTORS, uf_float=False)
    members = [(r'^size\|nano::parallel::pool_t', 'pool_size'),
               (r'^reserve\|std::vector<std::shared_future<void>', 'nv_section_reserve({self}, {0})'),
               (r'^emplace_back\|std::vector<std::shared_future<void>', 'nv_section_emplace_back({self}, {0})'),
               (r'^notify_all\|std::condition_variable', 'nv_notify_all'),
               (r'^block\|nano::parallel::section_t', 'nv_section_block({self}, {0})!')] + FUT_MEMBERS[2:6]     # swap / clear / empty / size
    calls_c = LOCKS + [(r'^min\|', 'nv_min({0}, {1})'), (r'^operator\(\)\|void \(\w[\w ]*, \w[\w ]*, size_t\) const\|nvdrv::op_range_t', 'nv_op_range({&0}, {1}, {2}, {3})')]
    calls_i = LOCKS + [(r'^operator\(\)\|void \(\w[\w ]*, size_t\) const\|nvdrv::op_index_t', 'nv_op_index({&0}, {1}, {2})')]
    flt = 'nano::parallel::pool_t::map'
    chunk = Fn(f'map_chunk_{tag}', TU, 'map', flt=flt, select=targs(cxx, f'nvdrv::op_range_t<{cxx}>'), members=members, calls=calls_c,
               hooks=[hooks.task_lambda_hook('enqueue_no_lock', 'nv_enqueue_range', ('begin', 'end'))], **common)
    index = Fn(f'map_index_{tag}', TU, 'map', flt=flt, select=targs(cxx, f'nvdrv::op_index_t<{cxx}>'), members=members, calls=calls_i,
               hooks=[hooks.task_lambda_hook('enqueue_no_lock', 'nv_enqueue_index', ('index',))], **common)
    return chunk, index


def task_fns(tag, cxx, cty):
    flt = 'nano::parallel::pool_t::map'
    tc = Fn(f'map_chunk_task_{tag}', TU, 'map', flt=flt, select=targs(cxx, f'nvdrv::op_range_t<{cxx}>'), lambda_index=0, types=TYPES,
            calls=[(r'^operator\(\)\|.*\|nvdrv::op_range_t', 'nv_task_op_range({&0}, {1}, {2}, {3})')],
            extra_params=['const struct nv_op* op', f'{cty} begin', f'{cty} end'], uf_float=False)
    ti = Fn(f'map_index_task_{tag}', TU, 'map', flt=flt, select=targs(cxx, f'nvdrv::op_index_t<{cxx}>'), lambda_index=0, types=TYPES,
            calls=[(r'^operator\(\)\|.*\|nvdrv::op_index_t', 'nv_task_op_index({&0}, {1}, {2})')],
            extra_params=['const struct nv_op* op', f'{cty} index'], uf_float=False)
    return tc, ti


def other_targets():
    W = 'specs/C17/worker.h'
    wcommon = dict(self_struct='struct nv_worker', types=TYPES, uf_float=False)
    wmembers = [(r'^wait\|std::condition_variable', 'nv_cond_wait({self}, {&0}, self)'), (r'^empty\|.*std::deque<', 'nv_deque_empty'),
                (r'^front\|std::deque<', 'nv_deque_front({self})'), (r'^pop_front\|std::deque<', 'nv_deque_pop_front'),
                (r'^clear\|std::deque<', 'nv_deque_clear'), (r'^notify_all\|std::condition_variable', 'nv_notify_all_w')]
    wcalls = LOCKS + [(r'^operator=\|std::packaged_task<', '({0} = {1})'), (r'^move\|', '{0}'),
                      (r'^operator\(\)\|void \(unsigned long\)\|(nano::parallel::task_t|std::packaged_task<)', 'nv_task_run({&0}, {1}, self)')]
    pred = lambda: Fn('worker_wait_pred', SRC, 'operator()', flt='worker_t::operator()', select=void_ret, lambda_index=0, ret='_Bool',
                      members=wmembers, **wcommon)
    run = Fn('worker_run', SRC, 'operator()', flt='worker_t::operator()', select=void_ret, members=wmembers, calls=wcalls, dtors=DTORS, **wcommon)
    wctor = Fn('worker_ctor', SRC, 'worker_t', flt='worker_t::worker_t', kinds=('CXXConstructorDecl',),
                select=lambda d: astload.param_types(d) == ['nano::parallel::queue_t &', 'size_t'], **wcommon)

    C = 'specs/C17/ctor.h'
    pcommon = dict(self_struct='struct nv_pool', types=[(ITER, 'uint64_t'), (r'^std::thread$', 'struct nv_thread')] + TYPES, uf_float=False)
    maxs = lambda: Fn('pool_max_size', SRC, 'max_size', flt='pool_t::max_size', types=TYPES, uf_float=False,
                      calls=[(r'^max\|', 'nv_max_u64({0}, {1})'), (r'^hardware_concurrency\|', 'nv_hardware_concurrency()')])
    ctor = Fn('pool_ctor', SRC, 'pool_t', flt='pool_t::pool_t', kinds=('CXXConstructorDecl',),
              select=lambda d: astload.param_types(d) == ['const size_t'],
              calls=[(r'^ctor\|nano::parallel::queue_t\|void \(\)', 'nv_queue_make()'), (r'^clamp\|', 'nv_clamp_u64({0}, {1}, {2})'), (r'^max_size\|', 'pool_max_size()'),
                     (r'^transform\|', 'nv_spawn_threads({0}, {1}, {2})'), (r'^back_inserter\|', '{&0}')],
              members=[(r'^reserve\|std::vector<nano::parallel::worker_t', 'nv_workers_reserve'),
                       (r'^emplace_back\|std::vector<nano::parallel::worker_t', 'nv_workers_emplace_back({self}, {&0}, {1})'),
                       (r'^(begin|end)\|std::vector<nano::parallel::worker_t', '({self})')], **pcommon)
    qctor = lambda: Fn('queue_ctor', SRC, 'queue_t', flt='queue_t::queue_t', kinds=('CXXConstructorDecl',), self_struct='struct nv_queue',
                       types=TYPES, uf_float=False)
    dtor = Fn('pool_dtor', SRC, '~pool_t', flt='pool_t::~pool_t', kinds=('CXXDestructorDecl',), dtors=DTORS, hooks=[stop_write_hook],
              calls=LOCKS + ITER_OPS + [(r'^operator\*\|.*__normal_iterator<std::thread', '(*nv_thread_at({0}))')],
              members=[(r'^notify_all\|std::condition_variable', 'nv_notify_all_d({self}, self)'), (r'^begin\|std::vector<std::thread', '((uint64_t)0)'),
                       (r'^end\|std::vector<std::thread', '{self}->size'), (r'^join\|std::thread', 'nv_thread_join({self}, self)')], **pcommon)

    B = 'specs/C17/block.h'
    block, sdtor = section_fns()

    Q = 'specs/C17/queue.h'
    qtypes = TYPES + [(r'^std::future<void>$|^future<void>$', 'struct nv_future'), (r'\(lambda at .*parallel\.h', 'struct nv_fn'), (r'^nvdrv::fn_t$', 'struct nv_fn')]
    qcommon = dict(self_struct='struct nv_queue', types=qtypes, uf_float=False, dtors=DTORS,
                   calls=LOCKS + [(r'^ctor\|(nano::parallel::task_t|std::packaged_task<void \(unsigned long\)>)\|', 'nv_task_make({&0})'), (r'^forward\|', '{0}'), (r'^move\|', '{0}'),
                                  (r'^ctor\|(nano::parallel::future_t|std::shared_future<void>)\|void \(future<void> &&\)', '{0}')],
                   members=[(r'^get_future\|', 'nv_task_get_future'), (r'^emplace_back\|std::deque<', 'nv_deque_emplace_back({self}, {&0})'),
                            (r'^notify_one\|std::condition_variable', 'nv_notify_one')])
    enl = Fn('enqueue_no_lock', TU, 'enqueue_no_lock', flt='nano::parallel::queue_t::enqueue_no_lock', select=mangled('op_range_tIlE'), **qcommon)
    enq = Fn('enqueue', TU, 'enqueue', flt='nano::parallel::queue_t::enqueue', select=lambda d: astload.template_args(d) == ['const nvdrv::fn_t &'], **qcommon)
    return [Target('worker_run', [run, pred()], W), Target('worker_wait_pred', [pred()], W), Target('worker_ctor', [wctor], W),
            Target('pool_ctor', [ctor, maxs(), qctor()], C), Target('queue_ctor', [qctor()], C), Target('pool_max_size', [maxs()], C), Target('pool_dtor', [dtor], C),
            Target('section_block', [block], B), Target('section_dtor', [sdtor, section_fns()[0]], B, replace=['section_block']),
            Target('enqueue_no_lock', [enl], Q), Target('enqueue', [enq], Q)]


def build(tier):
    targets = []
    for tag, cxx, cty in TSIZES:
        H = f'specs/C17/map_{tag}.h'
        chunk, index = map_fns(tag, cxx)
        tc, ti = task_fns(tag, cxx, cty)
        SR = ['section_block', 'section_dtor']     # the real block / ~section_t, called through their contracts (section.h)
        targets += [Target(f'map_chunk_{tag}', [chunk, pool_size()] + list(section_fns()), H, replace=SR),
                    Target(f'map_index_{tag}', [index, pool_size()] + list(section_fns()), H, replace=SR),
                    Target(f'map_chunk_task_{tag}', [tc], H), Target(f'map_index_task_{tag}', [ti], H)]
    targets += other_targets()
    import count_smt
    import conc
    bounded = conc.targets(tier, globals())
    vcs, fns = [], []
    for tag, _, _ in TSIZES:
        v, info = count_smt.vcs_for(tag)
        vcs += v
        fns.append(info)
    return {
        'targets': targets, 'vcs': vcs, 'functions': fns, 'bounded': bounded,
        'decided': [
            'pool_t::map (chunked), tsize = tensor_size_t / size_t / int, every elements, chunksize >= 1, pool size >= 1: the (begin, end) ranges handed to the operator (sequential branch) or captured by value into the enqueued tasks (parallel branch) tile [0, elements): first at 0, consecutive, non-empty, end == min(begin + chunksize, elements), last ends at elements; the recurrence has one solution, so both branches generate the same sequence; only one branch generates; something is generated iff elements > 0',
            'number of generated ranges == (elements + chunksize - 1) / chunksize == the count passed to section.reserve (SMT over Int, with overflow obligations)',
            'pool_t::map (un-chunked): indices 0..elements-1 once each, in order; number of tasks == elements == reserve count',
            'each task lambda calls the operator exactly once on exactly its captured range / index with the worker id it is run with; the sequential branch passes worker id 0 < pool size',
            'map protocol: tasks are pushed with the queue mutex held; the mutex is released before blocking; workers are notified after the last push and before blocking; the section holds exactly one future per task, in order; block gets the caller\'s raise flag; an exception leaves map only if raise is set',
            'map completion on EVERY exit (normal or exceptional), for an arbitrary (ghost) task of the call: when map is left, this thread has observed that the task finished (wait() / get() returned or threw, or wait_for() reported ready).  Proved MODULARLY: map calls the REAL section_t::block and ~section_t through their contracts (DFCC replace-call-with-contract, section.h), and both are proved against these contracts in targets section_block / section_dtor; ~section_t runs at every scope exit of `section` (C++ rule, applied by the printer) with the exception in flight set aside and must not throw itself',
            'map re-throw: with raise == true, if any task of the call ends with a stored exception then an exception leaves map (it is never swallowed); with raise == false none leaves',
            'worker loop (one worker, monitor semantics for wait(lock, pred) with the real predicate): front/pop_front only on a non-empty queue with the lock held; the popped task is the one run, exactly once, with this worker\'s id, after the lock was released; the worker leaves only after seeing stop, with the queue cleared, the others notified, no lock held, nothing run after stop was seen',
            'pool_t::pool_t(threads): #workers == #threads == clamp(threads, 1, max_size()) in [1, max_size()], worker k gets id k (so every id < size()); max_size() == max(1, hardware_concurrency) >= 1; worker_t constructor stores its id',
            '~pool_t: stop written with the mutex held, workers notified after that, mutex released before any join, every thread joined exactly once',
            'section_t::block(raise) (real body incl. any LOCAL std::vector<future_t> it uses: default / move construction, swap, std::swap, clear, range-for; file-local helpers are extracted automatically), at a ghost task: (1) an exception leaves only if raise; (2) on the normal exit every valid future held at entry has been waited for; (3) on the exceptional exit each of them has been waited for OR IS STILL HELD BY THE SECTION (so ~section_t waits for it); (4) with raise a stored exception is delivered (block does not return normally) and (5) every valid future went through get() -- a future that is already ready (wait_for) is no exception; (6) the exception that leaves is the first stored one in visiting order; (7) observed completion is never lost; every position visited once, in order; get / wait / wait_for only on valid futures',
            '~section_t(): does not throw; every valid future the section holds has been waited for (block is called through its proved contract)',
            'queue_t::enqueue_no_lock / enqueue: exactly one task is pushed, the returned future is that task\'s; enqueue pushes under the lock and notifies once afterwards',
            'BOUNDED (not proved; listed under bounded; THOROUGH tier: target conc_map_1sub_2_w0only, elements <= 2, 55-70 s of SAT time; QUICK tier: only conc_map_1sub_1_w0only, the same harness with elements <= 1, i.e. the sequential branch of map between the real constructor and ~pool_t with idle workers, ~30 s): the extracted pool_t(2) constructor (real worker_t constructor binds queue and id, any hardware_concurrency), map(elements <= 2, op, any raise) un-chunked size_t with the real enqueue_no_lock and task lambda, worker_t::operator() with its real wait predicate, section_t::block / ~section_t and ~pool_t run as CBMC threads: ALL interleavings of the submitting thread with worker 0 in which worker thread 1 is not scheduled before it is joined.  Asserted: every task body runs at most once; front / pop_front / emplace_back / clear / empty only with the mutex held by the calling thread and (front, pop_front) on a non-empty queue; the popped task holds its function and was moved out before pop_front; the task and the operator run outside the lock; worker id below the pool size and not in use by another running task of the call; when map returns every element was processed and every task finished, none outside [0, elements); no exception leaves map; wait called with the lock held; no self-deadlock on the mutex; join with the mutex released, once per thread; after ~pool_t every worker has left its loop without the lock and was joined, stop is set, the mutex free, the queue empty, nothing touches the queue or runs afterwards; every loop stays within its unwinding bound; reachability canary: the final state is reached'],
        'not_decided': [
            'EVERY interleaving claim of the property remains UNPROVED (the interleaving check below is a bounded stand-in, never counted): that each enqueued task is executed exactly once when several workers and submitters run concurrently, that a worker id is never used by two tasks of one call at the same time, that map returns only after all tasks finished under every schedule, absence of lost wake-ups, deadlock-free shutdown with busy workers / queued tasks, several threads submitting to one pool',
            'interleavings in which BOTH worker threads run: the same harness with two worker threads (conc.py scen_a(2, False): 2 workers + submitter, <= 2 tasks) is beyond CBMC 6.11\'s partial-order encoding here: ~370k variables / 1.8M clauses, the first satisfying schedule takes 30-80 s and the final UNSAT call did not finish in 280 s with minisat or cadical, also when restricted to the single worker-id assertion (--property), with hardware_concurrency fixed, without ~pool_t, or with the workers first scheduled at map\'s notify_all; critical sections as CBMC atomic sections (Lipton reduction) are rejected by symex ("atomic sections differ across branches": the worker leaves its critical section on two paths).  Consequently the worker-id exclusivity clause (two workers given the same tnum) is exercised by the sequential constructor proof only; 2 submitters and shutdown under load (queued / running tasks at ~pool_t, broken promises: conc.h NV_BROKEN_PROMISES) were not run',
            'run time of the two-element interleaving scenario: 55-70 s CPU (cadical: 20 s for the canary model + 43 s for the final UNSAT call); tried without gain: minisat (8 + 53 s), --slice-formula (22 + 46 s), --no-sat-preprocessor (15 + 80 s), kissat as external solver (36 + 60 s), the UNSAT call alone without the canaries (75 s, so splitting the properties over processes does not help); the one-element scenario still takes ~30 s (constructor / shutdown interleavings dominate, not the tasks), so the cost sits in the lifecycle events of the partial-order encoding (mutex word 24 writes, deque size 14, running flags 14); it therefore runs in the thorough tier only (its 7 canary mutations carry "tier": "thorough")',
            'lost wake-ups / deadlock freedom: the bounded model lets wait(lock, pred) return whenever pred holds (notify_one / notify_all are no-ops), so a missing or misplaced notify is invisible; only "the final state is reachable under some schedule" is checked (nv_canary).  The stricter notification-counter model is sketched in conc.h (NV_STRICT_NOTIFY) but not run',
            'data races on plain members read outside the models (m_stop is read directly by the extracted code): no race detector is run (goto-instrument --race-check not tried); sequential consistency is assumed by the bounded check',
            'data races on the operator\'s own state; exceptions thrown by the operator in the sequential branch (observation, demonstrated natively: there an exception leaves map also with raise == false, so whether map(.., false) throws depends on the pool size: specs/C17/FINDING_seq_branch_raise.md)',
            'section_t::block written with an INDEX loop ((*this)[i]) instead of an iterator / range-based loop (those are covered: the loop contract names the iterator by its role): undecided (exit 2), not refuted; a local of type section_t inside block (its destructor calls block again) and try / catch inside block or map are not in the printer\'s / the model\'s vocabulary (undecided)',
            'that "this thread observed the task finished" implies the operator\'s effects are visible to the caller (happens-before through the shared state of std::future: assumed, C++ [futures.state])',
            'std::thread(std::cref(worker)) starts worker k on thread k (lambda inside std::transform: not extractable, dependent types)',
            'that clearing the queue on stop breaks the promises of the dropped tasks (std::packaged_task destructor semantics)',
            'chunked map with chunksize < elements and elements + chunksize not representable in tsize (precondition, see assumptions)'],
        'assumptions': [
            'PRECONDITION (reported, not a finding): chunksize >= 1 (map\'s own assert) and, when chunksize < elements, elements + chunksize <= max(tsize); otherwise `elements + chunksize - 1` / `begin + chunksize` / `begin += chunksize` overflow (signed: UB; unsigned: wrong reserve count, possibly non-termination).  Only a real restriction for tsize = int; libnano\'s callers use tensor_size_t sample counts and small batch sizes',
            'pool size >= 1 when map is called (proved as the constructor\'s postcondition)',
            'std::condition_variable::wait(lock, pred) returns with the lock held and pred() true; while waiting and while a task runs the queue is arbitrary (monitor semantics)',
            'std::deque is a FIFO: front() is the oldest element, pop_front() removes it, emplace_back appends; clear() empties',
            'std::scoped_lock / std::unique_lock lock in the constructor and unlock in the destructor; destructors of locals run at scope exit in reverse order (C++ rule, applied by the printer)',
            'std::min / std::max / std::clamp (with lo <= hi) return the mathematical min / max / clamp',
            'std::vector::emplace_back appends one element; std::transform + back_inserter appends one output per input; range-for visits begin..end',
            'std::packaged_task(f) holds f, get_future() returns its future, moving it leaves it empty; shared_future::get() waits then rethrows the stored exception (every time it is called; the only call that delivers it), wait() waits; wait_for / wait_until return future_status::ready iff the shared state is ready (it may become ready at any time, never un-ready), never deferred, and consume nothing; valid() of the copies of one future agree',
            'std::vector<future_t> (section_t and local vectors): a vector of futures is the contiguous range of task ids it holds (map\'s emplace_back asserts that it is filled in task order); default construction = empty, swap / std::swap exchange contents, move construction / assignment leave the source empty, clear() drops the futures WITHOUT waiting (shared_future destructor does not block), iterators = (container, position); a copy (copy construction / assignment, construction from an iterator range) holds the same futures as its source (shared states)',
            'the task whose future throws in get() is described by a prophecy bit per ghost task (the task ends with a stored exception or not); futures other than the ghost one throw nondeterministically',
            'queue_t::enqueue_no_lock as used inside map is modelled by the values the pushed lambda captures (checked by-copy); its own body is verified in target enqueue_no_lock',
            'worker_t::m_queue (a reference member) is modelled as the worker\'s own view of the queue',
            'the user operator is opaque and, in the contracts, does not throw',
            'BOUNDED interleaving stand-in only (conc.h): std::mutex = lock word taken atomically under assume(free); wait(lock, pred) = returns at once if pred holds, else releases and atomically {assume(free && pred); re-acquire} (blocking; notify abstracted away); packaged_task = the captured values + a ready bit set after the extracted lambda body returned, shared_future::get / wait = assume(ready); std::deque = array + head/size with bounds asserts; std::thread(std::cref(worker k)) runs worker k, join = assume(thread finished); each queue-operation model is one atomic step (it first asserts that the calling thread holds the mutex); sequential consistency; CBMC --pointer-check is off in these targets (its dead-object bookkeeping is rejected by the concurrency encoding), array accesses are covered by --bounds-check and the models\' own bound assertions'],
        'trusted': [],
    }


def replay(rp):
    """map targets: the counterexample's (elements, chunksize) on the REAL pool (header + src/core/parallel.cpp of the working
    tree) with a recording operator, for pool sizes 1, 2, 4; the tiling and worker-id clauses are checked on what was
    observed.  Protocol targets (worker loop, constructor, destructor, block, enqueue) have no native driver: a failing
    schedule cannot be forced from outside."""
    import os
    import re
    import replaylib
    out = {'reproduced': False, 'runs': []}
    m = re.match(r'map_(chunk|index)(?:_count)?_(i64|u64|i32)$', rp['target'])
    if rp['target'] in ('section_block', 'section_dtor'):
        # completion / re-throw clauses: scenarios with throwing tasks on the real pool (timing makes the schedule likely, not certain)
        exe = replaylib.build_header_only('replay/C17_block_replay.cpp', 'C17_block_replay',
                                          extra=[os.path.join(replaylib.REPO, 'src/core/parallel.cpp'), '-lpthread'])
        rc, so, se = replaylib.run_driver(exe, [], timeout=120)
        out['runs'].append({'driver': 'replay/C17_block_replay.cpp', 'exit': rc, 'output': so.strip()[-1500:]})
        out['reproduced'] = rc == 1
        out['note'] = 'schedule dependent: throwing tasks + sleeps on the real pool; the worker loop / constructor / destructor targets have no native driver'
        return out
    if not m:
        out['note'] = 'no native driver for this target: the replay file carries the verifier output only'
        return out
    kind, tag = m.groups()
    exe = replaylib.build_header_only('replay/C17_replay.cpp', 'C17_replay',
                                      extra=[os.path.join(replaylib.REPO, 'src/core/parallel.cpp'), '-lpthread'])
    cands = []
    for fo in rp['failed_obligations']:
        ce = fo.get('counterexample') or {}
        model = replaylib.parse_model(ce.get('model', '')) if 'model' in ce else {}
        el = ce.get('main::elements', ce.get('elements', model.get('elements')))
        ch = ce.get('main::chunksize', ce.get('chunksize', model.get('chunksize')))
        try:
            el = int(re.sub(r'[uUlL]+$', '', str(el)))
            ch = int(re.sub(r'[uUlL]+$', '', str(ch))) if kind == 'chunk' else 0
        except (TypeError, ValueError):
            continue
        if (el, ch) not in cands:
            cands.append((el, ch))
    cands += [c for c in ([(10, 3), (9, 3), (1, 1), (7, 7), (8, 7)] if kind == 'chunk' else [(5, 0), (2, 0), (1, 0)]) if c not in cands]
    for el, ch in cands[:8]:
        for threads in (1, 2, 4):
            try:
                rc, so, se = replaylib.run_driver(exe, [tag, el, ch, threads], timeout=60)
            except Exception as e:
                out['runs'].append({'elements': el, 'chunksize': ch, 'threads': threads, 'error': repr(e)})
                continue
            out['runs'].append({'elements': el, 'chunksize': ch, 'threads': threads, 'exit': rc, 'output': so.strip()})
            if rc == 1:
                out['reproduced'] = True
    return out
