/* C17: std::vector<future_t> (section_t and any LOCAL vector of futures), std::shared_future<void> and the contracts of
 * section_t::block(raise) / section_t::~section_t().  Included by block.h (where the two functions are PROVED against these
 * contracts) and by map_common.h (where pool_t::map calls them THROUGH these contracts: DFCC --replace-call-with-contract).
 *
 * Futures are identified by the id of their task (queue position, pool.h); a vector of futures is the id range
 * first_id .. first_id + size - 1 in order (struct nv_section; emplace_back asserts that this is how map fills it), so that
 * default construction (size 0), swap, move and copy of whole vectors are exact.  Universal statements are made at ONE
 * ghost task nv_gid (arbitrary; DESIGN 4.3): its shared state is the group of nv_g_* globals below, every other future
 * behaves arbitrarily.  Unsigned arithmetic on ids is modular (no unsigned-overflow check), NV_HOLDS is written accordingly. */
#ifndef NV_SECTION_H
#define NV_SECTION_H
#include "pool.h"
struct nv_fit { struct nv_section* v; uint64_t i; };   /* std::vector<future_t>::(const_)iterator: the container and a position */

uint64_t nv_gid;            /* ghost: an arbitrary task id */
_Bool nv_g_valid;           /* the future stored for it refers to a shared state (valid()) */
_Bool nv_g_exc;             /* PROPHECY: the task ends by storing an exception (fixed, never assigned) */
_Bool nv_g_ready;           /* the task has finished (may flip to 1 at any observation, never back) */
_Bool nv_g_seen;            /* THIS thread has observed that it finished: wait() / get() returned or threw, or wait_for() said ready */
_Bool nv_g_got, nv_g_waited;/* get() / wait() was called on it during the current call of block */
uint64_t nv_thrower;        /* id of the future whose get() threw */
uint64_t nv_visits;         /* iterator dereferences during the current call of block */
struct nv_future nv_fut_g, nv_fut_other;   /* what an iterator dereference refers to: the ghost future / any other one */
/* the vector (first, size) contains the ghost future */
#define NV_HOLDS(first, size) ((uint64_t)(nv_gid - (first)) < (size))
#define NV_HOLDS_V(v) NV_HOLDS((v)->first_id, (v)->size)

/* ---- std::vector<future_t>: assumed contracts ------------------------------------------------------------------------ */
static struct nv_fit nv_fit_begin(const struct nv_section* v) { struct nv_fit it; it.v = (struct nv_section*)v; it.i = 0; return it; }
static struct nv_fit nv_fit_plus(struct nv_fit it, int64_t n) { it.i = it.i + (uint64_t)n; return it; }                 /* it + n */
static struct nv_fit nv_fit_end(const struct nv_section* v) { struct nv_fit it; it.v = (struct nv_section*)v; it.i = v->size; return it; }
static struct nv_future* nv_future_at(struct nv_section* v, uint64_t i)       /* *it, it = v.begin() + i */
{
  __CPROVER_assert(i < v->size, "iterator dereference inside [begin, end)");
  __CPROVER_assert(i == nv_visits, "block: futures are visited in order, each once");
  nv_visits = nv_visits + 1;
  if (v->first_id + i == nv_gid) { nv_fut_g.id = nv_gid; nv_fut_g.valid = nv_g_valid; return &nv_fut_g; }
  nv_fut_other.valid = nv_nondet__Bool(); nv_fut_other.id = v->first_id + i;
  return &nv_fut_other;
}
static void nv_futvec_swap(struct nv_section* a, struct nv_section* b)       /* a.swap(b) / std::swap(a, b): exchanges the contents */
{ struct nv_section t = *a; *a = *b; *b = t; }
static struct nv_section nv_futvec_move(struct nv_section* src)               /* vector(vector&&): takes the content, the source is left empty */
{ struct nv_section t = *src; src->size = 0; src->reserved = 0; return t; }
static void nv_futvec_move_assign(struct nv_section* dst, struct nv_section* src)  /* v = std::move(w) */
{ struct nv_section t = *src; src->size = 0; src->reserved = 0; *dst = t; }
static struct nv_section nv_futvec_range(struct nv_fit b, struct nv_fit e)     /* vector(first, last): COPIES of the futures in [first, last) (shared states) */
{
  __CPROVER_assert(b.v == e.v && b.i <= e.i && e.i <= b.v->size, "vector(first, last): a valid range of one vector");
  struct nv_section t; t.first_id = b.v->first_id + b.i; t.size = e.i - b.i; t.reserved = t.size; return t;
}
static void nv_futvec_copy_assign(struct nv_section* dst, const struct nv_section* src) { *dst = *src; }   /* v = w: copies share the states */
static void nv_futvec_clear(struct nv_section* v) { v->size = 0; }           /* clear(): destroys the futures WITHOUT waiting */
static _Bool nv_futvec_empty(const struct nv_section* v) { return v->size == 0; }

/* ---- std::shared_future<void>: assumed contracts -------------------------------------------------------------------- */
static _Bool nv_is_g(const struct nv_future* f) { return f->valid && f->id == nv_gid; }
static _Bool nv_future_valid(const struct nv_future* f) { return f->valid; }
/* get(): waits, then re-throws the stored exception if there is one (every time it is called: the state is shared) */
static void nv_future_get(const struct nv_future* f)
{
  __CPROVER_assert(f->valid, "get(): only on a valid future (else undefined behaviour)");
  if (nv_is_g(f)) { nv_g_got = 1; nv_g_ready = 1; nv_g_seen = 1; if (nv_g_exc) { nv_thrown = 1; nv_thrower = f->id; } }
  else if (nv_nondet__Bool()) { nv_thrown = 1; nv_thrower = f->id; }
}
static void nv_future_wait(const struct nv_future* f)
{
  __CPROVER_assert(f->valid, "wait(): only on a valid future (else undefined behaviour)");
  if (nv_is_g(f)) { nv_g_waited = 1; nv_g_ready = 1; nv_g_seen = 1; }
}
/* wait_for(d) / wait_until(t): returns std::future_status::ready (0) iff the shared state is ready by then, else timeout (1);
 * never `deferred` (the futures of a packaged_task are not deferred).  It consumes NOTHING: a stored exception stays stored. */
enum { NVE_future_status_ready = 0, NVE_future_status_timeout = 1, NVE_future_status_deferred = 2 };   /* std::future_status (the printer's names) */
static int nv_future_wait_for(const struct nv_future* f)
{
  __CPROVER_assert(f->valid, "wait_for(): only on a valid future (else undefined behaviour)");
  if (nv_is_g(f))
  {
    if (!nv_g_ready) nv_g_ready = nv_nondet__Bool();     /* it may have finished in the meantime */
    if (nv_g_ready) nv_g_seen = 1;
    return nv_g_ready ? NVE_future_status_ready : NVE_future_status_timeout;
  }
  return nv_nondet__Bool() ? NVE_future_status_ready : NVE_future_status_timeout;
}

/* ---- contract of section_t::block(raise) ------------------------------------------------------------------------------
 * from the property: (1) an exception leaves only when asked to; (2) on the normal exit every valid future that the section
 * held at entry has been waited for; (3) on the EXCEPTIONAL exit each of them has been waited for or is STILL in the section
 * (so that ~section_t waits for it: "map returns only after all its tasks finished" also when a task threw); (4) with raise
 * a stored exception is delivered: block does not return normally, and (5) every valid future went through get(), the only
 * call that delivers (a future that is already ready is no exception); (6) the exception that leaves is the first one in
 * visiting order; (7) what was observed stays observed; plus: every position is visited once, in order. */
#define NV_BLK_SELF NV_ARG_section_block_0
#define NV_BLK_RAISE NV_ARG_section_block_1
#define NV_BLK_E NV_HOLDS(__CPROVER_old(NV_BLK_SELF->first_id), __CPROVER_old(NV_BLK_SELF->size))
#define NV_BLOCK_GHOSTS nv_thrown, nv_visits, nv_g_got, nv_g_waited, nv_g_seen, nv_g_ready, nv_thrower, nv_fut_g, nv_fut_other
#define NV_CONTRACT_section_block \
__CPROVER_requires(__CPROVER_is_fresh(NV_BLK_SELF, sizeof(*NV_BLK_SELF)) && nv_visits == 0 && !nv_g_got && !nv_g_waited && !nv_thrown) \
__CPROVER_assigns(*NV_BLK_SELF, NV_BLOCK_GHOSTS) \
__CPROVER_ensures(nv_thrown ==> NV_BLK_RAISE) \
__CPROVER_ensures((NV_BLK_E && nv_g_valid && !nv_thrown) ==> nv_g_seen) \
__CPROVER_ensures((NV_BLK_E && nv_g_valid && nv_thrown) ==> (nv_g_seen || NV_HOLDS_V(NV_BLK_SELF))) \
__CPROVER_ensures((NV_BLK_E && nv_g_valid && NV_BLK_RAISE && nv_g_exc) ==> nv_thrown) \
__CPROVER_ensures((NV_BLK_E && nv_g_valid && NV_BLK_RAISE && !nv_thrown) ==> nv_g_got) \
__CPROVER_ensures((NV_BLK_E && nv_g_valid && NV_BLK_RAISE && nv_g_exc && nv_thrown) ==> (uint64_t)(nv_thrower - __CPROVER_old(NV_BLK_SELF->first_id)) <= (uint64_t)(nv_gid - __CPROVER_old(NV_BLK_SELF->first_id))) \
__CPROVER_ensures(__CPROVER_old(nv_g_seen) ==> nv_g_seen) \
__CPROVER_ensures(!nv_thrown ==> nv_visits == __CPROVER_old(NV_BLK_SELF->size))
/* the loop of block over a vector of futures, whatever vector it runs over (`*this` or a local one) and however it is written
 * (range-based for, explicit iterator for / while): only the iterator variable is named, by its role (NV_LOOPVAR, engine) */
#define NV_IT NV_LOOPVAR_section_block_1
#define NV_RANGE NV_IT.v
#define NV_LOOP_section_block_1 \
__CPROVER_assigns(NV_IT.i, NV_BLOCK_GHOSTS) \
__CPROVER_loop_invariant(NV_IT.i <= NV_RANGE->size && nv_visits == NV_IT.i && !nv_thrown) \
__CPROVER_loop_invariant((NV_HOLDS_V(NV_RANGE) && (uint64_t)(nv_gid - NV_RANGE->first_id) < NV_IT.i && nv_g_valid) ==> (nv_g_seen && (NV_BLK_RAISE ==> (nv_g_got && !nv_g_exc)))) \
__CPROVER_loop_invariant(__CPROVER_loop_entry(nv_g_seen) ==> nv_g_seen) \
__CPROVER_decreases(NV_RANGE->size - NV_IT.i)

/* ---- contract of section_t::~section_t(): never throws; every valid future the section holds has been waited for ------ */
#define NV_DT_SELF NV_ARG_section_dtor_0
#define NV_CONTRACT_section_dtor \
__CPROVER_requires(__CPROVER_is_fresh(NV_DT_SELF, sizeof(*NV_DT_SELF)) && !nv_thrown) \
__CPROVER_assigns(*NV_DT_SELF, NV_BLOCK_GHOSTS) \
__CPROVER_ensures(!nv_thrown) \
__CPROVER_ensures((NV_HOLDS(__CPROVER_old(NV_DT_SELF->first_id), __CPROVER_old(NV_DT_SELF->size)) && nv_g_valid) ==> nv_g_seen) \
__CPROVER_ensures(__CPROVER_old(nv_g_seen) ==> nv_g_seen)
/* a call of block from spec-level code: the per-call ghost counters start at zero */
void section_block(struct nv_section* self, _Bool raise);
static void nv_call_block(struct nv_section* s, _Bool raise)
{
  nv_visits = 0; nv_g_got = 0; nv_g_waited = 0;
  section_block(s, raise);
}
#endif
