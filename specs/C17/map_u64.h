/* pool_t::map instantiated for tsize = uint64_t */
#define NV_TSIZE uint64_t
#define NV_TSIZE_MAX UINT64_MAX
#include "map_common.h"
#define NV_CONTRACT_map_chunk_u64 NV_CONTRACT_MAP_CHUNK
#define NV_LOOP_map_chunk_u64_1 NV_LOOP_MAP_CHUNK_SEQ
#define NV_LOOP_map_chunk_u64_2 NV_LOOP_MAP_CHUNK_PAR
#define NV_CONTRACT_map_index_u64 NV_CONTRACT_MAP_INDEX
#define NV_LOOP_map_index_u64_1 NV_LOOP_MAP_INDEX_SEQ
#define NV_LOOP_map_index_u64_2 NV_LOOP_MAP_INDEX_PAR
#define NV_CONTRACT_map_chunk_task_u64 NV_CONTRACT_TASK_RANGE
#define NV_CONTRACT_map_index_task_u64 NV_CONTRACT_TASK_INDEX
