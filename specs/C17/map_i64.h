/* pool_t::map instantiated for tsize = int64_t */
#define NV_TSIZE int64_t
#define NV_TSIZE_MAX INT64_MAX
#include "map_common.h"
#define NV_CONTRACT_map_chunk_i64 NV_CONTRACT_MAP_CHUNK
#define NV_LOOP_map_chunk_i64_1 NV_LOOP_MAP_CHUNK_SEQ
#define NV_LOOP_map_chunk_i64_2 NV_LOOP_MAP_CHUNK_PAR
#define NV_CONTRACT_map_index_i64 NV_CONTRACT_MAP_INDEX
#define NV_LOOP_map_index_i64_1 NV_LOOP_MAP_INDEX_SEQ
#define NV_LOOP_map_index_i64_2 NV_LOOP_MAP_INDEX_PAR
#define NV_CONTRACT_map_chunk_task_i64 NV_CONTRACT_TASK_RANGE
#define NV_CONTRACT_map_index_task_i64 NV_CONTRACT_TASK_INDEX
