/* C17: section_t::block(raise) and ~section_t(): every stored future is visited exactly once, in order; a valid future is
 * waited for with get() (which re-throws the task's exception) when raise is set and with wait() otherwise; an
 * exception can leave block() only when raise is set.  ~section_t() calls block(false) exactly once.
 * Universal statement at a ghost position nv_g (DESIGN 4.3); the other positions hold arbitrary futures. */
#include "pool.h"
uint64_t nv_g;                      /* ghost index: an arbitrary position in the section */
struct nv_future nv_fut_g;          /* the future stored there */
struct nv_future nv_fut_other;      /* any other future (havocked at every access) */
uint64_t nv_visits;                 /* iterator dereferences */
uint64_t nv_g_gets, nv_g_waits;     /* get() / wait() calls on the future at nv_g */
uint64_t nv_last_visit;
static struct nv_future* nv_future_at(uint64_t i)
{
  __CPROVER_assert(i == nv_visits, "block: futures are visited in order, each once");
  nv_visits = nv_visits + 1;
  if (i == nv_g) return &nv_fut_g;
  nv_fut_other.valid = nv_nondet__Bool(); nv_fut_other.id = nv_nondet_uint64_t();
  return &nv_fut_other;
}
static _Bool nv_future_valid(const struct nv_future* f) { return f->valid; }
/* shared_future::get(): waits, then re-throws the stored exception if any */
static void nv_future_get(const struct nv_future* f)
{
  __CPROVER_assert(f->valid, "get(): only on a valid future (else undefined behaviour)");
  if (f == &nv_fut_g) nv_g_gets = nv_g_gets + 1;
  if (nv_nondet__Bool()) nv_thrown = 1;
}
static void nv_future_wait(const struct nv_future* f)
{
  __CPROVER_assert(f->valid, "wait(): only on a valid future (else undefined behaviour)");
  if (f == &nv_fut_g) nv_g_waits = nv_g_waits + 1;
}
#define NV_CONTRACT_section_block \
__CPROVER_requires(__CPROVER_is_fresh(self, sizeof(*self)) && nv_visits == 0 && nv_g_gets == 0 && nv_g_waits == 0 && self->size < (1ULL << 62)) \
__CPROVER_assigns(nv_thrown, nv_visits, nv_g_gets, nv_g_waits, nv_fut_other) \
__CPROVER_ensures(nv_thrown ==> raise) \
__CPROVER_ensures(!nv_thrown ==> nv_visits == self->size) \
__CPROVER_ensures((!nv_thrown && nv_g < self->size) ==> (nv_g_gets == ((nv_fut_g.valid && raise) ? 1 : 0) && nv_g_waits == ((nv_fut_g.valid && !raise) ? 1 : 0))) \
__CPROVER_ensures(nv_g_gets + nv_g_waits <= 1)
#define NV_LOOP_section_block_1 \
__CPROVER_assigns(__begin1, nv_thrown, nv_visits, nv_g_gets, nv_g_waits, nv_fut_other) \
__CPROVER_loop_invariant(__begin1 <= __end1 && __end1 == self->size && nv_visits == __begin1 && !nv_thrown) \
__CPROVER_loop_invariant(nv_g_gets == ((nv_g < __begin1 && nv_fut_g.valid && raise) ? 1 : 0) && nv_g_waits == ((nv_g < __begin1 && nv_fut_g.valid && !raise) ? 1 : 0)) \
__CPROVER_decreases(__end1 - __begin1)

/* ~section_t() */
uint64_t nv_block_calls; _Bool nv_block_arg;
static void nv_block_stub(struct nv_section* s, _Bool raise) { nv_block_calls = nv_block_calls + 1; nv_block_arg = raise; }
#define NV_CONTRACT_section_dtor \
__CPROVER_requires(__CPROVER_is_fresh(self, sizeof(*self)) && nv_block_calls == 0) \
__CPROVER_assigns(nv_block_calls, nv_block_arg) \
__CPROVER_ensures(nv_block_calls == 1 && !nv_block_arg && !nv_thrown)
