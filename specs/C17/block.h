/* C17: targets section_block / section_dtor: section_t::block(raise) and ~section_t() are PROVED against the contracts of
 * section.h (the same text pool_t::map uses them through).  ~section_t() calls the real block through its contract. */
#include "section.h"
