/* pool_t::map instantiated for tsize = int32_t */
#define NV_TSIZE int32_t
#define NV_TSIZE_MAX INT32_MAX
#include "map_common.h"
#define NV_CONTRACT_map_chunk_i32 NV_CONTRACT_MAP_CHUNK
#define NV_LOOP_map_chunk_i32_1 NV_LOOP_MAP_CHUNK_SEQ
#define NV_LOOP_map_chunk_i32_2 NV_LOOP_MAP_CHUNK_PAR
#define NV_CONTRACT_map_index_i32 NV_CONTRACT_MAP_INDEX
#define NV_LOOP_map_index_i32_1 NV_LOOP_MAP_INDEX_SEQ
#define NV_LOOP_map_index_i32_2 NV_LOOP_MAP_INDEX_PAR
#define NV_CONTRACT_map_chunk_task_i32 NV_CONTRACT_TASK_RANGE
#define NV_CONTRACT_map_index_task_i32 NV_CONTRACT_TASK_INDEX
