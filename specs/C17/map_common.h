/* contracts of pool_t::map (chunked and un-chunked) for one element type NV_TSIZE; see pool.h for the statement */
#include "section.h"

NV_TSIZE nv_elements, nv_chunk;   /* ghost copies of the inputs (equated with the parameters in `requires`) */
uint64_t nv_pool_size;            /* ghost copy of pool_t::size() */
NV_TSIZE nv_covered;              /* coverage ghost: [0, nv_covered) has been generated so far */
uint64_t nv_ncalls;               /* ranges handed to the operator directly */
uint64_t nv_nenq;                 /* ranges captured into enqueued tasks */
uint64_t nv_reserved;             /* count passed to section.reserve */
_Bool nv_reserve_called, nv_notified, nv_blocked, nv_block_raise, nv_dtor_ran;
NV_TSIZE nv_w_begin, nv_w_end; uint64_t nv_w_tnum;   /* witnesses for replay: the last generated range */

/* the next range of the tiling of [0, elements) in chunks: stated without begin + chunk (no overflow in the spec) */
#define NV_NEXT_RANGE(b, e) ((b) == nv_covered && (b) < (e) && (e) <= nv_elements && (e) - (b) <= nv_chunk && ((e) - (b) == nv_chunk || (e) == nv_elements))

static void nv_range_generated(NV_TSIZE begin, NV_TSIZE end)
{
  nv_w_begin = begin; nv_w_end = end;
  __CPROVER_assert(begin == nv_covered, "tiling: the range starts where the previous one ended (first one at 0)");
  __CPROVER_assert(begin < end, "tiling: the range is non-empty");
  __CPROVER_assert(end <= nv_elements && end - begin <= nv_chunk && (end - begin == nv_chunk || end == nv_elements),
                   "tiling: end == min(begin + chunksize, elements)");
  nv_covered = end;
}

/* ---- the operator as called by map itself (sequential branch) ---------------------------------------------------- */
static void nv_op_range(const struct nv_op* op, NV_TSIZE begin, NV_TSIZE end, uint64_t tnum)
{
  nv_w_tnum = tnum;
  __CPROVER_assert(nv_nenq == 0, "one branch only: no direct call once tasks were enqueued");
  __CPROVER_assert(tnum < nv_pool_size, "worker id passed to the operator is below the pool size");
  __CPROVER_assert(!nv_mutex_held, "the operator is not run with the queue mutex held");
  nv_range_generated(begin, end);
  nv_ncalls = nv_ncalls + 1;
}
static void nv_op_index(const struct nv_op* op, NV_TSIZE index, uint64_t tnum)
{
  nv_w_tnum = tnum;
  __CPROVER_assert(nv_nenq == 0, "one branch only: no direct call once tasks were enqueued");
  __CPROVER_assert(tnum < nv_pool_size, "worker id passed to the operator is below the pool size");
  __CPROVER_assert(!nv_mutex_held, "the operator is not run with the queue mutex held");
  nv_w_begin = index;
  __CPROVER_assert(index == nv_covered && index < nv_elements, "indices: the next index, in range (each of 0..elements-1 once, in order)");
  nv_covered = index + 1;
  nv_ncalls = nv_ncalls + 1;
}

/* ---- assumed contracts of the dependencies ------------------------------------------------------------------------ */
static NV_TSIZE nv_min(NV_TSIZE a, NV_TSIZE b) { return b < a ? b : a; }            /* std::min */
static void nv_section_reserve(struct nv_section* s, uint64_t n)                     /* std::vector::reserve */
{ nv_reserved = n; nv_reserve_called = 1; s->reserved = n; }
/* queue_t::enqueue_no_lock(task): pushes one task at the back of the FIFO and returns its future.  The task is modelled
 * by the values its lambda captured (hooks.task_lambda_hook); the lambda body is verified separately (map_*_task). */
static struct nv_future nv_push(struct nv_queue* q, int by_copy)
{
  __CPROVER_assert(nv_mutex_held, "enqueue_no_lock is called with the queue mutex held");
  __CPROVER_assert(by_copy, "the task captures its range by value (it runs after the loop variable has moved on)");
  __CPROVER_assert(nv_ncalls == 0, "one branch only: no task is enqueued once the operator was called directly");
  __CPROVER_assert(!nv_notified && !nv_blocked, "tasks are enqueued before the workers are notified and before blocking");
  struct nv_future f; f.valid = 1; f.id = q->m_tasks.head + q->m_tasks.size;
  q->m_tasks.size = q->m_tasks.size + 1;
  nv_nenq = nv_nenq + 1;
  return f;
}
static struct nv_future nv_enqueue_range(struct nv_queue* q, int by_copy, NV_TSIZE begin, NV_TSIZE end)
{
  nv_range_generated(begin, end);
  return nv_push(q, by_copy);
}
static struct nv_future nv_enqueue_index(struct nv_queue* q, int by_copy, NV_TSIZE index)
{
  nv_w_begin = index;
  __CPROVER_assert(index == nv_covered && index < nv_elements, "indices: the next index, in range (each of 0..elements-1 once, in order)");
  nv_covered = index + 1;
  return nv_push(q, by_copy);
}
/* std::vector<future_t>::emplace_back(future) */
static void nv_section_emplace_back(struct nv_section* s, struct nv_future f)
{
  __CPROVER_assert(f.valid, "section: the stored future belongs to a task");
  if (s->size == 0) s->first_id = f.id;
  __CPROVER_assert(f.id == s->first_id + s->size, "section: futures are stored once each, in task order");
  if (f.id == nv_gid) nv_g_valid = f.valid;     /* ghost: what is stored for the ghost task (section.h) */
  s->size = s->size + 1;
}
static void nv_notify_all(struct nv_cond* c) { nv_notified = 1; }                    /* condition_variable::notify_all */
/* section_t::block(raise) and ~section_t(): the REAL functions, called through their contracts (section.h; proved in targets
 * section_block / section_dtor; here: --replace-call-with-contract).  The wrappers add what map must have done before. */
void section_dtor(struct nv_section* self);
static void nv_section_block(struct nv_section* s, _Bool raise)
{
  __CPROVER_assert(!nv_mutex_held, "block: the queue mutex was released before waiting for the tasks (else no worker can pop)");
  __CPROVER_assert(nv_notified, "block: the workers were notified after the tasks were pushed (enqueue_no_lock does not notify)");
  __CPROVER_assert(s->size == nv_nenq, "block: the section holds exactly one future per enqueued task");
  nv_blocked = 1; nv_block_raise = raise;
  nv_call_block(s, raise);
}
/* runs when `section` goes out of scope, on the normal and on the exceptional path (scope-exit destructor, printed by cxx2c);
 * a destructor that runs during stack unwinding must not throw itself (std::terminate): the exception in flight is set aside */
static void nv_section_dtor(struct nv_section* s)
{
  __CPROVER_assert(!nv_mutex_held, "~section_t: the queue mutex was released before waiting for the tasks");
  __CPROVER_assert(nv_notified, "~section_t: the workers were notified");
  _Bool in_flight = nv_thrown;
  nv_thrown = 0; nv_visits = 0; nv_g_got = 0; nv_g_waited = 0;
  section_dtor(s);
  __CPROVER_assert(!nv_thrown, "~section_t does not throw (std::terminate while unwinding)");
  nv_thrown = in_flight; nv_dtor_ran = 1;
}

/* ---- contract of pool_t::map(elements, chunksize, op, raise) --------------------------------------------------- */
#define NV_MAP_GHOST_INIT (nv_covered == 0 && nv_ncalls == 0 && nv_nenq == 0 && !nv_reserve_called && !nv_notified && !nv_blocked && !nv_dtor_ran && !nv_mutex_held && !nv_g_seen)
#define NV_MAP_FRESH __CPROVER_is_fresh(self, sizeof(*self)) && __CPROVER_is_fresh(op, sizeof(*op))
#define NV_MAP_ASSIGNS __CPROVER_assigns(self->m_queue.m_tasks.size, nv_covered, nv_ncalls, nv_nenq, nv_reserved, nv_reserve_called, nv_notified, nv_blocked, nv_block_raise, nv_dtor_ran, nv_mutex_held, nv_w_begin, nv_w_end, nv_w_tnum, nv_g_valid, NV_BLOCK_GHOSTS)
/* the ghost task nv_gid is one of the tasks this call enqueued (ids old(head + size) .. + nv_nenq - 1) */
#define NV_MAP_G NV_HOLDS(__CPROVER_old(self->m_queue.m_tasks.head) + __CPROVER_old(self->m_queue.m_tasks.size), nv_nenq)
/* which branch runs is the implementation's business; whichever it is: only one of them generates ranges, something is
 * generated iff elements > 0, and if tasks were enqueued the call blocked on all of them with the caller's `raise` flag
 * and -- exception or not -- returned only after ~section_t waited for every one of them; an exception can only leave
 * map when the caller asked for it and tasks were enqueued (the operator itself is assumed not to throw here). */
#define NV_MAP_ENSURES_PROTOCOL \
__CPROVER_ensures((nv_ncalls == 0 || nv_nenq == 0) && ((nv_ncalls + nv_nenq >= 1) == (elements > 0))) \
__CPROVER_ensures(nv_nenq >= 1 ==> (nv_blocked && nv_block_raise == raise && nv_dtor_ran)) \
__CPROVER_ensures(nv_thrown ==> (raise && nv_nenq >= 1)) \
__CPROVER_ensures(NV_MAP_G ==> nv_g_seen) \
__CPROVER_ensures((NV_MAP_G && raise && nv_g_exc) ==> nv_thrown)
/* preconditions: chunksize >= 1 is map's own documented assert(); pool size >= 1 is the constructor's postcondition
 * (target pool_ctor); when more than one range is generated (chunksize < elements), elements + chunksize must be
 * representable in tsize: it is computed as such for section.reserve, and the last `begin + chunksize` / `begin +=
 * chunksize` can exceed elements by up to chunksize - 1 (reported as a precondition, DESIGN 8.5; a real restriction only
 * for tsize = int).  The queue holds fewer than 2^62 tasks. */
#define NV_CONTRACT_MAP_CHUNK \
__CPROVER_requires(NV_MAP_FRESH && NV_MAP_GHOST_INIT) \
__CPROVER_requires(nv_elements == elements && nv_chunk == chunksize && nv_pool_size == self->m_threads.size) \
__CPROVER_requires(chunksize >= 1 && (chunksize >= elements || elements <= NV_TSIZE_MAX - chunksize)) \
__CPROVER_requires(self->m_threads.size >= 1 && self->m_queue.m_tasks.size < (1ULL << 62) && self->m_queue.m_tasks.head < (1ULL << 62)) \
NV_MAP_ASSIGNS \
__CPROVER_ensures(nv_covered == (elements > 0 ? elements : 0)) \
NV_MAP_ENSURES_PROTOCOL \
__CPROVER_ensures(self->m_queue.m_tasks.size == __CPROVER_old(self->m_queue.m_tasks.size) + nv_nenq && !nv_mutex_held)
/* begin runs over 0, chunk, 2*chunk, ..; the covered prefix is [0, min(begin, elements)) */
#define NV_CHUNK_INV (0 <= begin && (begin == 0 || (elements > 0 && begin >= chunksize && begin - chunksize < elements)) \
  && nv_covered == (begin < elements ? begin : (elements > 0 ? elements : 0)))
#define NV_LOOP_MAP_CHUNK_SEQ \
__CPROVER_assigns(begin, nv_covered, nv_ncalls, nv_w_begin, nv_w_end, nv_w_tnum) \
__CPROVER_loop_invariant(NV_CHUNK_INV && nv_nenq == 0 && !nv_mutex_held && nv_ncalls <= (uint64_t)begin && (begin > 0 ==> nv_ncalls >= 1)) \
__CPROVER_decreases(elements > begin ? elements - begin : 0)
#define NV_LOOP_MAP_CHUNK_PAR \
__CPROVER_assigns(begin, nv_covered, nv_nenq, nv_w_begin, nv_w_end, self->m_queue.m_tasks.size, section.size, section.first_id, nv_g_valid) \
__CPROVER_loop_invariant(NV_CHUNK_INV && nv_ncalls == 0 && nv_mutex_held && !nv_notified && !nv_blocked) \
__CPROVER_loop_invariant(section.size == nv_nenq && nv_nenq <= (uint64_t)begin && (begin > 0 ==> nv_nenq >= 1) && (NV_HOLDS(section.first_id, section.size) ==> nv_g_valid)) \
__CPROVER_loop_invariant(self->m_queue.m_tasks.size == __CPROVER_loop_entry(self->m_queue.m_tasks.size) + nv_nenq) \
__CPROVER_loop_invariant(nv_nenq >= 1 ==> section.first_id == self->m_queue.m_tasks.head + __CPROVER_loop_entry(self->m_queue.m_tasks.size)) \
__CPROVER_decreases(elements > begin ? elements - begin : 0)

/* ---- contract of pool_t::map(elements, op, raise) -------------------------------------------------------------- */
#define NV_CONTRACT_MAP_INDEX \
__CPROVER_requires(NV_MAP_FRESH && NV_MAP_GHOST_INIT) \
__CPROVER_requires(nv_elements == elements && nv_pool_size == self->m_threads.size) \
__CPROVER_requires(self->m_threads.size >= 1 && self->m_queue.m_tasks.size < (1ULL << 62) && self->m_queue.m_tasks.head < (1ULL << 62)) \
NV_MAP_ASSIGNS \
__CPROVER_ensures(nv_covered == (elements > 0 ? elements : 0)) \
NV_MAP_ENSURES_PROTOCOL \
__CPROVER_ensures(nv_nenq >= 1 ==> (nv_nenq == (uint64_t)elements && nv_reserved == nv_nenq)) \
__CPROVER_ensures(self->m_queue.m_tasks.size == __CPROVER_old(self->m_queue.m_tasks.size) + nv_nenq && !nv_mutex_held)
#define NV_LOOP_MAP_INDEX_SEQ \
__CPROVER_assigns(index, nv_covered, nv_ncalls, nv_w_begin, nv_w_tnum) \
__CPROVER_loop_invariant(0 <= index && index == nv_covered && nv_nenq == 0 && !nv_mutex_held && (index <= elements || elements < 0) && nv_ncalls == (uint64_t)index) \
__CPROVER_decreases(elements > index ? elements - index : 0)
#define NV_LOOP_MAP_INDEX_PAR \
__CPROVER_assigns(index, nv_covered, nv_nenq, nv_w_begin, self->m_queue.m_tasks.size, section.size, section.first_id, nv_g_valid) \
__CPROVER_loop_invariant(0 <= index && index <= elements && index == nv_covered && nv_ncalls == 0 && nv_mutex_held && !nv_notified && !nv_blocked) \
__CPROVER_loop_invariant(section.size == nv_nenq && nv_nenq == (uint64_t)index && (NV_HOLDS(section.first_id, section.size) ==> nv_g_valid)) \
__CPROVER_loop_invariant(self->m_queue.m_tasks.size == __CPROVER_loop_entry(self->m_queue.m_tasks.size) + nv_nenq) \
__CPROVER_loop_invariant(nv_nenq >= 1 ==> section.first_id == self->m_queue.m_tasks.head + __CPROVER_loop_entry(self->m_queue.m_tasks.size)) \
__CPROVER_decreases(elements > index ? elements - index : 0)

/* ---- the task bodies: the lambdas pushed by map, [op, begin, end](tnum) { op(begin, end, tnum); } ------------------ */
uint64_t nv_t_calls; NV_TSIZE nv_t_begin, nv_t_end; uint64_t nv_t_tnum;
static void nv_task_op_range(const struct nv_op* op, NV_TSIZE begin, NV_TSIZE end, uint64_t tnum)
{ nv_t_calls = nv_t_calls + 1; nv_t_begin = begin; nv_t_end = end; nv_t_tnum = tnum; }
static void nv_task_op_index(const struct nv_op* op, NV_TSIZE index, uint64_t tnum)
{ nv_t_calls = nv_t_calls + 1; nv_t_begin = index; nv_t_tnum = tnum; }
/* a task calls the operator exactly once, on exactly the captured range, with the worker id it was run with */
#define NV_CONTRACT_TASK_RANGE \
__CPROVER_requires(__CPROVER_is_fresh(op, sizeof(*op)) && nv_t_calls == 0) \
__CPROVER_assigns(nv_t_calls, nv_t_begin, nv_t_end, nv_t_tnum) \
__CPROVER_ensures(nv_t_calls == 1 && nv_t_begin == begin && nv_t_end == end && nv_t_tnum == tnum)
#define NV_CONTRACT_TASK_INDEX \
__CPROVER_requires(__CPROVER_is_fresh(op, sizeof(*op)) && nv_t_calls == 0) \
__CPROVER_assigns(nv_t_calls, nv_t_begin, nv_t_tnum) \
__CPROVER_ensures(nv_t_calls == 1 && nv_t_begin == index && nv_t_tnum == tnum)
