/* C17: queue_t::enqueue_no_lock(f) / queue_t::enqueue(f): exactly one task, holding f, is pushed at the back of the FIFO and
 * the returned future is that task's future; enqueue() pushes with the mutex held, releases it, then notifies once. */
#include "pool.h"
struct nv_fn { char unused; };         /* the callable handed over (map's lambda) */
uint64_t nv_next_id;                   /* identity of the next packaged_task constructed */
uint64_t nv_pushed_id, nv_pushes, nv_notifies; _Bool nv_push_locked;
/* std::packaged_task<void(size_t)>(f): a fresh task holding f */
static struct nv_task nv_task_make(struct nv_fn* f) { struct nv_task t; t.id = nv_next_id; t.valid = 1; return t; }
/* packaged_task::get_future() */
static struct nv_future nv_task_get_future(struct nv_task* t)
{
  __CPROVER_assert(t->valid, "get_future(): the task has a shared state");
  struct nv_future f; f.id = t->id; f.valid = 1; return f;
}
/* std::deque::emplace_back(std::move(task)) */
static void nv_deque_emplace_back(struct nv_deque* d, struct nv_task* t)
{
  __CPROVER_assert(t->valid, "emplace_back: the pushed task holds the function");
  nv_pushed_id = t->id; nv_pushes = nv_pushes + 1; nv_push_locked = nv_mutex_held;
  d->size = d->size + 1;
  t->valid = 0;                        /* moved-from */
}
static void nv_notify_one(struct nv_cond* c)
{
  __CPROVER_assert(nv_pushes == 1, "enqueue: the worker is notified after the task was pushed");
  nv_notifies = nv_notifies + 1;
}
#define NV_ENQ_REQUIRES \
__CPROVER_requires(__CPROVER_is_fresh(self, sizeof(*self)) && __CPROVER_is_fresh(f, sizeof(*f)) && nv_pushes == 0 && nv_notifies == 0 && self->m_tasks.size < (1ULL << 62))
#define NV_ENQ_ENSURES \
__CPROVER_ensures(nv_pushes == 1 && self->m_tasks.size == __CPROVER_old(self->m_tasks.size) + 1) \
__CPROVER_ensures(__CPROVER_return_value.valid && __CPROVER_return_value.id == nv_pushed_id && nv_pushed_id == nv_next_id)
#define NV_CONTRACT_enqueue_no_lock NV_ENQ_REQUIRES \
__CPROVER_assigns(self->m_tasks.size, nv_pushed_id, nv_pushes, nv_push_locked) \
NV_ENQ_ENSURES
#define NV_CONTRACT_enqueue NV_ENQ_REQUIRES __CPROVER_requires(!nv_mutex_held) \
__CPROVER_assigns(self->m_tasks.size, nv_pushed_id, nv_pushes, nv_push_locked, nv_mutex_held, nv_notifies) \
NV_ENQ_ENSURES \
__CPROVER_ensures(nv_push_locked && !nv_mutex_held && nv_notifies == 1)
