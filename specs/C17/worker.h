/* C17: the worker loop, worker_t::operator()(), for ONE worker under monitor semantics.
 *
 * condition_variable::wait(lock, pred) is `while (!pred()) wait(lock);`: it returns with the lock held and pred() true;
 * while the worker sleeps (lock released) and while it runs a task (outside the lock) every other thread may push, pop
 * or request a stop, so the queue is havocked at those two points.  pred is the REAL predicate (the lambda handed to
 * wait, extracted as worker_wait_pred).  Decided: front()/pop_front() only on a non-empty queue and only with the lock
 * held; the task that is run is the one that was popped, run exactly once, with this worker's id, after the lock was
 * released; the worker leaves only when stop was seen, having cleared the queue and notified, holding no lock, and
 * without running anything after the stop was seen. */
#include "pool.h"
struct nv_worker { struct nv_queue m_queue; uint64_t m_tnum; };  /* queue_t& : this worker's view of the shared queue */

uint64_t nv_self_tnum;                     /* ghost copy of m_tnum */
uint64_t nv_pops, nv_runs, nv_popped_id;   /* tasks popped / run by this worker, id of the last popped one */
_Bool nv_cleared, nv_stop_notified;
uint64_t nv_w_size; _Bool nv_w_stop;       /* witnesses: queue state when wait() returned */

_Bool worker_wait_pred(struct nv_worker* self);
static void nv_havoc_queue(struct nv_queue* q)
{ q->m_tasks.size = nv_nondet_uint64_t(); q->m_tasks.head = nv_nondet_uint64_t(); q->m_stop = nv_nondet__Bool(); }
/* assumed contract of std::condition_variable::wait(lock, pred) */
static void nv_cond_wait(struct nv_cond* c, struct nv_lock* l, struct nv_worker* self)
{
  __CPROVER_assert(nv_mutex_held, "wait: called with the lock held");
  if (!worker_wait_pred(self))
  {
    nv_havoc_queue(&self->m_queue);
    __CPROVER_assume(worker_wait_pred(self));
  }
  nv_w_size = self->m_queue.m_tasks.size; nv_w_stop = self->m_queue.m_stop;
}
/* assumed contracts of std::deque (FIFO of task ids head .. head+size-1) */
static _Bool nv_deque_empty(const struct nv_deque* d) { return d->size == 0; }
static struct nv_task nv_deque_front(struct nv_deque* d)
{
  __CPROVER_assert(nv_mutex_held, "front(): the queue is accessed with the lock held");
  __CPROVER_assert(d->size > 0, "front(): the queue is not empty");
  struct nv_task t; t.id = d->head; t.valid = 1; return t;
}
static void nv_deque_pop_front(struct nv_deque* d)
{
  __CPROVER_assert(nv_mutex_held, "pop_front(): the queue is accessed with the lock held");
  __CPROVER_assert(d->size > 0, "pop_front(): the queue is not empty");
  __CPROVER_assert(nv_runs == nv_pops, "pop_front(): the previously popped task has been run");
  nv_popped_id = d->head; nv_pops = nv_pops + 1;
  d->head = d->head + 1; d->size = d->size - 1;
}
static void nv_deque_clear(struct nv_deque* d)
{
  __CPROVER_assert(nv_mutex_held, "clear(): the queue is accessed with the lock held");
  d->size = 0; nv_cleared = 1;
}
static void nv_notify_all_w(struct nv_cond* c) { nv_stop_notified = 1; }
/* packaged_task::operator()(tnum): runs the stored function (map's lambda, verified in map_*_task) */
static void nv_task_run(struct nv_task* t, uint64_t tnum, struct nv_worker* self)
{
  __CPROVER_assert(!nv_mutex_held, "run: the task runs after the lock was released");
  __CPROVER_assert(t->valid, "run: the task holds a function (it was moved out of the queue, not default-constructed)");
  __CPROVER_assert(nv_pops == nv_runs + 1 && t->id == nv_popped_id, "run: the task is the one just popped, run exactly once");
  __CPROVER_assert(tnum == nv_self_tnum, "run: the task receives this worker's id");
  __CPROVER_assert(!nv_cleared, "run: nothing is run after the stop was seen");
  nv_runs = nv_runs + 1;
  nv_havoc_queue(&self->m_queue);     /* other threads act on the queue while the task runs */
}

#define NV_CONTRACT_worker_run \
__CPROVER_requires(__CPROVER_is_fresh(self, sizeof(*self)) && nv_self_tnum == self->m_tnum) \
__CPROVER_requires(!nv_mutex_held && nv_pops == 0 && nv_runs == 0 && !nv_cleared && !nv_stop_notified) \
__CPROVER_assigns(self->m_queue.m_tasks, self->m_queue.m_stop, nv_mutex_held, nv_pops, nv_runs, nv_popped_id, nv_cleared, nv_stop_notified, nv_w_size, nv_w_stop) \
__CPROVER_ensures(self->m_queue.m_stop && self->m_queue.m_tasks.size == 0 && nv_cleared && nv_stop_notified) \
__CPROVER_ensures(!nv_mutex_held && nv_runs == nv_pops)
#define NV_LOOP_worker_run_1 \
__CPROVER_assigns(self->m_queue.m_tasks, self->m_queue.m_stop, nv_mutex_held, nv_pops, nv_runs, nv_popped_id, nv_cleared, nv_stop_notified, nv_w_size, nv_w_stop) \
__CPROVER_loop_invariant(!nv_mutex_held && nv_runs == nv_pops && !nv_cleared && !nv_stop_notified)

/* the predicate itself, against the property's reading of it: "stop requested or a task is available" */
#define NV_CONTRACT_worker_wait_pred \
__CPROVER_requires(__CPROVER_is_fresh(self, sizeof(*self))) \
__CPROVER_assigns() \
__CPROVER_ensures(__CPROVER_return_value == (self->m_queue.m_stop || self->m_queue.m_tasks.size > 0))

/* worker_t::worker_t(queue, tnum): stores the id it was given (the reference member is modelled as a copy of the view) */
#define NV_CONTRACT_worker_ctor \
__CPROVER_requires(__CPROVER_is_fresh(self, sizeof(*self)) && __CPROVER_is_fresh(queue, sizeof(*queue))) \
__CPROVER_assigns(*self) \
__CPROVER_ensures(self->m_tnum == tnum)
