"""C17 -- BOUNDED interleaving stand-in: the extracted pool code run as CBMC threads (see conc.h for the primitive models).

Nothing here is counted as proved: the targets are returned under `bounded=[..]` with their bound spelled out."""
import astload
from core import Fn, Target
import hooks
from cxx2c import unwrap

PRELUDE = 'specs/C17/conc.h'
TU = 'drivers/inst_parallel.cpp'
SRC = 'src/core/parallel.cpp'


def queue_ref_hook(P, n):
    """worker_t::m_queue is a reference member (queue_t&): a pointer field of the C model, every use prints (*self->m_queue)"""
    if n.get('kind') != 'MemberExpr' or n.get('name') != 'm_queue' or not n.get('inner'):
        return None
    base = n['inner'][0]
    if 'worker_t' not in (base.get('type', {}).get('qualType', '')):
        return None
    P.note('worker_t::m_queue (reference member) -> (*self->m_queue)')
    b = P.expr(base)
    return f'(*{b}->m_queue)' if n.get('isArrow') else f'(*{b}.m_queue)'


def fns(S, tag='u64', cxx='unsigned long'):
    """every function of the pool, extracted with the same tables as the sequential targets, stubs renamed to conc.h's"""
    TYPES, LOCKS, DTORS, ITER, ITER_OPS = S['TYPES'], S['LOCKS'], S['DTORS'], S['ITER'], S['ITER_OPS']
    void_ret, targs, mangled = S['void_ret'], S['targs'], S['mangled']
    wcommon = dict(self_struct='struct nv_worker', types=TYPES, uf_float=False, hooks=[queue_ref_hook])
    wmembers = [(r'^wait\|std::condition_variable', 'nv_cond_wait({self}, {&0}, self)'), (r'^empty\|.*std::deque<', 'nv_deque_empty'),
                (r'^front\|std::deque<', 'nv_deque_front'), (r'^pop_front\|std::deque<', 'nv_deque_pop_front'),
                (r'^clear\|std::deque<', 'nv_deque_clear'), (r'^notify_all\|std::condition_variable', 'nv_notify')]
    wcalls = LOCKS + [(r'^operator=\|std::packaged_task<', 'nv_task_move_assign({&0}, {&1})'), (r'^move\|', '{0}'),
                      (r'^operator\(\)\|void \(unsigned long\)\|(nano::parallel::task_t|std::packaged_task<)', 'nv_task_run({&0}, {1})')]
    pred = Fn('worker_wait_pred', SRC, 'operator()', flt='worker_t::operator()', select=void_ret, lambda_index=0, ret='_Bool',
              members=wmembers, **wcommon)
    run = Fn('worker_run', SRC, 'operator()', flt='worker_t::operator()', select=void_ret, members=wmembers, calls=wcalls, dtors=DTORS, **wcommon)
    wctor = Fn('worker_ctor', SRC, 'worker_t', flt='worker_t::worker_t', kinds=('CXXConstructorDecl',), ref_member_pointers=True,
               select=lambda d: astload.param_types(d) == ['nano::parallel::queue_t &', 'size_t'], **wcommon)

    pcommon = dict(self_struct='struct nv_pool', types=[(ITER, 'uint64_t'), (r'^std::thread$', 'struct nv_thread')] + TYPES, uf_float=False)
    maxs = Fn('pool_max_size', SRC, 'max_size', flt='pool_t::max_size', types=TYPES, uf_float=False,
              calls=[(r'^max\|', 'nv_max_u64({0}, {1})'), (r'^hardware_concurrency\|', 'nv_hardware_concurrency()')])
    ctor = Fn('pool_ctor', SRC, 'pool_t', flt='pool_t::pool_t', kinds=('CXXConstructorDecl',),
              select=lambda d: astload.param_types(d) == ['const size_t'],
              calls=[(r'^ctor\|nano::parallel::queue_t\|void \(\)', 'nv_queue_make()'), (r'^clamp\|', 'nv_clamp_u64({0}, {1}, {2})'), (r'^max_size\|', 'pool_max_size()'),
                     (r'^transform\|', 'nv_spawn_threads({0}, {1}, {2})'), (r'^back_inserter\|', '{&0}')],
              members=[(r'^reserve\|std::vector<nano::parallel::worker_t', 'nv_workers_reserve'),
                       (r'^emplace_back\|std::vector<nano::parallel::worker_t', 'nv_workers_emplace_back({self}, {&0}, {1})'),
                       (r'^(begin|end)\|std::vector<nano::parallel::worker_t', '({self})')], **pcommon)
    qctor = Fn('queue_ctor', SRC, 'queue_t', flt='queue_t::queue_t', kinds=('CXXConstructorDecl',), self_struct='struct nv_queue',
               types=TYPES, uf_float=False)
    dtor = Fn('pool_dtor', SRC, '~pool_t', flt='pool_t::~pool_t', kinds=('CXXDestructorDecl',), dtors=DTORS,
              calls=LOCKS + ITER_OPS + [(r'^operator\*\|.*__normal_iterator<std::thread', '(*nv_thread_at({0}))')],
              members=[(r'^notify_all\|std::condition_variable', 'nv_notify'), (r'^begin\|std::vector<std::thread', '((uint64_t)0)'),
                       (r'^end\|std::vector<std::thread', '{self}->size'), (r'^join\|std::thread', 'nv_thread_join')], **pcommon)

    # a LOCAL vector of futures (swap / move out of the section), wait_for: same vocabulary as the sequential target (spec.FUTVEC)
    scommon = dict(self_struct='struct nv_section', types=[(ITER, 'uint64_t'), (r'^(%s)$' % S['FUTVEC'], 'struct nv_section')] + TYPES, uf_float=False)
    block = Fn('section_block', SRC, 'block', flt='section_t::block',
               calls=ITER_OPS + [(r'^operator\*\|.*__normal_iterator<(const )?std::shared_future', '(*nv_future_at(__range1, {0}))'),
                                 (r'^ctor\|(%s)\|void \((std::)?vector<.*> &&\)' % S['FUTVEC'], 'nv_futvec_move({&0})'), (r'^move\|', '{0}'),
                                 (r'^swap\|.*\|(%s|nano::parallel::section_t)' % S['FUTVEC'], 'nv_futvec_swap({&0}, {&1})')],
               members=[(r'^begin\|std::vector<std::shared_future', '((uint64_t)0)'), (r'^end\|std::vector<std::shared_future', '{self}->size'),
                        (r'^swap\|std::vector<std::shared_future', 'nv_futvec_swap({self}, {&0})'),
                        (r'^valid\|std::__basic_future<void>', 'nv_future_valid'), (r'^get\|std::shared_future<void>', 'nv_future_get!'),
                        (r'^wait\|std::__basic_future<void>', 'nv_future_wait'),
                        (r'^wait_(for|until)\|std::__basic_future<void>', 'nv_future_wait_for({self})')], **scommon)
    sdtor = Fn('section_dtor', SRC, '~section_t', flt='section_t::~section_t', kinds=('CXXDestructorDecl',),
               members=[(r'^block\|nano::parallel::section_t', 'section_block')], **scommon)

    qtypes = TYPES + [(r'^std::future<void>$|^future<void>$', 'struct nv_future'), (r'\(lambda at .*parallel\.h', 'struct nv_fn'), (r'^nvdrv::fn_t$', 'struct nv_fn')]
    qcommon = dict(self_struct='struct nv_queue', types=qtypes, uf_float=False, dtors=DTORS,
                   calls=LOCKS + [(r'^ctor\|(nano::parallel::task_t|std::packaged_task<void \(unsigned long\)>)\|', 'nv_task_make({&0})'), (r'^forward\|', '{0}'), (r'^move\|', '{0}'),
                                  (r'^ctor\|(nano::parallel::future_t|std::shared_future<void>)\|void \(future<void> &&\)', '{0}')],
                   members=[(r'^get_future\|', 'nv_task_get_future'), (r'^emplace_back\|std::deque<', 'nv_deque_emplace_back({self}, {&0})'),
                            (r'^notify_one\|std::condition_variable', 'nv_notify')])
    enl = Fn('enqueue_no_lock', TU, 'enqueue_no_lock', flt='nano::parallel::queue_t::enqueue_no_lock', select=mangled('op_range_tIlE'), **qcommon)
    enq = Fn('enqueue', TU, 'enqueue', flt='nano::parallel::queue_t::enqueue', select=lambda d: astload.template_args(d) == ['const nvdrv::fn_t &'], **qcommon)

    mcommon = dict(self_struct='struct nv_pool', types=TYPES, dtors=DTORS + [(r'^nano::parallel::section_t$', 'section_dtor')], uf_float=False)
    mmembers = [(r'^size\|nano::parallel::pool_t', 'pool_size'),
                (r'^reserve\|std::vector<std::shared_future<void>', 'nv_section_reserve({self}, {0})'),
                (r'^emplace_back\|std::vector<std::shared_future<void>', 'nv_section_emplace_back({self}, {0})'),
                (r'^notify_all\|std::condition_variable', 'nv_notify'),
                (r'^block\|nano::parallel::section_t', 'section_block({self}, {0})!')]
    flt = 'nano::parallel::pool_t::map'
    mindex = Fn(f'map_index_{tag}', TU, 'map', flt=flt, select=targs(cxx, f'nvdrv::op_index_t<{cxx}>'), members=mmembers,
                calls=LOCKS + [(r'^operator\(\)\|void \(\w[\w ]*, size_t\) const\|nvdrv::op_index_t', 'nv_op_index({&0}, {1}, {2})')],
                hooks=[hooks.task_lambda_hook('enqueue_no_lock', 'nv_enqueue_index', ('op', 'index'))], **mcommon)
    tindex = Fn(f'map_index_task_{tag}', TU, 'map', flt=flt, select=targs(cxx, f'nvdrv::op_index_t<{cxx}>'), lambda_index=0, types=TYPES,
                calls=[(r'^operator\(\)\|.*\|nvdrv::op_index_t', 'nv_op_index({&0}, {1}, {2})')],
                extra_params=['const struct nv_op* op', 'uint64_t index'], uf_float=False)
    psize = Fn('pool_size', TU, 'size', flt='nano::parallel::pool_t::size', self_struct='struct nv_pool', types=TYPES,
               members=[(r'^size\|std::vector<std::thread', '{self}->size')], uf_float=False)
    return dict(run=run, pred=pred, wctor=wctor, maxs=maxs, ctor=ctor, qctor=qctor, dtor=dtor, block=block, sdtor=sdtor, enl=enl, enq=enq,
                mindex=mindex, tindex=tindex, psize=psize)


INIT = '''
static void nv_init(void)
{
  nv_tid = 0; nv_i_hold = 0; nv_joined = 0; nv_thrown = 0; nv_destroyed = 0; nv_overlap = 0; nv_workers_reserved = 0;
  nv_ready = 0; nv_broken = 0; nv_created = 0; nv_started = 0; nv_finished = 0; nv_thread_done = 0;
  for (int c = 0; c < NV_NCALLS; c++) nv_running[c] = 0;
}
/* one call of map by one submitting thread; afterwards: the property's completion clause for THIS call */
static void nv_submit(uint8_t call, uint64_t n, _Bool raise)
{
  struct nv_op op; op.call = call;
  NV_MAP(&nv_the_pool, n, &op, raise);
  __CPROVER_assert(!nv_thrown, "map: no exception leaves map when no task throws and no promise is broken");
  __CPROVER_atomic_begin(); uint8_t started = nv_started, finished = nv_finished; __CPROVER_atomic_end();
  for (int e = 0; e < NV_MAXE; e++)
    if ((uint64_t)e < n)
    {
      __CPROVER_assert(started & NV_BIT(call * NV_MAXE + e), "when map returns every element of this call was processed (exactly once: see the at-most-once assertion)");
      __CPROVER_assert(finished & NV_BIT(call * NV_MAXE + e), "when map returns every task of this call has finished");
    }
    else
      __CPROVER_assert(!(started & NV_BIT(call * NV_MAXE + e)), "when map returns no element outside [0, elements) was processed");
}
static void nv_shutdown(void)
{
  pool_dtor(&nv_the_pool);
  __CPROVER_atomic_begin(); nv_destroyed = 1; uint8_t done = nv_thread_done; __CPROVER_atomic_end();
  for (int k = 0; k < NV_NW; k++)
    if ((uint64_t)k < nv_the_pool.m_threads.size)
      __CPROVER_assert((nv_joined & NV_BIT(k)) && (done & NV_BIT(k)), "after ~pool_t every worker thread has terminated and was joined (so no worker touches the queue any more)");
  __CPROVER_assert(nv_the_pool.m_queue.m_stop && nv_the_pool.m_queue.m_mutex.holder == 0 && nv_the_pool.m_queue.m_tasks.size == 0, "after ~pool_t: stop is set, the mutex is free, the queue is empty");
}
'''

# scenario A: pool_t(2) (any hardware_concurrency), ONE submitter calling map(elements <= NV_MAXE, op, raise), then ~pool_t
MAIN_A = INIT + '''
int main(void)
{
  nv_init();
  uint32_t hw; nv_hw = hw;
  pool_ctor(&nv_the_pool, 2);
  uint64_t n; _Bool raise;
  __CPROVER_assume(n <= NV_MAXE);                  /* BOUND of the scenario */
  nv_submit(0, n, raise);
  nv_shutdown();
#ifndef NV_WORKER1_NEVER_SCHEDULED
  if (nv_overlap) __CPROVER_assert(0, "nv_canary: two operator invocations were in flight at the same time");
#endif
  __CPROVER_assert(0, "nv_canary: final state reachable (all tasks done, pool destroyed)");
  return 0;
}
'''


def targets(tier, S):
    F = lambda: fns(S)
    order = ['run', 'pred', 'wctor', 'ctor', 'maxs', 'qctor', 'dtor', 'block', 'sdtor', 'enl', 'mindex', 'tindex', 'psize']
    flags = lambda n: ['--unwind', str(n), '--unwinding-assertions']
    # no --pointer-check: its dead-object bookkeeping writes a shared pointer at every scope exit, which CBMC 6.11's concurrency
    # encoding rejects ("pointer handling for concurrency is unsound"); array accesses are covered by --bounds-check + the models' asserts
    checks = ['--bounds-check', '--div-by-zero-check', '--signed-overflow-check', '--conversion-check']
    out = []

    def scen_a(n, one_worker):
        name = f'conc_map_1sub_{n}' + ('_w0only' if one_worker else '')
        return Target(name, lambda: [F()[k] for k in order], PRELUDE, enforce_none=True, dfcc=False, harness=MAIN_A, checks=checks,
                      nondet_exclude=['nv_tid', 'nv_i_hold', 'nv_joined', 'nv_thread_cur'],
                      defines=[f'NV_MAXT={n}', f'NV_MAXE={n}', 'NV_MAP=map_index_u64', 'NV_TASK_BODY=map_index_task_u64'] + (['NV_WORKER1_NEVER_SCHEDULED'] if one_worker else []),
                      cbmc_flags=flags(max(n + 1, 3)) + ['--sat-solver', 'cadical'], timeout=280,
                      bound=f'pool_t(2) (any hardware_concurrency: pool size 1 or 2), 1 submitter, map(elements <= {n}, op, any raise) un-chunked size_t, then ~pool_t; '
                            + ('ONLY the schedules in which worker thread 1 never runs before it is joined (main + worker 0 interleave freely); ' if one_worker else 'both workers; ')
                            + f'loops unwound {max(n + 1, 3)}x with unwinding assertions; sequential consistency; wait(lock, pred) blocks until pred (notify abstracted)',
                      note='BOUNDED interleavings (CBMC threads, partial-order encoding) of the extracted pool code; never counted as proved')
    # quick tier: the one-element scenario (sequential branch of map; constructor, idle workers, shutdown: 3-5 s); the two-element
    # scenario (tasks really go through the queue: 55-70 s of SAT time, no solver / slicing option brought it under 40 s, see
    # not_decided) runs in the thorough tier, and whenever NV_C17_CONC2 is set (the canary mutations of mutations.json ask for it)
    import os
    out.append(scen_a(1, True))
    if tier == 'thorough' or os.environ.get('NV_C17_CONC2'):
        out.append(scen_a(2, True))
    if os.environ.get('NV_C17_TWO_WORKERS'):     # opt-in: does not terminate within 280 s with CBMC 6.11 (see not_decided)
        out.append(scen_a(2, False))
    return out
