/* C17: thread pool -- what a sequential contract verifier can decide (DESIGN "### C17"):
 *   (a) pool_t::map generates, for every elements / chunksize / pool size, a sequence of (begin, end) ranges -- handed to
 *       the operator directly (sequential branch) or captured by value into the tasks pushed into the queue (parallel
 *       branch) -- that tiles [0, elements): first range starts at 0, each next one starts where the previous ended,
 *       every range is non-empty, end = min(begin + chunksize, elements), the last one ends at elements.  This recurrence
 *       has exactly one solution, so both branches generate the same sequence.
 *   (b) protocol facts that every schedule-level guarantee depends on and that are visible in one thread: tasks are
 *       pushed with the queue mutex held, the mutex is released before the caller blocks, the workers are notified after
 *       the last push and before blocking, the section blocks on exactly one future per pushed task, in order, with the
 *       caller's `raise` flag.
 * Everything about interleavings is NOT decided here.
 *
 * Included by map_i64.h / map_u64.h / map_i32.h which define NV_TSIZE (the element type of the instantiation) and
 * NV_TSIZE_MAX. */
#ifndef NV_POOL_H
#define NV_POOL_H

/* ---- C models of the classes (only what the property needs) ---------------------------------------------------- */
struct nv_mutex { char unused; };
struct nv_cond { char unused; };
struct nv_op { char unused; };                              /* the user's callable: opaque, observed through its calls */
struct nv_task { uint64_t id; _Bool valid; };               /* std::packaged_task<void(size_t)>: identity + "has a function" */
struct nv_future { uint64_t id; _Bool valid; };             /* std::shared_future<void>: the task it belongs to */
struct nv_deque { uint64_t size, head; };                   /* std::deque<task_t> as a FIFO of task ids head .. head+size-1 */
struct nv_queue { struct nv_deque m_tasks; struct nv_mutex m_mutex; struct nv_cond m_condition; _Bool m_stop; };
struct nv_threads { uint64_t size; };                       /* std::vector<std::thread> */
struct nv_workers { uint64_t size; };                       /* std::vector<worker_t> */
struct nv_pool { struct nv_threads m_threads; struct nv_workers m_workers; struct nv_queue m_queue; };
struct nv_section { uint64_t size, reserved, first_id; };   /* section_t = std::vector<future_t>: futures first_id .. */
struct nv_lock { struct nv_mutex* m; };                     /* std::scoped_lock / std::unique_lock on one mutex */

/* ---- ghost state ------------------------------------------------------------------------------------------------ */
_Bool nv_mutex_held;        /* the (single) queue mutex is held by this thread */
static struct nv_lock nv_lock_ctor(struct nv_mutex* m)
{
  __CPROVER_assert(!nv_mutex_held, "lock: the mutex is not already held by this thread (self-deadlock)");
  nv_mutex_held = 1;
  struct nv_lock l; l.m = m; return l;
}
static void nv_lock_dtor(struct nv_lock* l)
{
  __CPROVER_assert(nv_mutex_held, "unlock: the mutex is held");
  nv_mutex_held = 0;
}
#endif
