"""C13 -- tuning evaluates grid points once and reports the true best trial.

Two back ends on the same clang extraction of the real code:

B (nvwp, SMT over Int/Real): the (trial, fold) bookkeeping of ml::result_t and of the two lambdas of ml::tune.
    Spec functions written from the property statement ("stores the returned statistics under that (trial, fold)"):
        slot(t, f)      = t * F + f                      position of (trial t, fold f) in the per-(trial, fold) vectors
        cell(t,f,sp,vl) = (t, f, sp == train ? 0 : 1, vl == errors ? 0 : 1)   rank-1 view of m_values holding the statistics
    store / extra / log_path / stats are proved to address exactly slot / cell, in range, without overflow; the lemmas
    say that slot is a bijection [0,T) x [0,F) -> [0, T*F) whose inverse is (index div F, index mod F) -- the decoding used
    by the thread lambda of ml::tune.
A (CBMC/DFCC): the list / protocol logic (optimum_trial, closest_trial: least index attaining the minimum; tuner
    helpers), see result.h / tuner.h.
"""
import os
import re

import astload
import nvwp
from core import Fn, Target, VC
from nvwp import V, AND, OR, NOT, IMP, lit, Unsupported
from wplib import IdEnvWP, declare_array, array_name, load, reach_vc
from cxx2c import unwrap, strip_cv, qual
import comb

TU_R = 'src/machine/result.cpp'
HDR_R = os.path.join(astload.REPO, 'include/nano/machine/result.h')
SRC_R = os.path.join(astload.REPO, TU_R)
FLT_R = 'nano::ml::result_t::'
TU_T = 'src/machine/tune.cpp'
SRC_T = os.path.join(astload.REPO, TU_T)
BOUND = 2 ** 62          # tensor invariant of C16: every suffix product of the extents is <= 2^62


# ------------------------------------------------------------------------------------------------ symbolic objects
class Obj(V):
    """an opaque C++ object in the symbolic executor: identified by `kind` + fields (terms / python values)"""

    def __init__(self, kind, **kw):
        super().__init__(kind + repr(sorted((k, str(v)) for k, v in kw.items())), 'Obj', None)
        self.kind = kind
        self.f = kw

    def __getitem__(self, k):
        return self.f[k]


def record(wp, what, **kw):
    """calls with an effect on the abstract state are recorded in program order (straight-line code only)"""
    if wp.guard != 'true' and not getattr(wp, 'guarded_effects', False):
        raise Unsupported(f'{wp.name}: effect {what} under a path condition')
    if getattr(wp, 'guarded_effects', False):
        kw = dict(kw, guard=wp.guard)
    wp.rec.append((what, kw))


def obj_decl_hook(wp, v, init):
    """locals of class type: bound to the symbolic object their initialiser evaluates to; structured bindings of a
    recorded tuple-like object are bound to its components"""
    if v['kind'] == 'DecompositionDecl':
        ini = [x for x in v.get('inner', []) if x.get('kind') != 'BindingDecl'][0]
        binds = [x for x in v.get('inner', []) if x.get('kind') == 'BindingDecl']
        val = wp.ev(ini)
        if not isinstance(val, Obj) or 'parts' not in val.f or len(val['parts']) != len(binds):
            raise Unsupported(f'{wp.name}: structured binding of {getattr(val, "t", val)}')
        for b, part in zip(binds, val['parts']):
            wp.env[b['name']] = part
        return True
    if v['kind'] != 'VarDecl' or not init:
        return False
    try:
        wp.sort_of(v['type'])
        return False
    except Unsupported:
        pass
    if init[0].get('kind') == 'LambdaExpr' or unwrap(init[0]).get('kind') == 'LambdaExpr':
        wp.env[v['name']] = Obj('lambda', name=v['name'])
        return True
    val = wp.ev(init[0])
    if val.s == 'Array':        # a tensor copy: the copy has the dimensions of the source at this point
        wp.env[v['name']] = V(v['name'], 'Array', val.c)
        for i in range(val.c):
            wp.env[f'{v["name"]}.{i}'] = wp.env[f'{val.t}.{i}']
        record(wp, 'snapshot', name=v['name'], of=val.t)
        return True
    if isinstance(val, Obj) and val.kind == 'splits':        # the splitter's result: a vector of (train, valid) pairs of unknown size
        wp.env[f'{v["name"]}.size'] = wp.fresh('Int', 'splits_size', 'unsigned long')
        wp.assume(f'(and (<= 0 {wp.env[v["name"] + ".size"].t}) (<= {wp.env[v["name"] + ".size"].t} {BOUND}))')
    if isinstance(val, Obj) and val.kind == 'result_new':    # result_t{spaces, folds}: postcondition of the constructor (CBMC target result_ctor)
        nm = v['name']
        for k, t in enumerate(('0', val['folds'], '2', '2', '12')):
            wp.env[f'{nm}.m_values.{k}'] = V(t, 'Int', 'long')
        wp.env[f'{nm}.m_values'] = V(f'{nm}.m_values', 'Array', 5)
        for vec in ('m_extras', 'm_log_paths'):
            wp.env[f'{nm}.{vec}.size'] = V('0', 'Int', 'unsigned long')
    if isinstance(val, Obj):
        wp.env[v['name']] = val
        if val.kind == 'stats' and wp.real:      # every member of stats_t (field list read from the AST): member k of the
            for k, fld in enumerate(stats_fields()):   # record loaded from a cell is element k of that cell's block, B(cell, k)
                wp.env[f'{v["name"]}.{fld}'] = V(f'(B {" ".join(val["of"]["idx"])} {k})', 'Real', 'double')
        return True
    raise Unsupported(f'{wp.name}: local {v["name"]} of type {v["type"].get("qualType")}')


def tensor(wp, name, rank, fixed=()):
    """a tensor is modelled by its dimensions (all >= 0); `fixed` pins trailing dimensions"""
    declare_array(wp, name, rank)
    for k in range(rank):
        wp.assume(f'(>= {wp.env[f"{name}.{k}"].t} 0)')
    for k, val in fixed:
        wp.assume(f'(= {wp.env[f"{name}.{k}"].t} {val})')


def dim(wp, name, k):
    return wp.env[f'{name}.{k}'].t


# ------------------------------------------------------------------------------------------------ result_t model
def setup_result(wp, obj='self'):
    """class invariant of ml::result_t (established by the constructor, preserved by add -- proved below):
    m_values has dimensions (T, F, 2, 2, 12), m_params (T, P); the per-(trial, fold) vectors hold F*T elements;
    C16's tensor invariant bounds T*F*48 by 2^62"""
    tensor(wp, f'{obj}.m_values', 5, fixed=((2, 2), (3, 2), (4, 12)))
    tensor(wp, f'{obj}.m_params', 2)
    T, F = dim(wp, f'{obj}.m_values', 0), dim(wp, f'{obj}.m_values', 1)
    wp.assume(f'(= {dim(wp, obj + ".m_params", 0)} {T})')
    wp.assume(f'(<= (* 48 (* {T} {F})) {BOUND})')
    for vec in ('m_extras', 'm_log_paths'):
        wp.env[f'{obj}.{vec}.size'] = wp.fresh('Int', f'{vec}_size', 'unsigned long')
        wp.assume(f'(= {wp.env[f"{obj}.{vec}.size"].t} (* {F} {T}))')
    wp.T, wp.F = T, F


def slot(wp, t, f):
    """spec function: position of (trial, fold) in the per-(trial, fold) vectors"""
    return f'(+ (* {t} {wp.F}) {f})'


def in_box(wp, t, f):
    return f'(and (<= 0 {t}) (< {t} {wp.T}) (<= 0 {f}) (< {f} {wp.F}))'


# member functions of tensors -----------------------------------------------------------------------------------
def m_size(wp, n, args, obj):
    targs = wp.call_template_args(n['inner'][0])
    arr = array_name(wp, obj)
    rank = wp.env[arr].c
    if len(targs) == 1 and 0 <= targs[0] < rank:
        return wp.env[f'{arr}.{targs[0]}']
    if not targs and rank == 1:
        return wp.env[f'{arr}.0']
    raise Unsupported(f'{wp.name}: size<{targs}> on a rank-{rank} tensor')


def m_tensor(wp, n, args, obj):
    """tensor.tensor(i0, .., ik): the sub-tensor view at an index prefix.  Contract of C16 (index0/dims0): every index
    must lie inside its dimension (obligation here); views at distinct prefixes are disjoint (row-major bijection)"""
    arr = array_name(wp, obj)
    rank = wp.env[arr].c
    idx = [wp.ev(a) for a in args]
    if len(idx) >= rank:
        raise Unsupported(f'{wp.name}: tensor() with {len(idx)} indices on rank {rank}')
    for k, v in enumerate(idx):
        wp.oblige(f'{arr.split(".")[-1]}.tensor(..): index {k} inside its dimension (C16 index0 precondition)',
                  f'(and (<= 0 {v.t}) (< {v.t} {dim(wp, arr, k)}))', n)
    return Obj('view', base=arr, idx=tuple(v.t for v in idx))


def m_folds(wp, n, args, obj):
    return wp.env[f'{obj_name(wp, obj)}.m_values.1']      # contract of result_t::folds(), proved below


def m_trials(wp, n, args, obj):
    return wp.env[f'{obj_name(wp, obj)}.m_values.0']      # contract of result_t::trials(), proved below


def obj_name(wp, obj):
    u = unwrap(obj)
    if u.get('kind') == 'CXXThisExpr':
        return 'self'
    if u.get('kind') == 'DeclRefExpr':
        return u['referencedDecl']['name']
    raise Unsupported(f'{wp.name}: member call on {u.get("kind")}')


def vec_name(wp, node):
    u = unwrap(node)
    if u.get('kind') == 'MemberExpr':
        return wp.member_name(u)
    if u.get('kind') == 'DeclRefExpr':
        return u['referencedDecl']['name']
    raise Unsupported(f'{wp.name}: vector expression {u.get("kind")}')


def c_vec_index(wp, n, args, callee):
    """std::vector::operator[](i): precondition i < size() (obligation); the element is identified by its position"""
    vec = vec_name(wp, args[0])
    i = wp.ev(args[1])
    size = wp.env[f'{vec}.size'].t
    wp.oblige(f'{vec.split(".")[-1]}[i]: index inside the vector', f'(and (<= 0 {i.t}) (< {i.t} {size}))', n)
    if vec in getattr(wp, 'vec_elems', {}):      # vectors of tuple-like elements with named components
        return wp.vec_elems[vec](i.t)
    return Obj('elem', vec=vec, pos=i.t)


def c_store_stats(wp, n, args, callee):
    src, dst = wp.ev(args[0]), wp.ev(args[1])
    record(wp, 'store_stats', src=src, dst=dst)
    return V('0', 'Int', 'int')


def c_load_stats(wp, n, args, callee):
    return Obj('stats', of=wp.ev(args[0]))


def c_assign_any(wp, n, args, callee):
    dst, src = wp.ev(args[0]), wp.ev(args[1])
    record(wp, 'assign', dst=dst, src=src)
    return dst


def c_move(wp, n, args, callee):
    return wp.ev(args[0])


def m_resize(wp, n, args, obj):
    """tensor.resize(d0, .., dk): the new dimensions; C16's tensor invariant (extents >= 0, size <= 2^62) is an obligation"""
    arr = array_name(wp, obj)
    rank = wp.env[arr].c
    vals = [wp.conv(wp.ev(a), 'Int', 'long', a) for a in args]
    if len(vals) != rank:
        raise Unsupported(f'{wp.name}: resize with {len(vals)} dimensions on rank {rank}')
    for k, v in enumerate(vals):
        wp.oblige(f'{arr.split(".")[-1]}.resize(..): dimension {k} is non-negative', f'(>= {v.t} 0)', n)
        wp.env[f'{arr}.{k}'] = V(v.t, 'Int', 'long')
    wp.oblige(f'{arr.split(".")[-1]}.resize(..): number of elements within the tensor bound 2^62',
              f'(<= (* {" ".join(v.t for v in vals)}) {BOUND})', n)
    record(wp, 'resize', arr=arr)
    return V('0', 'Int', 'int')


def m_slice(wp, n, args, obj):
    """tensor.slice(begin, end): rows [begin, end) -- precondition 0 <= begin <= end <= size<0>() is an obligation"""
    arr = array_name(wp, obj)
    b, e = [wp.conv(wp.ev(a), 'Int', 'long', a) for a in args]
    wp.oblige(f'{arr.split(".")[-1]}.slice(begin, end): 0 <= begin <= end <= size<0>()',
              f'(and (<= 0 {b.t}) (<= {b.t} {e.t}) (<= {e.t} {dim(wp, arr, 0)}))', n)
    return Obj('slice', base=arr, begin=b.t, end=e.t, rest=tuple(dim(wp, arr, k) for k in range(1, wp.env[arr].c)))


def c_assign_tensor(wp, n, args, callee):
    """slice = tensor: element-wise copy; the shapes must agree (obligation)"""
    dst, src = wp.ev(args[0]), wp.ev(args[1])
    if not isinstance(dst, Obj) or dst.kind != 'slice' or src.s != 'Array':
        raise Unsupported(f'{wp.name}: tensor assignment {dst.t} = {src.t}')
    shape = [f'(= (- {dst["end"]} {dst["begin"]}) {dim(wp, src.t, 0)})'] + \
        [f'(= {d} {dim(wp, src.t, k + 1)})' for k, d in enumerate(dst['rest'])]
    wp.oblige(f'{dst["base"].split(".")[-1]}.slice(..) = {src.t}: shapes agree', AND(*shape), n)
    record(wp, 'copy', dst=dst, src=src.t)
    return dst


def m_full(wp, n, args, obj):
    dst = wp.ev(obj)
    a = unwrap(args[0])
    nan = a.get('kind') == 'CallExpr' and unwrap(a['inner'][0]).get('referencedDecl', {}).get('name') == 'quiet_NaN'
    record(wp, 'fill', dst=dst, nan=nan)
    return dst


def m_emplace_back(wp, n, args, obj):
    """std::vector::emplace_back: the size grows by one (argument expressions only build the new element)"""
    key = f'{vec_name(wp, obj)}.size'
    old = wp.env[key]
    wp.env[key] = wp.arith('+', old, V('1', 'Int', old.c), old.c, n)
    return V('0', 'Int', 'int')


def m_stats_call(wp, n, args, obj):
    """call of result_t::stats(trial, fold, split, value): its SMT contract (proved for the callee below)"""
    t, f, sp, vl = [wp.ev(a) for a in args]
    wp.oblige('callee stats(trial, fold, ..) precondition: 0 <= trial < trials(), 0 <= fold < folds()', in_box(wp, t.t, f.t), n)
    return Obj('stats', of=Obj('view', base='self.m_values', idx=cell(wp, t.t, f.t, sp.t, vl.t)))


_STATS_FIELDS = []


def stats_fields():
    """members of ml::stats_t in declaration order, read from clang's AST of the real header"""
    if not _STATS_FIELDS:
        docs = astload.dump('src/machine/stats.cpp', 'nano::ml::stats_t')
        for d in docs:
            for n in astload.walk(d):
                if n.get('kind') == 'CXXRecordDecl' and n.get('name') == 'stats_t' and n.get('completeDefinition'):
                    flds = [c['name'] for c in n.get('inner', []) if c.get('kind') == 'FieldDecl']
                    if flds and not _STATS_FIELDS:
                        _STATS_FIELDS.extend(flds)
        if not _STATS_FIELDS:
            raise astload.ExtractionError('ml::stats_t: no field found')
    return _STATS_FIELDS


def stat_of_field(fld):
    """spec: which statistic of the per-sample values a member of stats_t is, by its name"""
    m = re.fullmatch(r'm_per(\d\d)', fld)
    if m:
        return f'(Vper {int(m.group(1))}.0)'
    return {'m_mean': 'Vmean', 'm_stdev': 'Vstdev', 'm_count': '(to_real Vsize)'}.get(fld)


def c_block_at(wp, n, args, callee):
    """block(k) with a literal k on a rank-1 statistics block: element k (index inside the 12-element block: obligation)"""
    arr = array_name(wp, args[0])
    k = wp.ev(args[1])
    if not re.fullmatch(r'\d+', k.t):
        raise Unsupported(f'{wp.name}: statistics block indexed with a non-literal')
    wp.oblige(f'{arr}({k.t}): index inside the statistics block', f'(and (<= 0 {k.t}) (< {k.t} {dim(wp, arr, 0)}))', n)
    key = f'{arr}.blk.{k.t}'
    if wp.want_loc:
        wp.written.append(int(k.t))
        return key
    if key not in wp.env:
        raise Unsupported(f'{wp.name}: element {k.t} of {arr} is not modelled')
    return wp.env[key]


def m_values_stat(name):
    def h(wp, n, args, obj):
        if array_name(wp, obj) != 'values':
            raise Unsupported(f'{wp.name}: {name}() of something else than the per-sample values')
        return V(name, 'Real', 'double')
    return h


def c_percentile(wp, n, args, callee):
    if array_name(wp, args[0]) != 'values':
        raise Unsupported(f'{wp.name}: percentile of something else than the per-sample values')
    return V(f'(Vper {wp.ev(args[1]).t})', 'Real', 'double')


def stats_init_hook(wp, n):
    """stats_t{a, b, ..}: aggregate initialisation, member k gets initialiser k"""
    if n.get('kind') == 'InitListExpr' and strip_cv(qual(n['type'])).endswith('stats_t'):
        return Obj('stats_rec', parts=[wp.ev(a) for a in n.get('inner', [])])
    return None


def enum_hook(wp, n):
    """enumerators are distinct symbolic integers (no reliance on their numeric values)"""
    if n.get('kind') == 'DeclRefExpr' and n['referencedDecl'].get('kind') == 'EnumConstantDecl':
        et = strip_cv(qual(n['type'])).split('::')[-1]
        return enum_const(wp, et, n['referencedDecl']['name'])
    return None


ENUMS = {'split_type': ('train', 'valid'), 'value_type': ('errors', 'losses')}


def enum_const(wp, et, name):
    key = f'enum.{et}.{name}'
    if key not in wp.env:
        if name not in ENUMS.get(et, ()):
            raise Unsupported(f'{wp.name}: enumerator {et}::{name}')
        for i, nm in enumerate(ENUMS[et]):
            wp.env[f'enum.{et}.{nm}'] = wp.const(f'{et}_{nm}', 'Int', 'unsigned char')
            wp.assume(f'(= {et}_{nm} {i + 100})')     # distinct, otherwise arbitrary
    return wp.env[key]


def enum_param(wp, key, et):
    wp.env[key] = wp.fresh('Int', key, 'unsigned char')
    wp.assume(OR(*[f'(= {wp.env[key].t} {enum_const(wp, et, nm).t})' for nm in ENUMS[et]]))


def cell(wp, t, f, split, value):
    """spec function: the rank-1 view of m_values holding the statistics of (trial, fold, split, value)"""
    tr, er = enum_const(wp, 'split_type', 'train').t, enum_const(wp, 'value_type', 'errors').t
    return (t, f, f'(ite (= {split} {tr}) 0 1)', f'(ite (= {value} {er}) 0 1)')


def same_view(view, base, idx):
    """claim: `view` is the view of `base` at the index prefix `idx`"""
    if not isinstance(view, Obj) or view.kind != 'view' or view['base'] != base or len(view['idx']) != len(idx):
        return 'false'
    return AND(*[f'(= {a} {b})' for a, b in zip(view['idx'], idx)])


CALLS_R = [(r'^operator\(\)\|[^|]*\|[^|]*tensor_(c|m)array_storage_t, double, 1(UL)?>$', c_block_at), (r'^percentile\|', c_percentile),
           (r'^operator=\|.*tensor_t<', c_assign_tensor), (r'^store_stats\|', c_store_stats), (r'^load_stats\|', c_load_stats), (r'^operator\[\]\|.*std::vector', c_vec_index),
           (r'^operator=\|std::any &\(std::any &&\)', c_assign_any), (r'^move\|', c_move)]
MEMBERS_R = [(r'^mean\|.*tensor', m_values_stat('Vmean')), (r'^stdev\|.*tensor', m_values_stat('Vstdev')),
             (r'^resize\|.*tensor', m_resize), (r'^slice\|.*tensor', m_slice), (r'^full\|.*tensor', m_full),
             (r'^emplace_back\|.*std::vector', m_emplace_back), (r'^stats\|.*result_t', m_stats_call),
             (r'^size\|.*tensor', m_size), (r'^tensor\|.*tensor', m_tensor), (r'^folds\|.*result_t', m_folds),
             (r'^trials\|.*result_t', m_trials)]


def mk(name, tu, flt, decl, select, setup, post, about, file, calls=CALLS_R, members=MEMBERS_R, invariants=None,
       real=False, fn_of=None):
    docs, fn = load(tu, flt, decl, select)
    if fn_of:
        fn = fn_of(fn)
    wp = IdEnvWP(name, real=real, calls=calls, members=members, hooks=[enum_hook, temp_hook, stats_init_hook], invariants=invariants)
    wp.written = []
    wp.decl_hooks = (obj_decl_hook,) + tuple(wp.decl_hooks)
    wp.rec = []
    keys = wp.bind_params(fn)
    setup(wp, dict(keys))
    wp.post = post
    wp.run(fn, file)
    if wp.returns == 0:
        raise astload.ExtractionError(f'{name}: no return path')
    vcs = wp.vcs(name, file, about)
    vcs.append(reach_vc(wp, name, file))
    line = fn.get('loc', {}).get('line') or fn.get('range', {}).get('begin', {}).get('line')
    return vcs, {'c_name': name, 'cxx': decl, 'file': file, 'line': line, 'sha': astload.file_hash(file)}


def nparams(k):
    return lambda d: len(astload.param_types(d)) == k


def int_param(wp, key, ctype='long'):
    wp.env[key] = wp.fresh('Int', key, ctype)
    wp.assume(wp.in_range(wp.env[key].t, ctype))
    return wp.env[key].t


def result_vcs():
    vcs, fns = [], []

    def add(r):
        vcs.extend(r[0])
        fns.append(r[1])

    # ---- folds() / trials(): the two dimensions of m_values the bookkeeping is phrased over
    for nm, k in (('trials', 0), ('folds', 1)):
        def setup(wp, keys):
            setup_result(wp)

        def post(wp, rv, k=k, nm=nm):
            return [(f'{nm}() == m_values.size<{k}>()', f'(= {rv.t} {dim(wp, "self.m_values", k)})')]
        add(mk(f'result_t::{nm}', TU_R, FLT_R, nm, nparams(0), setup, post, 'dimension accessor', HDR_R))

    # ---- store(trial, fold, train, valid, extra): statistics and model data go to cell(trial, fold, ., .) / slot(trial, fold)
    def setup_store(wp, keys):
        setup_result(wp)
        wp.t, wp.f = int_param(wp, 'trial'), int_param(wp, 'fold')
        wp.assume(in_box(wp, wp.t, wp.f))                       # assert(..) of the function; discharged at the call site in ml::tune
        for nm in ('train_errors_losses', 'valid_errors_losses'):
            tensor(wp, nm, 2, fixed=((0, 2),))                  # assert(size<0>() == 2): row 0 = errors, row 1 = losses
        wp.env['extra'] = Obj('param', name='extra')

    def post_store(wp, rv):
        out = []
        tr, va = enum_const(wp, 'split_type', 'train').t, enum_const(wp, 'split_type', 'valid').t
        er, lo = enum_const(wp, 'value_type', 'errors').t, enum_const(wp, 'value_type', 'losses').t
        want = [('train_errors_losses', 0, tr, er), ('train_errors_losses', 1, tr, lo),
                ('valid_errors_losses', 0, va, er), ('valid_errors_losses', 1, va, lo)]
        stores = [kw for what, kw in wp.rec if what == 'store_stats']
        out.append(('exactly four statistics blocks are written', 'true' if len(stores) == 4 else 'false'))
        for src, row, sp, vl in want:
            hits = [kw for kw in stores if same_view(kw['src'], src, (str(row),)) == 'true' or
                    (isinstance(kw['src'], Obj) and kw['src'].kind == 'view' and kw['src']['base'] == src and kw['src']['idx'] == (str(row),))]
            label = f'{src} row {row} is stored at cell(trial, fold, {"train" if sp == tr else "valid"}, {"errors" if vl == er else "losses"})'
            if len(hits) != 1:
                out.append((label + ' (written exactly once)', 'false'))
                continue
            out.append((label, same_view(hits[0]['dst'], 'self.m_values', cell(wp, wp.t, wp.f, sp, vl))))
        assigns = [kw for what, kw in wp.rec if what == 'assign']
        ok = len(assigns) == 1 and isinstance(assigns[0]['dst'], Obj) and assigns[0]['dst'].kind == 'elem' and \
            assigns[0]['dst']['vec'] == 'self.m_extras' and isinstance(assigns[0]['src'], Obj) and assigns[0]['src'].f.get('name') == 'extra'
        out.append(('the model data `extra` is stored in m_extras (one assignment)', 'true' if ok else 'false'))
        if ok:
            out.append(('extra is stored at slot(trial, fold) = trial * folds + fold', f'(= {assigns[0]["dst"]["pos"]} {slot(wp, wp.t, wp.f)})'))
        return out
    add(mk('result_t::store', TU_R, FLT_R, 'store', nparams(5), setup_store, post_store,
           'statistics of (trial, fold) are stored under (trial, fold)', SRC_R))

    # ---- extra(trial, fold) / log_path(trial, fold): read slot(trial, fold)
    for nm, vec in (('extra', 'm_extras'), ('log_path', 'm_log_paths')):
        def setup_get(wp, keys):
            setup_result(wp)
            wp.t, wp.f = int_param(wp, 'trial'), int_param(wp, 'fold')
            wp.assume(in_box(wp, wp.t, wp.f))

        def post_get(wp, rv, vec=vec, nm=nm):
            ok = isinstance(rv, Obj) and rv.kind == 'elem' and rv['vec'] == f'self.{vec}'
            out = [(f'{nm}(trial, fold) is an element of {vec}', 'true' if ok else 'false')]
            if ok:
                out.append((f'{nm}(trial, fold) reads slot(trial, fold) = trial * folds + fold', f'(= {rv["pos"]} {slot(wp, wp.t, wp.f)})'))
            return out
        add(mk(f'result_t::{nm}', TU_R, FLT_R, nm, nparams(2), setup_get, post_get,
               'per-(trial, fold) data is read from the slot it was stored in', SRC_R))

    # ---- stats(trial, fold, split, value): reads cell(trial, fold, split, value)
    def setup_stats(wp, keys):
        setup_result(wp)
        wp.t, wp.f = int_param(wp, 'trial'), int_param(wp, 'fold')
        wp.assume(in_box(wp, wp.t, wp.f))
        enum_param(wp, 'split', 'split_type')
        enum_param(wp, 'value', 'value_type')

    def post_stats(wp, rv):
        ok = isinstance(rv, Obj) and rv.kind == 'stats'
        out = [('stats(..) loads a statistics block', 'true' if ok else 'false')]
        if ok:
            out.append(('stats(trial, fold, split, value) reads cell(trial, fold, split, value)',
                        same_view(rv['of'], 'self.m_values', cell(wp, wp.t, wp.f, wp.env['split'].t, wp.env['value'].t))))
        return out
    add(mk('result_t::stats', TU_R, FLT_R, 'stats', nparams(4), setup_stats, post_stats,
           'statistics are read from the cell they were stored in', SRC_R))

    # ---- add(params_to_try): the slots of the new trials exist afterwards, old trials are preserved
    def setup_add(wp, keys):
        setup_result(wp)
        tensor(wp, 'params_to_try', 2)
        n, P = dim(wp, 'params_to_try', 0), dim(wp, 'params_to_try', 1)
        wp.assume(f'(> {n} 0)')                                        # assert(params_to_try.size<0>() > 0)
        wp.assume(f'(= {P} {dim(wp, "self.m_params", 1)})')            # assert(size<1>() == m_spaces.size()) + class invariant
        wp.assume(f'(<= (* 48 (* (+ {wp.T} {n}) {wp.F})) {BOUND})')    # the grown tensors respect C16's bound (memory)
        wp.assume(f'(<= (* (+ {wp.T} {n}) {P}) {BOUND})')
        wp.assume(f'(<= (+ {wp.T} {n}) {BOUND})')                      # number of trials itself bounded (matters only when folds == 0)
        wp.T0, wp.nn, wp.P = wp.T, n, P
        wp.E0 = wp.env['self.m_extras.size'].t

    def sizes(wp, extra):
        return [(f'{vec}.size() == folds * old_trials + {extra[0]}', f'(= {wp.env[f"self.{vec}.size"].t} (+ {wp.E0} {extra[1]}))')
                for vec in ('m_extras', 'm_log_paths')]

    def inv_outer(wp):
        fold, folds, trials = wp.env['fold'].t, wp.env['folds'].t, wp.env['trials'].t
        return [('0 <= fold <= folds', f'(and (<= 0 {fold}) (<= {fold} {folds}))')] + sizes(wp, ('fold * trials', f'(* {fold} {trials})'))
    inv_outer.havoc = ('self.m_extras.size', 'self.m_log_paths.size')
    inv_outer.decreases = lambda wp, env: f'(- {env["folds"].t} {env["fold"].t})'

    def inv_inner(wp):
        fold, trial, trials = wp.env['fold'].t, wp.env['trial'].t, wp.env['trials'].t
        return [('0 <= trial <= trials', f'(and (<= 0 {trial}) (<= {trial} {trials}))')] + \
            sizes(wp, ('fold * trials + trial', f'(+ (* {fold} {trials}) {trial})'))
    inv_inner.havoc = inv_outer.havoc
    inv_inner.decreases = lambda wp, env: f'(- {env["trials"].t} {env["trial"].t})'

    def post_add(wp, rv):
        T1 = f'(+ {wp.T0} {wp.nn})'
        out = [('trials() == old trials + new trials', f'(= {dim(wp, "self.m_values", 0)} {T1})'),
               ('folds() is unchanged', f'(= {dim(wp, "self.m_values", 1)} {wp.F})'),
               ('m_values keeps the layout (trial, fold, 2, 2, 12)', AND(*[f'(= {dim(wp, "self.m_values", k)} {v})' for k, v in ((2, 2), (3, 2), (4, 12))])),
               ('m_params has one row per trial', f'(and (= {dim(wp, "self.m_params", 0)} {T1}) (= {dim(wp, "self.m_params", 1)} {wp.P}))')]
        for vec in ('m_extras', 'm_log_paths'):
            out.append((f'{vec} has one slot per (trial, fold): size == folds * trials', f'(= {wp.env[f"self.{vec}.size"].t} (* {wp.F} {T1}))'))
        # data flow: old rows preserved (copied back from a snapshot taken before the resize), new rows initialised
        kinds = [what for what, kw in wp.rec]
        want = ['snapshot', 'resize', 'copy', 'copy', 'snapshot', 'resize', 'copy', 'fill']
        out.append(('add() snapshots, resizes, restores and initialises in this order', 'true' if kinds == want else 'false'))
        if kinds == want:
            r = [kw for what, kw in wp.rec]

            def rows(o, base, b, e):
                return AND(f'(= {o["begin"]} {b})', f'(= {o["end"]} {e})') if o['base'] == base else 'false'
            ok = r[0]['of'] == 'self.m_params' and r[1]['arr'] == 'self.m_params' and r[2]['src'] == r[0]['name']
            out.append(('old parameter rows [0, old trials) are restored from the snapshot taken before the resize',
                        rows(r[2]['dst'], 'self.m_params', '0', wp.T0) if ok else 'false'))
            out.append(('the new parameter rows [old trials, trials) are params_to_try',
                        rows(r[3]['dst'], 'self.m_params', wp.T0, T1) if r[3]['src'] == 'params_to_try' else 'false'))
            ok = r[4]['of'] == 'self.m_values' and r[5]['arr'] == 'self.m_values' and r[6]['src'] == r[4]['name']
            out.append(('statistics of the old trials [0, old trials) are restored from the snapshot taken before the resize',
                        rows(r[6]['dst'], 'self.m_values', '0', wp.T0) if ok else 'false'))
            out.append(('statistics of the new trials [old trials, trials) start as NaN (not evaluated yet)',
                        rows(r[7]['dst'], 'self.m_values', wp.T0, T1) if r[7]['nan'] else 'false'))
        return out
    add(mk('result_t::add', TU_R, FLT_R, 'add', nparams(1), setup_add, post_add,
           'add() creates the slots of the new trials and preserves the old ones', SRC_R, invariants={1: inv_outer, 2: inv_inner}))

    # ---- value(trial, split, value): mean over the folds of the stored mean of cell(trial, fold, split, value)
    def setup_value(wp, keys):
        setup_result(wp)
        wp.t = int_param(wp, 'trial')
        wp.assume(f'(and (<= 0 {wp.t}) (< {wp.t} {wp.T}))')           # assert(..) of the function
        wp.assume(f'(>= {wp.F} 1)')                                   # at least one fold (assumption, reported)
        enum_param(wp, 'split', 'split_type')
        enum_param(wp, 'value', 'value_type')
        c = cell(wp, wp.t, 'k', wp.env['split'].t, wp.env['value'].t)
        km = stats_fields().index('m_mean')                           # the record's mean is the "error" of a fold
        wp.decls.append('(declare-fun B (Int Int Int Int Int) Real)') # element k of the statistics block stored in a cell
        wp.decls.append('(declare-fun S (Int) Real)')                 # spec: S(k) = sum of the stored means of folds [0, k)
        wp.assume('(= (S 0) 0.0)')
        wp.assume(f'(forall ((k Int)) (! (=> (>= k 0) (= (S (+ k 1)) (+ (S k) (B {c[0]} k {c[2]} {c[3]} {km})))) :pattern ((S k))))')

    def inv_value(wp):
        fold, folds = wp.env['fold'].t, wp.env['folds'].t
        return [('0 <= fold <= folds == folds()', f'(and (<= 0 {fold}) (<= {fold} {folds}) (= {folds} {wp.F}))'),
                ('sum_mean == sum of the stored means of folds [0, fold)', f'(= {wp.env["sum_mean"].t} (S {fold}))')]
    inv_value.decreases = lambda wp, env: f'(- {env["folds"].t} {env["fold"].t})'

    def post_value(wp, rv):
        return [('value(trial, split, value) == (1 / folds()) * sum over folds of the mean stored in cell(trial, fold, split, value): every fold has the same weight',
                 f'(= {rv.t} (/ (S {wp.F}) (to_real {wp.F})))')]
    add(mk('result_t::value', TU_R, FLT_R, 'value', nparams(3), setup_value, post_value,
           'mean across folds of the stored statistic (double as Real)', SRC_R, invariants={1: inv_value}, real=True))
    vcs.append(value_defaults_vc())
    vcs.append(values_defaults_vc())

    # ---- store_stats(values, block) / load_stats(block): the record <-> block layout (member k of stats_t <-> element k)
    def setup_block(wp, keys):
        n = len(stats_fields())
        tensor(wp, 'stats', 1, fixed=((0, n),))            # a cell of m_values: 12 elements (class invariant; assert in load_stats)
        for nm, srt in (('Vmean', 'Real'), ('Vstdev', 'Real'), ('Vsize', 'Int')):
            wp.decls.append(f'(declare-const {nm} {srt})')
        wp.decls.append('(declare-fun Vper (Real) Real)')

    def setup_store_stats(wp, keys):
        setup_block(wp, keys)
        tensor(wp, 'values', 1)
        wp.assume(f'(= Vsize {dim(wp, "values", 0)})')

    def post_store_stats(wp, rv):
        flds = stats_fields()
        out = [('every element of the block is written, once', 'true' if sorted(wp.written) == list(range(len(flds))) else 'false')]
        for k, fld in enumerate(flds):
            want = stat_of_field(fld)
            have = wp.env.get(f'stats.blk.{k}')
            out.append((f'element {k} of the block (member {fld} of the record) is the {fld[2:]} of the values',
                        f'(= {have.t} {want})' if want is not None and have is not None else 'false'))
        return out
    add(mk('ml::store_stats', 'src/machine/stats.cpp', 'nano::ml::store_stats', 'store_stats', None, setup_store_stats, post_store_stats,
           'statistics of the per-sample values, element k of the block = member k of stats_t', os.path.join(astload.REPO, 'src/machine/stats.cpp'), real=True))

    def setup_load_stats(wp, keys):
        setup_block(wp, keys)
        for k in range(len(stats_fields())):
            wp.env[f'stats.blk.{k}'] = wp.fresh('Real', f'blk{k}', 'double')
        wp.blk = [wp.env[f'stats.blk.{k}'].t for k in range(len(stats_fields()))]

    def post_load_stats(wp, rv):
        flds = stats_fields()
        ok = isinstance(rv, Obj) and rv.kind == 'stats_rec' and len(rv['parts']) == len(flds)
        out = [('load_stats initialises every member of the record', 'true' if ok else 'false')]
        if ok:
            for k, fld in enumerate(flds):
                out.append((f'member {fld} of the loaded record is element {k} of the block', f'(= {rv["parts"][k].t} {wp.blk[k]})'))
        return out
    add(mk('ml::load_stats', 'src/machine/stats.cpp', 'nano::ml::load_stats', 'load_stats', None, setup_load_stats, post_load_stats,
           'member k of the record = element k of the block', os.path.join(astload.REPO, 'src/machine/stats.cpp'), real=True))
    return vcs, fns


def value_defaults_vc():
    """optimum_trial() compares value(trial) with the default arguments: they must be (valid, errors) for the optimum to
    be the smallest mean *validation error*.  Read from clang's AST of the real declarations."""
    _, val = load(TU_R, FLT_R, 'value', nparams(3))
    defaults = []
    for p in [c for c in val['inner'] if c['kind'] == 'ParmVarDecl'][1:]:
        d = [x for x in astload.walk(p) if x.get('kind') == 'DeclRefExpr' and x['referencedDecl'].get('kind') == 'EnumConstantDecl']
        defaults.append(d[0]['referencedDecl']['name'] if d else None)
    _, opt = load(TU_R, FLT_R, 'optimum_trial', nparams(0))
    calls = [c for c in astload.walk(opt) if c.get('kind') == 'CXXMemberCallExpr' and c['inner'][0].get('name') == 'value']
    ok = defaults == ['valid', 'errors'] and len(calls) == 1 and \
        [a.get('kind') for a in calls[0]['inner'][2:]] == ['CXXDefaultArgExpr', 'CXXDefaultArgExpr']
    return VC('result_t::optimum_trial/compares value(trial, split_type::valid, value_type::errors)',
              f'(assert (not {"true" if ok else "false"}))', about='the compared quantity is the mean validation error',
              source={'file': HDR_R}, group='result_t::optimum_trial')


def values_defaults_vc():
    """the tuner lambda of ml::tune reports result.values(range) with the default selectors: they must be (valid, errors)
    for the tuner to minimise the mean *validation error* (same quantity optimum_trial() compares)"""
    _, val = load(TU_R, FLT_R, 'values', nparams(3))
    defaults = []
    for p in [c for c in val['inner'] if c['kind'] == 'ParmVarDecl'][1:]:
        d = [x for x in astload.walk(p) if x.get('kind') == 'DeclRefExpr' and x['referencedDecl'].get('kind') == 'EnumConstantDecl']
        defaults.append(d[0]['referencedDecl']['name'] if d else None)
    _, tune = load(TU_T, 'nano::ml::tune', 'tune', None)
    lam = lambda_of(0)(tune)
    calls = [c for c in astload.walk(lam) if c.get('kind') == 'CXXMemberCallExpr' and c['inner'][0].get('name') == 'values']
    ok = defaults == ['valid', 'errors'] and len(calls) == 1 and \
        [a.get('kind') for a in calls[0]['inner'][2:]] == ['CXXDefaultArgExpr', 'CXXDefaultArgExpr']
    return VC('tune::tuner_callback/reports values(range, split_type::valid, value_type::errors) to the tuner',
              f'(assert (not {"true" if ok else "false"}))', about='the tuner minimises the mean validation error',
              source={'file': HDR_R}, group='tune::tuner_callback')


def lemmas():
    """facts about the spec function slot(t, f) = t*F + f (no code involved)"""
    hdr = '(declare-const T Int)(declare-const F Int)(declare-const t Int)(declare-const f Int)(declare-const u Int)(declare-const g Int)\n' \
          '(assert (and (>= T 0) (>= F 0) (<= 0 t) (< t T) (<= 0 f) (< f F) (<= 0 u) (< u T) (<= 0 g) (< g F)))\n'
    out = [
        VC('lemma/slot is injective: distinct (trial, fold) never share a slot', hdr +
           '(assert (= (+ (* t F) f) (+ (* u F) g)))\n(assert (not (and (= t u) (= f g))))', about='(trial, fold) -> slot is injective'),
        VC('lemma/slot range: 0 <= slot(trial, fold) < folds * trials', hdr +
           '(assert (not (and (<= 0 (+ (* t F) f)) (< (+ (* t F) f) (* F T)))))', about='slots exist once add() has grown the vectors'),
        VC('lemma/index decoding inverts slot: (i div F, i mod F) is the (trial, fold) with slot == i, for every i in [0, F*T)',
           '(declare-const T Int)(declare-const F Int)(declare-const i Int)\n(assert (and (>= T 0) (>= F 0) (<= 0 i) (< i (* F T))))\n'
           '(assert (not (and (<= 0 (div i F)) (< (div i F) T) (<= 0 (mod i F)) (< (mod i F) F) (= i (+ (* (div i F) F) (mod i F))))))',
           about='index <-> (trial, fold) is a bijection: every task index decodes to a pair in range and distinct indices to distinct pairs'),
        VC('lemma/decoding after encoding: slot(t, f) div F == t and slot(t, f) mod F == f', hdr +
           '(assert (not (and (= (div (+ (* t F) f) F) t) (= (mod (+ (* t F) f) F) f))))', about='every (trial, fold) is hit by exactly one index'),
    ]
    return out


# ------------------------------------------------------------------------------------------------ ml::tune lambdas (B)
# call-site contracts of the result_t members: precondition obliged, proved postcondition assumed
def m_closest_trial_call(wp, n, args, obj):
    mt = wp.ev(args[1])
    wp.oblige('callee closest_trial(params, max_trials) precondition: 0 <= max_trials <= trials()',
              f'(and (<= 0 {mt.t}) (<= {mt.t} {wp.T}))', n)
    r = wp.fresh('Int', 'closest_trial', 'long')
    wp.assume(f'(and (<= 0 {r.t}) (or (< {r.t} {mt.t}) (= {r.t} 0)))')      # NV_ARGMIN range clause, proved by CBMC (result.h)
    return r


def m_slot_call(vec):
    def h(wp, n, args, obj):
        t, f = wp.ev(args[0]), wp.ev(args[1])
        wp.oblige(f'callee {vec[2:-1] if vec != "m_extras" else "extra"}(trial, fold) precondition: 0 <= trial < trials(), 0 <= fold < folds()',
                  in_box(wp, t.t, f.t), n)
        return Obj('elem', vec=f'{obj_name(wp, obj)}.{vec}', pos=slot(wp, t.t, f.t))    # proved for extra() / log_path()
    return h


def m_store_call(wp, n, args, obj):
    t, f = wp.ev(args[0]), wp.ev(args[1])
    wp.oblige('callee store(trial, fold, ..) precondition: 0 <= trial < trials(), 0 <= fold < folds()', in_box(wp, t.t, f.t), n)
    record(wp, 'store', trial=t.t, fold=f.t, rest=[wp.ev(a) for a in args[2:]])
    return V('0', 'Int', 'int')


def m_add_call(wp, n, args, obj):
    """result.add(new_params): preconditions obliged; effect = the postcondition proved for result_t::add"""
    o = obj_name(wp, obj)
    src = wp.ev(args[0])
    k, P = dim(wp, src.t, 0), dim(wp, src.t, 1)
    wp.oblige('callee add(params) precondition: at least one new trial, one column per parameter space',
              f'(and (> {k} 0) (= {P} {dim(wp, o + ".m_params", 1)}))', n)
    T1 = f'(+ {wp.T} {k})'
    wp.oblige('callee add(params) precondition: grown tensors within the tensor bound',
              f'(and (<= (* 48 (* {T1} {wp.F})) {BOUND}) (<= (* {T1} {P}) {BOUND}) (<= {T1} {BOUND}))', n)
    for name in (f'{o}.m_values.0', f'{o}.m_params.0'):
        wp.env[name] = V(T1, 'Int', 'long')
    for vec in ('m_extras', 'm_log_paths'):
        wp.env[f'{o}.{vec}.size'] = V(f'(* {wp.F} {T1})', 'Int', 'unsigned long')
    wp.T = T1
    record(wp, 'add', src=src.t)
    return V('0', 'Int', 'int')


def m_map(wp, n, args, obj):
    size = wp.ev(args[0])
    record(wp, 'map', size=size.t, op=wp.ev(args[1]))
    return V('0', 'Int', 'int')


def m_log(wp, n, args, obj):
    record(wp, 'log')
    return V('0', 'Int', 'int')


def m_values_call(wp, n, args, obj):
    r = wp.ev(args[0])
    wp.oblige('callee values(range) precondition: every trial of the range exists (value(trial) asserts 0 <= trial < trials())',
              f'(and (<= 0 {r["begin"]}) (<= {r["begin"]} {r["end"]}) (<= {r["end"]} {wp.T}))', n)
    return Obj('values', begin=r['begin'], end=r['end'])


def c_make_range(wp, n, args, callee):
    b, e = wp.ev(args[0]), wp.ev(args[1])
    return Obj('range', begin=b.t, end=e.t)


def c_make_file_logger(wp, n, args, callee):
    return Obj('logger', path=wp.ev(args[0]))


def c_function_call(wp, n, args, callee):
    """std::function::operator(): the user callback -- recorded with its arguments; returns an opaque tuple.
    A call of a local lambda is recorded with the lambda and its (literal tensor) argument"""
    f = unwrap(args[0])
    if f.get('kind') == 'DeclRefExpr' and isinstance(wp.env.get(f['referencedDecl']['name']), Obj) and wp.env[f['referencedDecl']['name']].kind == 'lambda':
        record(wp, 'call_lambda', name=f['referencedDecl']['name'], args=[wp.ev(a) for a in args[1:]])
        return Obj('lambda_result')
    if f.get('kind') != 'DeclRefExpr' or f['referencedDecl']['name'] != 'callback':
        raise Unsupported(f'{wp.name}: call through {f.get("kind")}')
    k = len(wp.rec)
    record(wp, 'callback', args=[wp.ev(a) for a in args[1:]])
    return Obj('cbresult', call=k, parts=[Obj('cbpart', call=k, k=i) for i in range(3)])


def temp_hook(wp, n):
    """objects created in place: parallel::pool_t{}, result_t{spaces, folds}, tensor2d_t{rows, cols} with literal sizes"""
    if n.get('kind') != 'CXXTemporaryObjectExpr':
        return None
    q = strip_cv(qual(n['type']))
    inner = n.get('inner', [])
    if q.endswith('pool_t') and not inner:
        return Obj('pool')
    if q.endswith('ml::result_t') and len(inner) == 2:
        sp = unwrap(inner[0])
        while sp.get('kind') in ('CXXConstructExpr', 'CallExpr') and sp.get('inner'):
            sp = unwrap(sp['inner'][-1])
        name = sp['referencedDecl']['name'] if sp.get('kind') == 'DeclRefExpr' else '?'
        return Obj('result_new', folds=wp.ev(inner[1]).t, spaces=name)
    if 'double, 2' in q and all(a.get('kind') == 'IntegerLiteral' for a in inner):
        return Obj('tensor_lit', dims=tuple(int(a['value']) for a in inner))
    return None


def m_split(wp, n, args, obj):
    return Obj('splits')


def m_vec_size(wp, n, args, obj):
    return wp.env[f'{vec_name(wp, obj)}.size']


def m_spaces_empty(wp, n, args, obj):
    if 'spaces.empty' not in wp.env:
        wp.env['spaces.empty'] = wp.fresh('Bool', 'spaces_empty', 'bool')
    return wp.env['spaces.empty']


def m_optimize_call(wp, n, args, obj):
    record(wp, 'optimize', callback=wp.ev(args[1]))
    return Obj('steps')


CALLS_T = CALLS_R + [(r'^make_range\|', c_make_range), (r'^make_file_logger\|', c_make_file_logger), (r'^operator\(\)\|', c_function_call)]
MEMBERS_T = [(r'^closest_trial\|.*result_t', m_closest_trial_call), (r'^extra\|.*result_t', m_slot_call('m_extras')),
             (r'^log_path\|.*result_t', m_slot_call('m_log_paths')), (r'^store\|.*result_t', m_store_call),
             (r'^add\|.*result_t', m_add_call), (r'^map\|.*pool_t', m_map), (r'^log\|.*params_t', m_log),
             (r'^values\|.*result_t', m_values_call), (r'^split\|.*splitter_t', m_split), (r'^size\|.*std::vector', m_vec_size),
             (r'^empty\|.*std::vector<nano::param_space_t', m_spaces_empty), (r'^optimize\|.*tuner_t', m_optimize_call)] + MEMBERS_R


def lambda_of(k):
    def pick(fn):
        lams = astload.find_lambdas(fn)
        if k >= len(lams):
            raise astload.ExtractionError(f'lambda #{k} of {fn.get("name")} not found')
        op = astload.lambda_call_operator(lams[k])
        if op is None:
            raise astload.ExtractionError('lambda without operator()')
        return op
    return pick


def setup_tune_env(wp):
    """variables captured by reference from ml::tune: result (class invariant), folds, splits, callback"""
    setup_result(wp, 'result')
    wp.env['folds'] = wp.fresh('Int', 'folds', 'long')
    wp.env['splits.size'] = wp.fresh('Int', 'splits_size', 'unsigned long')
    # ml::tune, lines 12-15: folds = static_cast<tensor_size_t>(splits.size()); result = result_t{spaces, folds}
    wp.assume(f'(and (= {wp.env["folds"].t} {wp.env["splits.size"].t}) (= {wp.F} {wp.env["folds"].t}))')
    wp.vec_elems = {'splits': lambda i: Obj('split', fold=i, parts=[Obj('samples', which='train', fold=i), Obj('samples', which='valid', fold=i)])}
    wp.env['callback'] = Obj('function', name='callback')


def tune_vcs():
    vcs, fns = [], []

    def add(r):
        vcs.extend(r[0])
        fns.append(r[1])

    # ---- lambda #1: thread_callback(index, thread): one (trial, fold) task
    def setup_thread(wp, keys):
        setup_tune_env(wp)
        tensor(wp, 'new_params', 2)
        wp.new = dim(wp, 'new_params', 0)
        wp.old = int_param(wp, 'old_trials')
        wp.env['new_trials'] = V(wp.new, 'Int', 'long')
        wp.assume(f'(>= {wp.old} 0)')
        wp.assume(f'(= {wp.T} (+ {wp.old} {wp.new}))')          # postcondition of result.add(new_params) (tuner lambda: add precedes map)
        wp.idx = int_param(wp, 'index')
        int_param(wp, [k for k in keys if k != 'index'][0], 'unsigned long')
        # contract of parallel::pool_t::map(size, op) (C17): op is called with every index of [0, size) once; size = folds * new_trials
        wp.assume(f'(and (<= 0 {wp.idx}) (< {wp.idx} (* {wp.env["folds"].t} {wp.new})))')

    def post_thread(wp, rv):
        F = wp.env['folds'].t
        fold, trial = f'(mod {wp.idx} {F})', f'(div {wp.idx} {F})'
        out = [('(trial, fold) = (index div folds, index mod folds) addresses one of the new trials and one of the folds',
                f'(and (<= 0 {trial}) (< {trial} {wp.new}) (<= 0 {fold}) (< {fold} {F}) (= {wp.idx} (+ (* {trial} {F}) {fold})))')]
        kinds = [what for what, kw in wp.rec]
        out.append(('the model callback is called exactly once, then its results are stored exactly once', 'true' if kinds == ['callback', 'store'] else 'false'))
        if kinds != ['callback', 'store']:
            return out
        cb, st = wp.rec[0][1], wp.rec[1][1]
        a = cb['args']

        def is_obj(o, kind):
            return isinstance(o, Obj) and o.kind == kind
        ok = len(a) == 5 and is_obj(a[0], 'samples') and is_obj(a[1], 'samples') and a[0]['which'] == 'train' and a[1]['which'] == 'valid'
        out.append(("the callback gets that fold's training and validation indices: splits[index mod folds]",
                    AND(f'(= {a[0]["fold"]} {fold})', f'(= {a[1]["fold"]} {fold})') if ok else 'false'))
        out.append(("the callback gets the trial's parameters: new_params.tensor(index div folds)",
                    same_view(a[2], 'new_params', (trial,)) if len(a) == 5 else 'false'))
        ok = len(a) == 5 and is_obj(a[3], 'elem') and a[3]['vec'] == 'result.m_extras'
        out.append(('the warm-start data is the model data of an existing trial for the same fold',
                    f'(exists ((c Int)) (and (<= 0 c) (< c {wp.T}) (= {a[3]["pos"]} {slot(wp, "c", fold)})))' if ok else 'false'))
        ok = len(a) == 5 and is_obj(a[4], 'logger') and is_obj(a[4]['path'], 'elem') and a[4]['path']['vec'] == 'result.m_log_paths'
        out.append(('the logger writes to log_path(old_trials + trial, fold)',
                    f'(= {a[4]["path"]["pos"]} {slot(wp, f"(+ {wp.old} {trial})", fold)})' if ok else 'false'))
        out.append(('the results are stored under (old_trials + index div folds, index mod folds)',
                    AND(f'(= {st["trial"]} (+ {wp.old} {trial}))', f'(= {st["fold"]} {fold})')))
        r = st['rest']
        ok = len(r) == 3 and all(is_obj(x, 'cbpart') and x['call'] == 0 and x['k'] == i for i, x in enumerate(r))
        out.append(("what is stored are that call's (training values, validation values, model data), in this order", 'true' if ok else 'false'))
        return out
    add(mk('tune::thread_callback', TU_T, 'nano::ml::tune', 'tune', None, setup_thread, post_thread,
           'one task = one (trial, fold): decoded from the flat index, evaluated once, stored under that (trial, fold)', SRC_T,
           calls=CALLS_T, members=MEMBERS_T, fn_of=lambda_of(1)))

    # ---- lambda #0: tuner_callback(new_params): grows the result, maps the tasks, returns the values of the new trials
    def setup_tuner(wp, keys):
        setup_tune_env(wp)
        tensor(wp, 'new_params', 2)
        wp.new = dim(wp, 'new_params', 0)
        wp.old = wp.T
        # guaranteed by the callers: evaluate() calls back with >= 1 grid points and one column per space (map_to_grid);
        # ml::tune's direct call passes tensor2d_t{1, 0} when there are no spaces
        wp.assume(f'(and (> {wp.new} 0) (= {dim(wp, "new_params", 1)} {dim(wp, "result.m_params", 1)}))')
        T1 = f'(+ {wp.T} {wp.new})'
        wp.assume(f'(and (<= (* 48 (* {T1} {wp.F})) {BOUND}) (<= (* {T1} {dim(wp, "new_params", 1)}) {BOUND}) (<= {T1} {BOUND}))')
        wp.env['tpool'] = Obj('pool')
        wp.env['fit_params'] = Obj('params')
        wp.env['prefix'] = Obj('string')

    def post_tuner(wp, rv):
        kinds = [what for what, kw in wp.rec]
        out = [('add(new_params) runs before the tasks are mapped (their slots exist), then the log, in this order',
                'true' if kinds == ['add', 'map', 'log'] else 'false')]
        if kinds != ['add', 'map', 'log']:
            return out
        ad, mp = wp.rec[0][1], wp.rec[1][1]
        out.append(('the trials added are the requested parameter rows', 'true' if ad['src'] == 'new_params' else 'false'))
        out.append(('the pool runs folds * new_trials tasks: one per (new trial, fold) by the decoding lemma',
                    f'(= {mp["size"]} (* {wp.env["folds"].t} {wp.new}))'))
        out.append(('every task runs the thread lambda', 'true' if isinstance(mp['op'], Obj) and mp['op'].kind == 'lambda' and mp['op']['name'] == 'thread_callback' else 'false'))
        ok = isinstance(rv, Obj) and rv.kind == 'values'
        out.append(('the tuner receives the values of exactly the new trials [old_trials, old_trials + new_trials), in order',
                    AND(f'(= {rv["begin"]} {wp.old})', f'(= {rv["end"]} (+ {wp.old} {wp.new}))') if ok else 'false'))
        return out
    add(mk('tune::tuner_callback', TU_T, 'nano::ml::tune', 'tune', None, setup_tuner, post_tuner,
           'one tuner evaluation = add the trials, run every (trial, fold) task, report the new values', SRC_T,
           calls=CALLS_T, members=MEMBERS_T, fn_of=lambda_of(0)))

    # ---- ml::tune itself: folds, the result object, and who gets the tuner lambda
    def setup_tune(wp, keys):
        wp.guarded_effects = True
        for nm in ('prefix', 'samples', 'fit_params', 'param_spaces', 'callback'):
            wp.env[nm] = Obj('param', name=nm)

    def post_tune(wp, rv):
        out = [('folds == splits.size() (the splitter decides the number of folds)', f'(= {wp.env["folds"].t} {wp.env["splits.size"].t})'),
               ('the result is built for exactly that many folds and starts without trials',
                f'(and (= {wp.env["result.m_values.1"].t} {wp.env["splits.size"].t}) (= {wp.env["result.m_values.0"].t} 0))'),
               ('the result holds the given parameter spaces', 'true' if wp.env['result']['spaces'] == 'param_spaces' else 'false'),
               ('the result returned is the one the tasks stored into', 'true' if isinstance(rv, Obj) and rv is wp.env['result'] else 'false')]
        e = wp.env.get('spaces.empty')
        recs = wp.rec
        ok = e is not None and [w for w, _ in recs] == ['optimize', 'call_lambda']
        out.append(('with parameter spaces the tuner optimises, without any the tuner lambda is called directly', 'true' if ok else 'false'))
        if ok:
            o, c = recs[0][1], recs[1][1]
            out.append(('the tuner evaluates through the tuner lambda, exactly when there is a parameter space',
                        AND(f'(= {o["guard"]} (not {e.t}))', 'true' if isinstance(o['callback'], Obj) and o['callback'].f.get('name') == 'tuner_callback' else 'false')))
            lit_ok = len(c['args']) == 1 and isinstance(c['args'][0], Obj) and c['args'][0].kind == 'tensor_lit' and c['args'][0]['dims'] == (1, 0)
            out.append(('without parameter spaces exactly one trial with zero parameters is evaluated (tensor2d_t{1, 0})',
                        AND(f'(= {c["guard"]} {e.t})', 'true' if lit_ok and c['name'] == 'tuner_callback' else 'false')))
        return out
    add(mk('ml::tune', TU_T, 'nano::ml::tune', 'tune', None, setup_tune, post_tune,
           'the driver: folds from the splitter, result for those folds, evaluations only through the tuner lambda', SRC_T,
           calls=CALLS_T, members=MEMBERS_T))
    return vcs, fns


# ------------------------------------------------------------------------------------------------ back end A: result_t
H_R = 'specs/C13/result.h'
CADICAL = ['--sat-solver', 'cadical']     # refuted obligations (mutants) are found in seconds instead of minutes with minisat
TYPES_R = [(r'::RealScalar$', 'double'),
           (r'^nano::tensor1d_cmap_t$|tensor_t<nano::tensor_carray_storage_t, double, 1', 'struct nv_t1c'),
           (r'tensor_cmap_t<double, 1', 'struct nv_prow'), (r'CwiseBinaryOp<.*scalar_difference_op', 'struct nv_prow')]
RESULT_A = dict(self_struct='struct nv_result', types=TYPES_R,
                calls=[(r'^max\|double \(\)', '(NV_DBL_MAX)'), (r'^operator-\|', 'nv_row_minus({0}, {1})')],
                members=[(r'^trials\|.*result_t', '({self}->trials)'), (r'^value\|.*result_t', 'nv_result_value({self}, {0})'),
                         (r'^tensor\|.*(tensor2d_t|tensor_vector_storage_t, double, 2)', 'nv_params_row(self, {0})'), (r'^lpNorm\|', 'nv_lpnorm2({*self})')])


def result_targets():
    opt = Fn('result_optimum_trial', TU_R, 'optimum_trial', flt=FLT_R, **RESULT_A)
    clo = Fn('result_closest_trial', TU_R, 'closest_trial', flt=FLT_R, **RESULT_A)
    vals = Fn('result_values', TU_R, 'values', flt=FLT_R, self_struct='struct nv_result',
              types=[(r'^nano::tensor_range_t$', 'struct nv_range'), (r'^nano::ml::(split|value)_type$', 'int32_t'),
                     (r'^nano::tensor1d_t$|tensor_vector_storage_t, double, 1', 'struct nv_vals')],
              calls=[(r'^ctor\|(nano::tensor1d_t|nano::tensor_t<nano::tensor_vector_storage_t, double, 1>)\|void \((const )?(long|nano::tensor_size_t)', 'nv_vals_new({0})'),
                     (r'^operator\(\)\|[^|]*\|[^|]*tensor_vector_storage_t, double, 1', '(*nv_vals_at({&0}, {1}))')],
              members=[(r'^size\|.*tensor_range_t', '({self}->m_end - {self}->m_begin)'), (r'^begin\|.*tensor_range_t', '({self}->m_begin)'),
                       (r'^end\|.*tensor_range_t', '({self}->m_end)'), (r'^value\|.*result_t', 'nv_result_value3({self}, {0}, {1}, {2})')],
              # a defaulted selector is not the caller's selector: printed as a value no enumerator has
              hooks=[lambda P, n: '(-1)' if n.get('kind') == 'CXXDefaultArgExpr' else None])
    return [Target('optimum_trial', [opt], H_R, cbmc_flags=CADICAL), Target('closest_trial', [clo], H_R, cbmc_flags=CADICAL),
            Target('values', [vals], H_R, cbmc_flags=CADICAL)]


# ------------------------------------------------------------------------------------------------ back end A: tuner
H_T = 'specs/C13/tuner.h'
TU_U = 'src/tuner/util.cpp'
TYPES_T = [(r'__normal_iterator<|::(const_)?iterator$', 'int64_t'),
           (r'^nano::igrids_t$|std::vector<nano::tensor_t<nano::tensor_vector_storage_t, long, 1', 'struct nv_igrids'),
           (r'^nano::tuner_steps_t$|std::vector<nano::tuner_step_t', 'struct nv_steps'),
           (r'^nano::tuner_step_t$', 'struct nv_step'),
           (r'^nano::igrid_t$|^nano::indices_t$|tensor_t<nano::tensor_vector_storage_t, long, 1', 'struct nv_igrid'),
           (r'^nano::param_spaces_t$|std::vector<nano::param_space_t', 'struct nv_spaces'),
           (r'^nano::tuner_callback_t$|^std::function<', 'struct nv_callback'), (r'^nano::logger_t$', 'struct nv_logger'),
           (r'^\(lambda at', 'struct nv_lambda'), (r'__normal_iterator<|::(const_)?iterator$', 'int64_t'),
           (r'^nano::tensor2d_t$|tensor_vector_storage_t, double, 2', 'struct nv_params'),
           (r'^nano::tensor1d_t$|tensor_cmap_t<double, 1|tensor_carray_storage_t, double, 1', 'struct nv_prow'),
           (r'tensor_vector_storage_t, double, 1', 'struct nv_values')]
CALLS_T_A = [(r'^remove_if\|', 'nv_remove_if_igrids(&igrids, steps)'), (r'^find_if\|', 'nv_find_if_steps(steps, igrid)'),
             (r'^map_to_grid\|', 'nv_map_to_grid({&0}, {&1})'),
             (r'^operator\(\)\|.*\|.*(tuner_callback_t|std::function)', 'nv_callback({&1})'),
             (r'^operator\(\)\|.*\|.*tensor_vector_storage_t, double, 1', 'nv_values_at({&0}, {1})'),
             (r'^operator\[\]\|.*std::vector<nano::tensor_t', '(*nv_igrids_at({&0}, {1}))'),
             (r'^isfinite\|', 'nv_isfinite({0})'), (r'^sort\|', 'nv_steps_sort(steps, {0}, {1})'),
             (r'^operator!=\|.*__normal_iterator', '({0} != {1})'), (r'^operator==\|.*__normal_iterator', '({0} == {1})'),
             (r'^operator==\|.*tensor_vector_storage_t, long, 1', 'nv_igrid_eq({&0}, {&1})'),
             (r'^ctor\|nano::(tensor1d_t|tensor_t<nano::tensor_vector_storage_t, double, 1>)\|void \(const tensor_t<nano::tensor_carray_storage_t', '{0}')]
MEMBERS_T_A = [(r'^begin\|.*std::vector', '((int64_t)0)'), (r'^end\|.*std::vector', '({self}->n)'),
               (r'^empty\|.*std::vector', '({self}->n == 0)'), (r'^size\|.*std::vector', '((uint64_t)({self}->n))'),
               (r'^size\|.*tensor', '({self}->n)'), (r'^erase\|.*std::vector', 'nv_igrids_erase({self}, {0}, {1})'),
               (r'^emplace_back\|.*tuner_step_t', 'nv_steps_push({self}, {0})'),
               (r'^tensor\|.*(tensor2d_t|double, 2)', 'nv_params_row({self}, {0})')]


def lambda_hook(P, n):
    """a closure object is an empty struct in C: its captures reach the stubs by name (see the call mappings)"""
    if n.get('kind') == 'LambdaExpr':
        P.note('closure object -> (struct nv_lambda){0}')
        return '(struct nv_lambda){0}'
    return None


TUNER_A = dict(types=TYPES_T, calls=CALLS_T_A, members=MEMBERS_T_A, hooks=[lambda_hook])


def tuner_targets():
    ev = lambda: Fn('tuner_evaluate', TU_U, 'evaluate', flt='nano::evaluate', **TUNER_A)
    op = lambda: Fn('tuner_evaluate_op', TU_U, 'evaluate', flt='nano::evaluate', lambda_index=0,
                    extra_params=['struct nv_steps* steps'], **TUNER_A)
    pred = lambda: Fn('tuner_evaluate_pred', TU_U, 'evaluate', flt='nano::evaluate', lambda_index=1,
                      extra_params=['struct nv_igrid* igrid'], **TUNER_A)
    less = Fn('tuner_step_less', TU_U, 'operator<', flt='nano::operator<',
              select=lambda d: all('tuner_step_t' in t for t in astload.param_types(d)), **TUNER_A)
    return [Target('evaluate', [ev(), op(), pred()], H_T, cbmc_flags=CADICAL),
            Target('evaluate_op', [op(), pred()], H_T, cbmc_flags=CADICAL),
            Target('evaluate_pred', [pred()], H_T, cbmc_flags=CADICAL),
            Target('step_less', [less], H_T, cbmc_flags=CADICAL)]


def init_list_hook(P, n):
    """igrids_t{x}: a vector built from a one-element initializer list"""
    if n.get('kind') in ('CXXTemporaryObjectExpr', 'CXXConstructExpr') and n.get('inner') and \
            n['inner'][0].get('kind') == 'CXXStdInitializerListExpr':
        try:
            c = P.ctype(n['type'])
        except Exception:
            return None
        if c != 'struct nv_igrids':
            return None
        lists = [x for x in astload.walk(n['inner'][0]) if x.get('kind') == 'InitListExpr']
        if len(lists) != 1 or len(lists[0].get('inner', [])) != 1:
            raise astload.ExtractionError('igrids_t{...}: only one-element initializer lists are modelled')
        P.note('igrids_t{x} -> nv_igrids_single(x)')
        return f'nv_igrids_single({P.expr(lists[0]["inner"][0])})'
    return None


def optimize_targets():
    import hooks
    types = TYPES_T + [(r'^nano::tuner_t$|^nano::local_search_tuner_t$', 'struct nv_tuner')]
    calls = [(r'^evaluate\|', 'tuner_evaluate!'), (r'^local_search\|', 'tuner_local_search'),
             (r'^make_(min|max|avg)_igrid\|', 'nv_make_igrid'), (r'^operator->\|.*__normal_iterator', 'nv_steps_iter_arrow({0})'),
             (r'^ctor\|(nano::tuner_steps_t|std::vector<nano::tuner_step_t>)\|void \(\)', 'nv_steps_empty()')]
    members = [(r'^empty\|.*param_space_t', 'nv_spaces_empty({self})'), (r'^empty\|.*tuner_step_t', '({self}->n == 0)'),
               (r'^size\|.*tuner_step_t', '((uint64_t)({self}->n))'), (r'^begin\|.*tuner_step_t', 'nv_steps_begin({self})'),
               (r'^do_optimize\|', 'tuner_do_optimize!')]
    common = dict(self_struct='struct nv_tuner', types=types, calls=calls, members=members,
                  hooks=[hooks.param_hook(), init_list_hook])
    opt = Fn('tuner_optimize', 'src/tuner.cpp', 'optimize', flt='tuner_t::optimize', **common)
    dop = Fn('tuner_do_optimize', 'src/tuner/local.cpp', 'do_optimize', flt='local_search_tuner_t::do_optimize', **common)
    # the surrogate tuner: same protocol, numerics opaque (nondeterministic)
    OPQ = r'unique_ptr<|^nano::r(loss|solver)_t$|factory_t<|quadratic_surrogate|^nano::solver_state_t$|^nano::vector_t$|tensor_vector_storage_t, double, 1>$|^nano::loss_t$|^nano::solver_t$'
    stypes = [(r'__normal_iterator<|::(const_)?iterator$', 'struct nv_steps_iter'), (OPQ, 'struct nv_c13_opaque'),
              (r'allocator<nano::param_space_t>.*value_type', 'struct nv_spaces')] + types
    scalls = calls + [(r'^all\|', 'nv_opaque_any()'), (r'^operator->\|.*unique_ptr', '(&{0})'), (r'^operator\*\|.*unique_ptr', '{0}'),
                      (r'^ctor\|nano::(tensor2d_t|tensor1d_t|quadratic_surrogate\w*|tensor_t<nano::tensor_vector_storage_t, double, [12]>)\|', '@nondet'),
                      (r'^ctor\|nano::(indices_t|tensor_t<nano::tensor_vector_storage_t, long, 1>)\|void \((const )?(long|nano::tensor_size_t)', 'nv_igrid_any()'),
                      (r'^operator=\|.*tensor_t<', '@drop'),
                      (r'^operator\(\)\|.*\|.*tensor_vector_storage_t, double, 1', '(*nv_scratch_double({1}))'),
                      (r'^operator\(\)\|.*\|.*tensor_vector_storage_t, long, 1', '(*nv_scratch_long())'),
                      (r'^operator\[\]\|.*std::vector<nano::param_space_t', '(nv_scratch_space)'),
                      (r'^operator!=\|.*__normal_iterator', '({0}.pos != {1}.pos)'), (r'^operator\+\+\|.*__normal_iterator', '(++{0}.pos)'),
                      (r'^operator\*\|.*__normal_iterator', '(*nv_steps_iter_arrow({0}))')]
    smembers = members + [(r'^get\|.*factory_t', 'nv_opaque_any()'), (r'^minimize\|', 'nv_opaque_any()'), (r'^valid\|.*solver_state_t', '@nondet'),
                          (r'^x\|.*solver_state_t', '(*{self})'), (r'^size\|.*(vector_t|tensor_vector_storage_t, double, 1|tensor_base_t<double, 1)', '({self}->n)'),
                          (r'^size\|.*param_space_t', '((uint64_t)({self}->n))'), (r'^end\|.*tuner_step_t', 'nv_steps_end({self})'),
                          (r'^closest_grid_point_from_surrogate\|', '@nondet')]
    sur = Fn('tuner_do_optimize_sur', 'src/tuner/surrogate.cpp', 'do_optimize', flt='surrogate_tuner_t::do_optimize',
             self_struct='struct nv_tuner', types=[(r'^nano::surrogate_tuner_t$', 'struct nv_tuner')] + stypes, calls=scalls, members=smembers,
             hooks=[hooks.param_hook(), init_list_hook, lambda_hook])
    return [Target('do_optimize_surrogate', [sur], 'specs/C13/opt_common.h', replace=['tuner_evaluate', 'tuner_local_search'], cbmc_flags=CADICAL),
            Target('optimize', [opt], 'specs/C13/optimize.h', replace=['tuner_evaluate', 'tuner_local_search', 'tuner_do_optimize'],
                   cbmc_flags=CADICAL),
            Target('do_optimize', [dop], 'specs/C13/opt_common.h', replace=['tuner_evaluate', 'tuner_local_search'], cbmc_flags=CADICAL)]


TYPES_L = [(r'^nano::igrids_t$|^std::vector<igrid_t>$|^std::vector<nano::tensor_t<nano::tensor_vector_storage_t, long, 1', 'struct nv_ivecs'),
           (r'combinatorial_iterator_t<', 'struct nv_comb'),
           (r'igrid_t$|indices_t$|tensor_mem_t<long, 1|tensor_vector_storage_t, long, 1|ArrayWrapper<|CwiseBinaryOp<', 'struct nv_ivec'),
           (r'allocator<nano::param_space_t>.*value_type|^nano::param_space_t$', 'struct nv_space'),
           (r'^nano::param_spaces_t$|std::vector<nano::param_space_t', 'struct nv_spaces'),
           (r'^nano::tensor2d_t$|tensor_vector_storage_t, double, 2', 'struct nv_grid')]
CALLS_L = [(r'^operator\[\]\|.*std::vector<nano::param_space_t', '(*nv_spaces_at({&0}, {1}))'),
           (r'^operator\[\]\|.*std::vector<nano::tensor_t', '(*nv_ivecs_at({&0}, {1}))'),
           (r'^operator\(\)\|.*\|.*tensor_vector_storage_t, long, 1', '(*nv_ivec_at({&0}, {1}))'),
           (r'^operator\(\)\|.*\|.*tensor_vector_storage_t, double, 1', 'nv_space_value({&0}, {1})'),
           (r'^operator\(\)\|.*\|.*tensor_vector_storage_t, double, 2', '(*nv_grid_at({&0}, {1}, {2}))'),
           (r'^ctor\|(nano::tensor2d_t|nano::tensor_t<nano::tensor_vector_storage_t, double, 2>)\|void \((const )?(long|nano::tensor_size_t)', 'nv_grid_new({0}, {1})'),
           (r'^ctor\|(nano::igrid_t|nano::indices_t|nano::tensor_t<nano::tensor_vector_storage_t, long, 1>)\|void \((const )?(long|nano::tensor_size_t)', 'nv_ivec_new({0})'),
           (r'^make_full_tensor\|', 'nv_ivec_full({0}, {1})'), (r'^make_dims\|', '({0})'),
           (r'^ctor\|(nano::igrids_t|std::vector<nano::tensor_t<.*long, 1>>)\|void \(\)', 'nv_ivecs_empty()'),
           (r'^ctor\|nano::combinatorial_iterator_t<', 'nv_comb_make({&0})'),
           (r'^operator\+\+\|.*combinatorial_iterator_t', 'nv_comb_next({&0})'), (r'^operator\*\|.*\|.*combinatorial_iterator_t', '({0}.cur)'),
           (r'^operator=\|.*ArrayWrapper', '({0} = {1})'),
           (r'^operator-\|.*\(const (int|long|Scalar) &\)', 'nv_ivec_sub_s({0}, {1})'), (r'^operator-\|', 'nv_ivec_sub({0}, {1})'),
           (r'^operator\*\|', 'nv_ivec_mul_s({0}, {1})'), (r'^operator\+\|', 'nv_ivec_add({0}, {1})'), (r'^move\|', '{0}')]
MEMBERS_L = [(r'^size\|.*std::vector', '((uint64_t)({self}->n))'), (r'^values\|.*param_space_t', '(*{self})'),
             (r'^size\|.*tensor', '({self}->n)'), (r'^array\|', '(*{self})'), (r'^operator bool\|.*combinatorial_iterator_t', '({self}->k < {self}->total)'),
             (r'^minCoeff\|', 'nv_ivec_min({*self})'), (r'^emplace_back\|.*std::vector<nano::tensor_t', 'nv_ivecs_push({self}, {0})')]
LS_A = dict(types=TYPES_L, calls=CALLS_L, members=MEMBERS_L)


def local_search_targets():
    ls = Fn('tuner_local_search', TU_U, 'local_search', flt='nano::local_search', **LS_A)
    mk_ = lambda nm: Fn(f'tuner_{nm}', TU_U, nm, flt=f'nano::{nm}', **LS_A)
    return [Target('local_search', [ls], 'specs/C13/local_search.h', cbmc_flags=CADICAL)] + \
        [Target(nm, [mk_(nm)], 'specs/C13/local_search.h', cbmc_flags=CADICAL)
         for nm in ('make_min_igrid', 'make_max_igrid', 'make_avg_igrid', 'map_to_grid')]


def space_targets():
    f = Fn('space_closest_grid_point', 'src/tuner/space.cpp', 'closest_grid_point_from_surrogate', flt='param_space_t::closest_grid_point_from_surrogate',
           self_struct='struct nv_pspace', types=[(r'tensor1d_t$|tensor_vector_storage_t, double, 1', 'struct nv_t1d')],
           calls=[(r'^max\|double \(\)', '(NV_DBL_MAX)'), (r'^fabs\|', 'nv_fabs({0})'),
                  (r'^operator\(\)\|.*\|.*tensor_vector_storage_t, double, 1', 'nv_grid_value(self, {1})')],
           members=[(r'^size\|.*tensor', '({self}->n)'), (r'^to_surrogate\|.*param_space_t', 'nv_to_surrogate({self}, {0})')])
    return [Target('closest_grid_point', [f], 'specs/C13/space.h', cbmc_flags=CADICAL)]


def result_ctor_targets():
    f = Fn('result_ctor', TU_R, 'result_t', flt=FLT_R, select=nparams(2), kinds=('CXXConstructorDecl',), self_struct='struct nv_resc',
           types=[(r'^nano::param_spaces_t$|std::vector<nano::param_space_t|^nano::strings_t$|anys_t$|std::vector<std::', 'struct nv_vecn'),
                  (r'^nano::tensor2d_t$|tensor_mem_t<double, 2|tensor_vector_storage_t, double, 2', 'struct nv_d2'),
                  (r'^nano::tensor5d_t$|tensor_mem_t<double, 5|tensor_vector_storage_t, double, 5', 'struct nv_d5'),
                  (r'^std::string$|^nano::string_t$|basic_string<', 'struct nv_str'), (r'^std::any$', 'struct nv_any')],
           calls=[(r'^move\|', '{0}'), (r'^ctor\|nano::(tensor2d_t|tensor_t<nano::tensor_vector_storage_t, double, 2>)\|void \(int, long\)', 'nv_d2_make({0}, {1})'),
                  (r'^make_full_tensor\|tensor_mem_t<double, 5', '{0}'), (r'^make_full_tensor\|tensor_mem_t<double, 2', '{0}'),
                  (r'^make_dims\|.*\(.*,.*,.*,.*,.*\)', 'nv_d5_make({0}, {1}, {2}, {3}, {4})'), (r'^make_dims\|.*\(.*,.*\)', 'nv_d2_make({0}, {1})'),
                  (r'^make_random_path\|', '@nondet')],
           members=[(r'^size\|.*std::vector', '({self}->n)')])
    return [Target('result_ctor', [f], 'specs/C13/result_ctor.h', cbmc_flags=CADICAL)]


def build(tier):
    vcs, fns = result_vcs()
    v2, f2 = tune_vcs()
    vcs += v2 + lemmas()
    fns += f2
    v3, f3 = comb.multiply_vcs()
    vcs += v3 + comb.comb_lemmas()
    fns += f3
    return {
        'targets': result_targets() + tuner_targets() + optimize_targets() + local_search_targets() + space_targets() + result_ctor_targets() + comb.comb_targets(tier), 'vcs': vcs, 'functions': fns,
        'decided': [
            'evaluate(): for an arbitrary grid point G -- the callback is asked to evaluate G exactly when G is a candidate that is not yet among the steps (never twice, only candidates); '
            'a non-finite value is rejected with an exception, and only then, and is never stored; on return steps = old steps + one step per evaluated point holding the callback value, '
            'duplicate-free, all values finite, sorted by value (std::sort on the whole range, last); returns true iff something new was evaluated',
            'tuner_t::optimize() + local_search_tuner_t::do_optimize() + surrogate_tuner_t::do_optimize() (numerics opaque): no grid point is evaluated twice over the whole optimisation; returned steps == evaluations; '
            'at most max_evals - 1 + 3^d points are evaluated; no parameter space => exception; both refinement loops terminate; radius *= 2 cannot overflow',
            'local_search(): every candidate lies in [min, max] coefficient-wise, is src + radius * {-1,0,1}, equals src beyond the grid extent; at most 3^d candidates',
            'make_min/max/avg_igrid(): coefficient c is position 0 / size_c - 1 / size_c / 2 of space c; map_to_grid(): cell (candidate, space) is the igrid(space)-th value of that space, index in range',
            'ml::result_t: store/stats address cell(trial, fold, split, value), store/extra/log_path address slot(trial, fold) = trial * folds + fold, in range, no overflow; '
            'add() creates folds * (old + new) slots, preserves old rows, new statistics NaN; value() = mean over folds of the stored mean; '
            'optimum_trial()/closest_trial() return the least index attaining the minimum (NaN never wins), optimum compares value(trial, valid, errors)',
            'ml::tune lambdas: (trial, fold) = (index div folds, index mod folds) is in range and inverts slot; the model callback is called once per task with splits[fold], '
            'new_params.tensor(trial), and its results are stored under (old_trials + trial, fold); add() precedes map(folds * new_trials); the tuner gets the values of exactly the new trials',
            'ml::tune body: folds == splits.size(), result_t{spaces, folds}, evaluations only through the tuner lambda (tuner.optimize or one direct call with a 1x0 tensor); '
            'result_t constructor establishes the class invariant (dims (0, folds, 2, 2, 12), empty per-(trial, fold) vectors)',
            'param_space_t::closest_grid_point_from_surrogate returns a valid grid position for every double (surrogate tuner proposes grid points only)',
            'slot lemmas: injective, onto [0, folds * trials), decoding inverts encoding; local_search offsets lemma; budget lemma',
            'combinatorial_iterator_t<tensor_size_t> on the real header (drivers/inst_comb.cpp; comb.h / comb.py), at arbitrary ghost digits: the constructor establishes the representation invariant '
            '(D = m_dimensions = both sizes, N = m_combinations = the named product, index 0, m_dimension 0, every digit 0); operator++ from a valid state that is not the last combination produces the digits of the '
            'mixed-radix SUCCESSOR (digits left of j = new m_dimension unchanged, digit j + 1 < its count, digits right of j were at their maximum and are 0), m_combination + 1, m_dimension in [0, D), invariant re-established; '
            'operator++ from ANY valid state (also the last combination, where the code wraps around) terminates with m_combination + 1 when some count is >= 2; both loops have decreases clauses, every m_current(d) / m_counts(d) index is in range, no overflow; '
            'operator bool == (index < size), operator* == m_current, index() / size() == m_combination / m_combinations',
            'comb_rank lemmas (SMT over Int, one step per digit position, composed by induction over the positions): digits in the box => 0 <= rank < N; successor digits => rank + 1 (so m_combination == rank is preserved: '
            'lexicographic enumeration, every combination exactly once, size() of them); all digits maximal => rank == N - 1 (the state after the last ++ is invalid); rank injective on the box; prefix products and weights <= N <= 2^62; '
            'the lambda of product() multiplies without overflow under that bound and product() folds it over the whole range from 1',
            'local_search() now runs against the RESTATEMENT of the proved iterator contracts at its ghost coefficient (constructor: digits 0; ++: index + 1, digit in [0, count) while valid) and discharges their preconditions (>= 1 dimension, counts >= 1, some count >= 2)',
        ],
        'not_decided': [
            'surrogate tuner numerics (quadratic fit, L-BFGS on the surrogate: opaque); that the surrogate minimiser has one coordinate per parameter space (min_state_opt_x.size() == spaces.size())',
            'thread interleavings of the (trial, fold) tasks (C17); distinct tasks write distinct slots/cells by the slot lemma + C16 index injectivity',
            'the value of the optimum when a mean validation error is +inf and another is exactly DBL_MAX (optimum_trial starts from DBL_MAX: such trials never win)',
            'Eigen coefficient-wise operators and minCoeff, std::sort / remove_if / find_if / erase (assumed contracts)',
            'combinatorial_iterator_t: operator++ does NOT terminate when every count is 1 (N == 1, admitted by the constructor asserts): specs/C13/FINDING_comb_all_ones.md; outside the property (the tuners only pass counts of 3, asserted at the call site), so it is the stated precondition "some count >= 2" and not a finding; '
            'the induction over the digit positions that composes the comb_rank step lemmas, and the step from "proved at an arbitrary ghost digit" to "for every digit", are meta-level (DESIGN 4.3); '
            'counts with negative entries whose product is positive pass the constructor asserts but are outside the contract (every count >= 1)',
        ],
        'assumptions': [
            'std::remove_if returns the end of the kept elements (those not satisfying the predicate, order preserved) and leaves the tail valid but unspecified; std::find_if returns last iff no element satisfies the predicate; '
            'vector::erase(first, last) removes that range; std::sort sorts a range under a strict weak ordering (no NaN) and permutes it -- each stated for the ghost grid point, with the REAL predicates (extracted lambdas)',
            'operator== on index vectors is equality of contents (grid-point identity)',
            'user tuner callback returns one value per parameter row (values.size() == params.size<0>())',
            'candidate lists passed to evaluate() are duplicate-free: {avg_igrid}, or local_search output (offsets enumerated once each: comb_rank injectivity + successor lemmas, + offsets lemma, radius >= 1)',
            'Eigen array +,-,* act coefficient-wise; minCoeff() <= every coefficient',
            'combinatorial_iterator_t: tensor copy construction copies length and cells, tensor(size) has `size` cells, zero() zeroes every cell (C16 storage); std::accumulate is the left fold over [begin, end) (STL); '
            'preconditions of the iterator contracts: 1 <= dimensions <= 10^6, every count >= 1, product of the counts <= 2^62, and for operator++ to terminate at the last combination some count >= 2; '
            'an index vector is modelled by its length and its cells at the ghost digits (rely / guarantee: cells CBMC does not follow satisfy the box clause that is proved at the arbitrary ghost digit)',
            'local_search contract used by optimize()/do_optimize() at grid-point level is the coefficient-level contract proved for every coefficient (ghost-index lifting)',
            'tuner::max_evals in its registered domain [10, 1000]; grid sizes and 3^d at most 10^6; every parameter space has >= 1 value',
            'ml::result_t class invariant (constructor: target result_ctor; add: preserved) is assumed by the other member contracts: m_values dims (T, F, 2, 2, 12), m_params (T, P), m_extras/m_log_paths hold F*T elements; C16 tensor bound 48*T*F <= 2^62, T <= 2^62',
            'the lambdas of ml::tune use folds == splits.size() == result.folds() (target ml::tune) and the postcondition of add() as facts; parallel::pool_t::map(n, op) calls op with every index in [0, n) exactly once (C17); the model callback returns tensors with 2 rows (errors, losses)',
            'the tuner lambda is called with >= 1 rows (evaluate: asserted at the callback) and one column per space (map_to_grid postcondition)',
            'at least one fold (value() divides by folds()); double treated as Real in result_t::value only',
            'store()/stats()/extra()/closest_trial() preconditions are the asserts of the functions (compiled out under NDEBUG); discharged at the call sites in ml::tune',
        ],
        'trusted': ['Eigen lpNorm<2>() of a difference is a function of its operands', 'std::any move assignment', 'std::vector::emplace_back grows the size by one'],
    }


def replay(rp):
    """counterexamples of C13 are protocol-level (a ghost grid point / a symbolic (trial, fold)): the replay runs the
    property's own postconditions on the real library -- the real tuner_t::optimize under a recording callback over
    grids/landscapes/budgets, and the real ml::result_t through its public API -- and reports a violation it observes"""
    import replaylib
    out = {'reproduced': False, 'runs': []}
    tgt = rp.get('target', '')
    if tgt.startswith('comb'):      # the iterator is header-only: exhaustive small boxes on the real header, no library build
        exe = replaylib.build_header_only('replay/C13_comb_replay.cpp', 'C13_comb_replay')
        rc, so, se = replaylib.run_driver(exe, [], timeout=120)
        out['runs'].append({'which': 'comb', 'exit': rc, 'output': so.strip()[-3000:]})
        out['reproduced'] = rc == 1 or rc < 0
        return out
    if os.environ.get('NV_NO_NATIVE_REPLAY'):      # mutation loops: the native replay rebuilds the library from the working tree
        out['skipped'] = 'NV_NO_NATIVE_REPLAY'
        return out
    which = 'result' if any(k in tgt for k in ('result', 'tune::', '_trial', 'ml::', 'values')) else 'tuner'
    exe = replaylib.build_with_library('replay/C13_replay.cpp', 'C13_replay')
    rc, so, se = replaylib.run_driver(exe, [which], timeout=600)
    out['runs'].append({'which': which, 'exit': rc, 'output': so.strip()[-3000:]})
    # exit 1: a postcondition of the property is violated on the real code; a negative code is a crash of the real code
    # (e.g. an out-of-range slot) while the driver exercises it -- both are reproductions
    out['reproduced'] = rc == 1 or rc < 0
    return out
