/* C13 (back end A): the tuner's list / protocol logic -- nano::evaluate and its two lambdas, tuner_step_t operator<.
 *
 * Property: "both tuners only ever evaluate points of the given grids, never evaluate the same point twice, ...,
 * reject non-finite values with an exception, and return all evaluations sorted by value with the first being the
 * minimum observed".
 *
 * Ghost-element abstraction (DESIGN 4.3 with an element instead of a position): nv_G is an arbitrary grid point, fixed
 * before the call; a grid point (igrid_t, a vector of grid indices) is represented by its identity -- equality of index
 * vectors is equality of identities.  Containers keep their size and what concerns G:
 *   igrids_t       -> size + position of G (-1: absent; candidate lists are duplicate-free, see the precondition)
 *   tuner_steps_t  -> size + number of steps evaluated at G + the value/parameter row stored for G + "all values finite"
 *                     + "sorted by value"
 * Universal statements ("no grid point is evaluated twice") are the statements about G. */
#include "nv_tensor.h"
int64_t nv_G;
/* finite = neither NaN nor infinite (CBMC's classification predicates: no floating-point arithmetic is bit-blasted) */
#define NV_ISFIN(x) (!__CPROVER_isnand(x) && !__CPROVER_isinfd(x))
struct nv_igrid { int64_t id; };
struct nv_igrids
{
  int64_t n;           /* size() */
  int64_t posG;        /* position of G among the specified elements, -1: absent */
  int64_t spec;        /* elements [0, spec) are specified; [spec, n) are valid but unspecified (tail left by remove_if) */
  _Bool   all_src;     /* ghost: every element is the grid point src_id (local_search with a radius beyond the grid extent) */
  int64_t src_id;      /* ghost: the grid point local_search searched around */
  struct nv_igrid cur; /* scratch: the element handed out by operator[] */
};
struct nv_prow { int64_t row; };                                    /* params.tensor(i) / the copy stored in a step */
struct nv_step { struct nv_igrid m_igrid; struct nv_prow m_param; double m_value; };
struct nv_steps
{
  int64_t n;             /* size() */
  int64_t cntG;          /* number of steps evaluated at G */
  double  valG;          /* m_value of the step at G */
  int64_t rowG;          /* which row of the callback's parameter matrix its m_param was copied from */
  _Bool   finite;        /* every stored m_value is finite */
  _Bool   sorted;        /* sorted by m_value */
  struct nv_step front;  /* scratch: the element handed out by begin()-> */
  _Bool   has_front;     /* front was handed out: its grid point is (and stays: steps only grow) one of the stored steps */
};
struct nv_params { int64_t rows; int64_t posG; int64_t spec; };     /* map_to_grid(spaces, igrids): row k <-> igrids[k] */
struct nv_values { int64_t n; int64_t posG; double vG; int64_t bad; };/* callback(params): value at G's row, first non-finite position */
struct nv_spaces { int64_t n; };
struct nv_callback { int32_t dummy; };
struct nv_logger { int32_t dummy; };
struct nv_lambda { int32_t dummy; };                                /* closure objects: their captures are passed to the stubs by name */

/* ghost observations of the user callback */
int64_t nv_cb_calls;   /* number of callback invocations */
int64_t nv_cb_points;  /* number of grid points it was asked to evaluate, in total */
int64_t nv_cb_evalG;   /* number of times the callback was asked to evaluate G */
double  nv_cb_vG;      /* the value it returned for G */
int64_t nv_cb_bad;     /* position of the first non-finite value it returned (-1: all finite) */

int64_t nv_hint_id; _Bool nv_hint_on;   /* ghost: while on, "a step at grid point nv_hint_id is stored" (set by remove_if's model) */
_Bool tuner_evaluate_pred(struct nv_step* step, struct nv_igrid* igrid);
_Bool tuner_evaluate_op(struct nv_igrid* igrid, struct nv_steps* steps);

/* operator==(indices_t, indices_t): equal index vectors <=> equal identities */
static _Bool nv_igrid_eq(const struct nv_igrid* a, const struct nv_igrid* b) { return a->id == b->id; }

/* assumed contract of std::find_if(first, last, pred) over *steps: returns last iff no element satisfies pred.  The
 * predicate is the real one (extracted lambda `_`), applied to the step at G and, for a hit elsewhere, to a witness */
static int64_t nv_find_if_steps(struct nv_steps* steps, struct nv_igrid* igrid)
{
  struct nv_step sG; sG.m_igrid.id = nv_G; sG.m_param.row = steps->rowG; sG.m_value = steps->valG;
  _Bool hitG = steps->cntG > 0 && tuner_evaluate_pred(&sG, igrid);
  struct nv_step sH; sH.m_igrid.id = nv_hint_id; sH.m_param.row = nv_nondet_int64_t(); sH.m_value = nv_nondet_double();
  _Bool hitH = nv_hint_on && tuner_evaluate_pred(&sH, igrid);     /* another step known to be stored */
  _Bool found = nv_nondet__Bool();
  if (hitG || hitH) found = 1;
  else if (found)
  {
    struct nv_step o; o.m_igrid.id = nv_nondet_int64_t(); o.m_param.row = nv_nondet_int64_t(); o.m_value = nv_nondet_double();
    __CPROVER_assume(steps->n - steps->cntG > 0 && o.m_igrid.id != nv_G);
    __CPROVER_assume(tuner_evaluate_pred(&o, igrid));
  }
  int64_t pos = nv_nondet_int64_t();
  __CPROVER_assume(found ? (0 <= pos && pos < steps->n) : pos == steps->n);
  return pos;
}

/* assumed contract of std::remove_if(first, last, pred) over igrids: returns the new logical end m; [first, m) are the
 * elements not satisfying pred, in their original order.  The predicate is the real one (extracted lambda `op`) */
static int64_t nv_remove_if_igrids(struct nv_igrids* v, struct nv_steps* steps)
{
  int64_t m = nv_nondet_int64_t();
  __CPROVER_assume(0 <= m && m <= v->n);
  _Bool removedG = 0;
  if (v->posG >= 0)
  {
    struct nv_igrid g; g.id = nv_G;
    removedG = tuner_evaluate_op(&g, steps);
    if (removedG) { __CPROVER_assume(m < v->n); v->posG = -1; }
    else { int64_t p = nv_nondet_int64_t(); __CPROVER_assume(0 <= p && p <= v->posG && p < m); v->posG = p; }
  }
  if (m < v->n && !removedG)      /* something else was removed: some element other than G satisfies the predicate */
  {
    struct nv_igrid w; w.id = nv_nondet_int64_t();
    __CPROVER_assume(w.id != nv_G);
    __CPROVER_assume(tuner_evaluate_op(&w, steps));
  }
  if (v->n > 0 && v->all_src && steps->has_front && v->src_id == steps->front.m_igrid.id)
  {
    /* every element is the grid point src_id, which is stored in steps (it was handed out by begin()->): if the real
       predicate holds for it, every element is removed */
    struct nv_igrid w; w.id = v->src_id;
    nv_hint_id = w.id; nv_hint_on = 1;
    _Bool r = tuner_evaluate_op(&w, steps);
    nv_hint_on = 0;
    if (r) __CPROVER_assume(m == 0);
  }
  v->spec = m;       /* the tail [m, n) is left valid but unspecified */
  return m;
}
/* std::vector::erase(first, last) */
static int64_t nv_igrids_erase(struct nv_igrids* v, int64_t first, int64_t last)
{
  __CPROVER_assert(0 <= first && first <= last && last <= v->n, "vector::erase(first, last): valid range");
  if (first <= v->posG && v->posG < last) v->posG = -1;
  else if (v->posG >= last) v->posG = v->posG - (last - first);
  if (last <= v->spec) v->spec = v->spec - (last - first);
  else if (first < v->spec) v->spec = first;
  v->n = v->n - (last - first);
  return first;
}
static struct nv_igrid* nv_igrids_at(struct nv_igrids* v, uint64_t i)
{
  __CPROVER_assert(i < (uint64_t)v->n, "igrids[i]: index inside the vector");
  int64_t other = nv_nondet_int64_t();
  __CPROVER_assume((int64_t)i >= v->spec || other != nv_G);      /* an unspecified element may be any grid point */
  v->cur.id = ((int64_t)i == v->posG) ? nv_G : other;
  return &v->cur;
}
/* map_to_grid(spaces, igrids) seen from evaluate: one row per grid point, in order (its own contract: tuner_map_to_grid) */
static struct nv_params nv_map_to_grid(const struct nv_spaces* s, const struct nv_igrids* v)
{ struct nv_params p; p.rows = v->n; p.posG = v->posG; p.spec = v->spec; return p; }
static struct nv_prow nv_params_row(const struct nv_params* p, int64_t i)
{
  __CPROVER_assert(0 <= i && i < p->rows, "params.tensor(i): row inside the matrix (C16 index0 precondition)");
  struct nv_prow r; r.row = i; return r;
}
/* the user callback: returns one value per row (its contract, assumed); values are arbitrary doubles */
static struct nv_values nv_callback(const struct nv_params* p)
{
  __CPROVER_assert(p->rows >= 1, "the callback is never asked to evaluate an empty batch (precondition of result_t::add in ml::tune)");
  struct nv_values r; r.n = p->rows; r.posG = p->posG; r.vG = nv_nondet_double(); r.bad = nv_nondet_int64_t();
  __CPROVER_assume(-1 <= r.bad && r.bad < r.n);
  if (r.posG >= 0) __CPROVER_assume((r.bad >= 0 && r.bad <= r.posG) ? (r.bad < r.posG || !NV_ISFIN(r.vG)) : NV_ISFIN(r.vG));
  nv_cb_calls = nv_cb_calls + 1;
  nv_cb_points = nv_cb_points + p->rows;
  if (p->posG >= 0) { nv_cb_evalG = nv_cb_evalG + 1; nv_cb_vG = r.vG; }
  if (p->spec < p->rows && nv_nondet__Bool()) nv_cb_evalG = nv_cb_evalG + 1;   /* an unspecified row may be G again */
  nv_cb_bad = r.bad;
  return r;
}
static double nv_values_at(const struct nv_values* v, int64_t i)
{
  __CPROVER_assert(0 <= i && i < v->n, "values(i): index inside the tensor");
  if (i == v->posG) return v->vG;
  double d = nv_nondet_double();
  __CPROVER_assume((v->bad < 0 || i < v->bad) ? NV_ISFIN(d) : (i > v->bad || !NV_ISFIN(d)));
  return d;
}
static _Bool nv_isfinite(double x) { return NV_ISFIN(x); }
/* std::vector::emplace_back(step) */
static void nv_steps_push(struct nv_steps* s, struct nv_step e)
{
  __CPROVER_assume(s->n < NV_MAXN * 4);      /* memory: the vector can grow */
  s->n = s->n + 1;
  if (e.m_igrid.id == nv_G) { s->cntG = s->cntG + 1; s->valG = e.m_value; s->rowG = e.m_param.row; }
  s->finite = s->finite && NV_ISFIN(e.m_value);
  s->sorted = 0;
}
/* assumed contract of std::sort(first, last) with tuner_step_t's operator< (by value, see tuner_step_less): requires a
 * strict weak ordering on the range (no NaN); the range becomes a sorted permutation of itself */
static void nv_steps_sort(struct nv_steps* s, int64_t first, int64_t last)
{
  __CPROVER_assert(0 <= first && first <= last && last <= s->n, "std::sort(first, last): valid range");
  __CPROVER_assert(s->finite, "std::sort precondition: operator< is a strict weak ordering on the range (no NaN value)");
  if (first == 0 && last == s->n) s->sorted = 1;
}

#define NV_STEPS_WF(s) (0 <= (s)->n && (s)->n <= 4 * NV_MAXN && 0 <= (s)->cntG && (s)->cntG <= 1 && (s)->cntG <= (s)->n \
  && (s)->finite && (s)->sorted && ((s)->cntG == 0 || NV_ISFIN((s)->valG)))
#define NV_OLD(x) __CPROVER_old(x)
#define NV_G_IS_NEW (NV_OLD(igrids.posG) >= 0 && NV_OLD(steps->cntG) == 0)
#define NV_EVALG (nv_cb_evalG - NV_OLD(nv_cb_evalG))    /* how often this call had G evaluated */
#define NV_CALLS (nv_cb_calls - NV_OLD(nv_cb_calls))    /* callback invocations of this call */

/* evaluate(spaces, callback, igrids, logger, steps).
 * requires: the candidates are duplicate-free (G occurs at most once: callers pass {avg_igrid} or local_search's output,
 *   whose points src + radius * delta are distinct for distinct delta as radius >= 1 -- lemma in spec.py);
 *   steps is well-formed: no grid point evaluated twice so far, every stored value finite, sorted by value. */
#define NV_CONTRACT_tuner_evaluate \
__CPROVER_requires(__CPROVER_is_fresh(spaces, sizeof(*spaces)) && __CPROVER_is_fresh(callback, sizeof(*callback)) \
  && __CPROVER_is_fresh(nv_unnamed3, sizeof(*nv_unnamed3)) && __CPROVER_is_fresh(steps, sizeof(*steps))) \
__CPROVER_requires(0 <= igrids.n && igrids.n <= NV_MAXN && -1 <= igrids.posG && igrids.posG < igrids.n && igrids.spec == igrids.n && NV_STEPS_WF(steps)) \
/* consistency of the ghost annotations with G */ \
__CPROVER_requires((!igrids.all_src || igrids.n == 0 || (igrids.src_id == nv_G) == (igrids.posG >= 0)) \
  && (!steps->has_front || steps->front.m_igrid.id != nv_G || steps->cntG > 0) && !nv_hint_on) \
/* ghost counters: in range (the callers' invariants bound them by the number of steps) */ \
__CPROVER_requires(0 <= nv_cb_calls && nv_cb_calls <= 8 * NV_MAXN && 0 <= nv_cb_evalG && nv_cb_evalG <= 8 * NV_MAXN && 0 <= nv_cb_points && nv_cb_points <= 8 * NV_MAXN && !nv_thrown) \
__CPROVER_assigns(*steps, nv_cb_calls, nv_cb_points, nv_cb_evalG, nv_cb_vG, nv_cb_bad, nv_thrown, nv_hint_id, nv_hint_on) \
/* ranges first (so that the clauses below are free of overflow when the contract is used at a call site) */ \
__CPROVER_ensures(NV_OLD(nv_cb_evalG) <= nv_cb_evalG && nv_cb_evalG <= NV_OLD(nv_cb_evalG) + 1 && NV_OLD(nv_cb_calls) <= nv_cb_calls && nv_cb_calls <= NV_OLD(nv_cb_calls) + 1 \
  && NV_OLD(nv_cb_points) <= nv_cb_points && nv_cb_points <= NV_OLD(nv_cb_points) + NV_OLD(igrids.n) && 0 <= steps->n && steps->n <= NV_OLD(steps->n) + NV_OLD(igrids.n) \
  && (nv_cb_calls == NV_OLD(nv_cb_calls) || (-1 <= nv_cb_bad && nv_cb_bad < NV_OLD(igrids.n))) && 0 <= steps->cntG && steps->cntG <= NV_OLD(steps->cntG) + 1) \
/* the callback is asked to evaluate G exactly when G is a candidate that was never evaluated: never twice, only candidates */ \
__CPROVER_ensures(NV_EVALG == (NV_G_IS_NEW ? 1 : 0)) \
/* a non-finite value is rejected with an exception, and only then; it is never stored */ \
__CPROVER_ensures(nv_thrown == (NV_CALLS == 1 && nv_cb_bad >= 0)) \
__CPROVER_ensures(steps->finite && (steps->cntG == 0 || NV_ISFIN(steps->valG))) \
__CPROVER_ensures(!nv_thrown || steps->n == NV_OLD(steps->n) + nv_cb_bad) \
/* on return: old steps plus one step per evaluated point, holding the callback's value; still duplicate-free; sorted */ \
__CPROVER_ensures(nv_thrown || (steps->sorted && steps->cntG == NV_OLD(steps->cntG) + NV_EVALG && steps->cntG <= 1)) \
__CPROVER_ensures(nv_thrown || (NV_EVALG == 1 ? NV_SAME(steps->valG, nv_cb_vG) : NV_SAME(steps->valG, NV_OLD(steps->valG)))) \
__CPROVER_ensures(nv_thrown || steps->n >= NV_OLD(steps->n)) \
/* every candidate is the (stored) grid point the search started from: nothing new */ \
__CPROVER_ensures((NV_OLD(igrids.all_src) && NV_OLD(steps->has_front) && NV_OLD(igrids.src_id) == NV_OLD(steps->front.m_igrid.id)) ==> (!nv_thrown && !__CPROVER_return_value)) \
__CPROVER_ensures(!nv_hint_on && steps->has_front == NV_OLD(steps->has_front) && steps->front.m_igrid.id == NV_OLD(steps->front.m_igrid.id)) \
/* nothing was evaluated before: every candidate is evaluated */ \
__CPROVER_ensures(nv_thrown || NV_OLD(steps->n) > 0 || steps->n == NV_OLD(igrids.n)) \
/* every point the callback was asked to evaluate became a step */ \
__CPROVER_ensures(nv_thrown || nv_cb_points - NV_OLD(nv_cb_points) == steps->n - NV_OLD(steps->n)) \
/* returns true iff something new was evaluated; false only if every candidate had been evaluated before */ \
__CPROVER_ensures(nv_thrown || (__CPROVER_return_value == (steps->n > NV_OLD(steps->n)) && __CPROVER_return_value == (NV_CALLS == 1))) \
__CPROVER_ensures((!nv_thrown && !__CPROVER_return_value) ==> (NV_OLD(igrids.posG) < 0 || NV_OLD(steps->cntG) > 0))

#define NV_LOOP_tuner_evaluate_1 \
__CPROVER_assigns(itrial, steps->n, steps->cntG, steps->valG, steps->rowG, steps->finite, steps->sorted, igrids.cur, nv_thrown) \
__CPROVER_loop_invariant(0 <= itrial && itrial <= values.n && values.n == igrids.n && igrids.posG == values.posG && !nv_thrown \
  && steps->n == (int64_t)before + itrial && (values.bad < 0 || itrial <= values.bad) && steps->finite \
  && steps->cntG == __CPROVER_loop_entry(steps->cntG) + ((values.posG >= 0 && values.posG < itrial) ? 1 : 0) \
  && ((values.posG >= 0 && values.posG < itrial) ? (NV_SAME(steps->valG, values.vG) && steps->rowG == values.posG) : NV_SAME(steps->valG, __CPROVER_loop_entry(steps->valG)))) \
__CPROVER_decreases(values.n - itrial)

/* the two lambdas of evaluate: `_`(step) = "the step was evaluated at igrid", op(igrid) = "igrid was evaluated already" */
#define NV_CONTRACT_tuner_evaluate_pred \
__CPROVER_requires(__CPROVER_is_fresh(step, sizeof(*step)) && __CPROVER_is_fresh(igrid, sizeof(*igrid))) \
__CPROVER_assigns() \
__CPROVER_ensures(__CPROVER_return_value == (step->m_igrid.id == igrid->id))
#define NV_CONTRACT_tuner_evaluate_op \
__CPROVER_requires(__CPROVER_is_fresh(steps, sizeof(*steps)) && __CPROVER_is_fresh(igrid, sizeof(*igrid)) && NV_STEPS_WF(steps) && !nv_hint_on) \
__CPROVER_assigns() \
__CPROVER_ensures(igrid->id == nv_G ==> __CPROVER_return_value == (steps->cntG > 0))

/* operator<(tuner_step_t, tuner_step_t): steps are ordered by their value (the lower the better) */
#define NV_CONTRACT_tuner_step_less \
__CPROVER_requires(__CPROVER_is_fresh(lhs, sizeof(*lhs)) && __CPROVER_is_fresh(rhs, sizeof(*rhs))) \
__CPROVER_assigns() \
__CPROVER_ensures(__CPROVER_return_value == (lhs->m_value < rhs->m_value))
