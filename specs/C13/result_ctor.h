/* C13 (back end A): ml::result_t::result_t(param_spaces, folds) establishes the class invariant the SMT contracts of
 * add / store / stats / extra assume: m_values has dimensions (0, folds, 2, 2, 12), m_params (0, #spaces), the
 * per-(trial, fold) vectors are empty (= folds * 0 elements). */
#include "nv_base.h"
struct nv_vecn { uint64_t n; };
struct nv_d2 { int64_t d[2]; };
struct nv_d5 { int64_t d[5]; };
struct nv_str { int32_t dummy; };
struct nv_any { int32_t dummy; };
struct nv_resc
{
  struct nv_vecn m_spaces; struct nv_d2 m_params; struct nv_d5 m_values; struct nv_d2 m_optims;
  struct nv_vecn m_log_paths; struct nv_str m_refit_log_path; struct nv_vecn m_extras; struct nv_any m_extra;
};
static struct nv_d2 nv_d2_make(int64_t a, int64_t b) { struct nv_d2 t; t.d[0] = a; t.d[1] = b; return t; }
static struct nv_d5 nv_d5_make(int64_t a, int64_t b, int64_t c, int64_t d, int64_t e)
{ struct nv_d5 t; t.d[0] = a; t.d[1] = b; t.d[2] = c; t.d[3] = d; t.d[4] = e; return t; }
#define NV_CONTRACT_result_ctor \
__CPROVER_requires(__CPROVER_is_fresh(self, sizeof(*self)) && param_spaces.n <= 64) \
__CPROVER_assigns(*self) \
__CPROVER_ensures(self->m_values.d[0] == 0 && self->m_values.d[1] == folds && self->m_values.d[2] == 2 && self->m_values.d[3] == 2 && self->m_values.d[4] == 12) \
__CPROVER_ensures(self->m_params.d[0] == 0 && self->m_params.d[1] == (int64_t)param_spaces.n && self->m_spaces.n == param_spaces.n) \
__CPROVER_ensures(self->m_extras.n == 0 && self->m_log_paths.n == 0 && self->m_optims.d[0] == 2 && self->m_optims.d[1] == 12)
