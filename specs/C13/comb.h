/* C13 (back end A): nano::combinatorial_iterator_t<tensor_size_t> on the REAL header (include/nano/core/combinatorial.h),
 * instantiated through drivers/inst_comb.cpp.
 *
 * Representation invariant INV (the rank clause lives on back end B, see comb_lemmas() in comb.py):
 *   D = m_dimensions = m_counts.size() = m_current.size() >= 1, 1 <= N = m_combinations (== product of the counts, constructor),
 *   0 <= m_combination <= N, and WHILE THE ITERATOR IS VALID (m_combination < N):
 *   0 <= m_dimension < D, for every digit d: 0 <= m_current(d) < m_counts(d), m_current(d) == 0 for d > m_dimension,
 *   and m_combination == rank(m_current) = sum_d m_current(d) * prod_{e > d} m_counts(e).
 * Universal statements over the digits use GHOST INDICES (nondeterministic globals fixed before the call, DESIGN 4.3; nv_a / nv_b below):
 *   nv_g  an arbitrary digit: what is proved at nv_g holds at every digit;
 *   nv_m  a witness digit that is NOT at its maximum (exists iff the current combination is not the last one);
 *   nv_w  a witness digit with m_counts(nv_w) >= 2 (exists iff N >= 2).
 * The successor of a mixed-radix numeral is a statement about digits (no multiplication): with j = the digit that is
 * incremented (reported by the code as the new m_dimension), digits left of j keep their value, digit j grows by one and stays
 * below its count, digits right of j were at their maximum and are reset to 0.  rank + 1 follows from that on back end B.
 *
 * An index vector (tensor_mem_t<tensor_size_t, 1>) is abstracted to its length and its cells at the ghost digits (the "ghost-element"
 * array model of engine/README.md): `va` is the cell at digit nv_a, `vb` the cell at digit nv_b, `other` a scratch cell that stands for
 * every other digit.  m_current(d) / m_counts(d) of the extracted code go through nv_cur_at / nv_cnt_at: the index is an obligation
 * (tensor operator(): 0 <= d < size()).  (Real arrays of symbolic length with the whole block in the loop assigns clauses were tried
 * first: > 300 s per contract.)
 * RELY / GUARANTEE over the ghost digits: CBMC follows the cells at nv_a, nv_b only (every loop invariant and contract GUARANTEES the box
 * clause 0 <= m_current(d) < m_counts(d) there, the ghost digits being arbitrary); an access of any OTHER cell sees a nondeterministic
 * pair (count, digit) that relies on the same clause -- the quantified invariant instantiated at d.  The followed cells are never
 * constrained here, so a write that breaks the clause is seen on the run where the ghost digit is that cell. */
#include "nv_base.h"
struct nv_dig { int64_t n; int64_t va, vb, other; };
struct nv_comb_it { struct nv_dig m_counts; struct nv_dig m_current; int64_t m_dimension, m_dimensions, m_combination, m_combinations; };
#define NV_MAXD 1000000                          /* bound on the number of dimensions (memory) */
#define NV_COMB_BOUND 4611686018427387904LL      /* 2^62: C16's tensor bound on a number of elements, here on the number of combinations */
int64_t nv_a, nv_b;                              /* the ghost digits followed by the model */
#define nv_g nv_a                                /* contract 1: nv_g, nv_m */
#define nv_m nv_b
#define nv_w nv_a                                /* contract 2: nv_w (nv_b == nv_a) */
int64_t nv_old_g, nv_old_m, nv_old_k;            /* ghost: the values at entry (named in `requires`, used by the loop invariants) */
#define nv_old_w nv_old_g
#define NV_CELL(t, d) (*((d) == nv_a ? &(t).va : ((d) == nv_b ? &(t).vb : &(t).other)))
static int64_t* nv_cur_at(struct nv_comb_it* self, int64_t d)
{
  __CPROVER_assert(0 <= d && d < self->m_current.n, "m_current(d): index inside the vector");
  if (d != nv_a && d != nv_b)
  {
    self->m_counts.other = nv_nondet_int64_t(); self->m_current.other = nv_nondet_int64_t();
    __CPROVER_assume(0 <= self->m_current.other && self->m_current.other < self->m_counts.other);
  }
  return &NV_CELL(self->m_current, d);
}
static int64_t* nv_cnt_at(struct nv_comb_it* self, int64_t d)
{
  __CPROVER_assert(0 <= d && d < self->m_counts.n, "m_counts(d): index inside the vector");
  return &NV_CELL(self->m_counts, d);
}
#define CUR(d) NV_CELL(self->m_current, d)
#define CNT(d) NV_CELL(self->m_counts, d)
#define DIM (self->m_dimension)
#define NV_D (self->m_dimensions)
#define NV_DIGIT(d) (0 <= (d) && (d) < NV_D)
/* shape: the object, its two vectors of D cells, at least one dimension */
#define NV_COMB_SHAPE (__CPROVER_is_fresh(self, sizeof(*self)) && 1 <= NV_D && NV_D <= NV_MAXD && self->m_counts.n == NV_D && self->m_current.n == NV_D)
#define NV_COMB_VALID (0 <= self->m_combination && self->m_combination < self->m_combinations && self->m_combinations <= NV_COMB_BOUND)
/* INV at one digit d of a valid iterator */
#define NV_BOX(d) (0 <= CUR(d) && CUR(d) < CNT(d))
#define NV_COMB_INV_AT(d) (NV_BOX(d) && ((d) <= DIM || CUR(d) == 0))
#define NV_GHOSTS (NV_DIGIT(nv_a) && NV_DIGIT(nv_b))
#define NV_BOXES (NV_BOX(nv_a) && NV_BOX(nv_b))
#define NV_COMB_ASSIGNS self->m_dimension, self->m_combination, self->m_current.va, self->m_current.vb, self->m_current.other, self->m_counts.other

/* ---- operator++, contract 1 (the successor): the current combination is NOT the last one (witness nv_m) ------------------- */
#define NV_SUCC_AT(d, old) (((d) < DIM ==> CUR(d) == (old)) && ((d) == DIM ==> (CUR(d) == (old) + 1 && CUR(d) < CNT(d))) \
  && ((d) > DIM ==> ((old) == CNT(d) - 1 && CUR(d) == 0)))
#define NV_CONTRACT_comb_next \
__CPROVER_requires(NV_COMB_SHAPE && NV_COMB_VALID && 0 <= DIM && DIM < NV_D) \
__CPROVER_requires(NV_GHOSTS && NV_COMB_INV_AT(nv_g) && NV_COMB_INV_AT(nv_m) && CUR(nv_m) + 1 < CNT(nv_m)) \
__CPROVER_requires(nv_old_g == CUR(nv_g) && nv_old_m == CUR(nv_m) && nv_old_k == self->m_combination) \
__CPROVER_assigns(NV_COMB_ASSIGNS) \
__CPROVER_ensures(__CPROVER_return_value == self) \
__CPROVER_ensures(self->m_combination == nv_old_k + 1)                    /* the index grows by exactly one */ \
__CPROVER_ensures(0 <= DIM && DIM < NV_D)                                 /* m_dimension stays in its range: j = the incremented digit */ \
__CPROVER_ensures(nv_m <= DIM)                                            /* every digit right of j was at its maximum (nv_m is any digit that was not) */ \
__CPROVER_ensures(NV_SUCC_AT(nv_g, nv_old_g))                             /* the digits are those of the successor numeral */ \
__CPROVER_ensures(NV_COMB_INV_AT(nv_g))                                   /* INV (digit part) is re-established */ \
__CPROVER_ensures(CNT(nv_g) == __CPROVER_old(CNT(nv_g)) && NV_D == __CPROVER_old(NV_D) && self->m_combinations == __CPROVER_old(self->m_combinations))
#define NV_LOOP_comb_next_1 \
__CPROVER_assigns(NV_COMB_ASSIGNS) \
__CPROVER_loop_invariant(self->m_combination == nv_old_k && 0 <= DIM && DIM < NV_D && NV_BOXES \
  && CUR(nv_g) == nv_old_g && CUR(nv_m) == nv_old_m && (nv_g <= DIM || nv_old_g == 0) && (nv_m <= DIM || nv_old_m == 0)) \
__CPROVER_decreases(NV_D - DIM)
#define NV_DOWN_AT(d, old) ((d) <= DIM ? CUR(d) == (old) : ((old) == CNT(d) - 1 && CUR(d) == 0))
#define NV_LOOP_comb_next_2 \
__CPROVER_assigns(NV_COMB_ASSIGNS) \
__CPROVER_loop_invariant(self->m_combination == nv_old_k && nv_m <= DIM && DIM < NV_D && NV_BOXES && NV_DOWN_AT(nv_g, nv_old_g) && NV_DOWN_AT(nv_m, nv_old_m)) \
__CPROVER_decreases(DIM + 1)

/* ---- operator++, contract 2 (any valid state, also the LAST combination): index + 1, termination, memory safety ---------------
 * From the last combination (every digit at its maximum) the code resets all digits, leaves the inner loop with m_dimension == -1,
 * walks up again and increments the right-most digit whose count is >= 2: it terminates because such a digit exists (nv_w).
 * phase A = before that wrap-around (digit nv_w still holds its old value), phase B = after it (digit nv_w is 0, was at its maximum) */
#ifndef NV_MIN_COUNT_W
#define NV_MIN_COUNT_W 2
#endif
#define NV_PHASE_A (CUR(nv_w) == nv_old_w)
#define NV_PHASE_B (CUR(nv_w) == 0 && nv_old_w == CNT(nv_w) - 1)
#define NV_CONTRACT_comb_next_any \
__CPROVER_requires(NV_COMB_SHAPE && NV_COMB_VALID && 0 <= DIM && DIM < NV_D) \
__CPROVER_requires(NV_GHOSTS && nv_b == nv_a && NV_COMB_INV_AT(nv_w) && CNT(nv_w) >= NV_MIN_COUNT_W) \
__CPROVER_requires(nv_old_w == CUR(nv_w) && nv_old_k == self->m_combination) \
__CPROVER_assigns(NV_COMB_ASSIGNS) \
__CPROVER_ensures(__CPROVER_return_value == self && self->m_combination == nv_old_k + 1) \
__CPROVER_ensures(NV_D == __CPROVER_old(NV_D) && self->m_combinations == __CPROVER_old(self->m_combinations))
#define NV_LOOP_comb_next_any_1 \
__CPROVER_assigns(NV_COMB_ASSIGNS) \
__CPROVER_loop_invariant(self->m_combination == nv_old_k && -1 <= DIM && DIM < NV_D && NV_BOXES \
  && ((NV_PHASE_A && 0 <= DIM && (nv_w <= DIM || nv_old_w == 0)) || NV_PHASE_B)) \
__CPROVER_decreases((NV_PHASE_A ? 1 : 0), NV_D - DIM)
#define NV_LOOP_comb_next_any_2 \
__CPROVER_assigns(NV_COMB_ASSIGNS) \
__CPROVER_loop_invariant(self->m_combination == nv_old_k && -1 <= DIM && DIM < NV_D && NV_BOXES \
  && (__CPROVER_loop_entry(self->m_current.va) == nv_old_w ? ((nv_w <= DIM && NV_PHASE_A) || NV_PHASE_B) \
      : (NV_PHASE_B && nv_w <= DIM)))      /* entered after the wrap-around: stops at nv_w at the latest */ \
__CPROVER_decreases(DIM + 1)

/* ---- the accessors ---------------------------------------------------------------------------------------------------- */
#define NV_COMB_RO __CPROVER_requires(__CPROVER_is_fresh(self, sizeof(*self))) __CPROVER_assigns()
#define NV_CONTRACT_comb_valid NV_COMB_RO __CPROVER_ensures(__CPROVER_return_value == (self->m_combination < self->m_combinations))
#define NV_CONTRACT_comb_index NV_COMB_RO __CPROVER_ensures(__CPROVER_return_value == self->m_combination)
#define NV_CONTRACT_comb_size  NV_COMB_RO __CPROVER_ensures(__CPROVER_return_value == self->m_combinations)
#define NV_CONTRACT_comb_deref NV_COMB_RO __CPROVER_ensures(__CPROVER_return_value == &self->m_current)

/* ---- the constructor ---------------------------------------------------------------------------------------------------- */
int64_t nv_PROD;      /* ghost: the product of the counts -- NAMED, never computed on this back end (the arithmetic is on back end B) */
/* tensor copy construction: same length, same cells (assumed contract of the dependency; C16 storage) */
static struct nv_dig nv_dig_copy(const struct nv_dig* src) { return *src; }
/* tensor_mem_t(size): `size` cells, not initialised */
static struct nv_dig nv_dig_new(int64_t n)
{
  __CPROVER_assert(n >= 0, "tensor_mem_t(size): a non-negative size");
  struct nv_dig t; t.n = n; t.va = nv_nondet_int64_t(); t.vb = nv_nondet_int64_t(); t.other = nv_nondet_int64_t(); return t;
}
/* tensor.zero(): every cell becomes 0 */
static void nv_dig_zero(struct nv_dig* t) { t->va = 0; t->vb = 0; t->other = 0; }
/* product(counts): std::accumulate(begin, end, 1, multiply) = the left fold of the lambda over the cells (assumed contract of the STL);
 * the lambda is acc * val without overflow (back end B, comb_multiply); the fold is the product nv_PROD */
static int64_t nv_comb_product(const struct nv_dig* counts) { return nv_PROD; }
#define NV_CONTRACT_comb_ctor \
__CPROVER_requires(__CPROVER_is_fresh(self, sizeof(*self)) && __CPROVER_is_fresh(counts, sizeof(*counts))) \
/* what the callers guarantee (local_search: every count is 3): at least one dimension, every count >= 1, at most 2^62 combinations */ \
__CPROVER_requires(1 <= counts->n && counts->n <= NV_MAXD && 0 <= nv_a && nv_a < counts->n && 0 <= nv_b && nv_b < counts->n) \
__CPROVER_requires(NV_CELL(*counts, nv_a) >= 1 && NV_CELL(*counts, nv_b) >= 1 && 1 <= nv_PROD && nv_PROD <= NV_COMB_BOUND) \
__CPROVER_assigns(__CPROVER_object_whole(self)) \
__CPROVER_ensures(NV_D == counts->n && self->m_counts.n == NV_D && self->m_current.n == NV_D)        /* shape */ \
__CPROVER_ensures(CNT(nv_a) == NV_CELL(*counts, nv_a) && CNT(nv_b) == NV_CELL(*counts, nv_b))          /* the counts are the given ones */ \
__CPROVER_ensures(self->m_combinations == nv_PROD && self->m_combination == 0 && NV_COMB_VALID)        /* N = product, index 0, valid */ \
__CPROVER_ensures(DIM == 0 && CUR(nv_a) == 0 && CUR(nv_b) == 0 && NV_COMB_INV_AT(nv_a) && NV_COMB_INV_AT(nv_b))   /* the all-zero numeral: rank 0 == index */
