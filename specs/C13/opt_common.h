/* C13 (back end A): tuner_t::optimize and local_search_tuner_t::do_optimize -- the budget and the end-to-end statement
 * "no grid point is evaluated twice over the whole optimisation; what is returned is what was evaluated, sorted".
 * evaluate / local_search / do_optimize are replaced by their contracts (evaluate: proved in the `evaluate` target on
 * this very abstraction; local_search: proved per coefficient in the `local_search` target, used here at the level of
 * grid-point identities). */
#include "tuner.h"
struct nv_tuner { int32_t dummy; };
int64_t  nv_extent;     /* ghost: max over the parameter spaces of (largest - smallest grid index) */
int64_t  nv_N;          /* ghost: 3^d = number of offsets {-1,0,1}^d local_search enumerates (d = spaces.size()) */
uint64_t nv_max_evals;  /* parameter tuner::max_evals; registered domain 10 <= max_evals <= 1000 (src/tuner.cpp) */
static uint64_t nv_param_max_evals(void) { return nv_max_evals; }
#define NV_PARAMS_OK (10 <= nv_max_evals && nv_max_evals <= 1000 && 1 <= nv_N && nv_N <= NV_MAXN && 0 <= nv_extent && nv_extent <= NV_MAXN)

static struct nv_steps nv_steps_empty(void)      /* tuner_steps_t{}: empty, hence duplicate-free, finite, sorted */
{ struct nv_steps s; s.n = 0; s.cntG = 0; s.valG = 0.0; s.rowG = 0; s.finite = 1; s.sorted = 1; s.front.m_igrid.id = 0; s.front.m_param.row = 0; s.front.m_value = 0.0; s.has_front = 0; return s; }
static struct nv_igrids nv_igrids_single(struct nv_igrid g)   /* igrids_t{g} */
{ struct nv_igrids v; v.n = 1; v.posG = (g.id == nv_G) ? 0 : -1; v.spec = 1; v.cur.id = 0; v.all_src = 0; v.src_id = 0; return v; }
/* make_min_igrid / make_max_igrid / make_avg_igrid: some grid points (their coefficients: `make_igrid` targets) */
static struct nv_igrid nv_make_igrid(const struct nv_spaces* s) { struct nv_igrid g; g.id = nv_nondet_int64_t(); return g; }
static _Bool nv_spaces_empty(const struct nv_spaces* s) { return s->n == 0; }

/* steps.begin()-> : the first step; it is one of the stored steps */
struct nv_steps_iter { struct nv_steps* s; int64_t pos; };
static struct nv_steps_iter nv_steps_begin(struct nv_steps* s) { struct nv_steps_iter it; it.s = s; it.pos = 0; return it; }
static struct nv_step* nv_steps_iter_arrow(struct nv_steps_iter it)
{
  __CPROVER_assert(0 <= it.pos && it.pos < it.s->n, "iterator dereferenced inside the vector (steps is not empty)");
  int64_t id = nv_nondet_int64_t();
  __CPROVER_assume((id != nv_G || it.s->cntG > 0) && (it.s->cntG < it.s->n || id == nv_G));
  it.s->front.m_igrid.id = id; it.s->front.m_value = (id == nv_G) ? it.s->valG : nv_nondet_double(); it.s->has_front = 1;
  return &it.s->front;
}

/* callee contracts ------------------------------------------------------------------------------------------------ */
_Bool tuner_evaluate(struct nv_spaces* spaces, struct nv_callback* callback, struct nv_igrids igrids, struct nv_logger* nv_unnamed3, struct nv_steps* steps)
NV_CONTRACT_tuner_evaluate;

/* local_search(min, max, src, radius) at the level of grid-point identities: at most 3^d candidates, pairwise distinct
 * (distinct offsets give distinct points because radius >= 1 -- lemma in spec.py; offsets are enumerated once each:
 * contract of combinatorial_iterator_t) */
struct nv_igrids tuner_local_search(struct nv_igrid* min_igrid, struct nv_igrid* max_igrid, struct nv_igrid* src_igrid, int64_t radius)
__CPROVER_requires(radius >= 1)
__CPROVER_assigns()
__CPROVER_ensures(0 <= __CPROVER_return_value.n && __CPROVER_return_value.n <= nv_N && -1 <= __CPROVER_return_value.posG
  && __CPROVER_return_value.posG < __CPROVER_return_value.n && __CPROVER_return_value.spec == __CPROVER_return_value.n)
/* beyond the grid extent only the offset 0 stays inside the grid (local_search target: cand[c] == src[c] when radius > max[c] - min[c]) */
__CPROVER_ensures(__CPROVER_return_value.src_id == src_igrid->id && (radius > nv_extent ==> __CPROVER_return_value.all_src)
  && (!__CPROVER_return_value.all_src || __CPROVER_return_value.n == 0 || (src_igrid->id == nv_G) == (__CPROVER_return_value.posG >= 0)));

/* what every loop of the optimisation maintains: steps well-formed, every evaluation of G is a step and vice versa,
 * every evaluated point is a step, the callback was not called more often than there are steps */
#define NV_OPT_INV(s) (NV_STEPS_WF(s) && !nv_hint_on && (!(s)->has_front || (s)->front.m_igrid.id != nv_G || (s)->cntG > 0) && nv_cb_evalG == (s)->cntG && nv_cb_points == (s)->n && 0 <= nv_cb_calls && nv_cb_calls <= (s)->n)
#define NV_BUDGET1 ((int64_t)(nv_max_evals / 2) - 1 + nv_N)      /* after the coarse phase */
#define NV_BUDGET2 ((int64_t)nv_max_evals - 1 + nv_N)            /* after the refinement: < max_evals + 3^d */
#define NV_MAX(a, b) ((a) > (b) ? (a) : (b))

/* do_optimize(spaces, callback, logger, steps) of the local-search tuner (also the contract optimize() relies on for the
 * virtual call; the surrogate tuner's do_optimize is not decided) */
double nv_scratch_f64; int64_t nv_scratch_i64; struct nv_spaces nv_scratch_space;
#define NV_CONTRACT_tuner_do_optimize \
__CPROVER_requires(__CPROVER_is_fresh(self, sizeof(*self)) && __CPROVER_is_fresh(spaces, sizeof(*spaces)) && __CPROVER_is_fresh(callback, sizeof(*callback)) \
  && __CPROVER_is_fresh(logger, sizeof(*logger)) && __CPROVER_is_fresh(steps, sizeof(*steps))) \
__CPROVER_requires(NV_PARAMS_OK && NV_OPT_INV(steps) && steps->n <= NV_BUDGET2 && !nv_thrown) \
__CPROVER_assigns(*steps, nv_cb_calls, nv_cb_points, nv_cb_evalG, nv_cb_vG, nv_cb_bad, nv_thrown, nv_hint_id, nv_hint_on) \
__CPROVER_ensures(nv_cb_evalG <= 1) \
__CPROVER_ensures(!nv_thrown ==> (NV_OPT_INV(steps) && steps->n <= NV_BUDGET2 && steps->n >= __CPROVER_old(steps->n)))
#define NV_CONTRACT_tuner_do_optimize_sur \
__CPROVER_requires(__CPROVER_is_fresh(self, sizeof(*self)) && __CPROVER_is_fresh(spaces, sizeof(*spaces)) && __CPROVER_is_fresh(callback, sizeof(*callback)) \
  && __CPROVER_is_fresh(logger, sizeof(*logger)) && __CPROVER_is_fresh(steps, sizeof(*steps))) \
__CPROVER_requires(NV_PARAMS_OK && NV_OPT_INV(steps) && steps->n <= NV_BUDGET2 && !nv_thrown) \
__CPROVER_assigns(*steps, nv_cb_calls, nv_cb_points, nv_cb_evalG, nv_cb_vG, nv_cb_bad, nv_thrown, nv_hint_id, nv_hint_on, nv_scratch_f64, nv_scratch_i64) \
__CPROVER_ensures(nv_cb_evalG <= 1) \
__CPROVER_ensures(!nv_thrown ==> (NV_OPT_INV(steps) && steps->n <= NV_BUDGET2 && steps->n >= __CPROVER_old(steps->n)))
#define NV_LOOP_tuner_do_optimize_1 \
__CPROVER_assigns(*steps, nv_cb_calls, nv_cb_points, nv_cb_evalG, nv_cb_vG, nv_cb_bad, nv_thrown, nv_hint_id, nv_hint_on) \
__CPROVER_loop_invariant(!nv_thrown && NV_OPT_INV(steps) && steps->n <= NV_BUDGET2 && steps->n >= __CPROVER_loop_entry(steps->n)) \
__CPROVER_decreases((int64_t)nv_max_evals - steps->n)

/* tuner_t::optimize(spaces, callback, logger): for the arbitrary grid point G --
 *   no parameter space: exception; G is evaluated at most once; on return the steps are exactly the evaluations
 *   (one step per evaluated point, G's step iff G was evaluated), all values finite, sorted by value (hence the first
 *   is the minimum observed), and at most max_evals - 1 + 3^d points were evaluated. */
#define NV_RET __CPROVER_return_value
#define NV_CONTRACT_tuner_optimize \
__CPROVER_requires(__CPROVER_is_fresh(self, sizeof(*self)) && __CPROVER_is_fresh(spaces, sizeof(*spaces)) && __CPROVER_is_fresh(callback, sizeof(*callback)) \
  && __CPROVER_is_fresh(logger, sizeof(*logger))) \
__CPROVER_requires(NV_PARAMS_OK && spaces->n >= 0 && nv_cb_calls == 0 && nv_cb_evalG == 0 && nv_cb_points == 0 && !nv_hint_on) \
__CPROVER_assigns(nv_cb_calls, nv_cb_points, nv_cb_evalG, nv_cb_vG, nv_cb_bad, nv_thrown, nv_hint_id, nv_hint_on) \
__CPROVER_ensures(spaces->n == 0 ==> (nv_thrown && nv_cb_calls == 0)) \
__CPROVER_ensures(nv_cb_evalG <= 1) \
__CPROVER_ensures(!nv_thrown ==> (NV_RET.cntG == nv_cb_evalG && NV_RET.n == nv_cb_points && NV_RET.finite && NV_RET.sorted)) \
__CPROVER_ensures(!nv_thrown ==> (nv_cb_points <= NV_BUDGET2 && NV_RET.n >= 1))
#define NV_LOOP_tuner_optimize_1 \
__CPROVER_assigns(radius, steps, nv_cb_calls, nv_cb_points, nv_cb_evalG, nv_cb_vG, nv_cb_bad, nv_thrown, nv_hint_id, nv_hint_on) \
__CPROVER_loop_invariant(!nv_thrown && NV_OPT_INV(&steps) && steps.n <= NV_BUDGET1 && steps.n >= 1 && 2 <= radius && radius <= 2 * NV_MAX(nv_extent, 1)) \
__CPROVER_decreases((int64_t)nv_max_evals - steps.n)

/* ---- surrogate_tuner_t::do_optimize: same evaluation protocol; the surrogate numerics (quadratic fit, L-BFGS) are opaque:
 * whatever they return, the next source point is some index vector, searched around with radius 1 */
struct nv_c13_opaque { int64_t n; };
static struct nv_c13_opaque nv_opaque_any(void) { struct nv_c13_opaque o; o.n = nv_nondet_int64_t(); return o; }
static struct nv_igrid nv_igrid_any(void) { struct nv_igrid g; g.id = nv_nondet_int64_t(); return g; }
static double* nv_scratch_double(int64_t i) { return &nv_scratch_f64; }
static int64_t* nv_scratch_long(void) { return &nv_scratch_i64; }
static struct nv_steps_iter nv_steps_end(struct nv_steps* s) { struct nv_steps_iter it; it.s = s; it.pos = s->n; return it; }
#define NV_LOOP_tuner_do_optimize_sur_1 \
__CPROVER_assigns(*steps, nv_cb_calls, nv_cb_points, nv_cb_evalG, nv_cb_vG, nv_cb_bad, nv_thrown, nv_hint_id, nv_hint_on, nv_scratch_f64, nv_scratch_i64) \
__CPROVER_loop_invariant(!nv_thrown && NV_OPT_INV(steps) && steps->n <= NV_BUDGET2 && steps->n >= __CPROVER_loop_entry(steps->n)) \
__CPROVER_decreases((int64_t)nv_max_evals - steps->n)
#define NV_LOOP_tuner_do_optimize_sur_2 \
__CPROVER_assigns(__begin2, k, steps->front, steps->has_front, nv_scratch_f64) \
__CPROVER_loop_invariant(__begin2.s == steps && __end2.s == steps && 0 <= __begin2.pos && __begin2.pos <= steps->n && __end2.pos == steps->n \
  && (!steps->has_front || steps->front.m_igrid.id != nv_G || steps->cntG > 0) && 0 <= k && k == __begin2.pos) \
__CPROVER_decreases(steps->n - __begin2.pos)
#define NV_LOOP_tuner_do_optimize_sur_3 \
__CPROVER_assigns(iparam, nv_scratch_i64) \
__CPROVER_loop_invariant(0 <= iparam) \
__CPROVER_decreases(min_state_opt_x->n - iparam)
