/* C13 (back end A): ml::result_t::optimum_trial / closest_trial.
 * Property: "reports as optimum the trial with the smallest mean validation error across folds".
 * value(trial) (the mean validation error, see the SMT contract of result_t::value) is an arbitrary double per trial --
 * NaN and infinities included -- held in a ghost array of symbolic length; the universal statement is made at a ghost
 * index nv_g fixed before the call (DESIGN 4.3). */
#include "nv_tensor.h"
#define NV_DBL_MAX 1.7976931348623157e308
struct nv_result
{
  int64_t trials, folds;   /* m_values.size<0>(), m_values.size<1>() (SMT contracts of trials() / folds()) */
  double* value;           /* ghost: value(trial) for every trial */
  double* dist;            /* ghost: ||m_params.tensor(trial) - params||_2 for every trial */
};
struct nv_t1c { uint64_t id; };                                   /* tensor1d_cmap_t: ghost identity */
struct nv_prow { const struct nv_result* r; int64_t trial; };     /* m_params.tensor(trial) (and its difference to `params`) */
int64_t nv_g;                                                     /* ghost: an arbitrary trial */

/* result_t::value(trial): precondition 0 <= trial < trials() (assert in the function) is checked at every call */
static double nv_result_value(const struct nv_result* r, int64_t trial)
{
  __CPROVER_assert(0 <= trial && trial < r->trials, "value(trial): 0 <= trial < trials()");
  return r->value[trial];
}
/* m_params.tensor(trial): C16 index0 precondition checked; Eigen's (a - b).lpNorm<2>() is a function of the row and params */
static struct nv_prow nv_params_row(const struct nv_result* r, int64_t trial)
{
  __CPROVER_assert(0 <= trial && trial < r->trials, "m_params.tensor(trial): 0 <= trial < trials()");
  struct nv_prow v; v.r = r; v.trial = trial; return v;
}
static struct nv_prow nv_row_minus(struct nv_prow a, struct nv_t1c b) { return a; }
static double nv_lpnorm2(struct nv_prow d) { return d.r->dist[d.trial]; }

#define NV_RESULT_OK(arr) (__CPROVER_is_fresh(self, sizeof(*self)) && 0 <= self->trials && self->trials <= NV_MAXN \
  && __CPROVER_is_fresh(self->arr, (self->trials > 0 ? self->trials : 1) * sizeof(double)))

/* "ret is the least index attaining the minimum of a[0..n) among the entries below DBL_MAX; 0 if there is none",
 * at the ghost index g */
#define NV_ARGMIN(a, n, g, ret) \
  (0 <= (ret) && ((ret) < (n) || (ret) == 0) \
   && ((ret) == 0 || (a)[ret] < NV_DBL_MAX) \
   && (!(0 <= (g) && (g) < (n) && (a)[g] < NV_DBL_MAX) || ((ret) < (n) && (a)[ret] < NV_DBL_MAX && !((a)[g] < (a)[ret]))) \
   && (!(0 <= (g) && (g) < (ret)) || !((a)[g] <= (a)[ret])))
/* loop invariant of the running argmin over a[0..k)  (|| instead of ==>: the guards protect the array reads) */
#define NV_ARGMIN_INV(a, k, g, best, bestv) \
  (((bestv) == NV_DBL_MAX && (best) == 0) || (0 <= (best) && (best) < (k) && (bestv) == (a)[best] && (bestv) < NV_DBL_MAX)) \
  && (!(0 <= (g) && (g) < (k)) || !((a)[g] < (bestv))) \
  && (!(0 <= (g) && (g) < (best) && (best) < (k)) || !((a)[g] <= (bestv)))

#define NV_CONTRACT_result_optimum_trial \
__CPROVER_requires(NV_RESULT_OK(value)) \
__CPROVER_assigns() \
__CPROVER_ensures(NV_ARGMIN(self->value, self->trials, nv_g, __CPROVER_return_value))
#define NV_LOOP_result_optimum_trial_1 \
__CPROVER_assigns(trial, best_trial, best_value) \
__CPROVER_loop_invariant(0 <= trial && trial <= self->trials && NV_ARGMIN_INV(self->value, trial, nv_g, best_trial, best_value)) \
__CPROVER_decreases(self->trials - trial)

/* closest_trial(params, max_trials): precondition 0 <= max_trials <= trials() (assert in the function; the call site in
 * ml::tune passes old_trials, see the SMT contract of the thread lambda) */
#define NV_CONTRACT_result_closest_trial \
__CPROVER_requires(NV_RESULT_OK(dist) && 0 <= max_trials && max_trials <= self->trials) \
__CPROVER_assigns() \
__CPROVER_ensures(NV_ARGMIN(self->dist, max_trials, nv_g, __CPROVER_return_value))
#define NV_LOOP_result_closest_trial_1 \
__CPROVER_assigns(trial, best_trial, best_distance) \
__CPROVER_loop_invariant(0 <= trial && trial <= max_trials && NV_ARGMIN_INV(self->dist, trial, nv_g, best_trial, best_distance)) \
__CPROVER_decreases(max_trials - trial)

/* ---- result_t::values(range, split, value): the values handed to the tuner -- element k is value(begin + k, split, value),
 * with the caller's split / value selectors passed through unchanged (ghost position nv_q of the returned tensor) */
struct nv_range { int64_t m_begin, m_end; };
struct nv_vals { int64_t n; double cell_q; double other; };
int64_t nv_q;                         /* ghost: an arbitrary position of the returned tensor */
int32_t nv_w_split, nv_w_value;       /* ghost: the selectors value() was called with for the trial at position nv_q */
int64_t nv_w_begin;
static struct nv_vals nv_vals_new(int64_t n) { struct nv_vals v; v.n = n; v.cell_q = nv_nondet_double(); v.other = 0.0; return v; }
static double* nv_vals_at(struct nv_vals* v, int64_t i)
{
  __CPROVER_assert(0 <= i && i < v->n, "values(i): index inside the tensor");
  return i == nv_q ? &v->cell_q : &v->other;
}
static double nv_result_value3(const struct nv_result* r, int64_t trial, int32_t split, int32_t value)
{
  __CPROVER_assert(0 <= trial && trial < r->trials, "value(trial, ..): 0 <= trial < trials()");
  if (trial == nv_w_begin + nv_q) { nv_w_split = split; nv_w_value = value; }
  return r->value[trial];
}
#define NV_CONTRACT_result_values \
__CPROVER_requires(NV_RESULT_OK(value) && 0 <= trial_range.m_begin && trial_range.m_begin <= trial_range.m_end && trial_range.m_end <= self->trials) \
__CPROVER_requires(0 <= nv_q && nv_q <= NV_MAXN && nv_w_begin == trial_range.m_begin) \
__CPROVER_assigns(nv_w_split, nv_w_value) \
__CPROVER_ensures(__CPROVER_return_value.n == trial_range.m_end - trial_range.m_begin) \
__CPROVER_ensures(nv_q >= __CPROVER_return_value.n || (NV_SAME(__CPROVER_return_value.cell_q, self->value[trial_range.m_begin + nv_q]) && nv_w_split == split && nv_w_value == value))
#define NV_LOOP_result_values_1 \
__CPROVER_assigns(trial, values.cell_q, values.other, nv_w_split, nv_w_value) \
__CPROVER_loop_invariant(trial_range.m_begin <= trial && trial <= trial_range.m_end && values.n == trial_range.m_end - trial_range.m_begin \
  && (nv_q >= trial - trial_range.m_begin || (NV_SAME(values.cell_q, self->value[trial_range.m_begin + nv_q]) && nv_w_split == split && nv_w_value == value))) \
__CPROVER_decreases(trial_range.m_end - trial)
