"""C13: nano::combinatorial_iterator_t<tensor_size_t> (include/nano/core/combinatorial.h) under contract on the real header.

Back end A (CBMC/DFCC, comb.h): constructor, operator bool, operator++ (two contracts), operator*, index, size -- digits, ranges,
termination, memory safety at ghost digits.  Back end B (comb_lemmas): the mixed-radix rank arithmetic over Int.
"""
import astload
from core import Fn, Target, VC
from cxx2c import unwrap

TU_C = 'drivers/inst_comb.cpp'
FLT_C = 'nano::combinatorial_iterator_t'
H_C = 'specs/C13/comb.h'
CADICAL = ['--sat-solver', 'cadical']


def inst(d):
    """the member of the instantiation combinatorial_iterator_t<long, true> (not the template pattern)"""
    return 'combinatorial_iterator_tIl' in (d.get('mangledName') or '')


TYPES_C = [(r'tensor_mem_t<(long|tindex), 1>|tensor_t<nano::tensor_vector_storage_t, long, 1', 'struct nv_dig'),
           (r'combinatorial_iterator_t<', 'struct nv_comb_it')]
CALLS_C = []


def digit_hook(P, n):
    """m_current(d) / m_counts(d) on the iterator's own members -> (*nv_cur_at(self, d)) / (*nv_cnt_at(self, d)) (comb.h)"""
    if n.get('kind') != 'CXXOperatorCallExpr' or len(n.get('inner', [])) != 3:
        return None
    cal = unwrap(n['inner'][0])
    if cal.get('referencedDecl', {}).get('name') != 'operator()':
        return None
    obj = unwrap(n['inner'][1])
    if obj.get('kind') != 'MemberExpr' or unwrap(obj['inner'][0]).get('kind') != 'CXXThisExpr':
        return None
    stub = {'m_current': 'nv_cur_at', 'm_counts': 'nv_cnt_at'}.get(obj.get('name'))
    if stub is None:
        return None
    P.note(f'{obj["name"]}(d) -> (*{stub}(self, d))')
    return f'(*{stub}(self, {P.expr(n["inner"][2])}))'


COMB_A = dict(flt=FLT_C, self_struct='struct nv_comb_it', types=TYPES_C, calls=CALLS_C, hooks=[digit_hook], uf_float=False)


def comb_fn(cname, name, **kw):
    return lambda: Fn(cname, TU_C, name, select=inst, **dict(COMB_A, **kw))


def comb_targets(tier):
    ts = [Target('comb_next', lambda: [comb_fn('comb_next', 'operator++')()], H_C, enforce='comb_next', cbmc_flags=CADICAL, loops=2,
                 note='operator++ from a combination that is not the last one: the digits of the successor numeral'),
          Target('comb_next_any', lambda: [comb_fn('comb_next_any', 'operator++')()], H_C, enforce='comb_next_any', cbmc_flags=CADICAL, loops=2,
                 note='operator++ from any valid state (also the last combination): index + 1, termination'),
          Target('comb_valid', lambda: [comb_fn('comb_valid', 'operator bool', kinds=('CXXConversionDecl',))()], H_C, enforce='comb_valid', cbmc_flags=CADICAL),
          Target('comb_index', lambda: [comb_fn('comb_index', 'index')()], H_C, enforce='comb_index', cbmc_flags=CADICAL),
          Target('comb_size', lambda: [comb_fn('comb_size', 'size')()], H_C, enforce='comb_size', cbmc_flags=CADICAL),
          Target('comb_deref', lambda: [comb_fn('comb_deref', 'operator*')()], H_C, enforce='comb_deref', cbmc_flags=CADICAL)]
    return ts


# ------------------------------------------------------------------------------------------------ back end B: the rank arithmetic
BOUND = 2 ** 62


def comb_lemmas():
    """The mixed-radix rank over Int (no code involved): one lemma per DIGIT POSITION d, composed by induction over the positions.
    Notation for a digit vector x in the box (0 <= x(d) < c(d), c = the counts, D digits):
        W(d) = prod_{e > d} c(e)            weight of digit d:   W(D-1) = 1,  W(d-1) = c(d) * W(d),  N = W(-1)
        R_x(d) = sum_{e >= d} x(e) * W(e)   suffix rank:         R_x(D) = 0,  R_x(d) = x(d) * W(d) + R_x(d+1),  rank(x) = R_x(0)
    In each lemma xd, yd, cd, W, Rx, Ry stand for x(d), y(d), c(d), W(d), R_x(d+1), R_y(d+1) at one arbitrary position."""
    hdr = '(declare-const xd Int)(declare-const yd Int)(declare-const cd Int)(declare-const W Int)(declare-const Rx Int)(declare-const Ry Int)\n'
    box = '(assert (and (<= 0 xd) (< xd cd) (>= W 1)))\n'

    def vc(name, body, about):
        return VC('comb_rank/' + name, hdr + body, about=about, group='comb_rank',
                  source={'file': astload.REPO + '/include/nano/core/combinatorial.h'})
    return [
        vc('range step: 0 <= R_x(d+1) <= W(d) - 1 and x(d) in its box => 0 <= R_x(d) <= W(d-1) - 1', box +
           '(assert (and (<= 0 Rx) (<= Rx (- W 1))))\n'
           '(assert (not (and (<= 0 (+ (* xd W) Rx)) (<= (+ (* xd W) Rx) (- (* cd W) 1)))))',
           'by induction from R_x(D) = 0 = W(D-1) - 1: every digit vector in the box has 0 <= rank < N (none outside; index() < size() while valid)'),
        vc('maximal suffix step: x(d) == c(d) - 1 and R_x(d+1) == W(d) - 1 => R_x(d) == W(d-1) - 1',
           '(assert (and (= xd (- cd 1)) (= Rx (- W 1))))\n(assert (not (= (+ (* xd W) Rx) (- (* cd W) 1))))',
           'digits right of j at their maximum carry the suffix rank W(j) - 1; with j = -1: the all-maximal vector has rank N - 1 (the last combination)'),
        vc('reset suffix step: y(d) == 0 and R_y(d+1) == 0 => R_y(d) == 0',
           '(assert (and (= yd 0) (= Ry 0)))\n(assert (not (= (+ (* yd W) Ry) 0)))', 'digits right of j reset to 0 carry the suffix rank 0'),
        vc('increment step: at the incremented digit j, R_x(j+1) == W(j) - 1, R_y(j+1) == 0, y(j) == x(j) + 1 => R_y(j) == R_x(j) + 1',
           '(assert (and (= Rx (- W 1)) (= Ry 0) (= yd (+ xd 1))))\n(assert (not (= (+ (* yd W) Ry) (+ (* xd W) Rx 1))))',
           'the carry: W(j) - (W(j) - 1) == 1'),
        vc('prefix step: y(d) == x(d) and R_y(d+1) == R_x(d+1) + 1 => R_y(d) == R_x(d) + 1',
           '(assert (and (= yd xd) (= Ry (+ Rx 1))))\n(assert (not (= (+ (* yd W) Ry) (+ (* xd W) Rx 1))))',
           'digits left of j are unchanged: by induction down to d = 0, rank(y) == rank(x) + 1 for the successor digits proved by target comb_next'),
        vc('injectivity step: x(d), y(d) in their box, suffix ranks below W(d), R_x(d) == R_y(d) => x(d) == y(d) and R_x(d+1) == R_y(d+1)', box +
           '(assert (and (<= 0 yd) (< yd cd) (<= 0 Rx) (< Rx W) (<= 0 Ry) (< Ry W)))\n(assert (= (+ (* xd W) Rx) (+ (* yd W) Ry)))\n'
           '(assert (not (and (= xd yd) (= Rx Ry))))',
           'by induction from d = 0: equal ranks => equal digit vectors; the indices 0, 1, .., N-1 therefore name N DISTINCT combinations of the box: each exactly once'),
        vc('weight step: P(d) * W(d-1) == N, P(d+1) == P(d) * c(d), W(d-1) == c(d) * W(d) => P(d+1) * W(d) == N',
           '(declare-const P Int)(declare-const N Int)\n(assert (= (* P (* cd W)) N))\n(assert (not (= (* (* P cd) W) N)))',
           'prefix product times suffix weight is the number of combinations at every position'),
        vc('bound step: P(d) * W(d-1) == N, P(d) >= 1, W(d-1) >= 1 => P(d) <= N and W(d-1) <= N',
           '(declare-const P Int)(declare-const N Int)\n(assert (and (= (* P W) N) (>= P 1) (>= W 1)))\n(assert (not (and (<= P N) (<= W N))))',
           f'every prefix product of the counts (the accumulator of product()) and every weight is <= N <= 2^62: no overflow'),
    ]
