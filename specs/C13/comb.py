"""C13: nano::combinatorial_iterator_t<tensor_size_t> (include/nano/core/combinatorial.h) under contract on the real header.

Back end A (CBMC/DFCC, comb.h): constructor, operator bool, operator++ (two contracts), operator*, index, size -- digits, ranges,
termination, memory safety at ghost digits.  Back end B (comb_lemmas): the mixed-radix rank arithmetic over Int.
"""
import astload
from core import Fn, Target, VC
from cxx2c import unwrap

TU_C = 'drivers/inst_comb.cpp'
FLT_C = 'nano::combinatorial_iterator_t'
H_C = 'specs/C13/comb.h'
CADICAL = ['--sat-solver', 'cadical']


def inst(d):
    """the member of the instantiation combinatorial_iterator_t<long, true> (not the template pattern)"""
    return 'combinatorial_iterator_tIl' in (d.get('mangledName') or '')


TYPES_C = [(r'tensor_mem_t<(long|tindex), 1>|tensor_t<nano::tensor_vector_storage_t, long, 1', 'struct nv_dig'),
           (r'combinatorial_iterator_t<', 'struct nv_comb_it')]
CALLS_C = []


def digit_hook(P, n):
    """m_current(d) / m_counts(d) on the iterator's own members -> (*nv_cur_at(self, d)) / (*nv_cnt_at(self, d)) (comb.h)"""
    if n.get('kind') != 'CXXOperatorCallExpr' or len(n.get('inner', [])) != 3:
        return None
    cal = unwrap(n['inner'][0])
    if cal.get('referencedDecl', {}).get('name') != 'operator()':
        return None
    obj = unwrap(n['inner'][1])
    if obj.get('kind') != 'MemberExpr' or unwrap(obj['inner'][0]).get('kind') != 'CXXThisExpr':
        return None
    stub = {'m_current': 'nv_cur_at', 'm_counts': 'nv_cnt_at'}.get(obj.get('name'))
    if stub is None:
        return None
    P.note(f'{obj["name"]}(d) -> (*{stub}(self, d))')
    return f'(*{stub}(self, {P.expr(n["inner"][2])}))'


COMB_A = dict(flt=FLT_C, self_struct='struct nv_comb_it', types=TYPES_C, calls=CALLS_C, hooks=[digit_hook], uf_float=False)


def comb_fn(cname, name, **kw):
    return lambda: Fn(cname, TU_C, name, select=inst, **dict(COMB_A, **kw))


TENS = r'(nano::)?tensor_(mem_)?t<[^|]*long, 1>'
CTOR_CALLS = [(r'^ctor\|' + TENS + r'\|void \(const ', 'nv_dig_copy({&0})'),
              (r'^ctor\|' + TENS + r'\|void \((const )?(long|nano::tensor_size_t)\)', 'nv_dig_new({0})'), (r'^product\|', 'nv_comb_product({&0})')]
CTOR_MEMBERS = [(r'^size\|.*tensor', '({self}->n)'), (r'^zero\|.*tensor', 'nv_dig_zero({self})')]


def ctor_fn():
    return Fn('comb_ctor', TU_C, 'combinatorial_iterator_t', kinds=('CXXConstructorDecl',), **dict(COMB_A, calls=CTOR_CALLS, members=CTOR_MEMBERS))


def comb_targets(tier):
    ts = [Target('comb_ctor', lambda: [ctor_fn()], H_C, enforce='comb_ctor', cbmc_flags=CADICAL,
                 note='the constructor establishes the representation invariant at the all-zero numeral'),
          Target('comb_next', lambda: [comb_fn('comb_next', 'operator++')()], H_C, enforce='comb_next', cbmc_flags=CADICAL, loops=2,
                 note='operator++ from a combination that is not the last one: the digits of the successor numeral'),
          Target('comb_next_any', lambda: [comb_fn('comb_next_any', 'operator++')()], H_C, enforce='comb_next_any', cbmc_flags=CADICAL, loops=2,
                 note='operator++ from any valid state (also the last combination): index + 1, termination'),
          # NB: for EVERY state the constructor admits (counts >= 1, i.e. also all counts == 1) the termination obligation is
          # refuted (define NV_MIN_COUNT_W=1 to see it): operator++ spins when every count is 1.  The tuners never build such an
          # iterator (local_search passes counts of 3: asserted at the call site), so this is outside property C13: it is reported
          # in FINDING_comb_all_ones.md / DESIGN 11.3 and stated here as the precondition "some count >= 2", not raised as a finding
          Target('comb_valid', lambda: [comb_fn('comb_valid', 'operator bool', kinds=('CXXConversionDecl',))()], H_C, enforce='comb_valid', cbmc_flags=CADICAL),
          Target('comb_index', lambda: [comb_fn('comb_index', 'index')()], H_C, enforce='comb_index', cbmc_flags=CADICAL),
          Target('comb_size', lambda: [comb_fn('comb_size', 'size')()], H_C, enforce='comb_size', cbmc_flags=CADICAL),
          Target('comb_deref', lambda: [comb_fn('comb_deref', 'operator*')()], H_C, enforce='comb_deref', cbmc_flags=CADICAL)]
    return ts


# ------------------------------------------------------------------------------------------------ back end B: the rank arithmetic
BOUND = 2 ** 62


def comb_lemmas():
    """The mixed-radix rank over Int (no code involved): one lemma per DIGIT POSITION d, composed by induction over the positions.
    Notation for a digit vector x in the box (0 <= x(d) < c(d), c = the counts, D digits):
        W(d) = prod_{e > d} c(e)            weight of digit d:   W(D-1) = 1,  W(d-1) = c(d) * W(d),  N = W(-1)
        R_x(d) = sum_{e >= d} x(e) * W(e)   suffix rank:         R_x(D) = 0,  R_x(d) = x(d) * W(d) + R_x(d+1),  rank(x) = R_x(0)
    In each lemma xd, yd, cd, W, Rx, Ry stand for x(d), y(d), c(d), W(d), R_x(d+1), R_y(d+1) at one arbitrary position."""
    hdr = '(declare-const xd Int)(declare-const yd Int)(declare-const cd Int)(declare-const W Int)(declare-const Rx Int)(declare-const Ry Int)\n'
    box = '(assert (and (<= 0 xd) (< xd cd) (>= W 1)))\n'

    def vc(name, body, about):
        return VC('comb_rank/' + name, hdr + body, about=about, group='comb_rank',
                  source={'file': astload.REPO + '/include/nano/core/combinatorial.h'})
    return [
        vc('range step: 0 <= R_x(d+1) <= W(d) - 1 and x(d) in its box => 0 <= R_x(d) <= W(d-1) - 1', box +
           '(assert (and (<= 0 Rx) (<= Rx (- W 1))))\n'
           '(assert (not (and (<= 0 (+ (* xd W) Rx)) (<= (+ (* xd W) Rx) (- (* cd W) 1)))))',
           'by induction from R_x(D) = 0 = W(D-1) - 1: every digit vector in the box has 0 <= rank < N (none outside; index() < size() while valid)'),
        vc('maximal suffix step: x(d) == c(d) - 1 and R_x(d+1) == W(d) - 1 => R_x(d) == W(d-1) - 1',
           '(assert (and (= xd (- cd 1)) (= Rx (- W 1))))\n(assert (not (= (+ (* xd W) Rx) (- (* cd W) 1))))',
           'digits right of j at their maximum carry the suffix rank W(j) - 1; with j = -1: the all-maximal vector has rank N - 1 (the last combination)'),
        vc('reset suffix step: y(d) == 0 and R_y(d+1) == 0 => R_y(d) == 0',
           '(assert (and (= yd 0) (= Ry 0)))\n(assert (not (= (+ (* yd W) Ry) 0)))', 'digits right of j reset to 0 carry the suffix rank 0'),
        vc('increment step: at the incremented digit j, R_x(j+1) == W(j) - 1, R_y(j+1) == 0, y(j) == x(j) + 1 => R_y(j) == R_x(j) + 1',
           '(assert (and (= Rx (- W 1)) (= Ry 0) (= yd (+ xd 1))))\n(assert (not (= (+ (* yd W) Ry) (+ (* xd W) Rx 1))))',
           'the carry: W(j) - (W(j) - 1) == 1'),
        vc('prefix step: y(d) == x(d) and R_y(d+1) == R_x(d+1) + 1 => R_y(d) == R_x(d) + 1',
           '(assert (and (= yd xd) (= Ry (+ Rx 1))))\n(assert (not (= (+ (* yd W) Ry) (+ (* xd W) Rx 1))))',
           'digits left of j are unchanged: by induction down to d = 0, rank(y) == rank(x) + 1 for the successor digits proved by target comb_next'),
        vc('injectivity step: x(d), y(d) in their box, suffix ranks below W(d), R_x(d) == R_y(d) => x(d) == y(d) and R_x(d+1) == R_y(d+1)', box +
           '(assert (and (<= 0 yd) (< yd cd) (<= 0 Rx) (< Rx W) (<= 0 Ry) (< Ry W)))\n(assert (= (+ (* xd W) Rx) (+ (* yd W) Ry)))\n'
           '(assert (not (and (= xd yd) (= Rx Ry))))',
           'by induction from d = 0: equal ranks => equal digit vectors; the indices 0, 1, .., N-1 therefore name N DISTINCT combinations of the box: each exactly once'),
        vc('weight step: P(d) * W(d-1) == N, P(d+1) == P(d) * c(d), W(d-1) == c(d) * W(d) => P(d+1) * W(d) == N',
           '(declare-const P Int)(declare-const N Int)\n(assert (= (* P (* cd W)) N))\n(assert (not (= (* (* P cd) W) N)))',
           'prefix product times suffix weight is the number of combinations at every position'),
        vc('bound step: P(d) * W(d-1) == N, P(d) >= 1, W(d-1) >= 1 => P(d) <= N and W(d-1) <= N',
           '(declare-const P Int)(declare-const N Int)\n(assert (and (= (* P W) N) (>= P 1) (>= W 1)))\n(assert (not (and (<= P N) (<= W N))))',
           f'every prefix product of the counts (the accumulator of product()) and every weight is <= N <= 2^62: no overflow'),
    ]


def multiply_vcs():
    """the lambda of combinatorial_iterator_t::product (back end B, Int with explicit overflow obligations): multiply(acc, val) == acc * val.
    The accumulator of std::accumulate is a prefix product P(d), val a count c(d): P(d) >= 1, c(d) >= 1 and P(d) * c(d) = P(d+1) <= N <= 2^62
    (comb_rank bound step)."""
    from wplib import IdEnvWP, load, reach_vc
    hdr = astload.REPO + '/include/nano/core/combinatorial.h'
    docs, fn = load(TU_C, FLT_C, 'product', inst)
    lams = astload.find_lambdas(fn)
    if len(lams) != 1:
        raise astload.ExtractionError(f'product(): {len(lams)} lambdas')
    op = astload.lambda_call_operator(lams[0])
    name = 'comb_multiply'
    wp = IdEnvWP(name)
    keys = [k for k, _ in wp.bind_params(op)]
    if len(keys) != 2:
        raise astload.ExtractionError(f'product() lambda: {len(keys)} parameters')
    acc, val = [wp.fresh('Int', k, 'long') for k in keys]
    wp.env[keys[0]], wp.env[keys[1]] = acc, val
    wp.assume(f'(and (>= {acc.t} 1) (>= {val.t} 1) (<= (* {acc.t} {val.t}) {BOUND}))')
    wp.post = lambda w, rv: [('multiply(acc, val) == acc * val (first parameter = accumulator, second = element: the fold is the product)',
                              f'(= {rv.t} (* {acc.t} {val.t}))')]
    wp.run(op, hdr)
    if wp.returns == 0:
        raise astload.ExtractionError(f'{name}: no return path')
    vcs = wp.vcs(name, hdr, 'the accumulation step of product() multiplies, within the 2^62 bound')
    vcs.append(reach_vc(wp, name, hdr))
    # product() hands exactly this lambda, the whole range of `counts` and the initial value 1 to std::accumulate (read from clang's AST)
    calls = [c for c in astload.walk(fn) if c.get('kind') == 'CallExpr' and
             unwrap(c['inner'][0]).get('referencedDecl', {}).get('name') == 'accumulate']
    ok = False
    if len(calls) == 1 and len(calls[0]['inner']) == 5:
        a = [unwrap(x) for x in calls[0]['inner'][1:]]

        def rng(n, which):
            return n.get('kind') == 'CallExpr' and unwrap(n['inner'][0]).get('referencedDecl', {}).get('name') == which and \
                unwrap(n['inner'][1]).get('referencedDecl', {}).get('name') == 'counts'
        init = [x for x in astload.walk(a[2]) if x.get('kind') == 'IntegerLiteral']
        ok = rng(a[0], 'begin') and rng(a[1], 'end') and len(init) == 1 and init[0].get('value') == '1' and \
            'tensor_size_t' in a[2].get('type', {}).get('qualType', '') + str(astload.node_source(a[2])) and \
            any(x.get('kind') == 'DeclRefExpr' and x.get('referencedDecl', {}).get('name') == 'multiply' for x in astload.walk(calls[0]['inner'][4]))
    vcs.append(VC('comb_product/product() == std::accumulate(begin(counts), end(counts), tensor_size_t{1}, multiply)',
                  f'(assert (not {"true" if ok else "false"}))', about='whole range, initial value 1 of the accumulator type, the multiply lambda',
                  source={'file': hdr}, group='comb_product'))
    return vcs, [{'c_name': name, 'cxx': 'combinatorial_iterator_t::product#lambda0', 'file': hdr, 'line': op.get('loc', {}).get('line'), 'sha': astload.file_hash(hdr)}]
