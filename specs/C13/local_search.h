/* C13 (back end A): nano::local_search, make_min/max/avg_igrid and map_to_grid at the level of coefficients.
 * An index vector (igrid_t) is abstracted to its size and its value at a ghost coefficient c (arbitrary, the same for
 * every vector of a run): coefficient-wise Eigen expressions act on that value; statements proved for the ghost
 * coefficient hold for every coefficient (DESIGN 4.3).  A vector of index vectors keeps its size and the element at the
 * ghost position nv_gpos. */
#include "nv_tensor.h"
struct nv_ivec { int64_t n; int64_t vc; };
struct nv_ivecs { int64_t n; struct nv_ivec elemg; };
struct nv_comb { int64_t k, total, lim; struct nv_ivec cur; };      /* combinatorial_iterator_t over dims (all equal to lim at c) */
int64_t nv_gpos;   /* ghost: an arbitrary position in the returned list */
int64_t nv_N;      /* ghost: product of the iterator's dimensions = 3^d */

static struct nv_ivec nv_ivec_full(int64_t n, int64_t value) { struct nv_ivec v; v.n = n; v.vc = value; return v; }   /* make_full_tensor(make_dims(n), value) */
static struct nv_ivecs nv_ivecs_empty(void) { struct nv_ivecs v; v.n = 0; v.elemg.n = 0; v.elemg.vc = 0; return v; }
/* assumed contract of combinatorial_iterator_t{dims}: enumerates the prod(dims) combinations, each exactly once;
 * every combination x has 0 <= x[i] < dims[i] */
static struct nv_comb nv_comb_make(const struct nv_ivec* dims)
{
  struct nv_comb it; it.k = 0; it.total = nv_N; it.lim = dims->vc; it.cur.n = dims->n; it.cur.vc = nv_nondet_int64_t();
  __CPROVER_assume(0 <= it.cur.vc && it.cur.vc < it.lim);
  return it;
}
static void nv_comb_next(struct nv_comb* it)
{
  __CPROVER_assert(it->k < it->total, "++it only while the iterator is valid");
  it->k = it->k + 1; it->cur.vc = nv_nondet_int64_t();
  __CPROVER_assume(0 <= it->cur.vc && it->cur.vc < it->lim);
}
/* Eigen coefficient-wise operators at the ghost coefficient (assumed: array op array / array op scalar act per coefficient) */
static struct nv_ivec nv_ivec_sub_s(struct nv_ivec a, int64_t s) { a.vc = a.vc - s; return a; }
static struct nv_ivec nv_ivec_mul_s(struct nv_ivec a, int64_t s) { a.vc = a.vc * s; return a; }
static struct nv_ivec nv_ivec_add(struct nv_ivec a, struct nv_ivec b)
{ __CPROVER_assert(a.n == b.n, "a + b: operands of equal size"); a.vc = a.vc + b.vc; return a; }
static struct nv_ivec nv_ivec_sub(struct nv_ivec a, struct nv_ivec b)
{ __CPROVER_assert(a.n == b.n, "a - b: operands of equal size"); a.vc = a.vc - b.vc; return a; }
/* assumed contract of Eigen minCoeff(): not above any coefficient (non-empty operand) */
static int64_t nv_ivec_min(struct nv_ivec a)
{
  __CPROVER_assert(a.n >= 1, "minCoeff() of a non-empty expression");
  int64_t m = nv_nondet_int64_t(); __CPROVER_assume(m <= a.vc); return m;
}
static void nv_ivecs_push(struct nv_ivecs* v, struct nv_ivec e) { if (v->n == nv_gpos) v->elemg = e; v->n = v->n + 1; }

/* "e is a candidate of the search around src": inside [min, max], an offset in {-1, 0, 1} * radius from src, and equal to
 * src when the radius exceeds the extent of the grid */
#define NV_CAND(e) ((e).n == n_ && min_igrid->vc <= (e).vc && (e).vc <= max_igrid->vc \
  && ((e).vc == src_igrid->vc || (e).vc == src_igrid->vc + radius || (e).vc == src_igrid->vc - radius) \
  && (radius <= max_igrid->vc - min_igrid->vc || (e).vc == src_igrid->vc))
#define n_ (min_igrid->n)
#define NV_CONTRACT_tuner_local_search \
__CPROVER_requires(__CPROVER_is_fresh(min_igrid, sizeof(*min_igrid)) && __CPROVER_is_fresh(max_igrid, sizeof(*max_igrid)) && __CPROVER_is_fresh(src_igrid, sizeof(*src_igrid))) \
/* one coefficient per parameter space, at least one space (optimize() throws otherwise); src is a grid point */ \
__CPROVER_requires(1 <= min_igrid->n && min_igrid->n <= 64 && max_igrid->n == min_igrid->n && src_igrid->n == min_igrid->n) \
__CPROVER_requires(0 <= min_igrid->vc && min_igrid->vc <= src_igrid->vc && src_igrid->vc <= max_igrid->vc && max_igrid->vc <= NV_MAXN) \
__CPROVER_requires(1 <= radius && radius <= 4 * NV_MAXN && 1 <= nv_N && nv_N <= NV_MAXN && 0 <= nv_gpos) \
__CPROVER_assigns() \
__CPROVER_ensures(0 <= __CPROVER_return_value.n && __CPROVER_return_value.n <= nv_N) \
__CPROVER_ensures(nv_gpos >= __CPROVER_return_value.n || NV_CAND(__CPROVER_return_value.elemg))
#define NV_LOOP_tuner_local_search_1 \
__CPROVER_assigns(it, igrids) \
__CPROVER_loop_invariant(0 <= it.k && it.k <= it.total && it.total == nv_N && it.lim == 3 && it.cur.n == n_ && 0 <= it.cur.vc && it.cur.vc < 3 \
  && 0 <= igrids.n && igrids.n <= it.k && (nv_gpos >= igrids.n || NV_CAND(igrids.elemg))) \
__CPROVER_decreases(it.total - it.k)
