/* C13 (back end A): nano::local_search, make_min/max/avg_igrid and map_to_grid at the level of coefficients.
 * An index vector (igrid_t) is abstracted to its size and its value at a ghost coefficient c (arbitrary, the same for
 * every vector of a run): coefficient-wise Eigen expressions act on that value; statements proved for the ghost
 * coefficient hold for every coefficient (DESIGN 4.3).  A vector of index vectors keeps its size and the element at the
 * ghost position nv_gpos. */
#include "nv_tensor.h"
int64_t nv_c;      /* ghost: the coefficient (parameter space) the abstraction follows */
struct nv_ivec { int64_t n; int64_t vc; int64_t other; /* scratch for the other coefficients */ _Bool isg; /* ghost: the element at nv_gpos of its list */ };
struct nv_ivecs { int64_t n; struct nv_ivec elemg; struct nv_ivec cur; /* scratch handed out by operator[] */ };
struct nv_space { int64_t n; int64_t idx; };                          /* param_space_t: number of grid values, position in spaces */
struct nv_spaces { int64_t n; int64_t size_c; struct nv_space cur; }; /* param_spaces_t: size, number of grid values of space c */
struct nv_grid { int64_t rows, cols; double cell_gc; double other; }; /* tensor2d_t: the cell (nv_gpos, nv_c) */
struct nv_comb { int64_t k, total, lim; struct nv_ivec cur; };      /* combinatorial_iterator_t over dims (all equal to lim at c) */
int64_t nv_gpos;   /* ghost: an arbitrary position in the returned list */
int64_t nv_N;      /* ghost: product of the iterator's dimensions = 3^d */

static struct nv_ivec nv_ivec_full(int64_t n, int64_t value) { struct nv_ivec v; v.n = n; v.vc = value; v.other = value; v.isg = 0; return v; }   /* make_full_tensor(make_dims(n), value) */
static struct nv_ivecs nv_ivecs_empty(void) { struct nv_ivecs v; v.n = 0; v.elemg = nv_ivec_full(0, 0); v.cur = nv_ivec_full(0, 0); return v; }
/* combinatorial_iterator_t at the ghost coefficient nv_c: RESTATEMENT of the contracts PROVED on the real header (specs/C13/comb.h, comb.py;
 * k = m_combination, total = m_combinations, lim = m_counts(nv_c), cur.vc = m_current(nv_c), cur.n = m_dimensions):
 *   constructor (target comb_ctor): index 0, total = the product of the counts (named nv_N), every digit 0;
 *   operator++ from a valid state (targets comb_next, comb_next_any + the comb_rank lemmas): terminates, the index grows by exactly one, and
 *   WHILE THE ITERATOR IS STILL VALID the digits are those of the successor numeral, in particular 0 <= digit < count (after the last
 *   combination the digits are unspecified); the indices 0 .. total-1 name pairwise distinct digit vectors (rank injectivity lemma);
 *   operator bool (comb_valid): index < total; operator* (comb_deref): the digit vector. */
static struct nv_comb nv_comb_make(const struct nv_ivec* dims)
{
  __CPROVER_assert(dims->n >= 1 && dims->vc >= 1, "combinatorial_iterator_t{counts}: at least one dimension, every count >= 1 (precondition of comb_ctor)");
  struct nv_comb it; it.k = 0; it.total = nv_N; it.lim = dims->vc; it.cur = nv_ivec_full(dims->n, 0);
  return it;
}
static void nv_comb_next(struct nv_comb* it)
{
  __CPROVER_assert(it->k < it->total, "++it only while the iterator is valid");
  __CPROVER_assert(it->lim >= 2, "++it terminates: some count is >= 2 (precondition of comb_next_any; here every count is 3)");
  it->k = it->k + 1; it->cur.vc = nv_nondet_int64_t();
  if (it->k < it->total) __CPROVER_assume(0 <= it->cur.vc && it->cur.vc < it->lim);
}
/* Eigen coefficient-wise operators at the ghost coefficient (assumed: array op array / array op scalar act per coefficient) */
static struct nv_ivec nv_ivec_sub_s(struct nv_ivec a, int64_t s) { a.vc = a.vc - s; return a; }
static struct nv_ivec nv_ivec_mul_s(struct nv_ivec a, int64_t s) { a.vc = a.vc * s; return a; }
static struct nv_ivec nv_ivec_add(struct nv_ivec a, struct nv_ivec b)
{ __CPROVER_assert(a.n == b.n, "a + b: operands of equal size"); a.vc = a.vc + b.vc; return a; }
static struct nv_ivec nv_ivec_sub(struct nv_ivec a, struct nv_ivec b)
{ __CPROVER_assert(a.n == b.n, "a - b: operands of equal size"); a.vc = a.vc - b.vc; return a; }
/* assumed contract of Eigen minCoeff(): not above any coefficient (non-empty operand) */
static int64_t nv_ivec_min(struct nv_ivec a)
{
  __CPROVER_assert(a.n >= 1, "minCoeff() of a non-empty expression");
  int64_t m = nv_nondet_int64_t(); __CPROVER_assume(m <= a.vc); return m;
}
static void nv_ivecs_push(struct nv_ivecs* v, struct nv_ivec e) { if (v->n == nv_gpos) v->elemg = e; v->n = v->n + 1; }

/* "e is a candidate of the search around src": inside [min, max], an offset in {-1, 0, 1} * radius from src, and equal to
 * src when the radius exceeds the extent of the grid */
#define NV_CAND(e) ((e).n == n_ && min_igrid->vc <= (e).vc && (e).vc <= max_igrid->vc \
  && ((e).vc == src_igrid->vc || (e).vc == src_igrid->vc + radius || (e).vc == src_igrid->vc - radius) \
  && (radius <= max_igrid->vc - min_igrid->vc || (e).vc == src_igrid->vc))
#define n_ (min_igrid->n)
#define NV_CONTRACT_tuner_local_search \
__CPROVER_requires(__CPROVER_is_fresh(min_igrid, sizeof(*min_igrid)) && __CPROVER_is_fresh(max_igrid, sizeof(*max_igrid)) && __CPROVER_is_fresh(src_igrid, sizeof(*src_igrid))) \
/* one coefficient per parameter space, at least one space (optimize() throws otherwise); src is a grid point */ \
__CPROVER_requires(1 <= min_igrid->n && min_igrid->n <= 64 && max_igrid->n == min_igrid->n && src_igrid->n == min_igrid->n) \
__CPROVER_requires(0 <= min_igrid->vc && min_igrid->vc <= src_igrid->vc && src_igrid->vc <= max_igrid->vc && max_igrid->vc <= NV_MAXN) \
__CPROVER_requires(1 <= radius && radius <= 4 * NV_MAXN && 1 <= nv_N && nv_N <= NV_MAXN && 0 <= nv_gpos) \
__CPROVER_assigns() \
__CPROVER_ensures(0 <= __CPROVER_return_value.n && __CPROVER_return_value.n <= nv_N) \
__CPROVER_ensures(nv_gpos >= __CPROVER_return_value.n || NV_CAND(__CPROVER_return_value.elemg))
#define NV_LOOP_tuner_local_search_1 \
__CPROVER_assigns(it, igrids) \
__CPROVER_loop_invariant(0 <= it.k && it.k <= it.total && it.total == nv_N && it.lim == 3 && it.cur.n == n_ && (it.k >= it.total || (0 <= it.cur.vc && it.cur.vc < 3)) \
  && 0 <= igrids.n && igrids.n <= it.k && (nv_gpos >= igrids.n || NV_CAND(igrids.elemg))) \
__CPROVER_decreases(it.total - it.k)

/* ---- make_min / make_max / make_avg_igrid, map_to_grid ------------------------------------------------------------- */
static struct nv_ivec nv_ivec_new(int64_t n) { struct nv_ivec v = nv_ivec_full(n, 0); v.vc = nv_nondet_int64_t(); v.other = nv_nondet_int64_t(); return v; }   /* igrid_t{n}: uninitialised */
/* igrid(i): coefficient i of an index vector */
static int64_t* nv_ivec_at(struct nv_ivec* v, int64_t i)
{
  __CPROVER_assert(0 <= i && i < v->n, "igrid(i): index inside the vector");
  if (i == nv_c) return &v->vc;
  v->other = nv_nondet_int64_t();
  return &v->other;
}
static struct nv_space* nv_spaces_at(struct nv_spaces* s, uint64_t i)
{
  __CPROVER_assert(i < (uint64_t)s->n, "spaces[i]: index inside the vector");
  int64_t k = nv_nondet_int64_t(); __CPROVER_assume(1 <= k && k <= NV_MAXN);
  s->cur.idx = (int64_t)i; s->cur.n = ((int64_t)i == nv_c) ? s->size_c : k;
  return &s->cur;
}
int64_t nv_w_space, nv_w_index; double nv_w_value; _Bool nv_row_isg;
static struct nv_ivec* nv_ivecs_at(struct nv_ivecs* v, uint64_t i)
{
  __CPROVER_assert(i < (uint64_t)v->n, "igrids[i]: index inside the vector");
  if ((int64_t)i == nv_gpos) { v->cur = v->elemg; v->cur.isg = 1; }
  else { v->cur = nv_ivec_new(v->elemg.n); v->cur.isg = 0; }
  nv_row_isg = v->cur.isg;
  return &v->cur;
}
/* space.values()(k): the k-th grid value of a parameter space.  "Only points of the given grids": k must be a valid
 * position of that space's value list -- obligation at the ghost (candidate, coefficient) */
static double nv_space_value(const struct nv_space* sp, int64_t k)
{
  double v = nv_nondet_double();
  if (sp->idx == nv_c && nv_row_isg)
  {
    __CPROVER_assert(0 <= k && k < sp->n, "space.values()(igrid(iparam)): a position of that space's grid");
    nv_w_space = sp->idx; nv_w_index = k; nv_w_value = v;
  }
  return v;
}
static struct nv_grid nv_grid_new(int64_t rows, int64_t cols)
{ struct nv_grid g; g.rows = rows; g.cols = cols; g.cell_gc = nv_nondet_double(); g.other = 0.0; return g; }
static double* nv_grid_at(struct nv_grid* g, int64_t r, int64_t c)
{
  __CPROVER_assert(0 <= r && r < g->rows && 0 <= c && c < g->cols, "values(itrial, iparam): inside the matrix (C16 index precondition)");
  return (r == nv_gpos && c == nv_c) ? &g->cell_gc : &g->other;
}
#define NV_SPACES_OK (__CPROVER_is_fresh(spaces, sizeof(*spaces)) && 0 <= spaces->n && spaces->n <= 64 && 1 <= spaces->size_c && spaces->size_c <= NV_MAXN)
#define NV_C_IN (0 <= nv_c && nv_c < spaces->n)
#define NV_RETV __CPROVER_return_value
/* the corner / centre grid points: coefficient c is the first / last / middle position of space c's grid */
#define NV_CONTRACT_tuner_make_min_igrid __CPROVER_requires(NV_SPACES_OK) __CPROVER_assigns() \
__CPROVER_ensures(NV_RETV.n == spaces->n && (!NV_C_IN || NV_RETV.vc == 0))
#define NV_CONTRACT_tuner_make_max_igrid __CPROVER_requires(NV_SPACES_OK) __CPROVER_assigns(spaces->cur) \
__CPROVER_ensures(NV_RETV.n == spaces->n && (!NV_C_IN || NV_RETV.vc == spaces->size_c - 1))
#define NV_LOOP_tuner_make_max_igrid_1 __CPROVER_assigns(iparam, igrid.vc, igrid.other, spaces->cur) \
__CPROVER_loop_invariant(0 <= iparam && iparam <= n_params && igrid.n == n_params && (nv_c < 0 || nv_c >= iparam || igrid.vc == spaces->size_c - 1)) \
__CPROVER_decreases(n_params - iparam)
#define NV_CONTRACT_tuner_make_avg_igrid __CPROVER_requires(NV_SPACES_OK) __CPROVER_assigns(spaces->cur) \
__CPROVER_ensures(NV_RETV.n == spaces->n && (!NV_C_IN || (NV_RETV.vc == spaces->size_c / 2 && 0 <= NV_RETV.vc && NV_RETV.vc <= spaces->size_c - 1)))
#define NV_LOOP_tuner_make_avg_igrid_1 __CPROVER_assigns(iparam, igrid.vc, igrid.other, spaces->cur) \
__CPROVER_loop_invariant(0 <= iparam && iparam <= n_params && igrid.n == n_params && (nv_c < 0 || nv_c >= iparam || igrid.vc == spaces->size_c / 2)) \
__CPROVER_decreases(n_params - iparam)

/* map_to_grid(spaces, igrids): requires every candidate to be a grid point (0 <= igrid(c) < number of values of space c:
 * local_search with min = make_min_igrid, max = make_max_igrid; make_avg_igrid); the cell (candidate g, space c) of the
 * result is the igrid(c)-th value of space c */
#define NV_CONTRACT_tuner_map_to_grid \
__CPROVER_requires(NV_SPACES_OK && __CPROVER_is_fresh(igrids, sizeof(*igrids)) && 0 <= igrids->n && igrids->n <= NV_MAXN && 0 <= nv_gpos) \
__CPROVER_requires(igrids->elemg.n == spaces->n && 0 <= igrids->elemg.vc && igrids->elemg.vc < spaces->size_c) \
__CPROVER_assigns(spaces->cur, igrids->cur, nv_w_space, nv_w_index, nv_w_value, nv_row_isg) \
__CPROVER_ensures(NV_RETV.rows == igrids->n && NV_RETV.cols == spaces->n) \
__CPROVER_ensures((!NV_C_IN || nv_gpos >= igrids->n) || (nv_w_space == nv_c && nv_w_index == igrids->elemg.vc && NV_SAME(NV_RETV.cell_gc, nv_w_value)))
#define NV_LOOP_tuner_map_to_grid_1 __CPROVER_assigns(itrial, values.cell_gc, values.other, spaces->cur, igrids->cur, nv_w_space, nv_w_index, nv_w_value, nv_row_isg) \
__CPROVER_loop_invariant(0 <= itrial && itrial <= n_trials && values.rows == n_trials && values.cols == n_params \
  && ((!NV_C_IN || nv_gpos >= itrial) || (nv_w_space == nv_c && nv_w_index == igrids->elemg.vc && NV_SAME(values.cell_gc, nv_w_value)))) \
__CPROVER_decreases(n_trials - itrial)
#define NV_LOOP_tuner_map_to_grid_2 __CPROVER_assigns(iparam, values.cell_gc, values.other, spaces->cur, igrid->other, nv_w_space, nv_w_index, nv_w_value) \
__CPROVER_loop_invariant(0 <= iparam && iparam <= n_params && values.rows == n_trials && values.cols == n_params && igrid == &igrids->cur \
  && igrid->isg == (itrial == nv_gpos) && nv_row_isg == igrid->isg && (!igrid->isg || (igrid->n == spaces->n && igrid->vc == igrids->elemg.vc)) && (igrid->isg || igrid->n == spaces->n) \
  && ((!NV_C_IN || (itrial == nv_gpos ? nv_c >= iparam : nv_gpos >= itrial)) || (nv_w_space == nv_c && nv_w_index == igrids->elemg.vc && NV_SAME(values.cell_gc, nv_w_value)))) \
__CPROVER_decreases(n_params - iparam)
