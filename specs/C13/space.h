/* C13 (back end A): param_space_t::closest_grid_point_from_surrogate -- the surrogate tuner proposes grid positions only:
 * the result is a valid position of the space's grid for every query value (NaN and infinities included). */
#include "nv_tensor.h"
struct nv_pspace { struct nv_t1d m_grid_values; };
static double nv_grid_value(const struct nv_pspace* s, int64_t k)
{
  __CPROVER_assert(0 <= k && k < s->m_grid_values.n, "m_grid_values(point): index inside the tensor");
  return s->m_grid_values.p[k];
}
static double nv_to_surrogate(const struct nv_pspace* s, double v) { return nv_nondet_double(); }   /* log10 / linear rescaling: any double */
static double nv_fabs(double a) { return __builtin_fabs(a); }
#define NV_DBL_MAX 1.7976931348623157e308
#define NV_CONTRACT_space_closest_grid_point \
__CPROVER_requires(__CPROVER_is_fresh(self, sizeof(*self)) && NV_T1D_OK(self->m_grid_values) && self->m_grid_values.n >= 1) \
__CPROVER_assigns() \
__CPROVER_ensures(0 <= __CPROVER_return_value && __CPROVER_return_value < self->m_grid_values.n)
#define NV_LOOP_space_closest_grid_point_1 \
__CPROVER_assigns(point, min_distance, closest_point) \
__CPROVER_loop_invariant(0 <= point && point <= self->m_grid_values.n && 0 <= closest_point && closest_point < self->m_grid_values.n) \
__CPROVER_decreases(self->m_grid_values.n - point)
