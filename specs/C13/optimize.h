/* C13: prelude of the tuner_t::optimize target = common part + the contract of the virtual do_optimize it calls */
#include "opt_common.h"
void tuner_do_optimize(struct nv_tuner* self, struct nv_spaces* spaces, struct nv_callback* callback, struct nv_logger* logger, struct nv_steps* steps)
NV_CONTRACT_tuner_do_optimize;
