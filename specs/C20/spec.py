import astload
from core import Fn, Target, VC

TU = 'drivers/inst_hist.cpp'
TYPES = [(r'tensor_mem_t<double, 1>|tensor_t<nano::tensor_vector_storage_t, double, 1', 'struct nv_t1d'),
         (r'tensor_mem_t<long, 1>|tensor_t<nano::tensor_vector_storage_t, long, 1', 'struct nv_t1i'),
         (r'Matrix<double, -1, 1, 0.*>::Scalar$', 'double')]
STD = [(r'^begin\|', '{0}.p'), (r'^end\|', '({0}.p + {0}.n)'),
       (r'^upper_bound\|const double \*\(const double \*, const double \*, const (long|double) &\)', 'nv_upper_bound_f64({0}, {1}, (double)({2}))'),
       (r'^distance\|', '({1} - {0})')]


def targs(*want):
    return lambda d: astload.template_args(d) == list(want)


def build(tier):
    common = dict(self_struct='struct nv_histogram', types=TYPES, calls=STD, members=[(r'^bins\|', 'nv_hist_bins')])
    bin_f64 = Fn('histogram_bin_f64', TU, 'bin', flt='nano::histogram_t', select=targs('double'), **common)
    bin_i64 = Fn('histogram_bin_i64', TU, 'bin', flt='nano::histogram_t', select=targs('long'), **common)
    targets = [Target('bin_f64', [bin_f64], 'specs/C20/bin.h'), Target('bin_i64', [bin_i64], 'specs/C20/bin.h')]
    return {
        'targets': targets, 'vcs': [],
        'decided': ['bin(v) equals the counting rule #{j: t_j <= v} for every finite real v and every integer |v| <= 2^53, for every sorted threshold list of symbolic length'],
        'not_decided': ['float value of the bin means', 'make_from_exponents (log/pow)'],
        'assumptions': ['std::upper_bound returns the partition point of a partitioned range (assumed contract, stated at a ghost index)',
                        'thresholds are sorted and not NaN (established by the constructor: std::sort)'],
        'trusted': [],
    }


def replay(rp):
    """bin: the counterexample's query value and the threshold at the ghost position, against the real histogram_t"""
    import replaylib
    out = {'reproduced': False, 'runs': []}
    exe = replaylib.build_header_only('replay/C20_replay.cpp', 'C20_replay')
    for fo in rp['failed_obligations']:
        ce = fo.get('counterexample') or {}
        v = ce.get('value')
        thr = ce.get('nv_w_thr', ce.get('nv_upper_bound_f64::nv_w_thr'))
        if v is None:
            continue
        cands = [[thr]] if thr is not None else []
        cands += [[0.25], [0.0]]
        for th in cands:
            for q in ([v] if thr is not None and th == [thr] else [v, 0.5, -0.5]):
                try:
                    rc, so, se = replaylib.run_driver(exe, ['bin', repr(float(q))] + [repr(float(t)) for t in th])
                except Exception as e:
                    out['runs'].append({'error': repr(e)})
                    continue
                out['runs'].append({'obligation': fo['id'], 'query': q, 'thresholds': th, 'exit': rc, 'output': so.strip()})
                if rc == 1:
                    out['reproduced'] = True
    return out
