import astload
from core import Fn, Target, VC

TU = 'drivers/inst_hist.cpp'
TYPES = [(r'tensor_mem_t<double, 1>|tensor_t<nano::tensor_vector_storage_t, double, 1', 'struct nv_t1d'),
         (r'tensor_mem_t<long, 1>|tensor_t<nano::tensor_vector_storage_t, long, 1', 'struct nv_t1i'),
         (r'Matrix<double, -1, 1, 0.*>::Scalar$', 'double')]
STD = [(r'^begin\|', '{0}.p'), (r'^end\|', '({0}.p + {0}.n)'),
       (r'^upper_bound\|const double \*\(const double \*, const double \*, const (long|double) &\)', 'nv_upper_bound_f64({0}, {1}, (double)({2}))'),
       (r'^lower_bound\|const double \*\(const double \*, const double \*, const (long|double) &\)', 'nv_lower_bound_f64({0}, {1}, (double)({2}))'),
       (r'^distance\|', '({1} - {0})')]


def targs(*want):
    return lambda d: astload.template_args(d) == list(want)


def percentile_vcs():
    """detail::percentile (every instantiation): result = value(s) of the sorted list at position p(n-1)/100, midpoint of
    the two neighbours when fractional; from_position is called only with indices in [0, n-1] (over the reals)"""
    import nvwp
    from nvwp import V
    from wplib import IdEnvWP, reach_vc
    hdr = astload.REPO + '/include/nano/core/stats.h'
    docs = astload.dump(TU, 'nano::')
    cands = [d for d in astload.find_definitions(docs, 'percentile') if len(astload.param_types(d)) == 4 and astload.template_args(d)]
    if not cands:
        raise astload.ExtractionError('detail::percentile: no instantiation found')
    vcs, fns = [], []
    for k, fn in enumerate(cands):
        name = f'detail::percentile#{k}'
        wp = IdEnvWP(name, real=True)
        wp.decls.append('(declare-fun F (Int) Real)')      # from_position: the value at a position (sorted list)
        n = wp.const('n', 'Int', 'long')
        p = wp.const('p', 'Real', 'double')
        wp.assume('(and (>= n 1) (<= n 70368744177664))')      # n <= 2^46: p(n-1) exactly representable at the endpoints
        wp.assume('(and (>= p 0.0) (<= p 100.0))')
        keys = wp.bind_params(fn)
        wp.env[keys[0][0]] = V('begin', 'Opaque', None)
        wp.env[keys[1][0]] = V('end', 'Opaque', None)
        wp.env[keys[2][0]] = p
        wp.env[keys[3][0]] = V('from_position', 'Opaque', None)

        def h_distance(w, node, args, callee):
            return V('n', 'Int', 'long')

        def h_from(w, node, args, callee):
            idx = w.ev(args[1])
            w.oblige('from_position is called with an index in [0, n-1]', f'(and (<= 0 {idx.t}) (<= {idx.t} (- n 1)))', node)
            return V(f'(F {idx.t})', 'Real', 'double')
        wp.calls = [(r'^distance\|', h_distance), (r'^operator\(\)\|.*lambda', h_from),
                    (r'^floor\|', lambda w, node, a, c: V(f'(rfloor {w.conv(w.ev(a[0]), "Real", "double").t})', 'Real', 'double')),
                    (r'^ceil\|', lambda w, node, a, c: V(f'(rceil {w.conv(w.ev(a[0]), "Real", "double").t})', 'Real', 'double'))]

        def post(w, rv):
            pos = '(/ (* p (to_real (- n 1))) 100.0)'
            lo = f'(to_int {pos})'
            return [('percentile = sorted value at position p(n-1)/100, midpoint of the two neighbours when fractional',
                     f'(= {rv.t} (ite (= (to_real {lo}) {pos}) (F {lo}) (/ (+ (F {lo}) (F (+ {lo} 1))) 2.0)))')]
        wp.post = post
        wp.run(fn, hdr)
        vcs += wp.vcs(name, hdr, 'percentile position arithmetic')
        vcs.append(reach_vc(wp, name, hdr))
        fns.append({'c_name': name, 'cxx': 'nano::detail::percentile<' + ', '.join(astload.template_args(fn))[:70] + '>', 'file': hdr,
                    'line': fn.get('loc', {}).get('line'), 'sha': astload.file_hash(hdr)})
    # the instance the median wrappers use (specs/C20/stats.h NV_MEDIAN_OF): the rule proved above, at p = 50, is the middle order
    # statistic for odd n and the mean of the two middle ones for even n (a lemma about the rule, proved once)
    lemma = """(declare-fun F (Int) Real)
(declare-const n Int)
(assert (>= n 1))
(define-fun pos () Real (/ (* 50.0 (to_real (- n 1))) 100.0))
(define-fun lo () Int (to_int pos))
(define-fun rule () Real (ite (= (to_real lo) pos) (F lo) (/ (+ (F lo) (F (+ lo 1))) 2.0)))
(define-fun med () Real (ite (= (mod n 2) 1) (F (div (- n 1) 2)) (/ (+ (F (- (div n 2) 1)) (F (div n 2))) 2.0)))
(assert (not (= rule med)))
(check-sat)
"""
    vcs.append(VC('detail::percentile/median_instance: the percentile rule at p = 50 is F((n-1)/2) for odd n and (F(n/2-1) + F(n/2))/2 for even n', lemma,
                  about='lemma linking the proved percentile rule to the median reference', source={'file': hdr}))
    return vcs, fns


def first_of(pred):
    """selects the first definition (in AST order) that satisfies pred: the instantiations share one template body"""
    seen = []

    def sel(d):
        if not pred(d):
            return False
        key = (astload.param_types(d), astload.template_args(d))
        if not seen:
            seen.append(key)
        return seen[0] == key
    return sel


def build(tier):
    common = dict(self_struct='struct nv_histogram', types=TYPES, calls=STD, members=[(r'^bins\|', 'nv_hist_bins')])
    bin_f64 = Fn('histogram_bin_f64', TU, 'bin', flt='nano::histogram_t', select=targs('double'), **common)
    bin_i64 = Fn('histogram_bin_i64', TU, 'bin', flt='nano::histogram_t', select=targs('long'), **common)
    targets = [Target('bin_f64', [bin_f64], 'specs/C20/bin.h'), Target('bin_i64', [bin_i64], 'specs/C20/bin.h')]
    ptypes = lambda *want: (lambda d: astload.param_types(d) == list(want))
    import ext
    stdmap = [(r'^nth_element\|', 'nv_nth_element_f64({0}, {1}, {2})'), (r'^max_element\|', 'nv_max_element_f64({0}, {1})'),
              (r'^percentile_sorted\|', 'nv_percentile_sorted({0}, {1}, {2})'), (r'^percentile\|', 'nv_percentile_unsorted({0}, {1}, {2})')] + ext.ITER_CALLS
    fps = Fn('from_position_sorted', TU, 'percentile_sorted', flt='nano::', select=ptypes('const double *', 'const double *', 'const double'),
             lambda_index=0, extra_params=['const double* begin'], calls=stdmap)
    fpu = Fn('from_position_unsorted', TU, 'percentile', flt='nano::', select=ptypes('double *', 'double *', 'const double'),
             lambda_index=0, extra_params=['double* begin', 'double* end'], calls=stdmap)
    med_s = Fn('median_sorted', TU, 'median_sorted', flt='nano::', select=ptypes('const double *', 'const double *'), calls=stdmap, hooks=[ext.iter_default_hook])
    med = Fn('median', TU, 'median', flt='nano::', select=ptypes('double *', 'double *'), calls=stdmap, hooks=[ext.iter_default_hook])
    hcalls = [(r'^operator\(\)\|.*tensor_vector_storage_t, (double|long), 1', '{0}.p[{1}]'),
              (r'^upper_bound\|(double|long|signed char|short|int) \*\((double|long|signed char|short|int) \*, (double|long|signed char|short|int) \*, const double &, \(lambda', 'nv_upper_bound_cmp({0}, {1}, {2})'),
              (r'^lower_bound\|(double|long|signed char|short|int) \*\((double|long|signed char|short|int) \*, (double|long|signed char|short|int) \*, const (double|long|signed char|short|int) &\)', 'nv_lower_bound_elem({0}, {1}, {2})'),
              (r'^distance\|', '({1} - {0})'), (r'^quiet_NaN\|', 'nv_quiet_nan()'),
              (r'^median_sorted\|', 'nv_median_sorted_range({0}, {1})'), (r'^mean\|nano::scalar_t \((double|long|signed char|short|int) \*, (double|long|signed char|short|int) \*', 'nv_mean_range({0}, {1}, {2})')]
    hmembers = [(r'^size\|.*tensor_base_t<double, 1', 'nv_t1d_size'), (r'^resize\|.*tensor_vector_storage_t(, |<)double, 1', 'nv_t1d_resize'),
                (r'^resize\|.*tensor_vector_storage_t(, |<)long, 1', 'nv_t1i_resize'), (r'^(zero|full)\|', 'nv_fill_erased()'),
                (r'^update_bin\|', 'update_bin_cov'), (r'^mean\|.*histogram_t.*#3', 'nv_mean_range({0}, {1}, {2})')]
    hk = dict(self_struct='struct nv_histogram', types=TYPES, calls=hcalls, members=hmembers)
    upd = Fn('histogram_update', TU, 'update', flt='nano::histogram_t', select=targs('double *'), **hk)
    hk_nolam = dict(hk)
    hk_nolam.pop('self_struct')
    updop = lambda: Fn('update_op', TU, 'update', flt='nano::histogram_t', select=targs('double *'), lambda_index=0, optional=True, **hk_nolam)
    updbin = Fn('update_bin', TU, 'update_bin', flt='nano::histogram_t', select=targs('double *'), **hk)
    # integer-valued lists ("lists of 1..500 integers or reals"): the same contracts on the long* instantiation
    upd_i = Fn('histogram_update', TU, 'update', flt='nano::histogram_t', select=targs('long *'), **hk)
    updop_i = lambda: Fn('update_op', TU, 'update', flt='nano::histogram_t', select=targs('long *'), lambda_index=0, optional=True, **hk_nolam)
    updbin_i = Fn('update_bin', TU, 'update_bin', flt='nano::histogram_t', select=targs('long *'), **hk)
    targets += [Target('histogram_update_i64', [upd_i, updop_i()], 'specs/C20/update.h', replace=['update_op'], defines=['NV_ELEM=int64_t']),
                Target('update_op_i64', [updop_i()], 'specs/C20/update.h', defines=['NV_ELEM=int64_t']),
                Target('update_bin_i64', [updbin_i], 'specs/C20/update.h', defines=['NV_ELEM=int64_t'])]
    # narrow integer sample types (int32_t; int16_t and int8_t in the thorough tier: byte-sized elements cost CBMC 3-5x more): the same contracts
    for tag, cxx, cty in [('i32', 'int', 'int32_t')] + ([('i16', 'short', 'int16_t'), ('i8', 'signed char', 'int8_t')] if tier == 'thorough' else []):
        mk_upd = lambda cxx=cxx: Fn('histogram_update', TU, 'update', flt='nano::histogram_t', select=targs(cxx + ' *'), **hk)
        mk_op = lambda cxx=cxx: Fn('update_op', TU, 'update', flt='nano::histogram_t', select=targs(cxx + ' *'), lambda_index=0, optional=True, **hk_nolam)
        mk_bin = lambda cxx=cxx: Fn('update_bin', TU, 'update_bin', flt='nano::histogram_t', select=targs(cxx + ' *'), **hk)
        targets += [Target(f'histogram_update_{tag}', (lambda a=mk_upd, b=mk_op: [a(), b()]), 'specs/C20/update.h', enforce='histogram_update', replace=['update_op'], defines=[f'NV_ELEM={cty}']),
                    Target(f'update_bin_{tag}', (lambda a=mk_bin: [a()]), 'specs/C20/update.h', enforce='update_bin', defines=[f'NV_ELEM={cty}'])]
    targets += [Target('histogram_update', [upd, updop()], 'specs/C20/update.h', replace=['update_op']),
                Target('update_op', [updop()], 'specs/C20/update.h'), Target('update_bin', [updbin], 'specs/C20/update.h')]
    targets += [Target('from_position_sorted', [fps], 'specs/C20/stats.h'), Target('from_position_unsorted', [fpu], 'specs/C20/stats.h'),
                Target('median_sorted', [med_s], 'specs/C20/stats.h'), Target('median', [med], 'specs/C20/stats.h')]
    # bounded stand-in: the position arithmetic in IEEE doubles for integer percentages and n <= 64 (specs/C20/position.h)
    pos = Fn('detail_percentile', TU, 'percentile', flt='nano::detail::percentile', uf_float=False,
             select=first_of(lambda d: len(astload.param_types(d)) == 4 and astload.param_types(d)[0] == 'double *'),
             types=[(r'\(lambda', 'int32_t')],
             calls=[(r'^distance\|', '({1} - {0})'), (r'^floor\|', 'floor({0})'), (r'^ceil\|', 'ceil({0})'),
                    (r'^operator\(\)\|.*\(lambda', 'nv_from_position({1})')])
    tpos = Target('percentile_position_ieee', [pos], 'specs/C20/position.h', timeout=200)
    tpos.bound = 'n <= 64 values, integer percentages 0..100'
    tpos.note = 'IEEE evaluation of the percentile position: lpos/rpos are the exact floor/ceiling of P(n-1)/100'
    import ext
    targets += ext.mean_targets(tier)
    update_fns = lambda cxx: [Fn('histogram_update', TU, 'update', flt='nano::histogram_t', select=targs(cxx + ' *'), **hk),
                              Fn('update_op', TU, 'update', flt='nano::histogram_t', select=targs(cxx + ' *'), lambda_index=0, optional=True, **hk_nolam)]
    targets += ext.ctor_targets(tier, update_fns)
    targets += ext.factory_targets(tier, update_fns)
    pv, pf = percentile_vcs()
    return {
        'targets': targets, 'vcs': pv, 'functions': pf, 'bounded': [tpos],
        'decided': ['histogram_t::update (double, int64, int32 samples; int16 / int8 in the thorough tier): bins = thresholds+1 slots in buffers of their own, the bins are consecutive ranges of the sorted values that tile them exactly once, a value lies in bin b only if t_{b-1} <= v < t_b and -- the thresholds being sorted -- only if b = #{j : t_j <= v} (the counting rule of bin(v), at a ghost threshold), count = range length; the precondition of its std::upper_bound calls (range partitioned w.r.t. the comparator) follows from the sorted values',
                    'update_bin: count / mean / median over exactly its range, NaN for an empty bin; mean is called with count == distance(begin, end) > 0',
                    'histogram_t::mean for int16 / double samples (int8 / int32 / int64 in the thorough tier): the accumulator of std::accumulate has type scalar_t (the type of init), starts at 0, every step of the fold adds the element CONVERTED to scalar_t (the extracted lambda, with CBMC\'s overflow / conversion obligations), the result is that sum divided by count; update_bin stores exactly this value',
                    'constructor histogram_t(begin, end, thresholds) (int32 samples; int8 / int16 / int64 / double thorough): establishes the representation invariant (values sorted, thresholds sorted and not NaN, at ghost indices, from std::sort\'s contract), owns the thresholds it was given, and calls update() INSIDE its precondition (update is replaced by its contract: every requires clause is an obligation at the call site); its postcondition is the partition / counting-rule clause of the property for thresholds given directly',
                    'make_from_thresholds (int64 samples; int16 / int32 / double thorough): constructs exactly one histogram over the WHOLE value list with the thresholds it was given, inside the constructor\'s precondition (constructor replaced by its contract)',
                    'make_from_percentiles / make_from_ratios (thorough tier; int64 and double samples): the values and the parameter list are sorted first, percentile_sorted is called INSIDE its precondition (whole non-empty list, sorted values, percentage in [0, 100]), threshold i handed to the constructor is percentile_sorted(values, p_i) resp. min + r_i (max - min) with min / max the smallest / largest value (at a ghost position; operand order of the commutative + and * free), one threshold per parameter, and the constructor is called once, inside its precondition, on the WHOLE value list (`*--end; ++end` restores end)',
                    'the position->value lambdas of percentile_sorted (value stored at the position) and percentile (k-th smallest via nth_element)',
                    'median / median_sorted against the sorted-array reference: the middle order statistic for odd n, the mean of the two middle ORDER STATISTICS for even n; std::nth_element is given exactly its standard contract (nth is the order statistic, left part <=, right part >=, nothing about the order inside the parts), so `*std::prev(middle)` after one nth_element is refuted while `*std::max_element(begin, middle)` and the library\'s own two-call version are proved; std::prev / next / advance / distance on the pointer iterators',
                    'detail::percentile (all instantiations, now also those of the integer histograms): result is the sorted value at position p(n-1)/100 (midpoint when fractional), positions stay in [0, n-1] (over the reals, n <= 2^46); lemma: at p = 50 that rule is the median reference',
                    'bin(v) equals the counting rule #{j: t_j <= v} for every finite real v and every integer |v| <= 2^53, for every sorted threshold list of symbolic length'],
        'not_decided': ['float value of the bin means (rounding of the scalar_t fold; + and / are uninterpreted: the SHAPE sum/count is decided)',
                        'make_from_exponents (log / pow), make_equidistant_* (src/core/histogram.cpp), the (begin, end, bins) overloads of the factories that call them',
                        'computed thresholds are not NaN (percentile_sorted / min + r (max - min) of finite values: float arithmetic is uninterpreted); the constructor\'s std::sort contract is assumed for them as for given thresholds',
                        'the percentile / percentile_sorted WRAPPERS (capture initialisers of the lambdas handed to detail::percentile) are composed by hand in the stubs of median / median_sorted (NV_MEDIAN_OF), not extracted',
                        'that the sorted values are a permutation of the input (std::sort\'s other clause; not used by any obligation)',
                        'x / 2 rewritten as 0.5 * x in the fractional percentile (exact in IEEE, different uninterpreted terms: would be a false alarm)'],
        'assumptions': ['std::nth_element: the range is permuted, *nth is the element a full sort would put there (for the whole list, and for the left / right part of an earlier partition of the whole list), elements before are <=, elements after are >= (assumed contract, at a ghost position); std::max_element returns a maximal element (on the left part of a partition at k: the order statistic k-1)',
                        'std::sort (operator<): given its precondition (no NaN among the elements: the property quantifies over lists of integers / reals) the range is ascending afterwards (assumed contract, at ghost positions; nothing else about the havocked range)',
                        'std::accumulate(first, last, init[, op]): T acc = init with T the type of init; acc = op(acc, *it) / acc + *it for every element in order (assumed contract; one generic step of the fold is checked on the extracted lambda); IEEE + is commutative',
                        'std::prev / std::next without a distance move by 1 ([iterator.operations]); pointer iterators',
                        'IEEE double treated as real for the percentile position arithmetic',
                        'std::upper_bound / lower_bound return the partition point of a partitioned range (assumed contract, stated at a ghost index; the partition precondition itself is now an obligation in update)',
                        'bin(v): thresholds are sorted and not NaN (established by the constructor: proved, see ctor_*) and counts.size == thresholds.size + 1 (established by update: proved)',
                        'make_from_percentiles / make_from_ratios: every percentile lies in (0, 100) / every ratio in (0, 1) (the factories\' documented preconditions: their asserts), assumed for the cell at the ghost position after std::sort',
                        'malloc succeeds in the tensor resize / construction stubs'],
        'trusted': [],
    }


def replay(rp):
    """bin: the counterexample's query value and the threshold at the ghost position, against the real histogram_t"""
    import replaylib
    out = {'reproduced': False, 'runs': []}
    exe = replaylib.build_header_only('replay/C20_replay.cpp', 'C20_replay')
    if 'percentile_position' in rp['target']:
        seen = set()
        for fo in rp['failed_obligations']:
            ce = fo.get('counterexample') or {}
            try:
                P, n = int(str(ce.get('nv_P')).rstrip('l')), int(str(ce.get('nv_n')).rstrip('l'))
            except (TypeError, ValueError):
                continue
            if (P, n) in seen:
                continue
            seen.add((P, n))
            rc, so, se = replaylib.run_driver(exe, ['pct', P, n])
            out['runs'].append({'obligation': fo['id'], 'percentage': P, 'n': n, 'exit': rc, 'output': so.strip()})
            if rc == 1:
                out['reproduced'] = True
        return out
    if rp['target'].startswith('mean_'):
        # per-bin sums that do not fit the sample type (the verifier's counterexample is one overflowing step of the fold)
        kind = {'mean_i8': 'b', 'mean_i16': 's', 'mean_i32': 'w', 'mean_i64': 'i'}.get(rp['target'].replace('mean_op_', 'mean_'), 'd')
        big = {'b': 100, 's': 30000, 'w': 2000000000, 'i': 9000000000000000000, 'd': 1}[kind]
        for th, vals in [([0.5], [big, big, big, -big, -big, -big]), ([0.5], [big, big - 1, 1, 2, -3])]:
            rc, so, se = replaylib.run_driver(exe, ['hist', kind, len(th)] + [repr(float(t)) for t in th] + [repr(x) for x in vals])
            out['runs'].append({'values': kind, 'thresholds': th, 'list': vals, 'exit': rc, 'output': so.strip()[-600:]})
            if rc == 1:
                out['reproduced'] = True
        return out
    if rp['target'].startswith(('ctor_', 'make_')):
        # thresholds handed over in non-ascending order (the representation invariant is the constructor's to establish)
        for kind, th, vals in [('d', [2.5, 0.5, -1.5], [-3, -2, -1.5, 0, 0.5, 1, 2, 2.5, 3]), ('i', [3.0, 1.0, 2.0, 1.0], [0, 1, 1, 2, 3, 4]),
                               ('d', [-1.5, 0.5, 2.5], [3, -2, 2.5, 0, 0.5, -3, 2, -1.5, 1])]:
            rc, so, se = replaylib.run_driver(exe, ['hist', kind, len(th)] + [repr(float(t)) for t in th] + [repr(x) for x in vals])
            out['runs'].append({'values': kind, 'thresholds': th, 'list': vals, 'exit': rc, 'output': so.strip()[-600:]})
            if rc == 1:
                out['reproduced'] = True
        return out
    if rp['target'].startswith('median') or rp['target'].startswith('percentile_unsorted'):
        for vals in [[1, 2, 3, 5, 4, 6], [4, 1, 3, 2], [7, -1, 3, 3, 0, 9, 2, 5], [2.5, -0.5, 1.5, 0.25]]:
            rc, so, se = replaylib.run_driver(exe, ['med'] + [repr(float(x)) for x in vals])
            out['runs'].append({'list': vals, 'exit': rc, 'output': so.strip()[-600:]})
            if rc == 1:
                out['reproduced'] = True
        return out
    if 'update' in rp['target']:
        # counting-rule violations of update(): probe lists (integer- and real-valued, with ties, fractional and repeated
        # thresholds) around the solver's threshold / value witnesses
        probes = [('i', [-1.5, 0.5, 2.5], [-3, -2, -1, 0, 0, 1, 2, 2, 3]), ('d', [-1.5, 0.5, 2.5], [-3, -2, -1.5, 0, 0.5, 1, 2, 2.5, 3]),
                  ('i', [2.0, 2.0], [1, 2, 2, 3]), ('d', [0.25], [0.0, 0.25, 0.5]), ('i', [0.5], [0, 0, 1])]
        for kind, th, vals in probes:
            rc, so, se = replaylib.run_driver(exe, ['hist', kind, len(th)] + [repr(float(t)) for t in th] + [repr(x) for x in vals])
            out['runs'].append({'values': kind, 'thresholds': th, 'list': vals, 'exit': rc, 'output': so.strip()[-600:]})
            if rc == 1:
                out['reproduced'] = True
        return out
    for fo in rp['failed_obligations']:
        ce = fo.get('counterexample') or {}
        v = ce.get('value')
        thr = ce.get('nv_w_thr', ce.get('nv_upper_bound_f64::nv_w_thr'))
        if v is None:
            continue
        probes = []
        if thr is not None:
            probes += [([thr], v), ([thr, thr], v), ([thr, thr], thr), ([thr, thr, thr], thr)]
        probes += [([0.25], v), ([0.0], v), ([0.25], 0.5), ([0.0], -0.5), ([2.0, 2.0], 2.0), ([1.0, 2.0, 2.0, 3.0], 2.0)]
        for th, q in probes:
            try:
                rc, so, se = replaylib.run_driver(exe, ['bin', repr(float(q))] + [repr(float(t)) for t in th])
            except Exception as e:
                out['runs'].append({'error': repr(e)})
                continue
            out['runs'].append({'obligation': fo['id'], 'query': q, 'thresholds': th, 'exit': rc, 'output': so.strip()})
            if rc == 1:
                out['reproduced'] = True
    return out
