/* C20: the constructor histogram_t(begin, end, thresholds) and the factories ESTABLISH the representation invariant that
 * update() and bin() rely on (specs/C20/update.h: NV_VALUES_SORTED, NV_THR_SORTED at the ghost indices), and call update()
 * inside its precondition: update() is replaced by its contract (DFCC), so every `requires` clause of
 * NV_CONTRACT_histogram_update is an OBLIGATION at the call site in the constructor; the constructor's postcondition is the
 * property's clause for "thresholds given directly": the bins partition the sorted values by the counting rule. */
#include "update.h"
#ifdef NV_FACTORY
double nv_vmin, nv_vmax;     /* ghost (prophecy): the values std::sort leaves at positions 0 and n-1, as scalars */
union nv_bits { double d; uint64_t u; };
#define NV_IDENT(a, b) (((union nv_bits){ .d = (a) }).u == ((union nv_bits){ .d = (b) }).u)
#endif

/* ASSUMED contract of std::sort(first, last) (operator<), given ITS precondition (operator< is a strict weak order on the
 * elements: no NaN among them -- the property quantifies over lists of integers / reals): afterwards the range is in ascending
 * order.  Stated at the ghost positions only (a sound weakening); the cells at the ghost positions are recorded in the ghost
 * values the invariant is phrased over.  One stub for both calls: the value list is recognised by its object. */
static void nv_sort_values(NV_ELEM* first, NV_ELEM* last)
{
  __CPROVER_assert(__CPROVER_same_object(first, nv_base) && __CPROVER_same_object(last, nv_base) && nv_base <= first && first <= last && last <= nv_base + nv_n, "std::sort: a sub-range of the values");
  int64_t n = last - first;
  /* (cells are accessed through the pointer that OWNS the block (the one under __CPROVER_is_fresh): a pointer known only through
   * an equality has no points-to set.  Default: the ghost nv_base owns it; NV_OWNER_PARAM: the caller's `begin` does, and `first`
   * is derived from it) */
#ifdef NV_OWNER_PARAM
#define NV_VCELL(k) first[(k) - (first - nv_base)]
  __CPROVER_havoc_object(first);
#else
#define NV_VCELL(k) nv_base[k]
  __CPROVER_havoc_object(nv_base);
#endif
  int64_t p = nv_gp - (first - nv_base), q = nv_gq - (first - nv_base);
  if (0 <= p && p < n) nv_ev = NV_VCELL(nv_gp);
  if (0 <= q && q < n) nv_ew = NV_VCELL(nv_gq);
  if (0 <= p && p < n) __CPROVER_assume(NV_TOD(nv_ev) == NV_TOD(nv_ev));            /* not NaN */
  if (0 <= q && q < n) __CPROVER_assume(NV_TOD(nv_ew) == NV_TOD(nv_ew));
  if (0 <= p && p <= q && q < n) __CPROVER_assume(nv_ev <= nv_ew);
  if (0 <= q && q <= p && p < n) __CPROVER_assume(nv_ew <= nv_ev);
  nv_gv = NV_TOD(nv_ev);
#ifdef NV_FACTORY
  /* the cells at positions 0 and n-1 (min / max of a sorted list), named by prophecy ghosts */
  if (first == nv_base && n == nv_n && n > 0)
  {
    __CPROVER_assume(NV_IDENT(NV_TOD(NV_VCELL(0)), nv_vmin) && NV_IDENT(NV_TOD(NV_VCELL(nv_n - 1)), nv_vmax));
    if (0 <= p && p < n) __CPROVER_assume(nv_vmin <= nv_gv && nv_gv <= nv_vmax);
  }
#endif
}
double* nv_thr_base; int64_t nv_thr_n;    /* ghost: the threshold buffer handed to the constructor */
static void nv_sort_thresholds(double* first, double* last)
{
  __CPROVER_assert(__CPROVER_same_object(first, last) && first <= last, "std::sort: a valid range");
  int64_t n = last - first;
  __CPROVER_havoc_object(first);
  int64_t j = nv_gj, lo = nv_gb - 1, hi = nv_gb;   /* positions relative to `first` (nv_thr_base is compared by value only) */
  if (0 <= j && j < n) { nv_tj = first[j]; __CPROVER_assume(nv_tj == nv_tj); }
  if (0 <= lo && lo < n) { nv_tlo = first[lo]; __CPROVER_assume(nv_tlo == nv_tlo); }
  if (0 <= hi && hi < n) { nv_thi = first[hi]; __CPROVER_assume(nv_thi == nv_thi); }
  if (0 <= j && j <= lo && lo < n) __CPROVER_assume(nv_tj <= nv_tlo);
  if (0 <= hi && hi <= j && j < n) __CPROVER_assume(nv_thi <= nv_tj);
  if (0 <= lo && hi < n) __CPROVER_assume(nv_tlo <= nv_thi);
}
/* double samples: both std::sort calls have the same C++ signature */
#ifndef NV_ELEM_INT
static void nv_sort_any(double* first, double* last)
{
  if (__CPROVER_same_object(first, nv_base)) nv_sort_values(first, last); else nv_sort_thresholds(first, last);
}
#endif

/* where the contract is ASSUMED in place of a call (the factories: specs/C20/factory.h) the clauses that read cells through the
 * havocked object are left out (a weaker assumption) */
#ifdef NV_FACTORY
#define NV_CTOR_CELLS(clause)
#else
#define NV_CTOR_CELLS(clause) clause
#endif
#define NV_CTOR_THR NV_ARG_hist_ctor_3
#define NV_CONTRACT_hist_ctor \
__CPROVER_requires(__CPROVER_is_fresh(self, sizeof(*self)) && NV_HIST_VALUES && NV_T1D_OK(NV_CTOR_THR) && NV_CTOR_THR.n >= 1) \
__CPROVER_requires(NV_ARG_hist_ctor_1 == nv_base && NV_ARG_hist_ctor_2 == nv_base + nv_n && nv_cov == 0 && nv_calls == 0 && !nv_seen) \
__CPROVER_requires(nv_thr_base == NV_CTOR_THR.p && nv_thr_n == NV_CTOR_THR.n) \
__CPROVER_requires(0 <= nv_gb && nv_gb <= NV_CTOR_THR.n && 0 <= nv_gp && nv_gp < nv_n && 0 <= nv_gq && nv_gq < nv_n && 0 <= nv_gj && nv_gj < NV_CTOR_THR.n) \
__CPROVER_assigns(*self, __CPROVER_object_whole(nv_base), __CPROVER_object_whole(NV_CTOR_THR.p)) \
__CPROVER_assigns(nv_cov, nv_calls, nv_lo, nv_hi, nv_seen, nv_ev, nv_ew, nv_gv, nv_tj, nv_tlo, nv_thi) \
/* the histogram owns the thresholds it was given, and one slot per bin */ \
__CPROVER_ensures(self->m_thresholds.p == nv_thr_base && self->m_thresholds.n == nv_thr_n && self->m_bin_counts.n == nv_thr_n + 1) \
/* REPRESENTATION INVARIANT: values sorted, thresholds sorted and not NaN (at the ghost indices) */ \
NV_CTOR_CELLS(__CPROVER_ensures(NV_GHOST_CELLS(nv_base, nv_n, self->m_thresholds))) \
__CPROVER_ensures(NV_VALUES_SORTED && NV_THR_SORTED(self->m_thresholds.n)) \
/* the bins partition the sorted values: consecutive ranges, every bin filled once, everything covered; count = range length */ \
__CPROVER_ensures(nv_cov == nv_n && nv_calls == nv_thr_n + 1 && nv_seen && 0 <= nv_lo && nv_lo <= nv_hi && nv_hi <= nv_n) \
NV_CTOR_CELLS(__CPROVER_ensures(self->m_bin_counts.p[nv_gb] == nv_hi - nv_lo)) \
/* a value lies in bin b only if the counting rule puts it there: b = #{j : t_j <= v} (at the ghost threshold) */ \
__CPROVER_ensures((nv_lo <= nv_gp && nv_gp < nv_hi) ==> ((nv_gj < nv_gb) ? (nv_tj <= nv_gv) : (nv_gv < nv_tj)))
