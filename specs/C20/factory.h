/* C20: the factories make_from_thresholds / make_from_percentiles / make_from_ratios: they call the constructor INSIDE its
 * precondition (hist_ctor is replaced by its contract: every requires clause is an obligation at the call site), on the WHOLE
 * value list, call percentile_sorted inside its precondition (sorted values, percentage in [0, 100]), and hand the constructor
 * the thresholds the property names: the p_i-th percentile of the values / min + r_i * (max - min). */
#define NV_FACTORY 1
#include "ctor.h"
int64_t nv_gi;            /* ghost: an arbitrary position of the percentile / ratio list */
double nv_param_g;        /* ghost (prophecy): the percentile / ratio that std::sort leaves at position nv_gi */
double nv_expected;       /* ghost: the threshold the property derives from it (defined in the precondition) */
double nv_expected2, nv_expected3, nv_expected4;   /* the same with the operands of the (commutative) IEEE + and * swapped */
#define NV_IS_EXPECTED(x) (NV_IDENT(x, nv_expected) || NV_IDENT(x, nv_expected2) || NV_IDENT(x, nv_expected3) || NV_IDENT(x, nv_expected4))
int64_t nv_ctor_calls;    /* ghost: number of constructor calls */
double nv_w_thr_in; int64_t nv_w_thr_n;   /* ghost: threshold nv_gi and number of thresholds handed to the constructor */
double nv_w_gv_in;        /* ghost: the value at the ghost position as the factory's own std::sort left it (the constructor sorts again) */
#ifndef NV_PARAM_MAX
#define NV_PARAM_MAX 100.0
#endif
double __CPROVER_uninterpreted_pct_sorted(double);    /* percentile_sorted(values, p) of the sorted value list (proved: stats.h / back end B) */

/* std::sort on the percentile / ratio list: ASSUMED contract as in ctor.h; the factory's DOCUMENTED precondition (its asserts:
 * first > 0, last < max after sorting, i.e. every parameter lies in (0, max)) is assumed for the cell at the ghost position */
static void nv_sort_params(double* first, double* last)
{
  __CPROVER_assert(__CPROVER_same_object(first, last) && first <= last, "std::sort: a valid range");
  int64_t n = last - first;
  __CPROVER_havoc_object(first);
  if (0 <= nv_gi && nv_gi < n) __CPROVER_assume(NV_IDENT(first[nv_gi], nv_param_g) && nv_param_g > 0.0 && nv_param_g < NV_PARAM_MAX);
}
#ifndef NV_ELEM_INT
static void nv_sort_any2(double* first, double* last)
{
  if (__CPROVER_same_object(first, nv_base)) nv_sort_values(first, last); else nv_sort_params(first, last);
}
#endif
static struct nv_t1d nv_t1d_make(int64_t n)
{
  struct nv_t1d t;
  __CPROVER_assert(n >= 0, "tensor_mem_t(size): a non-negative size");
  __CPROVER_assume(n <= NV_MAXN);
  t.p = (double*)malloc((n > 0 ? n : 1) * sizeof(double));
  __CPROVER_assume(t.p != NULL);
  t.n = n;
  return t;
}
/* percentile_sorted(begin, end, p) as called from make_from_percentiles: its precondition is an obligation */
static double nv_ps_call(NV_ELEM* b, NV_ELEM* e, double p, int64_t i)
{
  __CPROVER_assert(b == nv_base && e == nv_base + nv_n && nv_n >= 1, "percentile_sorted: over the whole, non-empty value list");
  __CPROVER_assert(nv_ev == nv_base[nv_gp] && nv_ew == nv_base[nv_gq] && NV_VALUES_SORTED, "percentile_sorted: the values are sorted (std::is_sorted, its documented precondition)");
  if (i == nv_gi) __CPROVER_assert(p >= 0.0 && p <= 100.0, "percentile_sorted: percentage in [0, 100]");
  return __CPROVER_uninterpreted_pct_sorted(p);
}
/* histogram_t(begin, end, thresholds): the extracted constructor under its contract (replaced: requires = obligations) */
/* (the prototype of hist_ctor is generated from the extracted signature: ext.factory_targets) */
NV_HIST_CTOR_PROTO
static struct nv_histogram nv_ctor_call(NV_ELEM* b, NV_ELEM* e, struct nv_t1d t)
{
  struct nv_histogram h;
  nv_thr_base = t.p; nv_thr_n = t.n; nv_w_thr_n = t.n;
  nv_ctor_calls = nv_ctor_calls + 1;
  if (0 <= nv_gi && nv_gi < t.n) nv_w_thr_in = t.p[nv_gi];
  nv_w_gv_in = nv_gv;
  hist_ctor(&h, b, e, t);
  return h;
}

/* common part: P = the parameter list (thresholds / percentiles / ratios), one threshold per parameter */
#define NV_FACTORY_REQUIRES(P) NV_FACTORY_REQUIRES_V(P, NV_HIST_VALUES)
#define NV_FACTORY_REQUIRES_V(P, VALUES) \
__CPROVER_requires(VALUES && NV_T1D_OK(P) && (P).n >= 1 && nv_cov == 0 && nv_calls == 0 && !nv_seen && nv_ctor_calls == 0) \
__CPROVER_requires(0 <= nv_gb && nv_gb <= (P).n && 0 <= nv_gp && nv_gp < nv_n && 0 <= nv_gq && nv_gq < nv_n && 0 <= nv_gj && nv_gj < (P).n && 0 <= nv_gi && nv_gi < (P).n)
#define NV_FACTORY_GHOSTS nv_cov, nv_calls, nv_lo, nv_hi, nv_seen, nv_ev, nv_ew, nv_gv, nv_tj, nv_tlo, nv_thi, nv_thr_base, nv_thr_n, nv_ctor_calls, nv_w_thr_in, nv_w_thr_n, nv_w_gv_in
#define NV_FACTORY_ENSURES(P) \
/* exactly one histogram is constructed, from one threshold per parameter, over the whole value list ... */ \
__CPROVER_ensures(nv_ctor_calls == 1 && nv_w_thr_n == __CPROVER_old((P).n)) \
/* ... for which the constructor's contract holds: representation invariant, partition, counting rule */ \
__CPROVER_ensures(NV_VALUES_SORTED && NV_THR_SORTED(nv_thr_n)) \
__CPROVER_ensures(nv_cov == nv_n && nv_calls == nv_thr_n + 1 && nv_seen && 0 <= nv_lo && nv_lo <= nv_hi && nv_hi <= nv_n) \
__CPROVER_ensures((nv_lo <= nv_gp && nv_gp < nv_hi) ==> ((nv_gj < nv_gb) ? (nv_tj <= nv_gv) : (nv_gv < nv_tj)))

#define NV_CONTRACT_make_thr NV_FACTORY_REQUIRES(NV_ARG_make_thr_2) \
__CPROVER_requires(NV_ARG_make_thr_0 == nv_base && NV_ARG_make_thr_1 == nv_base + nv_n) \
__CPROVER_assigns(__CPROVER_object_whole(nv_base), __CPROVER_object_whole(NV_ARG_make_thr_2.p), NV_FACTORY_GHOSTS) \
NV_FACTORY_ENSURES(NV_ARG_make_thr_2)

/* make_from_percentiles: threshold i = percentile_sorted(sorted values, p_i) (at the ghost position) */
#define NV_CONTRACT_make_pct NV_FACTORY_REQUIRES(NV_ARG_make_pct_2) \
__CPROVER_requires(NV_ARG_make_pct_0 == nv_base && NV_ARG_make_pct_1 == nv_base + nv_n && NV_IDENT(nv_expected, __CPROVER_uninterpreted_pct_sorted(nv_param_g))) \
__CPROVER_assigns(__CPROVER_object_whole(nv_base), __CPROVER_object_whole(NV_ARG_make_pct_2.p), NV_FACTORY_GHOSTS) \
NV_FACTORY_ENSURES(NV_ARG_make_pct_2) \
__CPROVER_ensures(NV_IDENT(nv_w_thr_in, nv_expected))
#define NV_LOOP_make_pct_1 \
__CPROVER_assigns(NV_LOOPVAR_make_pct_1, __CPROVER_object_whole(thresholds.p)) \
__CPROVER_loop_invariant(0 <= NV_LOOPVAR_make_pct_1 && NV_LOOPVAR_make_pct_1 <= thresholds.n && (NV_LOOPVAR_make_pct_1 > nv_gi ==> NV_IDENT(thresholds.p[nv_gi], nv_expected))) \
__CPROVER_decreases(thresholds.n - NV_LOOPVAR_make_pct_1)

/* make_from_ratios: threshold i = min + r_i * (max - min), min / max = the smallest / largest value (at the ghost position).
 * The function dereferences its iterators (*begin, *--end), so the value block is owned by `begin` and `end` is DERIVED from it:
 * the contract is enforced on an entry wrapper whose body is nothing but the call make_rat(begin, begin + n, ratios)
 * (NV_OWNER_PARAM; the prototype of make_rat is generated from the extracted signature). */
#ifdef NV_OWNER_PARAM
NV_MAKE_RAT_PROTO
#define NV_VALUES_OWNED_BY(b) (1 <= nv_n && nv_n <= NV_MAXN && __CPROVER_is_fresh(b, nv_n * sizeof(NV_ELEM)) && nv_base == (b))
struct nv_histogram nv_make_rat_entry(NV_ELEM* begin, int64_t n, struct nv_t1d ratios)
NV_FACTORY_REQUIRES_V(ratios, NV_VALUES_OWNED_BY(begin))
__CPROVER_requires(n == nv_n && NV_IDENT(nv_expected, NV_FADD(nv_vmin, NV_FMUL(nv_param_g, NV_FSUB(nv_vmax, nv_vmin)))) && NV_IDENT(nv_expected2, NV_FADD(nv_vmin, NV_FMUL(NV_FSUB(nv_vmax, nv_vmin), nv_param_g))))
__CPROVER_requires(NV_IDENT(nv_expected3, NV_FADD(NV_FMUL(nv_param_g, NV_FSUB(nv_vmax, nv_vmin)), nv_vmin)) && NV_IDENT(nv_expected4, NV_FADD(NV_FMUL(NV_FSUB(nv_vmax, nv_vmin), nv_param_g), nv_vmin)))
__CPROVER_assigns(__CPROVER_object_whole(begin), __CPROVER_object_whole(ratios.p), NV_FACTORY_GHOSTS)
NV_FACTORY_ENSURES(ratios)
/* min / max are the smallest / largest value: every value of the sorted list lies between them (at the ghost position) */
__CPROVER_ensures(NV_IS_EXPECTED(nv_w_thr_in) && nv_vmin <= nv_w_gv_in && nv_w_gv_in <= nv_vmax)
{
  return make_rat(begin, begin + n, ratios);
}
#endif
#define NV_LOOP_make_rat_1 \
__CPROVER_assigns(NV_LOOPVAR_make_rat_1, __CPROVER_object_whole(thresholds.p)) \
__CPROVER_loop_invariant(0 <= NV_LOOPVAR_make_rat_1 && NV_LOOPVAR_make_rat_1 <= thresholds.n && (NV_LOOPVAR_make_rat_1 > nv_gi ==> NV_IS_EXPECTED(thresholds.p[nv_gi]))) \
__CPROVER_decreases(thresholds.n - NV_LOOPVAR_make_rat_1)
