/* C20 (bounded stand-in): the position arithmetic of detail::percentile in IEEE double arithmetic (not over the reals).
 * For an integer percentage P in [0,100] and n values the exact position P(n-1)/100 has floor (P(n-1)) div 100 and the
 * ceiling follows; the double evaluation of a correct formula is exact there (P(n-1) < 2^53 is exact, one correctly
 * rounded division cannot cross an integer because the fractional part is a multiple of 1/100).  Stated for n <= NV_MAXN
 * only: the SAT back end cannot prove double multiply/divide facts for all n (DESIGN 2), so this target is BOUNDED. */
#include "nv_base.h"
#include <math.h>
#ifndef NV_MAXN
#define NV_MAXN 64
#endif
int64_t nv_n;            /* ghost: number of values */
int64_t nv_P;            /* ghost: the integer percentage */
int64_t nv_pos[2];       /* ghost: the positions handed to from_position, in call order */
int32_t nv_npos;
static double nv_from_position(int64_t pos)
{
  __CPROVER_assert(nv_npos < 2, "from_position is called at most twice");
  if (nv_npos < 2) nv_pos[nv_npos] = pos;
  nv_npos++;
  return nv_nondet_double();
}
#define NV_FLOOR ((nv_P * (nv_n - 1)) / 100)
#define NV_EXACT ((nv_P * (nv_n - 1)) % 100 == 0)
#define NV_CONTRACT_detail_percentile \
__CPROVER_requires(1 <= nv_n && nv_n <= NV_MAXN && 0 <= nv_P && nv_P <= 100 && percentage == (double)nv_P && nv_npos == 0) \
__CPROVER_requires(__CPROVER_is_fresh(begin, nv_n * sizeof(double)) && end == begin + nv_n) \
__CPROVER_assigns(nv_npos, __CPROVER_object_whole(nv_pos)) \
__CPROVER_ensures(nv_npos >= 1 && nv_pos[0] == NV_FLOOR) \
__CPROVER_ensures(NV_EXACT ? nv_npos == 1 : (nv_npos == 2 && nv_pos[1] == NV_FLOOR + 1))
