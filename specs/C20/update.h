/* C20: histogram_t::update / update_bin: "the histogram's bins partition the values; each bin's count, mean and median
 * are those of the values that fall in it" -- bins are consecutive sub-ranges [lo_b, hi_b) of the sorted values that tile
 * [0, n); a value at position p lies in bin b iff t_{b-1} <= v_p < t_b (counting rule: >= threshold goes right). */
#include "nv_tensor.h"
#include <stdlib.h>
#ifdef NV_ELEM
/* integer elements: the conversion to scalar_t that std::upper_bound performs when it hands an element to the comparator
 * (a real, monotone conversion: sorted integers stay sorted as scalars) */
#define NV_TOD(x) ((double)(x))
#else
#define NV_TOD(x) (x)
#endif
#ifndef NV_ELEM
#define NV_ELEM double        /* element type of the value list: double (default) or int64_t (integer-valued lists) */
#endif
struct nv_histogram { struct nv_t1d m_thresholds; struct nv_t1d m_bin_means; struct nv_t1i m_bin_counts; struct nv_t1d m_bin_medians; };
NV_ELEM* nv_base; int64_t nv_n;      /* ghost: the sorted values [nv_base, nv_base + nv_n) */
int64_t nv_bo, nv_eo;                /* ghost: offsets of a sub-range */
int64_t nv_cov;                      /* ghost: positions [0, nv_cov) have been assigned to a bin */
int64_t nv_calls;                    /* ghost: number of update_bin calls */
int64_t nv_gb, nv_gp;                /* ghost indices: an arbitrary bin and an arbitrary value position */
int64_t nv_gq, nv_gj;                /* ghost indices: a second value position, an arbitrary threshold position */
NV_ELEM nv_ev, nv_ew;                /* ghost: the values at positions nv_gp, nv_gq (each cell is read once, in the precondition) */
double nv_tj, nv_tlo, nv_thi;        /* ghost: the thresholds at positions nv_gj, nv_gb - 1, nv_gb */
/* REPRESENTATION INVARIANT of histogram_t, stated at the ghost indices (no quantifier): the values and the thresholds are in
 * ascending order and the thresholds are not NaN.  Established by the constructor (std::sort, specs/C20/ctor.h), required by
 * update(): it is the precondition of its std::upper_bound calls and what turns "t_{b-1} <= v < t_b" into the counting rule. */
#define NV_GHOST_CELLS(vbase, vcount, thr) (0 <= nv_gq && nv_gq < (vcount) && 0 <= nv_gj && nv_gj < (thr).n && nv_ev == (vbase)[nv_gp] && nv_ew == (vbase)[nv_gq] && \
  nv_gv == NV_TOD(nv_ev) && nv_tj == (thr).p[nv_gj] && (nv_gb > 0 ==> nv_tlo == (thr).p[nv_gb - 1]) && (nv_gb < (thr).n ==> nv_thi == (thr).p[nv_gb]))
#define NV_VALUES_SORTED ((nv_gp <= nv_gq ==> nv_ev <= nv_ew) && (nv_gq <= nv_gp ==> nv_ew <= nv_ev))
#define NV_THR_SORTED(k) ((nv_gj <= nv_gb - 1 ==> nv_tj <= nv_tlo) && (nv_gb <= nv_gj ==> nv_thi <= nv_tj) && ((0 < nv_gb && nv_gb < (k)) ==> nv_tlo <= nv_thi))
double nv_gv;                        /* ghost: the value at position nv_gp as a double (defined by the precondition; the values are not written) */
int64_t nv_lo, nv_hi; _Bool nv_seen; /* ghost: the range recorded for bin nv_gb */

/* the comparator of update() is extracted from the real lambda (update_op) and used by the upper_bound contract */
_Bool update_op(double threshold, double value);
/* assumed contract of std::upper_bound(first, last, val, comp) on a range partitioned w.r.t. comp(val, elem):
 * returns the partition point; stated at the ghost position nv_gp */
static NV_ELEM* nv_upper_bound_cmp(NV_ELEM* first, NV_ELEM* last, double val)
{
  int64_t n = last - first, idx = nv_nondet_int64_t();
  __CPROVER_assume(0 <= idx && idx <= n);
  int64_t g = nv_gp - (first - nv_base), h = nv_gq - (first - nv_base);
  /* precondition of std::upper_bound: elements with !comp(val, elem) precede those with comp(val, elem) (at the ghost pair) */
  if (0 <= g && g <= h && h < n) __CPROVER_assert(!update_op(val, nv_gv) || update_op(val, NV_TOD(nv_ew)), "std::upper_bound: the range is partitioned with respect to the comparator (the values are sorted)");
  if (0 <= g && g < n) __CPROVER_assume((g < idx) ? !update_op(val, nv_gv) : update_op(val, nv_gv));
  return first + idx;
}
/* assumed contract of std::lower_bound(first, last, val) (no comparator; val has the element type): the partition
 * point w.r.t. `elem < val`, stated at the ghost position */
static NV_ELEM* nv_lower_bound_elem(NV_ELEM* first, NV_ELEM* last, NV_ELEM val)
{
  int64_t n = last - first, idx = nv_nondet_int64_t();
  __CPROVER_assume(0 <= idx && idx <= n);
  int64_t g = nv_gp - (first - nv_base), h = nv_gq - (first - nv_base);
  /* precondition of std::lower_bound: elements with elem < val precede the others (at the ghost pair) */
  if (0 <= g && g <= h && h < n) __CPROVER_assert(!(nv_ew < val) || (nv_ev < val), "std::lower_bound: the range is partitioned with respect to elem < val (the values are sorted)");
  if (0 <= g && g < n) __CPROVER_assume((g < idx) ? (first[g] < val) : !(first[g] < val));
  return first + idx;
}
/* tensor resize / fill (allocation of the per-bin buffers) */
static void nv_t1d_resize(struct nv_t1d* t, int64_t n) { __CPROVER_assume(0 <= n && n <= NV_MAXN + 1); t->p = (double*)malloc((n > 0 ? n : 1) * sizeof(double)); __CPROVER_assume(t->p != NULL); t->n = n; }
static void nv_t1i_resize(struct nv_t1i* t, int64_t n) { __CPROVER_assume(0 <= n && n <= NV_MAXN + 1); t->p = (int64_t*)malloc((n > 0 ? n : 1) * sizeof(int64_t)); __CPROVER_assume(t->p != NULL); t->n = n; }
static void nv_fill_erased(void) { }
static int64_t nv_t1d_size(const struct nv_t1d* t) { return t->n; }


#define NV_HIST_VALUES (0 <= nv_n && nv_n <= NV_MAXN && __CPROVER_is_fresh(nv_base, (nv_n > 0 ? nv_n : 1) * sizeof(NV_ELEM)))
#define NV_IN_BIN(b, v) (((b) == 0 || self->m_thresholds.p[(b) - 1] <= (v)) && ((b) == self->m_thresholds.n || (v) < self->m_thresholds.p[b]))

/* update_bin(begin, end, bin): count = end - begin written to slot bin; mean and median computed over exactly [begin, end);
 * NaN for an empty range; consecutive calls tile the values (coverage ghost) */
double __CPROVER_uninterpreted_scalar_sum(int64_t, int64_t), __CPROVER_uninterpreted_range_median(int64_t, int64_t);
/* histogram_t::mean by the contract proved for it per sample type (specs/C20/mean.h, targets mean_<type>): its precondition is
 * an obligation here, its result is the scalar_t sum of the range divided by the length of the range */
#define NV_RANGE_MEAN(bo, eo) NV_FDIV(__CPROVER_uninterpreted_scalar_sum(bo, eo), (double)((eo) - (bo)))
static double nv_mean_range(NV_ELEM* b, NV_ELEM* e, int64_t count) { __CPROVER_assert(count == e - b && count > 0, "mean over a non-empty range with its own length"); return NV_RANGE_MEAN(b - nv_base, e - nv_base); }
static double nv_median_sorted_range(NV_ELEM* b, NV_ELEM* e) { __CPROVER_assert(b < e, "median of a non-empty range"); return __CPROVER_uninterpreted_range_median(b - nv_base, e - nv_base); }
static double nv_quiet_nan(void) { double x = nv_nondet_double(); __CPROVER_assume(x != x); return x; }
#define NV_CONTRACT_update_bin \
__CPROVER_requires(__CPROVER_is_fresh(self, sizeof(*self)) && NV_HIST_VALUES && NV_T1D_OK(self->m_bin_means) && NV_T1I_OK(self->m_bin_counts) && NV_T1D_OK(self->m_bin_medians)) \
__CPROVER_requires(self->m_bin_means.n == self->m_bin_counts.n && self->m_bin_medians.n == self->m_bin_counts.n && 0 <= bin && bin < self->m_bin_counts.n) \
/* [begin, end) is a sub-range of the values: given by ghost offsets so that no invalid pointer is ever compared */ \
__CPROVER_requires(0 <= nv_bo && nv_bo <= nv_eo && nv_eo <= nv_n && begin == nv_base + nv_bo && end == nv_base + nv_eo) \
__CPROVER_assigns(self->m_bin_counts.p[bin], self->m_bin_means.p[bin], self->m_bin_medians.p[bin]) \
__CPROVER_ensures(self->m_bin_counts.p[bin] == end - begin) \
__CPROVER_ensures((end - begin > 0) ==> (NV_SAME(self->m_bin_means.p[bin], NV_RANGE_MEAN(begin - nv_base, end - nv_base)) && NV_SAME(self->m_bin_medians.p[bin], __CPROVER_uninterpreted_range_median(begin - nv_base, end - nv_base)))) \
__CPROVER_ensures((end - begin == 0) ==> (self->m_bin_means.p[bin] != self->m_bin_means.p[bin] && self->m_bin_medians.p[bin] != self->m_bin_medians.p[bin]))

/* the same function as seen from update(): additionally maintains the coverage ghosts */
static void update_bin_cov(struct nv_histogram* self, NV_ELEM* begin, NV_ELEM* end, int64_t bin)
{
  __CPROVER_assert(0 <= bin && bin < self->m_bin_counts.n, "update_bin: bin index inside the per-bin buffers");
  __CPROVER_assert(__CPROVER_same_object(begin, nv_base) && __CPROVER_same_object(end, nv_base) && begin <= end && end <= nv_base + nv_n, "update_bin: a sub-range of the values");
  __CPROVER_assert(begin - nv_base == nv_cov, "update_bin: ranges are consecutive (each value in exactly one bin)");
  __CPROVER_assert(bin == nv_calls, "update_bin: bins are filled in order, each exactly once");
  if (bin == nv_gb) { nv_lo = begin - nv_base; nv_hi = end - nv_base; nv_seen = 1; }
  self->m_bin_counts.p[bin] = end - begin;
  nv_cov = end - nv_base; nv_calls = nv_calls + 1;
}

#define NV_CONTRACT_histogram_update \
__CPROVER_requires(__CPROVER_is_fresh(self, sizeof(*self)) && NV_HIST_VALUES && NV_T1D_OK(self->m_thresholds) && self->m_thresholds.n >= 1) \
__CPROVER_requires(begin == nv_base && end == nv_base + nv_n && nv_cov == 0 && nv_calls == 0 && !nv_seen) \
__CPROVER_requires(0 <= nv_gb && nv_gb <= self->m_thresholds.n && 0 <= nv_gp && nv_gp < nv_n) \
/* the representation invariant: sorted values, sorted thresholds (not NaN), at the ghost indices */ \
__CPROVER_requires(NV_GHOST_CELLS(nv_base, nv_n, self->m_thresholds) && NV_VALUES_SORTED && NV_THR_SORTED(self->m_thresholds.n)) \
__CPROVER_assigns(self->m_bin_means, self->m_bin_counts, self->m_bin_medians, nv_cov, nv_calls, nv_lo, nv_hi, nv_seen) \
/* one slot per bin, bins = thresholds + 1 (the invariant bin() relies on) */ \
__CPROVER_ensures(self->m_bin_counts.n == self->m_thresholds.n + 1 && self->m_bin_means.n == self->m_bin_counts.n && self->m_bin_medians.n == self->m_bin_counts.n) \
/* ... each in a buffer of its own (so that a caller can use this contract in place of the call) */ \
__CPROVER_ensures(__CPROVER_is_fresh(self->m_bin_counts.p, self->m_bin_counts.n * sizeof(int64_t)) && __CPROVER_is_fresh(self->m_bin_means.p, self->m_bin_means.n * sizeof(double)) && __CPROVER_is_fresh(self->m_bin_medians.p, self->m_bin_medians.n * sizeof(double))) \
/* the bins partition the values: consecutive ranges, every bin filled once, everything covered */ \
__CPROVER_ensures(nv_cov == nv_n && nv_calls == self->m_thresholds.n + 1 && nv_seen && 0 <= nv_lo && nv_lo <= nv_hi && nv_hi <= nv_n) \
/* a value lies in the range of bin b only if the counting rule puts it there: t_{b-1} <= v < t_b */ \
__CPROVER_ensures((nv_lo <= nv_gp && nv_gp < nv_hi) ==> NV_IN_BIN(nv_gb, nv_gv)) \
/* ... which, the thresholds being sorted, is the COUNTING RULE bin(v) states: the bin index is #{j : t_j <= v} (at the ghost threshold) */ \
__CPROVER_ensures((nv_lo <= nv_gp && nv_gp < nv_hi) ==> ((nv_gj < nv_gb) ? (nv_tj <= nv_gv) : (nv_gv < nv_tj))) \
__CPROVER_ensures(self->m_bin_counts.p[nv_gb] == nv_hi - nv_lo)
#define NV_LOOP_histogram_update_1 \
__CPROVER_assigns(bin, begin, nv_cov, nv_calls, nv_lo, nv_hi, nv_seen, __CPROVER_object_whole(self->m_bin_counts.p), __CPROVER_object_whole(self->m_bin_means.p), __CPROVER_object_whole(self->m_bin_medians.p)) \
/* the counter's upper bound is stated through the loop's own condition (NV_LOOPLHS <= NV_LOOPBOUND: `bin <= bins` for `bin < bins`, \
 * `bin + 1 <= bins` when a maintainer peels the last bin off the loop: `bin + 1 < bins`), so that the exit state is exact in both shapes */ \
__CPROVER_loop_invariant(0 <= bin && bin <= bins && NV_LOOPLHS_histogram_update_1 <= NV_LOOPBOUND_histogram_update_1 && nv_calls == bin && 0 <= nv_cov && nv_cov <= nv_n && (bin < bins ==> begin == nv_base + nv_cov) && (bin == bins ==> nv_cov == nv_n)) \
__CPROVER_loop_invariant(nv_seen == (nv_gb < bin) && (nv_seen ==> (0 <= nv_lo && nv_lo <= nv_hi && nv_hi <= nv_cov && self->m_bin_counts.p[nv_gb] == nv_hi - nv_lo))) \
/* when the ghost bin is about to be filled, every still-unassigned value is >= its lower threshold */ \
__CPROVER_loop_invariant((bin == nv_gb && bin > 0 && nv_gp >= nv_cov) ==> update_op_inv(self->m_thresholds.p[bin - 1], nv_gv)) \
__CPROVER_loop_invariant((nv_seen && nv_lo <= nv_gp && nv_gp < nv_hi) ==> NV_IN_BIN(nv_gb, nv_gv)) \
__CPROVER_decreases(bins - bin)
#define update_op_inv(t, v) ((v) >= (t))
/* the lambda itself: "value >= threshold goes right" */
#define NV_CONTRACT_update_op __CPROVER_assigns() __CPROVER_ensures(__CPROVER_return_value == (value >= threshold))
