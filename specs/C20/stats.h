/* C20: the position -> value lambdas of percentile / percentile_sorted and the median wrappers, against the SORTED-ARRAY
 * REFERENCE of the property: the k-th order statistic of the list is the ghost `sorted(k)` (invariant under permutation); the
 * median is sorted((n-1)/2) for odd n and the mean of the two middle ORDER STATISTICS sorted(n/2-1), sorted(n/2) for even n. */
#include "nv_base.h"
int64_t nv_n;                                  /* ghost: number of values in [begin, end) */
double* nv_vb;                                 /* ghost: begin of the list (compared by value only, never dereferenced) */
int64_t nv_g;                                  /* ghost: an arbitrary position of the list */
int64_t nv_part;                               /* ghost: k >= 0 when positions [0, k) hold the k smallest values and (k, n) the n-k-1 largest
                                                * (left behind by std::nth_element(begin, begin + k, end)), else -1 */
double __CPROVER_uninterpreted_sorted(int64_t);   /* ghost: the k-th smallest of the values (invariant under permutation) */
#define NV_SORTED(k) __CPROVER_uninterpreted_sorted(k)
/* "is that element": the same bit pattern (`==` identifies -0.0 with 0.0, the congruence of the uninterpreted + and / does not) */
union nv_bits { double d; uint64_t u; };
#define NV_IDENT(a, b) (((union nv_bits){ .d = (a) }).u == ((union nv_bits){ .d = (b) }).u)
/* ASSUMED contract of std::nth_element(first, nth, last) -- exactly what [alg.nth.element] promises and NOTHING MORE: the range
 * is permuted; *nth is the element a full sort would put there; every element before nth is <= *nth, every element after it
 * is >= *nth (stated at the ghost position).  NO order inside the two parts: the left neighbour of nth is NOT known to be the
 * largest of the left part.  The order statistics `sorted(k)` are those of the whole list, so the first clause is given for
 * the whole list and (a consequence for sub-ranges) for the left / right part of an earlier partition of the whole list.
 * (values are not NaN: precondition of std::nth_element, operator< must be a strict weak order) */
static void nv_nth_element_f64(double* first, double* nth, double* last)
{
  __CPROVER_assert(__CPROVER_same_object(first, nth) && __CPROVER_same_object(first, last) && first <= nth && nth < last, "std::nth_element: nth inside [first, last)");
  __CPROVER_assert(__CPROVER_same_object(first, nv_vb) && nv_vb <= first && last <= nv_vb + nv_n, "std::nth_element: a sub-range of the list");
  int64_t fo = first - nv_vb, lo = last - nv_vb, k = nth - nv_vb;
  _Bool whole = (fo == 0 && lo == nv_n);
  _Bool part = (nv_part >= 0 && ((fo == 0 && lo == nv_part) || (fo == nv_part + 1 && lo == nv_n)));
  __CPROVER_havoc_object(first);
  if (whole || part) __CPROVER_assume(*nth == *nth && NV_IDENT(*nth, NV_SORTED(k)));
  if (fo <= nv_g && nv_g < k) __CPROVER_assume(first[nv_g - fo] <= *nth);
  if (k < nv_g && nv_g < lo) __CPROVER_assume(first[nv_g - fo] >= *nth);
  if (whole) nv_part = k; else if (!part) nv_part = -1;
}
/* ASSUMED contract of std::max_element(first, last), first < last: an element of the range that no element exceeds (at the
 * ghost position); on the left part of a partition of the whole list at k it is the order statistic k-1 */
static double* nv_max_element_f64(double* first, double* last)
{
  __CPROVER_assert(__CPROVER_same_object(first, last) && first < last, "std::max_element: a non-empty range (the result is dereferenced)");
  __CPROVER_assert(__CPROVER_same_object(first, nv_vb) && nv_vb <= first && last <= nv_vb + nv_n, "std::max_element: a sub-range of the list");
  int64_t fo = first - nv_vb, lo = last - nv_vb, idx = nv_nondet_int64_t();
  __CPROVER_assume(0 <= idx && idx < lo - fo);
  if (fo <= nv_g && nv_g < lo) __CPROVER_assume(first[nv_g - fo] <= first[idx]);
  if (nv_part > 0 && fo == 0 && lo == nv_part) __CPROVER_assume(NV_IDENT(first[idx], NV_SORTED(nv_part - 1)));
  return first + idx;
}
#define NV_VALUES_OK (1 <= nv_n && nv_n <= 1000000 && __CPROVER_is_fresh(begin, nv_n * sizeof(double)) && nv_vb == begin && nv_part == -1)
/* from_position of percentile_sorted: the value stored at that position */
#define NV_CONTRACT_from_position_sorted \
__CPROVER_requires(NV_VALUES_OK && 0 <= pos && pos < nv_n) __CPROVER_assigns() \
__CPROVER_ensures(NV_SAME(__CPROVER_return_value, begin[pos]))
/* from_position of percentile (unsorted input): the value the sorted list has at that position */
#define NV_CONTRACT_from_position_unsorted \
__CPROVER_requires(NV_VALUES_OK && end == begin + nv_n && 0 <= pos && pos < nv_n) __CPROVER_assigns(__CPROVER_object_whole(begin), nv_part) \
__CPROVER_ensures(NV_SAME(__CPROVER_return_value, NV_SORTED(pos)))

/* the 50th percentile as detail::percentile computes it (proved by back end B on every instantiation: clause "p = 50": the
 * position 50(n-1)/100 is the integer (n-1)/2 for odd n and fractional between n/2-1 and n/2 for even n) from the values F(k)
 * its from_position operator returns (proved above: F(k) = begin[k] / sorted(k)) */
#define NV_MEDIAN_OF(F) ((nv_n % 2 == 1) ? F((nv_n - 1) / 2) : NV_FDIV(NV_FADD(F(nv_n / 2 - 1), F(nv_n / 2)), 2.0))
/* the property's reference, tolerant of the order of the two summands (IEEE + is commutative) */
#define NV_IS_MEDIAN(r, F) ((nv_n % 2 == 1) ? NV_SAME(r, F((nv_n - 1) / 2)) : \
  (NV_SAME(r, NV_FDIV(NV_FADD(F(nv_n / 2 - 1), F(nv_n / 2)), 2.0)) || NV_SAME(r, NV_FDIV(NV_FADD(F(nv_n / 2), F(nv_n / 2 - 1)), 2.0))))
double __CPROVER_uninterpreted_percentile(int64_t, double);      /* (0: stored values, 1: order statistics; percentage) */
#define NV_STORED(k) nv_vb_cells[k]
static double nv_percentile_sorted(const double* b, const double* e, double p)
{
  __CPROVER_assert(b == nv_vb && e == nv_vb + nv_n, "percentile_sorted: over the whole list");
  __CPROVER_assert(p >= 0.0 && p <= 100.0, "percentile_sorted: percentage in [0, 100]");
  const double* nv_vb_cells = b;
  if (p == 50.0) return NV_MEDIAN_OF(NV_STORED);
  return __CPROVER_uninterpreted_percentile(0, p);
}
static double nv_percentile_unsorted(double* b, double* e, double p)
{
  __CPROVER_assert(b == nv_vb && e == nv_vb + nv_n, "percentile: over the whole list");
  __CPROVER_assert(p >= 0.0 && p <= 100.0, "percentile: percentage in [0, 100]");
  __CPROVER_havoc_object(b);            /* the list is permuted (std::nth_element) */
  nv_part = -1;
  if (p == 50.0) return NV_MEDIAN_OF(NV_SORTED);
  return __CPROVER_uninterpreted_percentile(1, p);
}
/* median_sorted / median: the property's clause "the median equals the value(s) at the middle of the sorted list" */
#define NV_CONTRACT_median_sorted \
__CPROVER_requires(1 <= nv_n && nv_n <= 1000000 && __CPROVER_is_fresh(NV_ARG_median_sorted_0, nv_n * sizeof(double)) && nv_vb == NV_ARG_median_sorted_0 && NV_ARG_median_sorted_1 == NV_ARG_median_sorted_0 + nv_n) \
__CPROVER_assigns() \
__CPROVER_ensures(NV_IS_MEDIAN(__CPROVER_return_value, NV_MS_CELL))
#define NV_MS_CELL(k) NV_ARG_median_sorted_0[k]
#define NV_CONTRACT_median \
__CPROVER_requires(1 <= nv_n && nv_n <= 1000000 && __CPROVER_is_fresh(NV_ARG_median_0, nv_n * sizeof(double)) && nv_vb == NV_ARG_median_0 && NV_ARG_median_1 == NV_ARG_median_0 + nv_n && nv_part == -1) \
__CPROVER_assigns(__CPROVER_object_whole(NV_ARG_median_0), nv_part) \
__CPROVER_ensures(NV_IS_MEDIAN(__CPROVER_return_value, NV_SORTED))
