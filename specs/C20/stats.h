/* C20: the position -> value lambdas of percentile / percentile_sorted and the median wrappers */
#include "nv_base.h"
int64_t nv_n;                                  /* ghost: number of values in [begin, end) */
double __CPROVER_uninterpreted_sorted(int64_t);   /* ghost: the k-th smallest of the values (invariant under permutation) */
/* assumed contract of std::nth_element(first, nth, last): the range is permuted and *nth is the element that would be
 * at that position if the range were sorted */
static void nv_nth_element_f64(double* first, double* nth, double* last)
{
  __CPROVER_assert(__CPROVER_same_object(first, nth) && __CPROVER_same_object(first, last) && first <= nth && nth < last, "std::nth_element: nth inside [first, last)");
  __CPROVER_havoc_object(first);
  __CPROVER_assume(*nth == __CPROVER_uninterpreted_sorted(nth - first));   /* values are not NaN (precondition of std::nth_element: strict weak order) */
}
#define NV_VALUES_OK (1 <= nv_n && nv_n <= 1000000 && __CPROVER_is_fresh(begin, nv_n * sizeof(double)))
/* from_position of percentile_sorted: the value stored at that position */
#define NV_CONTRACT_from_position_sorted \
__CPROVER_requires(NV_VALUES_OK && 0 <= pos && pos < nv_n) __CPROVER_assigns() \
__CPROVER_ensures(NV_SAME(__CPROVER_return_value, begin[pos]))
/* from_position of percentile (unsorted input): the value the sorted list has at that position */
#define NV_CONTRACT_from_position_unsorted \
__CPROVER_requires(NV_VALUES_OK && end == begin + nv_n && 0 <= pos && pos < nv_n) __CPROVER_assigns(__CPROVER_object_whole(begin)) \
__CPROVER_ensures(NV_SAME(__CPROVER_return_value, __CPROVER_uninterpreted_sorted(pos)))
/* median / median_sorted = the 50th percentile */
double __CPROVER_uninterpreted_percentile(const double*, const double*, double);
static double nv_percentile(const double* b, const double* e, double p) { return __CPROVER_uninterpreted_percentile(b, e, p); }
#define NV_CONTRACT_median_sorted __CPROVER_assigns() __CPROVER_ensures(NV_SAME(__CPROVER_return_value, __CPROVER_uninterpreted_percentile(begin, end, 50.0)))
#define NV_CONTRACT_median __CPROVER_assigns() __CPROVER_ensures(NV_SAME(__CPROVER_return_value, __CPROVER_uninterpreted_percentile(begin, end, 50.0)))
