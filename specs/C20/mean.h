/* C20: histogram_t::mean(begin, end, count): "each bin's mean equals that of the values in it".
 * Reference (from the property): sum of the values of the bin, each value taken as a scalar_t, divided by their number.
 * Float + and / are uninterpreted (NV_FADD / NV_FDIV), so the clause decided is the SHAPE of the computation:
 *   - the accumulator has type scalar_t (std::accumulate types it by `init`), it starts at 0,
 *   - every element is converted to scalar_t BEFORE it is added (no partial sum is formed in the sample type),
 *   - the result is that sum divided by count, and count == distance(begin, end) > 0 (obligation at the call site in update_bin).
 * NV_ELEM is the sample type of the instantiation (int8_t, int16_t, int32_t, int64_t, double). */
#include "nv_tensor.h"
#ifndef NV_ELEM
#define NV_ELEM double
#endif
NV_ELEM* nv_base; int64_t nv_n;      /* ghost: the values [nv_base, nv_base + nv_n) */
int64_t nv_bo, nv_eo;                /* ghost: offsets of the bin's sub-range */
/* the sum the property speaks of: left fold of scalar_t addition over scalar_t(v_k), k in [bo, eo), starting from scalar_t 0 */
double __CPROVER_uninterpreted_scalar_sum(int64_t, int64_t);
#define NV_RANGE_OK(first, last) (__CPROVER_same_object(first, nv_base) && __CPROVER_same_object(last, nv_base) && nv_base <= (first) && (first) <= (last) && (last) <= nv_base + nv_n)

/* ASSUMED contract of std::accumulate(first, last, init, op) [accumulate]:  T acc = init;  acc = op(std::move(acc), *it) for every
 * it of [first, last) in order, where T IS THE TYPE OF init.  This stub is mapped only to calls whose `init` has type scalar_t
 * (the function type is part of the call key); `op` is the lambda extracted from the current source (mean_op: its prototype is
 * generated from the extracted signature, so an accumulator parameter of another type shows up as a conversion obligation).
 * One generic step of the fold (arbitrary partial sum, arbitrary position) must add scalar_t(element) to the accumulator. */
#ifdef NV_HAVE_MEAN_OP
static double nv_accumulate_op(NV_ELEM* first, NV_ELEM* last, double init)
{
  __CPROVER_assert(NV_RANGE_OK(first, last), "std::accumulate: [first, last) is a sub-range of the values");
  __CPROVER_assert(NV_SAME(init, 0.0), "mean: the sum starts from scalar_t zero");
  int64_t n = last - first;
  if (n > 0)
  {
    int64_t k = nv_nondet_int64_t();
    __CPROVER_assume(0 <= k && k < n);
    double acc = nv_nondet_double();
    double r = mean_op(acc, first[k]);
    __CPROVER_assert(NV_SAME(r, NV_FADD(acc, (double)first[k])) || NV_SAME(r, NV_FADD((double)first[k], acc)) /* IEEE + is commutative */, "mean: every step of the fold adds the element, converted to scalar_t, to the scalar_t accumulator");
  }
  return __CPROVER_uninterpreted_scalar_sum(first - nv_base, last - nv_base);
}
#endif
/* std::accumulate(first, last, init) / (.., std::plus<>{}) with a scalar_t init: acc = std::move(acc) + *it, the element is
 * converted to scalar_t by the usual arithmetic conversions: the same fold */
static double nv_accumulate_scalar(NV_ELEM* first, NV_ELEM* last, double init)
{
  __CPROVER_assert(NV_RANGE_OK(first, last), "std::accumulate: [first, last) is a sub-range of the values");
  __CPROVER_assert(NV_SAME(init, 0.0), "mean: the sum starts from scalar_t zero");
  return __CPROVER_uninterpreted_scalar_sum(first - nv_base, last - nv_base);
}
/* std::accumulate(first, last, init) with init OF THE SAMPLE TYPE: exact semantics, the partial sums are formed in that type.
 * For double samples that is the scalar_t fold; for integer samples every step carries CBMC's signed-overflow /
 * conversion obligation ("the partial sum fits the sample type"), which arbitrary values refute. */
static NV_ELEM nv_accumulate_elem(NV_ELEM* first, NV_ELEM* last, NV_ELEM init)
{
  __CPROVER_assert(NV_RANGE_OK(first, last), "std::accumulate: [first, last) is a sub-range of the values");
#ifndef NV_ELEM_INT
  __CPROVER_assert(NV_SAME(init, 0.0), "mean: the sum starts from scalar_t zero");
  return __CPROVER_uninterpreted_scalar_sum(first - nv_base, last - nv_base);
#else
  NV_ELEM acc = init;
  int64_t n = last - first;
  for (int64_t k = 0; k < n; ++k)
  __CPROVER_assigns(k, acc)
  __CPROVER_loop_invariant(0 <= k && k <= n)
  __CPROVER_decreases(n - k)
  {
    acc = acc + first[k];       /* in the promoted type, converted back to the sample type: T acc; acc = acc + *it */
  }
  return acc;
#endif
}
/* any other accumulator type (e.g. an `int` init): the accumulator is not scalar_t */
static double nv_accumulate_other(void)
{
  __CPROVER_assert(0, "mean: the accumulator of std::accumulate (the type of init) is scalar_t");
  return nv_nondet_double();
}

#define NV_HIST_VALUES (1 <= nv_n && nv_n <= NV_MAXN && __CPROVER_is_fresh(nv_base, nv_n * sizeof(NV_ELEM)))
/* requires: what update_bin guarantees at its call site (obligation there: specs/C20/update.h nv_mean_range) */
#define NV_CONTRACT_hist_mean \
__CPROVER_requires(NV_HIST_VALUES && 0 <= nv_bo && nv_bo < nv_eo && nv_eo <= nv_n) \
__CPROVER_requires(NV_ARG_hist_mean_0 == nv_base + nv_bo && NV_ARG_hist_mean_1 == nv_base + nv_eo && NV_ARG_hist_mean_2 == nv_eo - nv_bo) \
__CPROVER_assigns() \
__CPROVER_ensures(NV_SAME(__CPROVER_return_value, NV_FDIV(__CPROVER_uninterpreted_scalar_sum(nv_bo, nv_eo), (double)(nv_eo - nv_bo))))
/* the lambda on its own: acc + scalar_t(value), computed in scalar_t */
#define NV_CONTRACT_mean_op __CPROVER_assigns() __CPROVER_ensures(NV_SAME(__CPROVER_return_value, NV_FADD(NV_ARG_mean_op_0, (double)NV_ARG_mean_op_1)) || NV_SAME(__CPROVER_return_value, NV_FADD((double)NV_ARG_mean_op_1, NV_ARG_mean_op_0)))
