"""C20 extension: histogram helpers per sample type (mean), the constructor and the factories (representation invariant), the
median helpers against the sorted-array reference.  Everything is extracted from drivers/inst_hist.cpp instantiations."""
import re

import astload
from astload import ExtractionError
from core import Fn, Target

TU = 'drivers/inst_hist.cpp'
FLT = 'nano::histogram_t'
# (tag, clang spelling of the sample type, C type)
ELEMS = [('i8', 'signed char', 'int8_t'), ('i16', 'short', 'int16_t'), ('i32', 'int', 'int32_t'), ('i64', 'long', 'int64_t'),
         ('f64', 'double', 'double')]


def targs(*want):
    return lambda d: astload.template_args(d) == list(want)


def elem_defines(tag, ctype):
    return [f'NV_ELEM={ctype}'] + ([] if tag == 'f64' else ['NV_ELEM_INT=1'])


class LambdaFn(Fn):
    """an optional lambda: a generic lambda that the current source never calls has no instantiated operator() -- absent too"""

    def emit(self):
        try:
            return super().emit()
        except ExtractionError as e:
            if 'without an instantiated operator()' in str(e):
                raise ExtractionError(f'{self.cname}: lambda not found (never instantiated)')
            raise


# iterator vocabulary on the modelled (pointer) iterators: std::distance / advance / prev / next
ITER_CALLS = [(r'^distance\|', '({1} - {0})'), (r'^advance\|', '({0} += {1})'),
              (r'^prev\|.*\|#1$', '({0} - 1)'), (r'^prev\|.*\|#2$', '({0} - ({1}))'),
              (r'^next\|.*\|#1$', '({0} + 1)'), (r'^next\|.*\|#2$', '({0} + ({1}))')]

def iter_default_hook(P, n):
    """std::prev(it) / std::next(it): the omitted distance is a CXXDefaultArgExpr (no value in the dump); [iterator.operations]
    fixes the default to 1"""
    from cxx2c import unwrap
    if n.get('kind') != 'CallExpr' or len(n.get('inner', [])) != 3:
        return None
    rd = unwrap(n['inner'][0]).get('referencedDecl') or {}
    if rd.get('name') not in ('prev', 'next'):
        return None
    u = n['inner'][2]
    while u.get('kind') in ('ExprWithCleanups', 'MaterializeTemporaryExpr', 'CXXBindTemporaryExpr') and u.get('inner'):
        u = u['inner'][0]
    if u.get('kind') != 'CXXDefaultArgExpr':
        return None
    P.note(f'std::{rd["name"]}(it) with the default distance 1')
    return f'({P.expr(n["inner"][1])} {"-" if rd["name"] == "prev" else "+"} 1)'


# ----------------------------------------------------------------------------- histogram_t::mean
T_ = r'(?:signed char|short|int|long|double)'
ACC_CALLS = [
    # std::accumulate(first, last, scalar_t init, <lambda>): the accumulator is scalar_t, the lambda is the extracted mean_op
    (r'^accumulate\|double \((' + T_ + r') \*, \1 \*, double, (?:const )?\(lambda', 'nv_accumulate_op({0}, {1}, {2})'),
    # (first, last, scalar_t init) / (.., std::plus<>): acc + *it in scalar_t
    (r'^accumulate\|double \((' + T_ + r') \*, \1 \*, double(?:, (?:struct )?std::plus<(?:void|double)?>)?\)', 'nv_accumulate_scalar({0}, {1}, {2})'),
    # (first, last, init of the sample type): partial sums in the sample type (exact)
    (r'^accumulate\|(' + T_ + r') \(\1 \*, \1 \*, \1\)', 'nv_accumulate_elem({0}, {1}, {2})'),
    (r'^accumulate\|', 'nv_accumulate_other()'),
] + ITER_CALLS


def mean_fns(cxx):
    mean = Fn('hist_mean', TU, 'mean', flt=FLT, select=targs(cxx + ' *'), calls=ACC_CALLS, hooks=[iter_default_hook])
    op = LambdaFn('mean_op', TU, 'mean', flt=FLT, select=targs(cxx + ' *'), lambda_index=0, optional=True)
    return mean, op


def mean_pre(cxx):
    """prototype of the extracted lambda, generated from its CURRENT signature (the accumulate stub calls it)"""
    def gen():
        _, op = mean_fns(cxx)
        try:
            op.emit()
        except ExtractionError as e:
            if 'not found' in str(e) or 'definitions of' in str(e):
                return '/* mean has no lambda in the current source */\n'
            raise
        return f'#define NV_HAVE_MEAN_OP 1\n{op.printer.signature};\n'
    return gen


def mean_targets(tier):
    """quick: int16 (a narrow type: the seeded accumulate-in-the-sample-type change overflows) and double; the other sample types thorough"""
    out = []
    for tag, cxx, cty in ELEMS:
        if tag not in ('i16', 'f64') and tier != 'thorough':
            continue
        out.append(Target(f'mean_{tag}', (lambda cxx=cxx: list(mean_fns(cxx))), 'specs/C20/mean.h', enforce='hist_mean',
                          pre=mean_pre(cxx), defines=elem_defines(tag, cty)))
        out.append(Target(f'mean_op_{tag}', (lambda cxx=cxx: [mean_fns(cxx)[1]]), 'specs/C20/mean.h', enforce='mean_op',
                          pre=mean_pre(cxx), defines=elem_defines(tag, cty)))
    return out


# ----------------------------------------------------------------------------- constructor and factories
HTYPES = [(r'tensor_mem_t<double, 1>|tensor_t<nano::tensor_vector_storage_t, double, 1', 'struct nv_t1d'),
          (r'tensor_mem_t<long, 1>|tensor_t<nano::tensor_vector_storage_t, long, 1', 'struct nv_t1i'),
          (r'Matrix<double, -1, 1, 0.*>::Scalar$', 'double'), (r'^(nano::)?histogram_t$', 'struct nv_histogram')]
INT_ = r'(?:signed char|short|int|long)'


def sort_calls(tag):
    return [(r'^sort\|void \(double \*, double \*\)', 'nv_sort_any({0}, {1})' if tag == 'f64' else 'nv_sort_thresholds({0}, {1})'),
            (r'^sort\|void \(' + INT_ + r' \*, ' + INT_ + r' \*\)', 'nv_sort_values({0}, {1})'),
            (r'^begin\|', '{0}.p'), (r'^end\|', '({0}.p + {0}.n)'), (r'^move\|', '{0}')] + ITER_CALLS


def ctor_fn(tag, cxx):
    return Fn('hist_ctor', TU, 'histogram_t', flt=FLT, select=targs(cxx + ' *'), kinds=('CXXConstructorDecl',), self_struct='struct nv_histogram', hooks=[iter_default_hook],
              types=HTYPES, calls=sort_calls(tag), members=[(r'^update\|', 'histogram_update'), (r'^size\|.*tensor_base_t<double, 1', 'nv_t1d_size')])


def ctor_targets(tier, update_fns):
    """update_fns(cxx) -> [histogram_update Fn, update_op Fn]: the callee whose contract replaces the call"""
    out = []
    for tag, cxx, cty in ELEMS:
        if tag != 'i32' and tier != 'thorough':       # quick: one narrow integer type (byte-sized elements cost CBMC 3-5x more)
            continue
        out.append(Target(f'ctor_{tag}', (lambda tag=tag, cxx=cxx: [ctor_fn(tag, cxx)] + update_fns(cxx)), 'specs/C20/ctor.h', enforce='hist_ctor',
                          replace=['histogram_update'], defines=elem_defines(tag, cty)))
    return out


def factory_fn(kind, tag, cxx):
    """kind: thr | pct | rat -- the overloads that take the parameter list as a tensor"""
    name = {'thr': 'make_from_thresholds', 'pct': 'make_from_percentiles', 'rat': 'make_from_ratios'}[kind]
    sel = lambda d: astload.template_args(d) == [cxx + ' *'] and 'tensor_mem_t' in astload.param_types(d)[2]
    calls = [(r'^sort\|void \(double \*, double \*\)', 'nv_sort_any2({0}, {1})' if tag == 'f64' else 'nv_sort_params({0}, {1})'),
             (r'^sort\|void \(' + INT_ + r' \*, ' + INT_ + r' \*\)', 'nv_sort_values({0}, {1})'),
             (r'^begin\|', '{0}.p'), (r'^end\|', '({0}.p + {0}.n)'), (r'^move\|', '{0}'),
             (r'^ctor\|nano::histogram_t\|', 'nv_ctor_call({0}, {1}, {2})'),
             (r'^ctor\|nano::tensor_t<nano::tensor_vector_storage_t, double, 1>\|void \(long\)', 'nv_t1d_make({0})'),
             (r'^percentile_sorted\|', 'nv_ps_call({0}, {1}, {2}, NV_LOOPVAR_make_pct_1)'),
             (r'^operator\(\)\|.*tensor_vector_storage_t, double, 1', '{0}.p[{1}]')] + ITER_CALLS
    return Fn(f'make_{kind}', TU, name, flt=FLT, select=sel, types=HTYPES, calls=calls, hooks=[iter_default_hook],
              members=[(r'^size\|.*tensor_base_t<double, 1', 'nv_t1d_size')])


def factory_targets(tier, update_fns):
    out = []
    plan = [('thr', 'i64')]
    if tier == 'thorough':
        plan += [('thr', 'i16'), ('thr', 'i32'), ('thr', 'f64')]       # (f64: ~200 s of SAT time)
        plan += [('pct', 'i64'), ('rat', 'i64'), ('pct', 'f64'), ('rat', 'f64')]
    byt = {t: (c, ct) for t, c, ct in ELEMS}
    for kind, tag in plan:
        cxx, cty = byt[tag]
        def pre(tag=tag, cxx=cxx):
            c = ctor_fn(tag, cxx)
            c.emit()
            return f'struct nv_histogram;\n#define NV_HIST_CTOR_PROTO {c.printer.signature};\n'
        if kind == 'rat':
            # make_from_ratios dereferences its iterators: the contract is enforced on the entry wrapper of factory.h (NV_OWNER_PARAM)
            def pre_rat(tag=tag, cxx=cxx, pre=pre):
                f = factory_fn('rat', tag, cxx)
                f.emit()
                return pre() + f'#define NV_MAKE_RAT_PROTO {f.printer.signature};\n'
            harness = (f'int main(void)\n{{\n  {cty}* begin;\n  int64_t n;\n  struct nv_t1d ratios;\n  nv_thrown = 0;\n  nv_make_rat_entry(begin, n, ratios);\n'
                       '  __CPROVER_assert(0, "nv_canary: end of harness reachable");\n  return 0;\n}\n')
            out.append(Target(f'make_rat_{tag}', (lambda tag=tag, cxx=cxx: [factory_fn('rat', tag, cxx), ctor_fn(tag, cxx)] + update_fns(cxx)),
                              'specs/C20/factory.h', enforce='nv_make_rat_entry', replace=['hist_ctor'], pre=pre_rat, loops=1, timeout=290, harness=harness,
                              cbmc_flags=['--sat-solver', 'cadical'], defines=elem_defines(tag, cty) + ['NV_PARAM_MAX=1.0', 'NV_OWNER_PARAM=1']))
            continue
        out.append(Target(f'make_{kind}_{tag}', (lambda kind=kind, tag=tag, cxx=cxx: [factory_fn(kind, tag, cxx), ctor_fn(tag, cxx)] + update_fns(cxx)),
                          'specs/C20/factory.h', enforce=f'make_{kind}', replace=['hist_ctor'], pre=pre, loops=(0 if kind == 'thr' else 1), timeout=290,
                          cbmc_flags=['--sat-solver', 'cadical'],      # 30x faster than minisat on these targets (make_pct_i64: 7 s vs 276 s)
                          defines=elem_defines(tag, cty) + (['NV_PARAM_MAX=1.0'] if kind == 'rat' else [])))
    return out
