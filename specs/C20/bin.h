/* C20: histogram_t::bin(v) "returns the bin that the counting rule assigns to v for every real v".
 * Counting rule (from update(): a value goes right of every threshold it is >= to): bin(v) = #{ j : t_j <= v }.
 * Stated with a ghost index g over the thresholds (no quantifier):  g < ret ==> t_g <= v,  g >= ret ==> t_g > v. */
#include "nv_tensor.h"
struct nv_histogram { struct nv_t1d m_thresholds; struct nv_t1d m_bin_means; struct nv_t1i m_bin_counts; struct nv_t1d m_bin_medians; };
int64_t nv_g;   /* ghost: an arbitrary threshold position, fixed before the call */
double nv_w_thr; /* witness for replay: the threshold at the ghost position */

/* assumed contract of std::upper_bound(first, last, val) on a range partitioned w.r.t. `val < elem`:
 * returns the partition point.  Stated at the ghost index (sound weakening).  Stub body with assume, not an ensures
 * clause over a nondeterministic pointer. */

static const double* nv_upper_bound_f64(const double* begin, const double* end, double val)
{
  int64_t n = end - begin, idx = nv_nondet_int64_t();
  __CPROVER_assume(0 <= idx && idx <= n);
  if (0 <= nv_g && nv_g < n) nv_w_thr = begin[nv_g];
  if (0 <= nv_g && nv_g < n) __CPROVER_assume((nv_g < idx) ? !(val < begin[nv_g]) : (val < begin[nv_g]));
  return begin + idx;
}
/* assumed contract of std::lower_bound(first, last, val) on a range partitioned w.r.t. `elem < val`: the partition point */
static const double* nv_lower_bound_f64(const double* begin, const double* end, double val)
{
  int64_t n = end - begin, idx = nv_nondet_int64_t();
  __CPROVER_assume(0 <= idx && idx <= n);
  if (0 <= nv_g && nv_g < n) nv_w_thr = begin[nv_g];
  if (0 <= nv_g && nv_g < n) __CPROVER_assume((nv_g < idx) ? (begin[nv_g] < val) : !(begin[nv_g] < val));
  return begin + idx;
}
/* histogram_t::bins() is m_bin_counts.size(); histogram invariant (established by update): counts.size == thresholds.size + 1 */
static int64_t nv_hist_bins(const struct nv_histogram* h) { return h->m_bin_counts.n; }

#define NV_BIN_REQUIRES \
__CPROVER_requires(__CPROVER_is_fresh(self, sizeof(*self)) && NV_T1D_OK(self->m_thresholds) && self->m_thresholds.n >= 1) \
__CPROVER_requires(self->m_bin_counts.n == self->m_thresholds.n + 1) \
__CPROVER_requires(0 <= nv_g && nv_g < self->m_thresholds.n && self->m_thresholds.p[nv_g] == self->m_thresholds.p[nv_g])

#define NV_CONTRACT_histogram_bin_f64 NV_BIN_REQUIRES \
__CPROVER_requires(value == value && value > -1e300 && value < 1e300) \
__CPROVER_assigns(nv_w_thr) \
__CPROVER_ensures(0 <= __CPROVER_return_value && __CPROVER_return_value <= self->m_thresholds.n) \
__CPROVER_ensures((nv_g < __CPROVER_return_value) ? (self->m_thresholds.p[nv_g] <= value) : (self->m_thresholds.p[nv_g] > value))

/* integer query: the counting rule compares the thresholds with the integer's exact value (|v| <= 2^53 so that the
 * conversion to double is exact) */
#define NV_CONTRACT_histogram_bin_i64 NV_BIN_REQUIRES \
__CPROVER_requires(value >= -9007199254740992 && value <= 9007199254740992) \
__CPROVER_assigns(nv_w_thr) \
__CPROVER_ensures(0 <= __CPROVER_return_value && __CPROVER_return_value <= self->m_thresholds.n) \
__CPROVER_ensures((nv_g < __CPROVER_return_value) ? (self->m_thresholds.p[nv_g] <= (double)value) : (self->m_thresholds.p[nv_g] > (double)value))
