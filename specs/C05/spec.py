"""C05 -- penalty / augmented-Lagrangian terms equal their defining formulas (over the reals), and the AL solver
reports `converged` only for a state whose constraint violation is <= epsilon.

Per-constraint kernels (back end B, double as Real): the value contribution of one constraint and the scalar coefficient
with which its gradient is added (`gx += coef * gc`) are compared with the formulas of the property statement:
    linear     rho*|h|            / rho*max(0,g)          gradient  rho*sign(h)*grad h / rho*grad g (g>0) else 0
    quadratic  rho*h^2            / rho*max(0,g)^2        gradient  2 rho h grad h     / 2 rho max(0,g) grad g
    AL         rho/2 (h+lambda/rho)^2 / rho/2 max(0, g+mu/rho)^2   gradient rho (h+lambda/rho) grad h / rho max(0, g+mu/rho) grad g

Feasibility measures (kkt.py, back end B at a generic coordinate): ::make_criterion dominates the constraint violation (the clause the CBMC
loop contract of the AL solver uses; its preconditions ro > 0 / miu >= 0 are obliged at the call sites, augmented.h), ::make_ro1 lies in
[1e-6, 10], solver_state_t::kkt_optimality_test1..5 / kkt_optimality_test are the documented infinity norms of the stored values.
"""
import re

import astload
import nvwp
from core import VC, Fn, Target
from nvwp import V, AND, NOT, ITE, Unsupported
from wplib import IdEnvWP, reach_vc
from cxx2c import unwrap, qual, strip_cv

SRC = 'src/function/penalty.cpp'


def opaque_decl_hook(wp, v, init):
    q = strip_cv(qual(v['type']))
    if 'tensor_t<' in q or 'vector_t' in q or 'constraint' in q or 'variant' in q or q.startswith('(lambda'):
        wp.env[v['name']] = V(v['name'], 'Opaque', None)
        return True
    return False


def axpy_hook(wp, n):
    """`gx += s1 * s2 * ... * gc` (Eigen): the coefficient with which the constraint gradient is added"""
    u = n
    while u.get('kind') in nvwp.TRANSPARENT and u.get('inner'):
        u = u['inner'][0]
    if u.get('kind') != 'CXXOperatorCallExpr':
        return False
    cal = unwrap(u['inner'][0]).get('referencedDecl', {}).get('name')
    if cal != 'operator+=':
        return False
    lhs = unwrap(u['inner'][1])
    if lhs.get('kind') != 'DeclRefExpr' or lhs['referencedDecl']['name'] != 'gx':
        raise Unsupported('vector update whose target is not gx')
    scal = []
    vecs = []

    def split(e):
        e = unwrap(e)
        if e.get('kind') == 'CXXOperatorCallExpr' and unwrap(e['inner'][0]).get('referencedDecl', {}).get('name') == 'operator*':
            split(e['inner'][1])
            split(e['inner'][2])
        elif wp.base(e.get('type', {})) in ('double', 'float') or wp.base(e.get('type', {})) in nvwp.INT_RANGES:
            scal.append(e)
        else:
            vecs.append(e)
    split(u['inner'][2])
    if len(vecs) != 1 or unwrap(vecs[0]).get('kind') != 'DeclRefExpr' or unwrap(vecs[0])['referencedDecl']['name'] != 'gc':
        raise Unsupported('gx += <expr>: not a scalar multiple of the constraint gradient gc')
    coef = None
    for e in scal:
        v = wp.conv(wp.ev(e), 'Real', 'double')
        coef = v.t if coef is None else f'(* {coef} {v.t})'
    old = wp.env['gx.coef']
    wp.env['gx.coef'] = V(f'(+ {old.t} {coef})', 'Real', 'double')
    wp.note('gx += coef * gc')
    return True


def h_penalty(wp, n, args, obj):
    return wp.env['rho']


def h_size(wp, n, args, obj):
    nm = unwrap(obj)['referencedDecl']['name'] if unwrap(obj).get('kind') == 'DeclRefExpr' else None
    if nm not in ('gx', 'x'):
        raise Unsupported('size() of an unknown vector')
    return wp.env[f'{nm}.size']


def h_fabs(wp, n, args, callee):
    v = wp.conv(wp.ev(args[0]), 'Real', 'double')
    return V(f'(rabs {v.t})', 'Real', 'double')


def h_vgrad_constraint(wp, n, args, callee):
    return wp.env['fc*']     # value of the current constraint at x (opaque; its gradient goes to gc)


def h_is_equality(wp, n, args, callee):
    return wp.env['eq*']


def h_obj_vgrad(wp, n, args, obj):
    return wp.env['f*']


def h_elem(which):
    def h(wp, n, args, callee):
        idx = wp.ev(args[1])
        key = 'lambda_reads' if which == 'm_lambda' else 'miu_reads'
        wp.reads[key].append((wp.guard, idx.t))
        return wp.env[which + '*']
    return h


def mk_wp(name):
    wp = IdEnvWP(name, real=True,
                 calls=[(r'^fabs\|', h_fabs), (r'^vgrad\|', h_vgrad_constraint), (r'^is_equality\|', h_is_equality),
                        (r'^operator\(\)\|.*\|nano::tensor_t<nano::tensor_vector_storage_t, double, 1>', None)],
                 members=[(r'^penalty\|', h_penalty), (r'^size\|', h_size), (r'^vgrad\|nano::function_t', h_obj_vgrad)])
    wp.decl_hooks = (opaque_decl_hook,)
    wp.stmt_hooks = (axpy_hook,)
    wp.real_div_check = True
    wp.env['rho'] = wp.const('rho', 'Real', 'double')
    wp.assume('(> rho 0.0)')           # precondition: positive penalty (reported)
    wp.env['gx.size'] = wp.const('gx_size', 'Int', 'long')
    wp.env['x.size'] = wp.const('x_size', 'Int', 'long')
    wp.env['gx.coef'] = wp.const('gx_coef0', 'Real', 'double')
    wp.coef0 = 'gx_coef0'
    return wp


def lambda_op(fn):
    lam = astload.find_lambdas(fn)[0]
    return [m for m in astload.walk(lam) if m.get('kind') == 'CXXMethodDecl' and m.get('name') == 'operator()'][0]


def kernel(name, cls, value_term, coef_term, about):
    fn = astload.find_definition(SRC, cls + '::do_vgrad', 'do_vgrad')
    op = lambda_op(fn)
    wp = mk_wp(name)
    wp.env['fc'] = wp.const('fc', 'Real', 'double')
    wp.env['gc'] = V('gc', 'Opaque', None)
    wp.idmap = {}

    def post(wp, rv):
        has = f'(= {wp.env["gx.size"].t} {wp.env["x.size"].t})'
        return [('value contribution equals the defining formula', f'(= {rv.t} {value_term})'),
                ('gradient coefficient equals the defining formula (when a gradient is requested)',
                 f'(=> {has} (= {wp.env["gx.coef"].t} (+ {wp.coef0} {coef_term})))'),
                ('gradient untouched when none is requested', f'(=> (not {has}) (= {wp.env["gx.coef"].t} {wp.coef0}))')]
    wp.post = post
    wp.run(op, astload.resolve_tu(SRC))
    vcs = wp.vcs(name, astload.resolve_tu(SRC), about)
    vcs.append(reach_vc(wp, name, astload.resolve_tu(SRC)))
    return vcs, {'c_name': name, 'cxx': cls + '::do_vgrad#lambda0', 'file': astload.resolve_tu(SRC), 'line': fn.get('loc', {}).get('line'), 'sha': astload.file_hash(astload.resolve_tu(SRC))}


def gating(name, about):
    """penalty_vgrad<op>: per constraint, op is applied iff (equality or fc > 0); with op's contract this gives
    rho*|h| / rho*max(0,g) etc.  The loop body is verified for an arbitrary iteration."""
    docs = astload.dump(SRC, 'penalty_vgrad')
    cands = [d for d in astload.find_definitions(docs, 'penalty_vgrad') if astload.template_args(d)]
    if not cands:
        raise astload.ExtractionError('penalty_vgrad: no instantiation found')
    vcs_all = []
    fns = []
    for k, fn in enumerate(cands[:2]):
        wp = mk_wp(f'{name}#{k}')
        for key, p in wp.bind_params(fn):
            wp.env[key] = V(key, 'Opaque', None)
        wp.env['f*'] = wp.const('f_obj', 'Real', 'double')
        wp.env['fc*'] = wp.const('fc', 'Real', 'double')
        wp.env['eq*'] = wp.const('eq', 'Bool', 'bool')
        opval = wp.const('op_value', 'Real', 'double')     # what op(fc, gc) returns (its own contract is proved separately)

        def h_op(wp_, n, args, callee, opval=opval):
            wp_.op_calls.append(wp_.guard)
            return opval
        wp.op_calls = []
        wp.calls.insert(0, (r'^operator\(\)\|.*\(lambda', h_op))

        def inv(wp_):
            return []

        def body_post(wp_, before, after, opval=opval):
            app = nvwp.OR(*wp_.op_calls) if wp_.op_calls else 'false'
            want = '(or eq (> fc 0.0))'
            return [('the penalty term is added exactly when the constraint is an equality or is violated (fc > 0)',
                     f'(= {after["fx"].t} (ite {want} (+ {before["fx"].t} {opval.t}) {before["fx"].t}))'),
                    # at fc = 0 both choices are valid sub-gradients of max(0, g): only the strict cases are pinned
                    ('op (and its gradient term) is applied to every equality and every violated inequality', f'(=> {want} {app})'),
                    ('op is never applied to a strictly satisfied inequality', f'(=> (and (not eq) (< fc 0.0)) (not {app}))')]
        inv.body_post = body_post
        inv.havoc = ('gx.coef',)
        wp.invariants = {1: inv}
        wp.post = lambda wp_, rv: []
        wp.run(fn, astload.resolve_tu(SRC))
        vcs_all += wp.vcs(f'{name}#{k}', astload.resolve_tu(SRC), about)
        fns.append({'c_name': f'{name}#{k}', 'cxx': '::penalty_vgrad<' + ','.join(astload.template_args(fn))[:60] + '>', 'file': astload.resolve_tu(SRC),
                    'line': fn.get('loc', {}).get('line'), 'sha': astload.file_hash(astload.resolve_tu(SRC))})
    return vcs_all, fns


def al_body(name, about):
    fn = astload.find_definition(SRC, 'augmented_lagrangian_function_t::do_vgrad', 'do_vgrad')
    wp = mk_wp(name)
    for key, p in wp.bind_params(fn):
        wp.env[key] = V(key, 'Opaque', None)
    wp.env['f*'] = wp.const('f_obj', 'Real', 'double')
    wp.env['fc*'] = wp.const('fc', 'Real', 'double')
    wp.env['eq*'] = wp.const('eq', 'Bool', 'bool')
    wp.env['m_lambda*'] = wp.const('lambda_k', 'Real', 'double')
    wp.env['m_miu*'] = wp.const('miu_k', 'Real', 'double')
    wp.reads = {'lambda_reads': [], 'miu_reads': []}
    wp.members += [(r'^function\|', lambda w, n, a, o: V('function', 'Opaque', None)), (r'^constraints\|', lambda w, n, a, o: V('constraints', 'Opaque', None))]
    wp.calls = [(r'^operator\(\)\|', lambda w, n, a, c: h_elem('m_lambda' if any(m.get('name') == 'm_lambda' for m in astload.walk(a[0])) else 'm_miu')(w, n, a, c))] + wp.calls

    def inv(wp_):
        return []

    def body_post(wp_, before, after):
        mu = '(ite eq lambda_k miu_k)'
        t = f'(+ fc (/ {mu} rho))'
        active = f'(or eq (> {t} 0.0))'
        has = f'(= {wp_.env["gx.size"].t} {wp_.env["x.size"].t})'
        out = [('value: rho/2 (h + lambda/rho)^2 for an equality, rho/2 max(0, g + mu/rho)^2 for an inequality',
                f'(= {after["fx"].t} (+ {before["fx"].t} (ite eq (* (/ rho 2.0) (* {t} {t})) (* (/ rho 2.0) (* (rmax 0.0 {t}) (rmax 0.0 {t}))))))'),
               ('gradient coefficient: rho (h + lambda/rho) resp. rho max(0, g + mu/rho)',
                f'(=> {has} (= {after["gx.coef"].t} (+ {before["gx.coef"].t} (ite eq (* rho {t}) (* rho (rmax 0.0 {t}))))))'),
               ('gradient untouched when none is requested', f'(=> (not {has}) (= {after["gx.coef"].t} {before["gx.coef"].t}))'),
               ('an equality consumes the next equality multiplier, an inequality the next inequality multiplier',
                f'(and (= {after["ilambda"].t} (+ {before["ilambda"].t} (ite eq 1 0))) (= {after["imiu"].t} (+ {before["imiu"].t} (ite eq 0 1))))')]
        for g, idx in wp_.reads['lambda_reads']:
            out.append(('the equality multiplier read is the ilambda-th one', f'(=> {g} (and eq (= {idx} {before["ilambda"].t})))'))
        for g, idx in wp_.reads['miu_reads']:
            out.append(('the inequality multiplier read is the imiu-th one', f'(=> {g} (and (not eq) (= {idx} {before["imiu"].t})))'))
        return out
    inv.body_post = body_post
    inv.havoc = ('gx.coef',)
    # the two counters count elements of an in-memory vector of constraints
    inv.assume_only = [lambda w: f'(and (<= 0 {w.env["ilambda"].t}) (< {w.env["ilambda"].t} 4611686018427387904) (<= 0 {w.env["imiu"].t}) (< {w.env["imiu"].t} 4611686018427387904))']
    wp.invariants = {1: inv}
    wp.post = lambda wp_, rv: []
    wp.run(fn, astload.resolve_tu(SRC))
    vcs = wp.vcs(name, astload.resolve_tu(SRC), about)
    vcs.append(reach_vc(wp, name, astload.resolve_tu(SRC)))
    return vcs, {'c_name': name, 'cxx': 'augmented_lagrangian_function_t::do_vgrad', 'file': astload.resolve_tu(SRC), 'line': fn.get('loc', {}).get('line'), 'sha': astload.file_hash(astload.resolve_tu(SRC))}


def al_targets():
    import os, sys
    sys.path.insert(0, os.path.join(os.path.dirname(os.path.abspath(__file__)), '..', 'solver'))
    import common
    import hooks

    def update_at_hook(P, n):
        # bstate.update(cstate.x(), lambda, miu) -> nv_state_update_at(&bstate, &cstate)
        if n.get('kind') != 'CXXMemberCallExpr' or n['inner'][0].get('name') != 'update' or 'solver_state_t' not in qual(n['inner'][0]['inner'][0]['type']):
            return None
        a = unwrap(n['inner'][1])
        while a.get('kind') in ('CXXConstructExpr', 'CXXMemberCallExpr') and not (a.get('kind') == 'CXXMemberCallExpr' and a['inner'][0].get('name') == 'x'):
            if not a.get('inner'):
                break
            a = unwrap(a['inner'][0])
        if a.get('kind') != 'CXXMemberCallExpr' or a['inner'][0].get('name') != 'x':
            raise Unsupported('state.update(<point>): the point is not another state\'s x()')
        src = a['inner'][0]['inner'][0]
        obj = n['inner'][0]['inner'][0]
        P.note('bstate.update(cstate.x(), lambda, miu)')
        return f'nv_state_update_at({P.addr(obj)}, {P.addr(src)})'
    # ---- sign tracking of the inequality multipliers (ghost `nv_miu_nonneg`): the vector handed to make_criterion as its second
    # argument is followed through the function: its initialiser `make_full_vector<scalar_t>(n, v)` (flag := v >= 0), the Eigen
    # assignment `miu.array() = E` (flag := sign analysis of E over the closed list  E.max(c): c >= 0 or E >= 0;  E.min(c): c >= 0 and
    # E >= 0;  .array() / .matrix(): transparent;  miu itself: the old flag;  anything else: unknown), every other possibly mutating
    # mention (clang's const analysis: not bound through a const-adding cast) havocs the flag.
    state = {}

    def miu_ids(P):
        if 'ids' not in state:
            ids = set()
            fn_node = astload.find_definition('src/solver/augmented.cpp', 'solver_augmented_lagrangian_t::do_minimize', 'do_minimize')
            for c in astload.walk(fn_node):
                if c.get('kind') == 'CallExpr' and unwrap(c['inner'][0]).get('referencedDecl', {}).get('name') == 'make_criterion' and len(c['inner']) >= 3:
                    a = unwrap(c['inner'][2])
                    if a.get('kind') != 'DeclRefExpr':
                        raise Unsupported('make_criterion(state, <multipliers>, ro): the multipliers are not a named vector')
                    ids.add(a['referencedDecl']['id'])
            if len(ids) > 1:
                raise Unsupported('make_criterion is called with different multiplier vectors')
            state['ids'] = ids
        return state['ids']

    def is_miu(e, ids):
        e = unwrap(e)
        return e.get('kind') == 'DeclRefExpr' and e.get('referencedDecl', {}).get('id') in ids

    def strip_adaptors(e):
        e = unwrap(e)
        while e.get('kind') == 'CXXMemberCallExpr' and len(e['inner']) == 1 and e['inner'][0].get('name') in ('array', 'matrix', 'vector'):
            e = unwrap(e['inner'][0]['inner'][0])
        return e

    def sign(P, e, ids):
        e = strip_adaptors(e)
        if is_miu(e, ids):
            return '(nv_miu_nonneg != 0)'
        if e.get('kind') == 'CXXMemberCallExpr' and len(e['inner']) == 2 and e['inner'][0].get('name') in ('max', 'min'):
            nm = e['inner'][0]['name']
            arg = e['inner'][1]
            if f'scalar_{nm}_op' in qual(e.get('type')) and P.ctype(unwrap_arith(arg).get('type')) == 'double':
                c = f'({P.expr(unwrap_arith(arg))} >= 0.0)'
                o = sign(P, e['inner'][0]['inner'][0], ids)
                return f'({c} || {o})' if nm == 'max' else f'({c} && {o})'
        return 'nv_nondet__Bool()'

    def unwrap_arith(a):
        a = unwrap(a)
        while a.get('kind') in ('ImplicitCastExpr', 'MaterializeTemporaryExpr', 'CXXFunctionalCastExpr') and a.get('inner') and \
                P_base(a['inner'][0]) == 'double':
            a = unwrap(a['inner'][0])
        return a

    def P_base(n):
        return strip_cv(qual(n.get('type'))).replace('nano::', '') in ('double', 'scalar_t') and 'double'

    def mutating_mentions(n, ids):
        out = []

        def rec(x, parent):
            if not isinstance(x, dict):
                return
            if x.get('kind') == 'DeclRefExpr' and x.get('referencedDecl', {}).get('id') in ids:
                ro = parent is not None and parent.get('kind') == 'ImplicitCastExpr' and parent.get('castKind') == 'NoOp' and \
                    qual(parent.get('type')).startswith('const ')
                # a CONST map view of the vector (`vector_cmap_t{miu}`, argument of solver_state_t::update) cannot write through
                cmap = parent is not None and parent.get('kind') == 'CXXConstructExpr' and re.search(r'\b(vector|tensor|matrix)_cmap_t\b|\btensor_carray_storage_t\b', qual(parent.get('type')) + ' ' + parent.get('type', {}).get('qualType', ''))
                if not ro and not cmap:
                    out.append(x)
            for c in x.get('inner', []) or []:
                rec(c, x)
        rec(n, None)
        return out

    LEAF_SKIP = ('CompoundStmt', 'ForStmt', 'IfStmt', 'WhileStmt', 'DoStmt', 'SwitchStmt', 'CXXForRangeStmt', 'CXXTryStmt', 'CaseStmt', 'DefaultStmt')

    def miu_hook(P, n, ind):
        if n.get('kind') in LEAF_SKIP or n.get('_nv_miu'):
            return None
        ids = miu_ids(P)
        p = '  ' * ind
        if n.get('kind') == 'DeclStmt':
            for v in n.get('inner', []):
                if v.get('kind') == 'VarDecl' and v.get('id') in ids:
                    init = [x for x in v.get('inner', []) if x.get('kind') not in ('FullComment',)]
                    flag = 'nv_nondet__Bool()'
                    if init:
                        u = unwrap(init[0])
                        while u.get('kind') == 'CXXConstructExpr' and len(u.get('inner', [])) == 1:
                            u = unwrap(u['inner'][0])
                        if u.get('kind') == 'CallExpr' and unwrap(u['inner'][0]).get('referencedDecl', {}).get('name') == 'make_full_vector' and len(u['inner']) == 3:
                            flag = f'({P.expr(unwrap_arith(u["inner"][2]))} >= 0.0)'
                    n['_nv_miu'] = True
                    P.note('inequality multipliers: sign flag initialised')
                    return P.stmt1(n, ind) + f'{p}nv_miu_nonneg = {flag};\n'
        ms = mutating_mentions(n, ids)
        if not ms:
            return None
        u = unwrap(n)
        if u.get('kind') == 'CXXOperatorCallExpr' and unwrap(u['inner'][0]).get('referencedDecl', {}).get('name') == 'operator=' and \
                is_miu(strip_adaptors(u['inner'][1]), ids):
            P.note('inequality multipliers: Eigen assignment, sign analysis')
            return f'{p}nv_miu_nonneg = {sign(P, u["inner"][2], ids)};\n'
        n['_nv_miu'] = True
        P.note('inequality multipliers: possibly mutating mention, sign flag havocked')
        return P.stmt1(n, ind) + f'{p}nv_miu_nonneg = nv_nondet__Bool();\n'
    members = [(r'^minimize\|', 'nv_inner_minimize()'), (r'^done\|', 'solver_done')] + common.MEMBERS
    calls = [(r'^make_ro1\|', 'nv_make_ro1({&0})'), (r'^make_criterion\|', 'nv_make_criterion({&0}, {&1}, {2})'),
             (r'^converged\|', '@nondet')] + common.CALLS
    kw = dict(common.COMMON)
    kw.update(members=members, calls=calls, hooks=[hooks.param_hook(), update_at_hook], stmt_hooks=[miu_hook],
              opaque=common.OPAQUE + [r'augmented_lagrangian_function_t', r'rsolver_t', r'unique_ptr<nano::solver_t', r'penalty_function_t'],
              types=common.TYPES + [(r'^std::tuple<double, double>$', 'struct nv_tuple_f64_f64'),
                                    (r'std::tuple_element<[01], const std::tuple<double, double>>::type', 'double')])
    al = Fn('al_do_minimize', 'src/solver/augmented.cpp', 'do_minimize', flt='solver_augmented_lagrangian_t::do_minimize', self_struct='struct nv_solver', **kw)
    return [Target('al_do_minimize', [al, common.fn_done()], 'specs/C05/augmented.h', replace=['solver_done'])]


def build(tier):
    import core
    import kkt
    vcs = []
    fns = []

    def one(f, *args):
        def job():
            r = f(*args)
            return r[0], (r[1] if isinstance(r[1], list) else [r[1]])
        return job

    def own(f):
        def job():
            info = []
            return f(info), info
        return job
    # one clang run per (translation unit, filter): the pieces are independent, run them side by side
    jobs = [one(kernel, 'linear_penalty_op', 'linear_penalty_function_t', '(* rho (rabs fc))', '(* rho (ite (>= fc 0.0) 1.0 (- 1.0)))',
                'linear penalty term of one constraint'),
            one(kernel, 'quadratic_penalty_op', 'quadratic_penalty_function_t', '(* rho (* fc fc))', '(* (* 2.0 rho) fc)', 'quadratic penalty term of one constraint'),
            one(gating, 'penalty_vgrad', 'gating of the penalty term (equality or violated inequality)'),
            one(al_body, 'augmented_lagrangian_do_vgrad', 'augmented Lagrangian term of one constraint'),
            own(kkt.criterion), own(kkt.ro1), own(kkt.kkt)]
    for v, f in core.parallel(jobs, workers=4):
        vcs += v
        fns += f
    # corollary (pure SMT lemma on the formulas): at a feasible point with zero multipliers every term vanishes
    vcs.append(VC('lemma/feasible point, zero multipliers: every penalty and AL term is 0',
                  '(declare-const rho Real)(declare-const h Real)(declare-const g Real)(assert (> rho 0.0))(assert (= h 0.0))(assert (<= g 0.0))\n'
                  '(define-fun mx ((a Real)) Real (ite (>= a 0.0) a 0.0))\n'
                  '(assert (not (and (= (* rho (ite (>= h 0.0) h (- h))) 0.0) (= (* rho (mx g)) 0.0) (= (* rho (* h h)) 0.0) (= (* rho (* (mx g) (mx g))) 0.0)'
                  ' (= (* (/ rho 2.0) (* (+ h (/ 0.0 rho)) (+ h (/ 0.0 rho)))) 0.0) (= (* (/ rho 2.0) (* (mx (+ g (/ 0.0 rho))) (mx (+ g (/ 0.0 rho))))) 0.0))))',
                  about='penalty functions coincide with the objective at feasible points'))
    vcs.append(VC('lemma/criterion dominates the violation: mu >= 0, rho > 0 => |max(g, -mu/rho)| >= max(0, g)',
                  '(declare-const g Real)(declare-const mu Real)(declare-const rho Real)(assert (and (>= mu 0.0) (> rho 0.0)))\n'
                  '(define-fun mx ((a Real) (b Real)) Real (ite (>= a b) a b))(define-fun ab ((a Real)) Real (ite (>= a 0.0) a (- a)))\n'
                  '(assert (not (>= (ab (mx g (- (/ mu rho)))) (mx 0.0 g))))', about='elementwise kernel of the criterion formula (the extracted ::make_criterion itself is under contract in kkt.py: make_criterion/*)'))
    vcs.append(VC('lemma/penalty parameter stays positive: ro > 0, gamma > 1 => gamma*ro > 0; clamp(ro, 1e-6, 10) > 0; max(miu + ro*g, 0) >= 0',
                  '(declare-const ro Real)(declare-const gamma Real)(declare-const m Real)(declare-const g Real)(assert (and (> ro 0.0) (> gamma 1.0)))\n'
                  '(define-fun mx ((a Real) (b Real)) Real (ite (>= a b) a b))(define-fun mn ((a Real) (b Real)) Real (ite (<= a b) a b))\n'
                  '(assert (not (and (> (* gamma ro) 0.0) (> (mx (/ 1.0 1000000.0) (mn ro 10.0)) 0.0) (>= (mx (+ m (* ro g)) 0.0) 0.0))))',
                  about='precondition of the criterion lemma is maintained by the update rules (over the reals)'))
    return {
        'targets': al_targets(), 'vcs': vcs, 'functions': fns,
        'decided': ['per-constraint value and gradient-coefficient of the linear, quadratic and augmented-Lagrangian penalties equal the defining formulas of the property (over the reals), including the equality/violated-inequality gating and the multiplier index discipline',
                    'at a feasible point with zero multipliers every term is 0',
                    'augmented-Lagrangian solver: status converged => the returned state is valid and its constraint violation is <= epsilon (inductive invariant violation(best) <= old criterion); the stored constraint values and the value/gradient belong to the returned point; outer loop terminates',
                    '::make_criterion (extracted, over the reals, generic coordinate, any number of constraints): ro > 0 and every miu_i >= 0 => criterion >= |h_i|, >= max(0, g_i), >= 0 for every i, hence >= max(|h|_inf, |max(0,g)|_inf) (lift lemma); its division by ro is defined',
                    'the two preconditions of ::make_criterion are obliged at both call sites of the AL loop (CBMC assertions in the stub) and are loop invariants: ro > 0 (make_ro1 range, ro = gamma * ro with gamma > 1) and every miu_i >= 0 (ghost sign flag maintained from make_full_vector(n, 0.0) and the `.max(0.0).min(miu_max)` chain of the multiplier update, miu_max > 0)',
                    '::make_ro1(state) with its default bounds returns a value in [1e-6, 10] (std::clamp by its [alg.clamp] definition, lo <= hi obliged; the AL solver calls it with the defaults): the clause the CBMC stub nv_make_ro1 states',
                    'solver_state_t::kkt_optimality_test1..5 return the documented infinity norm of the documented vector (|max(g,0)|_inf, |h|_inf, |max(-mineq,0)|_inf, |mineq .* g|_inf, |lgx|_inf) of the STORED constraint values / multipliers; kkt_optimality_test() is the maximum of the five'],
        'not_decided': ['values/gradients of the 11 constraint kinds themselves (Eigen)',
                        'kkt_optimality_test5: that the stored m_lgx IS grad f + sum mineq_i grad g_i + sum meq_j grad h_j (solver_state_t::update_constraints loop) is not under contract; only the norm taken of it is',
                        'header documentation vs code (include/nano/solver/state.h): the comment of test 5 writes sum(miu_j * h_j(x)) where the KKT stationarity condition (and the code, m_lgx += m_meq(eq) * cgrad) uses grad h_j; the comment calls the inequality multipliers lambda and the equality multipliers miu, the AL solver and the members (m_meq / m_mineq, lambda / miu in augmented.cpp) use the opposite letters; tests 1-4 agree with the code', 'exactness in IEEE arithmetic: identities are proved over the reals, a re-association that is equal over R but not in floating point passes'],
        'assumptions': ['IEEE double treated as real', 'penalty > 0', '::nano::vgrad(constraint, x, gc) returns the constraint value and writes its gradient to gc (opaque)',
                        'Eigen: `gx += s * gc` adds s times gc coefficient-wise', 'Eigen contracts used by the make_criterion / KKT walks (closed list of specs/C06/eig.py): coefficient-wise .max(s) / .max(array), unary minus, array / scalar, array * array, .array() / .matrix() adaptors; lpNorm<Eigen::Infinity>() of x is a number L with L >= |x_i| for every i and L >= 0, and equal coefficient terms give equal norms (congruence); lpNorm<1> is a different reduction about which nothing is known',
                        'make_criterion: miu.size() == state.cineq().size() (one multiplier per inequality: miu is make_full_vector(bstate.cineq().size(), 0.0) and the number of constraints is fixed by the function); solver_state_t: m_meq / m_mineq have the sizes of m_ceq / m_cineq (constructor, update)',
                        'CBMC side: the clause proved for make_criterion is used for valid (finite) states only; sign rule of the uninterpreted product a > 0, b > 0 => a * b > 0 (SMT lemma over the reals; no underflow with a factor > 1); sign analysis of the multiplier update: E.max(c) >= 0 if c >= 0, E.min(c) >= 0 if c >= 0 and E >= 0 (Eigen coefficient-wise max / min), an Eigen expression does not write its operands, a const map view (vector_cmap_t) does not write; mutating mentions of miu inside loop / if CONDITIONS are not looked for', 'state.update(x, ...) recomputes the constraint values at x (update_constraints); the same point has the same violation', 'the inner solver and ::nano::converged are havocked', 'the multiplier counters ilambda / imiu stay below 2^62 (they count elements of an in-memory vector)'],
        'trusted': [],
    }


def replay(rp):
    """formula counterexamples (rho, fc, multipliers from the solver's model) are replayed on the real penalty functions
    of 1/2|x|^2 with one equality (h = x0 - c) and one inequality (g = x1 - d) whose values equal the model's fc"""
    import replaylib
    out = {'reproduced': False, 'runs': []}
    if rp['target'] == 'al_do_minimize':
        exe = replaylib.build_with_library('replay/C05_al_replay.cpp', 'C05_al_replay')
        rc, so, se = replaylib.run_driver(exe, [], timeout=900)
        out['runs'].append({'exit': rc, 'output': so.strip()[-1500:]})
        out['reproduced'] = rc == 1
        return out
    if rp['target'].startswith(('kkt_optimality_test', 'make_criterion', 'make_ro1')):
        # KKT residuals: a state with given multipliers against the documented norms recomputed by hand; criterion / initial penalty:
        # the real AL solver on half-space projections far from the origin (converged => feasible within epsilon)
        mode = 'kkt' if rp['target'].startswith('kkt_') else 'criterion'
        exe = replaylib.build_with_library('replay/C05_feas_replay.cpp', 'C05_feas_replay')
        rc, so, se = replaylib.run_driver(exe, [mode], timeout=900)
        out['runs'].append({'mode': mode, 'exit': rc, 'output': so.strip()[-1500:]})
        out['reproduced'] = rc == 1
        return out
    exe = replaylib.build_with_library('replay/C05_replay.cpp', 'C05_replay')
    tried = set()
    for fo in rp['failed_obligations']:
        m = replaylib.parse_model((fo.get('counterexample') or {}).get('model', ''))
        rho = float(m.get('rho', 1.5) or 1.5)
        fc = float(m.get('fc', 0.75) or 0.75)
        lam = float(m.get('lambda_k', 0.25) or 0.25)
        mu = float(m.get('miu_k', 0.5) or 0.5)
        for args in ((rho, 0.0, 0.0, fc, fc, lam, mu), (rho, 0.0, 0.0, -fc, -fc, lam, mu), (2.0, 1.0, 0.5, 1.75, 1.25, 0.25, 0.5)):
            if args in tried or not (rho > 0 and all(abs(a) < 1e6 for a in args)):
                continue
            tried.add(args)
            rc, so, se = replaylib.run_driver(exe, args)
            out['runs'].append({'args(rho,c,d,x0,x1,lambda,mu)': args, 'exit': rc, 'output': so.strip()[:1200]})
            if rc == 1:
                out['reproduced'] = True
    return out
