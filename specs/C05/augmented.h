/* C05 (second sentence): whenever the augmented-Lagrangian solver reports `converged` at precision epsilon, every
 * |h_j(x)| and max(0, g_i(x)) at the returned point is <= epsilon, and the stored constraint values are those recomputed
 * at the returned point.  Ghost: state.feas = max(|h(x)|_inf, |max(0,g(x))|_inf), a function of the state's point. */
#include "../solver/solver.h"
struct nv_al_solver { int32_t dummy; };
double nv_eps0, nv_epsK, nv_tau, nv_gamma, nv_miu_max, nv_lambda_min, nv_lambda_max; int64_t nv_max_outers;
static double nv_param_epsilon0(void) { return nv_eps0; }
static double nv_param_epsilonK(void) { return nv_epsK; }
static double nv_param_tau(void) { return nv_tau; }
static double nv_param_gamma(void) { return nv_gamma; }
static double nv_param_miu_max(void) { return nv_miu_max; }
static struct nv_tuple_f64_f64 nv_param_lambda(void) { struct nv_tuple_f64_f64 r; r._0 = nv_lambda_min; r._1 = nv_lambda_max; return r; }
static int64_t nv_param_max_outer_iters(void) { return nv_max_outers; }
#define NV_AL_PARAMS_OK (NV_SOLVER_PARAMS_OK && 10 <= nv_max_outers && nv_max_outers <= 1000 && nv_miu_max > 0.0 && nv_gamma > 1.0 && 0.0 < nv_tau && nv_tau < 1.0)

/* ---- preconditions of ::make_criterion, established by the solver loop -------------------------------------------------------
 * ro > 0: ro starts in [1e-6, 10] (PROVED on the extracted make_ro1 with its default bounds, specs/C05/kkt.py:
 *   make_ro1/range_of_the_initial_penalty; the call site is checked to use the defaults) and is only
 *   multiplied by gamma > 1.  `ro = gamma * ro` prints as the UNINTERPRETED product NV_FMUL; the one fact about it that is needed
 *   is the sign rule  a > 0 && b > 0 ==> a * b > 0  (proved over the reals: SMT lemma `penalty parameter stays positive`; in IEEE
 *   arithmetic a product with a factor > 1 cannot underflow to 0) -- stated here for every product of the target.
 * every miu_i >= 0: ghost flag nv_miu_nonneg, maintained by the sign analysis of spec.py (miu_hook) over the statements that can
 *   write the vector handed to make_criterion: `make_full_vector<scalar_t>(n, 0.0)` and `miu.array() = (..).max(0.0).min(miu_max)`. */
static double nv_fmul_signed(double a, double b)
{ double r = __CPROVER_uninterpreted_fmul(a, b); __CPROVER_assume(!(a > 0.0 && b > 0.0) || r > 0.0); return r; }
#undef NV_FMUL
#define NV_FMUL(a, b) nv_fmul_signed(a, b)
_Bool nv_miu_nonneg;
static double nv_make_ro1(const struct nv_state* s) { double r = nv_nondet_double(); __CPROVER_assume(r >= 1e-6 && r <= 10.0); return r; }
/* ::make_criterion(state, miu, ro) = max(|h|_inf, |max(g, -miu/ro)|_inf).  PROVED on the extracted function over the reals, any
 * number of constraints (specs/C05/kkt.py: make_criterion/criterion_dominates_equality, criterion_dominates_inequality,
 * criterion_nonnegative, lift):  ro > 0 and every miu_i >= 0  ==>  criterion >= max(|h|_inf, |max(0,g)|_inf) = feas(state).
 * The two preconditions are OBLIGED here at every call site; the clause is used for valid (finite) states only: over the doubles
 * a NaN constraint value makes the comparison false. */
static double nv_make_criterion(const struct nv_state* s, const struct nv_opaque* miu, double ro)
{
  __CPROVER_assert(ro > 0.0, "make_criterion_precondition: ro > 0");
  __CPROVER_assert(nv_miu_nonneg != 0, "make_criterion_precondition: every inequality multiplier miu_i >= 0");
  double c = nv_nondet_double(); if (s->valid) __CPROVER_assume(c >= s->feas); return c;
}
/* solver->minimize(penalty_function, x0): some state of the penalty function (arbitrary, consistent evaluation) */
static struct nv_state nv_inner_minimize(void)
{
  struct nv_state s;
  nv_ver_counter = nv_ver_counter + 1;
  s.ver = nv_ver_counter; s.eval_ver = s.ver; s.cons_ver = s.ver; s.origin = 0; s.t = 0.0;
  s.valid = nv_nondet__Bool(); s.m_fx = nv_nondet_double(); s.dg = nv_nondet_double(); s.gtest = nv_nondet_double(); s.feas = nv_nondet_double();
  s.m_status = nv_nondet_int32_t(); s.m_fcalls = nv_nondet_int64_t(); s.m_gcalls = nv_nondet_int64_t();
  return s;
}
/* bstate.update(cstate.x(), lambda, miu): the best state becomes the evaluation of the *constrained function* at
 * cstate's point: same point => same constraint violation; constraint values recomputed (update_constraints) */
static _Bool nv_state_update_at(struct nv_state* b, const struct nv_state* c)
{
  nv_ver_counter = nv_ver_counter + 1;
  b->ver = nv_ver_counter; b->eval_ver = b->ver; b->cons_ver = b->ver; b->feas = c->feas;
  b->valid = nv_nondet__Bool(); b->m_fx = nv_nondet_double(); b->gtest = nv_nondet_double(); b->dg = nv_nondet_double();
  return b->valid;
}

#define NV_CONTRACT_al_do_minimize \
__CPROVER_requires(NV_AL_PARAMS_OK && nv_ver_counter == 0 && __CPROVER_is_fresh(self, sizeof(*self))) \
__CPROVER_assigns(nv_ver_counter, nv_miu_nonneg) \
__CPROVER_ensures(NV_STATUS_OK(NV_RET.m_status)) \
/* converged => feasible within epsilon at the returned point */ \
__CPROVER_ensures(NV_RET.m_status == NVE_solver_status_converged ==> (NV_RET.valid && NV_RET.feas <= nv_epsilon)) \
/* the stored constraint values belong to the returned point, value/gradient are one evaluation there */ \
__CPROVER_ensures(NV_RET.cons_ver == NV_RET.ver && NV_RET.eval_ver == NV_RET.ver)
#define NV_LOOP_al_do_minimize_1 \
__CPROVER_assigns(outer, bstate, ro, old_criterion, nv_ver_counter, nv_miu_nonneg) \
__CPROVER_loop_invariant(0 <= outer && outer <= max_outers && nv_ver_counter < 4000 + 2 * (uint64_t)outer) \
__CPROVER_loop_invariant(bstate.m_status == NVE_solver_status_max_iters && bstate.cons_ver == bstate.ver && bstate.eval_ver == bstate.ver && bstate.ver <= nv_ver_counter) \
__CPROVER_loop_invariant(bstate.valid ==> bstate.feas <= old_criterion) \
/* the preconditions of make_criterion are loop invariants */ \
__CPROVER_loop_invariant(ro > 0.0 && nv_miu_nonneg != 0) \
__CPROVER_decreases(max_outers - outer)
