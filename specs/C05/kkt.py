"""C05, feasibility measures over the reals (back end B, specs/C06/eig.EigWP at a GENERIC coordinate, symbolic number of constraints):

  * `::make_criterion(state, miu, ro)` (src/solver/augmented.cpp): for miu_i >= 0 and ro > 0 the returned criterion is
    >= |h_i|, >= max(0, g_i) (every coordinate i) and >= 0, hence >= feas = max(|h|_inf, |max(0, g)|_inf) (`lift` lemma: a maximum
    over a finite index set is attained or the set is empty).  This is the clause the CBMC loop contract of the AL solver uses.
  * `solver_state_t::kkt_optimality_test1..5()` and `kkt_optimality_test()` (src/solver/state.cpp) against the definitions documented
    in include/nano/solver/state.h: each is the INFINITY norm of the documented vector built from the stored constraint values /
    multipliers, `kkt_optimality_test()` is the maximum of the five.

Reductions: `x.lpNorm<Eigen::Infinity>()` is the node `(nv_linf |x_i|)`, `x.lpNorm<1>()` the node `(nv_sum |x_i|)` (eig.py).  Here every
distinct (reduction kind, coefficient term) becomes ONE real constant; the facts instantiated for an infinity norm L of phi are
    L >= phi  at the generic coordinate   and   L >= 0                       (STATED FACTS = definition of a maximum of absolute values)
and two infinity norms whose coefficient terms are PROVED equal for all coefficient values (lemma VC of the same run) are equal
(congruence of the reduction).  Nothing is known about a `nv_sum` constant: an l1 norm where the definition demands the infinity norm is
refuted, as is the infinity norm of another vector.
"""
import os
import sys

sys.path.insert(0, os.path.join(os.path.dirname(os.path.abspath(__file__)), '..', 'C06'))
import astload
import nvwp
import sx
from core import VC
from nvwp import V, Unsupported
from eig import EigWP, AV, rabs, rmax

STATE_TU = 'src/solver/state.cpp'
AL_TU = 'src/solver/augmented.cpp'


class Red:
    """reduction nodes -> constants (+ facts)"""

    def __init__(self, decls, hyps, tag):
        self.decls, self.hyps, self.tag = decls, list(hyps), tag
        self.tab = {}          # (op, show(phi)) -> (constant, closed phi)
        self.eqs = {}          # frozenset of two linf constants -> bool (coefficient terms proved equal)
        self.lemmas = []

    def close(self, t):
        if isinstance(t, str):
            t = sx.parse(t) if t.startswith('(') else t
        if isinstance(t, str):
            return t
        t = (t[0],) + tuple(self.close(x) for x in t[1:])
        if t[0] in ('nv_linf', 'nv_sum'):
            key = (t[0], sx.show(t[1]))
            if key not in self.tab:
                self.tab[key] = (f'|{t[0][3:]}#{len(self.tab) + 1}|', t[1])
            return self.tab[key][0]
        return t

    def script(self, hyps, claim=None):
        hyps = [sx.show(self.close(h)) for h in list(self.hyps) + list(hyps) if h != 'true']
        claim = sx.show(self.close(claim)) if claim is not None else None
        linf = [(c, phi) for (op, _), (c, phi) in self.tab.items() if op == 'nv_linf']
        facts = []
        for c, phi in linf:
            facts += [f'(>= {c} {sx.show(phi)})', f'(>= {c} 0.0)']
        for i, (c1, p1) in enumerate(linf):
            for c2, p2 in linf[i + 1:]:
                if self.same_coefficients(c1, p1, c2, p2):
                    facts.append(f'(= {c1} {c2})')
        body = [nvwp.PRELUDE] + list(self.decls) + [f'(declare-const {c} Real)' for c, _ in self.tab.values()]
        body += [f'(assert {h})' for h in hyps + facts]
        if claim is not None:
            body.append(f'(assert (not {claim}))')
        body.append('(check-sat)')
        return '\n'.join(body) + '\n'

    def same_coefficients(self, c1, p1, c2, p2):
        k = frozenset((c1, c2))
        if k not in self.eqs:
            body = [nvwp.PRELUDE] + list(self.decls) + [f'(declare-const {c} Real)' for c, _ in self.tab.values()]
            body += [f'(assert {sx.show(self.close(h))})' for h in self.hyps]
            body += [f'(assert (not (= {sx.show(p1)} {sx.show(p2)})))', '(check-sat)']
            vc = VC(f'{self.tag}/lemma: the coefficient terms of {c1} and {c2} are equal for all coefficient values', '\n'.join(body) + '\n',
                    about='congruence of the infinity norm', timeout=3)
            ok = vc.verify()['status'] == 'SUCCESS'
            if ok:
                vc.timeout = 20
                self.lemmas.append(vc)
            self.eqs[k] = ok
        return self.eqs[k]

    def vc(self, name, hyps, claim, about='', src=None):
        return VC(name, self.script(hyps, claim), about=about or name, source=src)

    def from_wp(self, wp, prefix, path):
        out, counts = [], {}
        for label, guard, claim, line, facts in wp.obligations:
            counts[label] = counts.get(label, 0) + 1
            nm = f'{prefix}/{label}' + (f' @line {line}' if line else '') + (f' #{counts[label]}' if counts[label] > 1 else '')
            out.append(self.vc(nm, list(facts) + [guard], claim, about=label, src={'file': path, 'line': line}))
        return out


def fninfo(cname, cxx, path, fn):
    return {'c_name': cname, 'cxx': cxx, 'file': path, 'line': fn.get('loc', {}).get('line'), 'sha': astload.file_hash(path)}


def run1(wp, fn, path):
    rets = []
    wp.post = lambda w, rv: (rets.append((w.guard, rv)), [])[1]
    wp.run(fn, path)
    if len(rets) != 1 or rets[0][0] != 'true':
        raise Unsupported(f'{wp.name}: {len(rets)} return paths')
    rv = rets[0][1]
    if isinstance(rv, AV) or rv.s != 'Real':
        raise Unsupported(f'{wp.name}: does not return a scalar')
    return rv


# ---------------------------------------------------------------------------------------------------- ::make_criterion
def criterion(info):
    path = astload.resolve_tu(AL_TU)
    fn = astload.find_definition(AL_TU, 'make_criterion', 'make_criterion')
    tag = 'make_criterion'
    wp = EigWP(tag)
    wp.const('n_eq', 'Int', 'long')
    wp.const('n_ineq', 'Int', 'long')
    h = AV([wp.leaf('h')], 'n_eq')
    g = AV([wp.leaf('g')], 'n_ineq')
    wp.members = [(r'^ceq\|.*solver_state_t', lambda w, n, a, o: h), (r'^cineq\|.*solver_state_t', lambda w, n, a, o: g)] + list(wp.members)
    kinds = {}
    for key, p in wp.bind_params(fn):
        q = astload.param_types(fn)[len(kinds)]
        kinds[key] = q
        if 'solver_state_t' in q:
            wp.env[key] = V(key, 'Opaque', None)
        elif 'tensor_t<' in q or 'vector_t' in q:
            # PRECONDITION (obliged at the call sites): one inequality multiplier per inequality constraint
            wp.input_array(key, 'miu', 'n_ineq')
        elif q.replace('const ', '').strip() in ('double', 'nano::scalar_t', 'scalar_t'):
            wp.env[key] = wp.const('ro', 'Real', 'double')
        else:
            raise Unsupported(f'{tag}: unexpected parameter {key} of type {q}')
    if sorted(('solver_state_t' in q, 'tensor' in q or 'vector_t' in q) for q in kinds.values()) != [(False, False), (False, True), (True, False)]:
        raise Unsupported(f'{tag}: parameters are not (state, multipliers, penalty): {kinds}')
    rv = run1(wp, fn, path)
    info.append(fninfo(tag, '::make_criterion(state, miu, ro)', path, fn))
    pre = ['(> ro 0.0)', '(>= |miu@i| 0.0)']       # PRECONDITIONS (obliged at the call sites): ro > 0, every miu_i >= 0
    red = Red(wp.decls, pre, tag)
    src = {'file': path, 'line': fn.get('loc', {}).get('line')}
    vcs = red.from_wp(wp, tag, path)
    about = 'for every coordinate i, any number of constraints, ro > 0 and miu_i >= 0'
    vcs.append(red.vc(f'{tag}/criterion_dominates_equality: criterion >= |h_i|', [], f'(>= {rv.t} (rabs |h@i|))', about, src))
    vcs.append(red.vc(f'{tag}/criterion_dominates_inequality: criterion >= max(0, g_i)', [], f'(>= {rv.t} (rmax 0.0 |g@i|))', about, src))
    vcs.append(red.vc(f'{tag}/criterion_nonnegative: criterion >= 0', [], f'(>= {rv.t} 0.0)', about, src))
    vcs.append(VC(f'{tag}/reach: the preconditions are satisfiable', red.script([]), about='vacuity guard', source=src, expect='sat'))
    # lifting: feas = max(|h|_inf, |max(0,g)|_inf) is 0 (no constraints) or attained at some coordinates j, k; the three clauses above hold
    # at EVERY coordinate, in particular at j and k
    vcs.append(VC(f'{tag}/lift: criterion >= every |h_i|, every max(0, g_i) and 0  =>  criterion >= max(|h|_inf, |max(0,g)|_inf)',
                  nvwp.PRELUDE + '(declare-const c Real)(declare-const F Real)(declare-const hj Real)(declare-const gk Real)\n'
                  '(assert (or (= F 0.0) (= F (rabs hj)) (= F (rmax 0.0 gk))))(assert (and (>= c (rabs hj)) (>= c (rmax 0.0 gk)) (>= c 0.0)))\n'
                  '(assert (not (>= c F)))(check-sat)\n', about='a maximum over a finite index set is attained (or the set is empty)', source=src))
    return vcs + red.lemmas


# ---------------------------------------------------------------------------------------------------- ::make_ro1
def h_clamp(w, n, a, c):
    """std::clamp(v, lo, hi) [alg.clamp]: precondition !(hi < lo) (obliged); v < lo ? lo : hi < v ? hi : v"""
    from eig import real_of
    v, lo, hi = [real_of(w, w.ev(x)) for x in a]
    w.oblige('std::clamp: lo <= hi', f'(<= {lo} {hi})', n)
    return V(f'(ite (< {v} {lo}) {lo} (ite (< {hi} {v}) {hi} {v}))', 'Real', 'double')


def ro1(info):
    """the initial penalty parameter: make_ro1(state) with its DEFAULT bounds lies in [1e-6, 10] (what the CBMC stub nv_make_ro1 states), in
    particular it is > 0; the call site of the AL solver must use the defaults"""
    from fractions import Fraction
    path = astload.resolve_tu(AL_TU)
    fn = astload.find_definition(AL_TU, 'make_ro1', 'make_ro1')
    tag = 'make_ro1'
    wp = EigWP(tag)
    wp.const('n_eq', 'Int', 'long')
    wp.const('n_ineq', 'Int', 'long')
    h = AV([wp.leaf('h')], 'n_eq')
    g = AV([wp.leaf('g')], 'n_ineq')
    fx = wp.const('fx', 'Real', 'double')
    wp.members = [(r'^ceq\|.*solver_state_t', lambda w, n, a, o: h), (r'^cineq\|.*solver_state_t', lambda w, n, a, o: g),
                  (r'^fx\|.*solver_state_t', lambda w, n, a, o: fx)] + list(wp.members)
    wp.calls = [(r'^clamp\|', h_clamp)] + list(wp.calls)
    defaults = []
    for k, (key, p) in enumerate(wp.bind_params(fn)):
        q = astload.param_types(fn)[k]
        if 'solver_state_t' in q:
            wp.env[key] = V(key, 'Opaque', None)
            continue
        init = [x for x in p.get('inner', []) if x.get('kind') != 'FullComment']
        if not init:
            raise Unsupported(f'{tag}: parameter {key} without a default value')
        c = wp.const(f'p{k}', 'Real', 'double')
        wp.env[key] = c
        defaults.append(f'(= {c.t} {wp.conv(wp.ev(init[0]), "Real", "double").t})')
    if len(defaults) != 2:
        raise Unsupported(f'{tag}: expected (state, lower bound = .., upper bound = ..)')
    # the call site: both bounds defaulted (the CBMC stub takes the state only)
    dm = astload.find_definition(AL_TU, 'solver_augmented_lagrangian_t::do_minimize', 'do_minimize')
    sites = [c for c in astload.walk(dm) if c.get('kind') == 'CallExpr' and c.get('inner') and
             nvwp_unwrap(c['inner'][0]).get('referencedDecl', {}).get('name') == 'make_ro1']
    if not sites or any([a.get('kind') for a in c['inner'][2:]] != ['CXXDefaultArgExpr', 'CXXDefaultArgExpr'] for c in sites):
        raise Unsupported(f'{tag}: the AL solver does not call make_ro1(state) with the default bounds')
    rv = run1(wp, fn, path)
    info.append(fninfo(tag, '::make_ro1(state, ro_min = 1e-6, ro_max = 10)', path, fn))
    red = Red(wp.decls, defaults, tag)
    src = {'file': path, 'line': fn.get('loc', {}).get('line')}
    vcs = red.from_wp(wp, tag, path)
    lo = Fraction(float('1e-6'))
    vcs.append(red.vc(f'{tag}/range_of_the_initial_penalty: 1e-6 <= make_ro1(state) <= 10 (the double literals), hence > 0', [],
                      f'(and (>= {rv.t} (/ {lo.numerator}.0 {lo.denominator}.0)) (<= {rv.t} 10.0) (> {rv.t} 0.0))',
                      'any state, any number of constraints; the sums h.h and G.G are arbitrary reals', src))
    return vcs


def nvwp_unwrap(n):
    from cxx2c import unwrap
    return unwrap(n)


# ---------------------------------------------------------------------------------------------------- KKT residuals
# the definitions, from the documentation of include/nano/solver/state.h (test k = infinity norm of the k-th vector condition):
#   test 1: g_i(x) <= 0           -> | max(g, 0) |_inf        test 2: h_j(x) == 0   -> | h |_inf
#   test 3: lambda_i >= 0         -> | max(-lambda, 0) |_inf  test 4: lambda_i * g_i(x) == 0 -> | lambda .* g |_inf
#   test 5: grad f + sum lambda_i grad g_i + sum miu_j grad h_j == 0 -> | m_lgx |_inf  (m_lgx = the stored Lagrangian gradient)
# (the documentation calls the INEQUALITY multipliers lambda; the state stores them as m_mineq)
DEFS = {
    1: ('| max(g, 0) |_inf', '(nv_linf (rabs (rmax |g@i| 0.0)))'),
    2: ('| h |_inf', '(nv_linf (rabs |h@i|))'),
    3: ('| max(-mineq, 0) |_inf', '(nv_linf (rabs (rmax (- |mineq@i|) 0.0)))'),
    4: ('| mineq .* g |_inf', '(nv_linf (rabs (* |mineq@i| |g@i|)))'),
    5: ('| lgx |_inf', '(nv_linf (rabs |lgx@i|))'),
}


def expand(t):
    """rabs / rmax applications -> the ite terms eig.py prints (so that equal coefficient terms print alike)"""
    if isinstance(t, str):
        return t
    a = [expand(x) for x in t[1:]]
    if t[0] == 'rabs':
        return sx.parse(rabs(sx.show(a[0])))
    if t[0] == 'rmax':
        return sx.parse(rmax(sx.show(a[0]), sx.show(a[1])))
    return (t[0],) + tuple(a)


def state_wp(name):
    wp = EigWP(name)
    for c in ('n', 'n_eq', 'n_ineq'):
        wp.const(c, 'Int', 'long')
    # class invariant of solver_state_t (constructor, update): one multiplier per constraint
    wp.input_array('self.m_ceq', 'h', 'n_eq')
    wp.input_array('self.m_meq', 'meq', 'n_eq')
    wp.input_array('self.m_cineq', 'g', 'n_ineq')
    wp.input_array('self.m_mineq', 'mineq', 'n_ineq')
    wp.input_array('self.m_lgx', 'lgx', 'n')
    wp.input_array('self.m_gx', 'gx', 'n')       # the other stored vectors: a residual taken of the wrong member is refuted, not undecided
    wp.input_array('self.m_x', 'x', 'n')
    return wp


def kkt(info):
    path = astload.resolve_tu(STATE_TU)
    vcs = []
    for k, (text, term) in DEFS.items():
        nm = f'kkt_optimality_test{k}'
        fn = astload.find_definition(STATE_TU, 'solver_state_t::kkt_optimality_test', nm)      # one clang run for the six functions
        wp = state_wp(nm)
        wp.bind_params(fn)
        rv = run1(wp, fn, path)
        info.append(fninfo(nm, 'solver_state_t::' + nm, path, fn))
        red = Red(wp.decls, [], nm)
        src = {'file': path, 'line': fn.get('loc', {}).get('line')}
        vcs += red.from_wp(wp, nm, path)
        vcs.append(red.vc(f'{nm}/documented_norm: returns {text}', [], ('=', sx.parse(rv.t), expand(sx.parse(term))),
                          'the documented (infinity) norm of the documented vector, any number of constraints', src))
        vcs += red.lemmas
    nm = 'kkt_optimality_test'
    fn = astload.find_definition(STATE_TU, 'solver_state_t::kkt_optimality_test', nm)
    wp = state_wp(nm)
    seen = []

    def h_test(k):
        def h(w, n, a, o):
            if unwrap_this(o):
                seen.append(k)
                return w.const(f't{k}', 'Real', 'double') if f'(declare-const t{k} Real)' not in w.decls else V(f't{k}', 'Real', 'double')
            raise Unsupported(f'{nm}: kkt_optimality_test{k}() of another state')
        return h
    wp.members = [(rf'^kkt_optimality_test{k}\|', h_test(k)) for k in DEFS] + list(wp.members)
    wp.bind_params(fn)
    rv = run1(wp, fn, path)
    info.append(fninfo(nm, 'solver_state_t::' + nm, path, fn))
    for k in DEFS:
        if f'(declare-const t{k} Real)' not in wp.decls:
            wp.const(f't{k}', 'Real', 'double')
    red = Red(wp.decls, [], nm)
    src = {'file': path, 'line': fn.get('loc', {}).get('line')}
    vcs += red.from_wp(wp, nm, path)
    ts = [f't{k}' for k in DEFS]
    vcs.append(red.vc(f'{nm}/maximum_of_the_five: returns max(test1, .., test5)', [],
                      f'(and {" ".join(f"(>= {rv.t} {t})" for t in ts)} (or {" ".join(f"(= {rv.t} {t})" for t in ts)}))',
                      't_k = the value kkt_optimality_test<k>() returns on this state (contracts above)', src))
    return vcs


def unwrap_this(o):
    from cxx2c import unwrap
    u = unwrap(o)
    while u.get('kind') in ('ImplicitCastExpr',) and u.get('inner'):
        u = unwrap(u['inner'][0])
    return u.get('kind') == 'CXXThisExpr'
