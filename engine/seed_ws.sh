#!/bin/bash
# creates the scratch worktree and the prompt for an independent seeding agent (round R): /tmp/seed<R>_<ID>
# usage: seed_ws.sh <ID> <R>     (the agent gets ONLY the property text, the worktree and one-line summaries of earlier changes)
set -e
id=$1; r=${2:-2}; root=/tmp/seed${r}_$id
git -C /repo worktree add -q --detach $root HEAD
mkdir -p $root/out
python3 - "$id" "$r" "$root" <<'PY'
import json, sys, os, glob
pid, r, root = sys.argv[1:4]
here = '/verif'
prop = [json.loads(l) for l in open(f'{here}/properties.jsonl') if json.loads(l)['id'] == pid][0]
text = f"{prop['title']}\n\n{prop['statement']}\n\nQuantified over: {prop['quantifier']['text']}"
t = open(f'{here}/engine/seed_prompt_template.md').read().replace('/tmp/seed_<ID>', root).replace('<PROPERTY>', text).replace('<ID>', pid)
earlier = []
for d in sorted(glob.glob(f'{here}/seeded/{pid}-*')):
    m = json.load(open(os.path.join(d, 'meta.json'))) if os.path.exists(os.path.join(d, 'meta.json')) else {}
    if m.get('change'):
        earlier.append(f"  * {m['change']} ({', '.join(m.get('files', []))})")
if earlier:
    t += ('\n\nEarlier testers already delivered the following changes for this property; deliver DIFFERENT ones (other functions, '
          'other mechanisms, other clauses of the property):\n' + '\n'.join(earlier) + '\n')
open(os.path.join(root, 'PROMPT.md'), 'w').write(t)
PY
echo $root
