"""helpers shared by the SMT (nvwp) specs: std::array modelling, std::get, std::min/max, floor/ceil ..."""
import re

import astload
import nvwp
from nvwp import V, WP, AND, OR, NOT, IMP, ITE, lit, Unsupported
from cxx2c import unwrap, strip_cv, qual


def array_len(t):
    q = strip_cv(qual(t))
    m = re.search(r'std::array<\s*(?:long|unsigned long|int)\s*,\s*(\d+)', q)
    if m:
        return int(m.group(1))
    m = re.search(r'tensor_dims_t<\s*(\d+)', q)
    if m:
        return int(m.group(1))
    return None


def declare_array(wp, name, n, ctype='long', fresh=True):
    wp.env[name] = V(name, 'Array', n)
    for i in range(n):
        if fresh:
            wp.env[f'{name}.{i}'] = wp.fresh('Int', f'{name}_{i}', ctype)
            wp.assume(wp.in_range(wp.env[f'{name}.{i}'].t, ctype))
        else:
            wp.env[f'{name}.{i}'] = V('0', 'Int', ctype)


def array_name(wp, node):
    """name of the array variable an expression denotes (looking through casts / copies)"""
    n = unwrap(node)
    while n.get('kind') in ('CXXConstructExpr',) and len(n.get('inner', [])) == 1:
        n = unwrap(n['inner'][0])
    if n.get('kind') == 'DeclRefExpr':
        return wp.idmap.get(n['referencedDecl'].get('id'), n['referencedDecl']['name'])
    if n.get('kind') == 'MemberExpr':
        return wp.member_name(n)
    if n.get('kind') in ('CXXMemberCallExpr', 'CallExpr'):
        v = wp.ev(n)
        if v.s == 'Array':
            return v.t
    raise Unsupported(f'{wp.name}: array expression of kind {n.get("kind")}')


def h_std_get(wp, n, args, callee):
    """std::get<I>(array): the template argument is read from the source and evaluated under the instantiation"""
    targs = wp.call_template_args(callee)
    if len(targs) != 1:
        raise Unsupported(f'std::get with template args {targs}')
    arr = array_name(wp, args[0])
    size = wp.env[arr].c
    i = targs[0]
    if not (0 <= i < size):
        # the C++ compiler would reject this; treat as extraction break, not as a violation
        raise Unsupported(f'std::get<{i}> on array of size {size}')
    key = f'{arr}.{i}'
    if wp.want_loc:
        return key
    return wp.env[key]


def decl_array_hook(wp, v, init):
    n = array_len(v['type'])
    if n is None:
        return False
    name = v['name']
    if not init or (init[0].get('kind') == 'CXXConstructExpr' and not init[0].get('inner')):
        declare_array(wp, name, n)       # uninitialised / default: arbitrary contents
        return True
    src = unwrap(init[0])
    srcname = array_name(wp, src)
    wp.env[name] = V(name, 'Array', n)
    for i in range(n):
        wp.env[f'{name}.{i}'] = wp.env[f'{srcname}.{i}']
    return True


def h_array_fill(wp, n, args, obj):
    arr = array_name(wp, obj)
    v = wp.ev(args[0])
    for i in range(wp.env[arr].c):
        wp.env[f'{arr}.{i}'] = V(v.t, 'Int', 'long')
    return V('0', 'Int', 'int')


class IdEnvWP(WP):
    """WP whose variables are keyed by name, with duplicate parameter names (expanded packs) disambiguated"""

    def __init__(self, *a, **kw):
        super().__init__(*a, **kw)
        self.idmap = {}
        self.decl_hooks = (decl_array_hook,)

    def bind_params(self, fn):
        """env keys for the parameters: name, or name@k for the k-th element of an expanded pack"""
        params = [c for c in fn['inner'] if c['kind'] == 'ParmVarDecl']
        seen = {}
        keys = []
        names = [p.get('name', f'_arg{i}') for i, p in enumerate(params)]
        for p, nm in zip(params, names):
            if names.count(nm) > 1:
                k = seen.get(nm, 0)
                seen[nm] = k + 1
                key = f'{nm}@{k}'
            else:
                key = nm
            self.idmap[p.get('id')] = key
            keys.append((key, p))
        return keys

    def ev(self, n):
        if n.get('kind') == 'DeclRefExpr':
            rd = n['referencedDecl']
            key = self.idmap.get(rd.get('id'), rd.get('name'))
            if key in self.env:
                return self.env[key]
        return super().ev(n)

    def loc(self, n):
        u = unwrap(n)
        if u.get('kind') == 'DeclRefExpr':
            rd = u['referencedDecl']
            return self.idmap.get(rd.get('id'), rd.get('name'))
        return super().loc(n)


def load(tu, flt, name, select):
    docs = astload.dump(tu, flt)
    fn = astload.find_definition(tu, flt, name, select)
    return docs, fn


def reach_vc(wp, prefix, file=None):
    """vacuity guard: the preconditions and path facts must be satisfiable"""
    from core import VC
    smt = nvwp.PRELUDE + '\n'.join(wp.decls) + '\n' + '\n'.join(f'(assert {f})' for f in wp.facts) + '\n(check-sat)\n'
    return VC(f'{prefix}/reachability canary: preconditions and callee contracts are satisfiable', smt,
              about='vacuity guard (must be sat)', source={'file': file}, expect='sat')
