"""helpers shared by the SMT (nvwp) specs: std::array modelling, std::get, std::min/max, floor/ceil ..."""
import re

import astload
import nvwp
from nvwp import V, WP, AND, OR, NOT, IMP, ITE, lit, Unsupported
from cxx2c import unwrap, strip_cv, qual


def array_len(t):
    q = strip_cv(qual(t))
    m = re.search(r'std::array<\s*(?:long|unsigned long|int)\s*,\s*(\d+)', q)
    if m:
        return int(m.group(1))
    m = re.search(r'tensor_dims_t<\s*(\d+)', q)
    if m:
        return int(m.group(1))
    return None


def declare_array(wp, name, n, ctype='long', fresh=True):
    wp.env[name] = V(name, 'Array', n)
    for i in range(n):
        if fresh:
            wp.env[f'{name}.{i}'] = wp.fresh('Int', f'{name}_{i}', ctype)
            wp.assume(wp.in_range(wp.env[f'{name}.{i}'].t, ctype))
        else:
            wp.env[f'{name}.{i}'] = V('0', 'Int', ctype)


def array_name(wp, node):
    """name of the array variable an expression denotes (looking through casts / copies)"""
    n = unwrap(node)
    while n.get('kind') in ('CXXConstructExpr',) and len(n.get('inner', [])) == 1:
        n = unwrap(n['inner'][0])
    if n.get('kind') == 'DeclRefExpr':
        return wp.idmap.get(n['referencedDecl'].get('id'), n['referencedDecl']['name'])
    if n.get('kind') == 'MemberExpr':
        return wp.member_name(n)
    if n.get('kind') in ('CXXMemberCallExpr', 'CallExpr'):
        v = wp.ev(n)
        if v.s == 'Array':
            return v.t
    if n.get('kind') == 'InitListExpr' and array_len(n.get('type', {})) is not None:
        return aggregate_array(wp, n).t
    raise Unsupported(f'{wp.name}: array expression of kind {n.get("kind")}')


def aggregate_array(wp, n):
    """aggregate initialisation of a std::array<integer, N> from a braced list (`tensor_dims_t<N>{{a, b}}`, `({{sizes...}})`):
    [dcl.init.aggr] element k is initialised from the k-th initialiser (converted to the element type: an obligation when it
    narrows), the remaining elements are value-initialised (0).  The result is a fresh python-level array value.
    clang prints a short list as `array_filler: [<filler>, init_0, init_1, ..]` and a full one as `inner: [init_0, ..]`"""
    N = array_len(n['type'])
    lst = n
    inner = lst.get('inner', [])
    if 'array_filler' not in lst and len(inner) == 1 and inner[0].get('kind') == 'InitListExpr':
        lst = inner[0]                                                   # the braces of the wrapped C array
    if 'array_filler' in lst:
        items = list(lst['array_filler'][1:])
    else:
        items = list(lst.get('inner', []))
    if N is None or len(items) > N:
        raise Unsupported(f'{wp.name}: braced list of {len(items)} initialisers for {n.get("type", {}).get("qualType")}')
    wp.aggr_count = getattr(wp, 'aggr_count', 0) + 1
    name = f'aggr#{wp.aggr_count}'
    wp.env[name] = V(name, 'Array', N)
    for k in range(N):
        if k < len(items):
            v = wp.conv(wp.ev(items[k]), 'Int', 'long', items[k])
            wp.env[f'{name}.{k}'] = V(v.t, 'Int', 'long')
        else:
            wp.env[f'{name}.{k}'] = V('0', 'Int', 'long')
    wp.note('aggregate initialisation of std::array')
    return wp.env[name]


def aggr_hook(wp, n):
    """expression hook: a braced list (or a copy / move construction from one) that initialises a std::array<integer, N>"""
    if n.get('kind') == 'InitListExpr' and array_len(n.get('type', {})) is not None:
        return aggregate_array(wp, n)
    return None


def h_std_copy(wp, n, args, callee):
    """std::copy(first, last, out) between modelled std::arrays (iterators at constant positions): element first + k is copied
    to out + k for k in [0, last - first), in that order; returns out + (last - first).  [alg.copy] preconditions are obligations:
    [first, last) is a valid range, the destination range [out, out + (last - first)) lies inside the destination array, and out
    is not inside [first, last)"""
    first, last, out = wp.ev(args[0]), wp.ev(args[1]), wp.ev(args[2])
    if first.s != 'Iter' or last.s != 'Iter' or out.s != 'Iter' or first.c != last.c:
        raise Unsupported(f'{wp.name}: std::copy over an unmodelled range')
    lo, hi, o = int(first.t), int(last.t), int(out.t)
    if lo > hi:
        wp.oblige('std::copy: first <= last (a valid range)', 'false', n)
        hi = lo
    cnt = hi - lo
    room = wp.env[out.c].c - o
    if cnt > room:
        wp.oblige('std::copy: the destination range lies inside the destination array', 'false', n)
        cnt = room
    if out.c == first.c and lo <= o < hi:
        wp.oblige('std::copy: the output iterator is not inside [first, last)', 'false', n)
    vals = [wp.env[f'{first.c}.{lo + k}'] for k in range(cnt)]
    for k, v in enumerate(vals):
        wp.env[f'{out.c}.{o + k}'] = V(v.t, 'Int', 'long')
    wp.note('std::copy between std::arrays (exact)')
    return V(str(o + cnt), 'Iter', out.c)


def h_std_get(wp, n, args, callee):
    """std::get<I>(array): the template argument is read from the source and evaluated under the instantiation"""
    targs = wp.call_template_args(callee)
    if len(targs) != 1:
        raise Unsupported(f'std::get with template args {targs}')
    arr = array_name(wp, args[0])
    size = wp.env[arr].c
    i = targs[0]
    if not (0 <= i < size):
        # the C++ compiler would reject this; treat as extraction break, not as a violation
        raise Unsupported(f'std::get<{i}> on array of size {size}')
    key = f'{arr}.{i}'
    if wp.want_loc:
        return key
    return wp.env[key]


def decl_array_hook(wp, v, init):
    n = array_len(v['type'])
    if n is None:
        return False
    name = v['name']
    if not init or (init[0].get('kind') == 'CXXConstructExpr' and not init[0].get('inner')):
        declare_array(wp, name, n)       # uninitialised / default: arbitrary contents
        return True
    src = unwrap(init[0])
    srcname = array_name(wp, src)
    wp.env[name] = V(name, 'Array', n)
    for i in range(n):
        wp.env[f'{name}.{i}'] = wp.env[f'{srcname}.{i}']
    return True


def h_array_fill(wp, n, args, obj):
    arr = array_name(wp, obj)
    v = wp.ev(args[0])
    for i in range(wp.env[arr].c):
        wp.env[f'{arr}.{i}'] = V(v.t, 'Int', 'long')
    return V('0', 'Int', 'int')


# ----------------------------------------------------------------------------- std::array iterators, std::accumulate
def h_array_iter(end):
    """a.begin() / a.cbegin() / a.end() / a.cend() of a modelled std::array: an iterator value V(k, 'Iter', array name) at the
    constant position k"""
    def h(wp, n, args, obj):
        arr = array_name(wp, obj)
        return V(str(wp.env[arr].c if end else 0), 'Iter', arr)
    return h


def iter_hook(wp, n):
    """iterator +/- constant on a modelled std::array (the result must stay inside [begin, end])"""
    if n.get('kind') != 'BinaryOperator' or n.get('opcode') not in ('+', '-'):
        return None
    q = qual(n.get('type')) + ' ' + n.get('type', {}).get('qualType', '')
    if 'iterator' not in q and not qual(n.get('type')).rstrip().endswith('*'):
        return None
    a = wp.ev(n['inner'][0])
    if a.s != 'Iter':
        raise Unsupported(f'{wp.name}: pointer / iterator arithmetic on an unmodelled range')
    b = wp.ev(n['inner'][1])
    if b.s != 'Int' or not re.fullmatch(r'\d+', b.t):
        raise Unsupported(f'{wp.name}: std::array iterator moved by a non-constant distance')
    k = int(a.t) + (int(b.t) if n['opcode'] == '+' else -int(b.t))
    if not (0 <= k <= wp.env[a.c].c):
        # undefined behaviour: a refuted obligation (the verdict); execution continues with the iterator clamped to the range
        wp.oblige('std::array iterator stays inside [begin, end]', 'false', n)
        k = max(0, min(k, wp.env[a.c].c))
    return V(str(k), 'Iter', a.c)


def common_int_type(a, b):
    """usual arithmetic conversions of two integer C types (after integer promotion)"""
    R = nvwp.INT_RANGES

    def promote(t):
        lo, hi = R[t]
        return 'int' if (lo >= R['int'][0] and hi <= R['int'][1]) else t
    a, b = promote(a), promote(b)
    if a == b:
        return a
    width = lambda t: (R[t][1] - R[t][0]).bit_length()
    sa, sb = R[a][0] < 0, R[b][0] < 0
    if sa == sb:
        return a if width(a) >= width(b) else b
    u, s = (b, a) if sa else (a, b)
    if width(u) >= width(s):
        return u
    if R[s][0] <= R[u][0] and R[u][1] <= R[s][1]:
        return s
    return {'int': 'unsigned int', 'long': 'unsigned long', 'long long': 'unsigned long long'}[s]


def h_std_accumulate(wp, n, args, callee):
    """std::accumulate(first, last, init, op) over a modelled std::array with op = std::multiplies<..> / std::plus<..> (or no op =
    plus): EXACT semantics of [accumulate]:  T acc = init;  for each element: acc = op(acc, *it)  where T is the type of `init`.
    A transparent functor (std::multiplies<>) computes acc * element in the usual-arithmetic-conversion type of the two
    operands, a typed one (std::multiplies<long>) in its own type; the result is then CONVERTED BACK TO T at every step, which
    is an explicit obligation (`conversion to T preserves the value`): an `int` init truncates every partial result."""
    first, last = wp.ev(args[0]), wp.ev(args[1])
    if first.s != 'Iter' or last.s != 'Iter' or first.c != last.c:
        raise Unsupported(f'{wp.name}: std::accumulate over an unmodelled range')
    arr = first.c
    lo, hi = int(first.t), int(last.t)
    if lo > hi:
        wp.oblige('std::accumulate: first <= last (a valid range)', 'false', n)
        hi = lo
    init = wp.ev(args[2])
    s, T = wp.sort_of(args[2]['type'])
    if s != 'Int':
        raise Unsupported(f'{wp.name}: std::accumulate with a non-integer accumulator')
    op, fty = '+', None
    if len(args) > 3:
        q = strip_cv(qual(args[3]['type']))
        m = re.match(r'(?:struct )?std::(multiplies|plus|minus)<(.*)>$', q)
        if not m:
            raise Unsupported(f'{wp.name}: std::accumulate with the operation {q}')
        op = {'multiplies': '*', 'plus': '+', 'minus': '-'}[m.group(1)]
        inner = m.group(2).strip()
        if inner not in ('', 'void'):
            fty = wp.base({'qualType': inner})
            if fty not in nvwp.INT_RANGES:
                raise Unsupported(f'{wp.name}: std::accumulate with the functor type {inner}')
    wp.note('std::accumulate (exact, accumulator type = type of init)')
    acc = wp.conv(init, 'Int', T, n)
    for k in range(lo, hi):
        e = wp.env[f'{arr}.{k}']
        ct = fty or common_int_type(T, e.c or 'long')
        r = wp.arith(op, wp.conv(acc, 'Int', ct, n), wp.conv(e, 'Int', ct, n), ct, n)
        acc = wp.conv(r, 'Int', T, n)          # acc = op(acc, *it): converted back to the accumulator type
    return acc


STD_ARRAY_MEMBERS = [(r'^c?begin\|(const )?std::array', h_array_iter(False)), (r'^c?end\|(const )?std::array', h_array_iter(True))]
STD_NUMERIC_CALLS = [(r'^accumulate\|', h_std_accumulate)]
STD_COPY_CALLS = [(r'^copy\|', h_std_copy)]


class IdEnvWP(WP):
    """WP whose variables are keyed by name, with duplicate parameter names (expanded packs) disambiguated"""

    def __init__(self, *a, **kw):
        super().__init__(*a, **kw)
        self.idmap = {}
        self.decl_hooks = (decl_array_hook,)

    def bind_params(self, fn):
        """env keys for the parameters: name, or name@k for the k-th element of an expanded pack"""
        params = [c for c in fn['inner'] if c['kind'] == 'ParmVarDecl']
        seen = {}
        keys = []
        names = [p.get('name', f'_arg{i}') for i, p in enumerate(params)]
        for p, nm in zip(params, names):
            if names.count(nm) > 1:
                k = seen.get(nm, 0)
                seen[nm] = k + 1
                key = f'{nm}@{k}'
            else:
                key = nm
            self.idmap[p.get('id')] = key
            keys.append((key, p))
        return keys

    def ev(self, n):
        if n.get('kind') == 'DeclRefExpr':
            rd = n['referencedDecl']
            key = self.idmap.get(rd.get('id'), rd.get('name'))
            if key in self.env:
                return self.env[key]
        return super().ev(n)

    def loc(self, n):
        u = unwrap(n)
        if u.get('kind') == 'DeclRefExpr':
            rd = u['referencedDecl']
            return self.idmap.get(rd.get('id'), rd.get('name'))
        return super().loc(n)


def load(tu, flt, name, select):
    docs = astload.dump(tu, flt)
    fn = astload.find_definition(tu, flt, name, select)
    return docs, fn


def reach_vc(wp, prefix, file=None):
    """vacuity guard: the preconditions and path facts must be satisfiable"""
    from core import VC
    smt = nvwp.PRELUDE + '\n'.join(wp.decls) + '\n' + '\n'.join(f'(assert {f})' for f in wp.facts) + '\n(check-sat)\n'
    return VC(f'{prefix}/reachability canary: preconditions and callee contracts are satisfiable', smt,
              about='vacuity guard (must be sat)', source={'file': file}, expect='sat')
