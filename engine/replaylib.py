"""native replay helpers: compile small drivers against the real code of /repo's working tree and run them"""
import os
import re
import subprocess

import astload
from astload import REPO, VERIF, SCRATCH


def parse_model(text):
    """(define-fun |name!k| () Int 5) -> {'name': 5}; negative and rational values handled"""
    out = {}
    for m in re.finditer(r'\(define-fun\s+(\|[^|]+\||\S+)\s+\(\)\s+(Int|Real|Bool)\s+(\(- [^()]+\)|\([^()]*\([^()]*\)[^()]*\)|\([^()]+\)|[^\s()]+)\)', text):
        nm = m.group(1).strip('|')
        nm = re.sub(r'!\d+$', '', nm)
        v = m.group(3)
        out[nm] = smt_value(v)
    return out


def smt_value(v):
    v = v.strip()
    m = re.fullmatch(r'\(-\s*(.+)\)', v)
    if m:
        x = smt_value(m.group(1))
        return -x if x is not None else None
    m = re.fullmatch(r'\(/\s*(\S+)\s+(\S+)\)', v)
    if m:
        return float(m.group(1)) / float(m.group(2))
    if v in ('true', 'false'):
        return v == 'true'
    try:
        return int(v)
    except ValueError:
        try:
            return float(v)
        except ValueError:
            return None


def build_header_only(src, out_name, extra=()):
    """compile a replay driver that only needs /repo's headers"""
    out = os.path.join(SCRATCH, 'replay_bin', out_name)
    os.makedirs(os.path.dirname(out), exist_ok=True)
    cmd = ['g++', '-std=c++17', '-O1', '-DNDEBUG', '-I' + astload.version_include_dir(), '-I' + os.path.join(REPO, 'include'),
           '-I' + os.path.join(REPO, 'src'), '-isystem', '/usr/include/eigen3', os.path.join(VERIF, src), '-o', out] + list(extra)
    r = subprocess.run(cmd, capture_output=True, text=True, timeout=600)
    if r.returncode != 0:
        raise RuntimeError('replay driver failed to compile: ' + r.stderr[-1500:])
    return out


LIBS = ['machine', 'linear', 'wlearner', 'gboost', 'splitter', 'tuner', 'generator', 'datasource', 'dataset', 'loss',
        'solver', 'lsearchk', 'lsearch0', 'program', 'function', 'core']


def build_library():
    """(re)build the real library from /repo's working tree in a scratch build dir (incremental)"""
    bdir = os.path.join(SCRATCH, 'libbuild')
    if not os.path.exists(os.path.join(bdir, 'build.ninja')):
        r = subprocess.run(['cmake', '-G', 'Ninja', '-S', REPO, '-B', bdir, '-DCMAKE_BUILD_TYPE=Release',
                            '-DNANO_BUILD_TESTS=OFF', '-DNANO_BUILD_CMD_APP=OFF', '-DBUILD_SHARED_LIBS=OFF'],
                           capture_output=True, text=True, timeout=600)
        if r.returncode != 0:
            raise RuntimeError('cmake configure failed: ' + (r.stdout + r.stderr)[-1500:])
    r = subprocess.run(['cmake', '--build', bdir, '-j', '16'], capture_output=True, text=True, timeout=3000)
    if r.returncode != 0:
        raise RuntimeError('library build failed: ' + (r.stdout + r.stderr)[-2500:])
    return bdir


def build_with_library(src, out_name):
    bdir = build_library()
    out = os.path.join(SCRATCH, 'replay_bin', out_name)
    os.makedirs(os.path.dirname(out), exist_ok=True)
    libs = []
    for root, _, files in os.walk(bdir):
        for f in files:
            if f.startswith('lib') and f.endswith('.a'):
                libs.append(os.path.join(root, f))
    cmd = ['g++', '-std=c++17', '-O1', '-DNDEBUG', '-I' + os.path.join(bdir), '-I' + astload.version_include_dir(),
           '-I' + os.path.join(REPO, 'include'), '-I' + os.path.join(REPO, 'src'), '-isystem', '/usr/include/eigen3',
           os.path.join(VERIF, src), '-o', out, '-Wl,--start-group'] + libs + ['-Wl,--end-group', '-lpthread']
    r = subprocess.run(cmd, capture_output=True, text=True, timeout=900)
    if r.returncode != 0:
        raise RuntimeError('replay driver failed to link: ' + r.stderr[-2500:])
    return out


def run_driver(exe, args, timeout=120):
    r = subprocess.run([exe] + [str(a) for a in args], capture_output=True, text=True, timeout=timeout)
    return r.returncode, r.stdout, r.stderr
