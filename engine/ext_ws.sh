#!/bin/bash
# workspace + prompt for a spec-extending collaborator: ext_ws.sh <AID> <PID> <task text file>  -> /var/tmp/nv_agents/<AID>/PROMPT.md
set -e
aid=$1; pid=$2; task=$3
root=$(/verif/engine/agent_ws.sh $aid)
python3 - "$aid" "$pid" "$task" "$root" <<'PY'
import sys
aid, pid, task, root = sys.argv[1:5]
t = open('/verif/engine/ext_prompt_template.md').read().replace('<AID>', aid).replace('<PID>', pid).replace('<TASK>', open(task).read().strip())
open(root + '/PROMPT.md', 'w').write(t)
PY
echo $root/PROMPT.md
