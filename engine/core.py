"""core: targets, CBMC/DFCC pipeline, result classification, evidence, known findings."""
import concurrent.futures as cf
import json
import os
import re
import subprocess
import time

import astload
import cxx2c
from astload import ExtractionError, REPO, VERIF, SCRATCH

WORK = os.path.join(SCRATCH, 'work')
CBMC_TIMEOUT = int(os.environ.get('NV_CBMC_TIMEOUT', '600'))
MEM_KB = 12 * 1024 * 1024


class Undecided(Exception):
    pass


class TargetAbsent(ExtractionError):
    """the (optional) function a target enforces a contract on does not exist in the current source"""


def run(cmd, timeout, cwd=None, stdin=None):
    t0 = time.time()
    try:
        r = subprocess.run(['bash', '-c', f'ulimit -v {MEM_KB}; exec "$@"', 'x'] + cmd, capture_output=True, text=True,
                           timeout=timeout, cwd=cwd, input=stdin)
        return r.returncode, r.stdout, r.stderr, time.time() - t0
    except subprocess.TimeoutExpired as e:
        return 'timeout', (e.stdout or b'').decode(errors='replace') if isinstance(e.stdout, bytes) else (e.stdout or ''), '', time.time() - t0


class Fn:
    """one function of /repo printed as C"""

    def __init__(self, cname, tu, name, flt=None, select=None, kinds=('CXXMethodDecl', 'FunctionDecl', 'CXXConstructorDecl'),
                 self_struct=None, types=(), calls=(), members=(), hooks=(), stmt_hooks=(), aggregates=(),
                 ret=None, lambda_index=None, extra_params=(), post=None, uf_float=True, opaque=(), lambda_select=None, dtors=(), captures=False, optional=False, ref_member_pointers=False):
        self.ref_member_pointers = ref_member_pointers   # constructors: reference members are pointer fields of the C model
        self.lambda_select = lambda_select
        self.optional = optional      # the function (a lambda) may legitimately be absent from the current source
        self.uf_float = uf_float
        self.opaque = opaque
        self.dtors = list(dtors)
        self.cname = cname
        self.tu = tu
        self.name = name
        self.flt = flt or name
        self.select = select
        self.kinds = kinds
        self.self_struct = self_struct
        self.types, self.calls, self.members = list(types), list(calls), list(members)
        self.hooks, self.stmt_hooks = list(hooks), list(stmt_hooks)
        self.aggregates = aggregates
        self.ret = ret
        self.lambda_index = lambda_index
        self.lambda_select = lambda_select   # generic lambdas: picks the operator() specialisation (default: the first)
        self.extra_params = extra_params
        self.captures = captures  # lambda: derive the extra parameters from the capture list (by-reference -> pointer)
        self.post = post  # optional text transformation of the emitted C (must be mechanical; recorded)

    def emit(self):
        d = astload.find_definition(self.tu, self.flt, self.name, self.select, self.kinds)
        loc = d.get('loc', {})
        if self.lambda_index is not None:
            lams = astload.find_lambdas(d)
            if self.lambda_index >= len(lams):
                raise ExtractionError(f'{self.cname}: lambda #{self.lambda_index} not found ({len(lams)} lambdas)')
            lam = lams[self.lambda_index]
            ops = [m for m in astload.walk(lam) if m.get('kind') == 'CXXMethodDecl' and m.get('name') == 'operator()' and astload.has_body(m)]
            # a generic lambda (auto parameters) has a template pattern plus instantiations: take an instantiation
            inst = [m for m in ops if not any('auto' in t for t in astload.param_types(m))]
            if self.lambda_select is not None:
                inst = [m for m in inst if self.lambda_select(m)]
            own = astload.lambda_call_operator(lam)     # the closure's own call operator (nested lambdas are not searched)
            if own is not None and (self.lambda_select is None or self.lambda_select(own)) \
                    and not any('auto' in t for t in astload.param_types(own)):
                inst = [own]
            if not inst:
                raise ExtractionError(f'{self.cname}: lambda without an instantiated operator()')
            if self.captures and len(inst) > 1:
                raise ExtractionError(f'{self.cname}: generic lambda with {len(inst)} instantiations')
            d = inst[0]
        elif self.captures:
            raise ExtractionError(f'{self.cname}: captures=True without lambda_index')
        P = cxx2c.Printer(self.cname, self.types, self.calls, self.members, self.hooks, self.self_struct,
                          self.aggregates, self.stmt_hooks, self.uf_float, opaque=self.opaque, dtors=self.dtors)
        P.ref_member_pointers = self.ref_member_pointers
        P.tu = self.tu
        P.default_file = loc.get('file') or loc.get('expansionLoc', {}).get('file') or loc.get('spellingLoc', {}).get('file') or astload.resolve_tu(self.tu)
        P.field_init = lambda cls, fld, d=d: (astload.field_initializer(self.tu, cls, fld) or
                                               (astload.field_default_init(self.tu, d, fld) if d.get('kind') == 'CXXConstructorDecl' else None))
        extra = list(self.extra_params)
        if self.captures:
            # captured variables become parameters: by-reference captures are pointers (uses print as (*name), so writes
            # through them are visible to the caller), by-copy captures are values; `this` is the self parameter
            for c in astload.lambda_captures(lam):
                if c['this']:
                    if not self.self_struct:
                        raise ExtractionError(f'{self.cname}: lambda captures this but no self_struct is given')
                    continue
                vt = c['var_type'].get('qualType', '').rstrip()
                ct = P.ctype(c['var_type'])
                if c['byref']:
                    if not vt.endswith('&'):
                        ct += '*'
                        P.byref_captures.add(c['id'])
                elif vt.endswith('&'):
                    raise ExtractionError(f'{self.cname}: by-copy capture of the reference {c["name"]} is not supported')
                extra.append(f'{ct} {c["name"]}')
        text = P.function(d, self.ret, extra)
        if self.post:
            text = self.post(text)
        self.printer = P
        self.line = loc.get('line') or loc.get('expansionLoc', {}).get('line')
        return text


class Target:
    """a CBMC/DFCC verification unit: one enforced contract over extracted functions"""

    def __init__(self, name, fns, prelude, enforce=None, replace=(), harness=None, loops=None, checks=None,
                 source=None, note='', cbmc_flags=(), timeout=None, enforce_none=False, defines=(), unwind=None, enums=(), pre=None,
                 dfcc=True, bound=None, nondet_exclude=()):
        # dfcc=False: a BOUNDED target (only under `bounded=[..]` of a spec): no contract instrumentation at all, cbmc runs on the
        # goto binary of extracted code + harness (multi-threaded harnesses with __CPROVER_ASYNC_1 / __CPROVER_atomic_begin, which
        # DFCC does not support); loops are unwound by cbmc itself (`cbmc_flags=['--unwind', N, '--unwinding-assertions']`), so a
        # loop that can run longer than the bound is a failed obligation.  `bound` is the human-readable bound (evidence note).
        self.dfcc = dfcc
        # statics left out of --nondet-static (thread-local ghost variables: goto-instrument cannot initialise them nondeterministically,
        # cbmc then 'ignores a side effect'); the harness must assign them before use
        self.nondet_exclude = list(nondet_exclude)
        self.bound = bound
        self.defines = list(defines)
        # C text generated from /repo's AST (e.g. struct layouts read from class definitions, specs/C18/frame.py), emitted in
        # front of the prelude: a string or a callable returning (text, evidence dict); run inside build() so that an
        # extraction problem is an undecided target, never a crash of the spec
        self.pre = pre
        self.enums = list(enums)      # (tu, qualified enum name): NVE_<enum>_<enumerator> constants are generated from /repo's AST
        self.name = name
        self.fns = fns
        self.prelude = prelude            # path relative to /verif
        self.enforce = enforce or (None if enforce_none else fns[0].cname)      # (callable `fns`: `enforce` must be given)
        self.replace = list(replace)
        self.harness = harness            # C text of main; default: call enforced fn with nondet args
        self.loops = loops                # expected number of loop-invariant step obligations (vacuity guard)
        self.checks = checks or ['--bounds-check', '--pointer-check', '--div-by-zero-check',
                                 '--signed-overflow-check', '--pointer-overflow-check', '--conversion-check']
        self.source = source
        self.note = note
        self.cbmc_flags = list(cbmc_flags)
        self.timeout = timeout or CBMC_TIMEOUT
        # loops WITHOUT a loop contract whose bound is a constant at every call site (e.g. a template rank): DFCC wants
        # them unwound before instrumentation; `unwind=N` unwinds every loop N times WITH unwinding assertions, so a
        # loop that can run longer is a failed obligation, never a silent truncation.  Only for targets whose functions
        # carry no loop contracts.
        self.unwind = unwind

    def auto_harness(self, P):
        decls = []
        args = []
        for i, p in enumerate(P.params):
            m = re.match(r'(.*?)(\w+)$', p)
            ty, nm = m.group(1).strip(), m.group(2)
            decls.append(f'  {ty} {nm};')
            args.append(nm)
        return ('int main(void)\n{\n' + '\n'.join(decls) + f'\n  nv_thrown = 0;\n  {P.cname}({", ".join(args)});\n'
                '  __CPROVER_assert(0, "nv_canary: end of harness reachable");\n  return 0;\n}\n')

    def build(self, workdir):
        os.makedirs(workdir, exist_ok=True)
        # a spec may give `fns` / entries of `defines` as callables: they are evaluated here, inside the target's own worker, so
        # that building the spec does no clang work (every ./check, also with --only, builds the whole spec first)
        if callable(self.fns):
            self.fns = self.fns()
        self.defines = [d() if callable(d) else d for d in self.defines]
        texts = []
        protos = {}
        loops = []
        autoloops = {}
        info = {'functions': [], 'mappings': {}, 'dropped_statements': []}
        enforced_printer = None
        present = []
        for f in self.fns:
            try:
                text = f.emit()
            except ExtractionError as e:
                if f.optional and ('not found' in str(e) or 'definitions of' in str(e)):
                    info.setdefault('absent_optional_functions', []).append(f'{f.cname}: {e}')
                    if f.cname == self.enforce:
                        raise TargetAbsent(str(e))
                    continue
                raise
            present.append(f)
            P = f.printer
            texts.append(text)
            protos.update(P.protos)
            if P.auto_texts:
                protos[f'nv_auto:{P.cname}'] = '\n'.join(P.auto_texts)
                info.setdefault('auto_extracted_helpers', []).extend(sorted(P.auto_fns.values()))
            loops += [f'NV_LOOP_{P.cname}_{i}' for i in range(1, P.loops + 1)]
            # (not in targets that unwind their loops instead of giving them contracts: Target(unwind=N), loops=0, --unwind flags)
            if not self.unwind and self.loops != 0 and not any('--unwind' in str(x) for x in self.cbmc_flags):
                autoloops.update({f'NV_LOOP_{P.cname}_{i}': c for i, c in P.auto_loops.items()})
            src = astload.resolve_tu(f.tu)
            info['functions'].append({'c_name': f.cname, 'cxx': f.name, 'file': src, 'line': f.line,
                                      'sha': astload.file_hash(src), 'loops': P.loops})
            for k, v in P.used.items():
                info['mappings'][k] = info['mappings'].get(k, 0) + v
            info['dropped_statements'] += [f'{f.tu}:{ln}' for ln in P.dropped] + [f'{f.tu}: {e}' for e in P.erased]
            if f.cname == self.enforce:
                enforced_printer = P
        # a prelude may declare an extracted function ahead of its definition (stubs that call back into extracted code):
        # such a hand-written prototype must match the extracted signature exactly (goto-cc tolerates a mismatch)
        try:
            ptext = open(os.path.join(VERIF, self.prelude)).read()
        except OSError:
            ptext = ''
        norm = lambda ps: [re.sub(r'\s+', ' ', re.sub(r'\bconst\b', '', re.sub(r'\b\w+$', '', x.strip()))).replace(' *', '*').strip() for x in ps]
        for f in present:
            for m in re.finditer(r'(?m)^(?:static[ \t]+)?(?:struct[ \t]+)?\w+[ \t\*]+' + re.escape(f.cname) + r'\s*\(([^;{()]*)\)\s*;', ptext):
                if norm(m.group(1).split(',')) != norm(f.printer.params):
                    raise ExtractionError(f'{self.name}: prototype of {f.cname} in {self.prelude} does not match the extracted '
                                          f'signature {f.printer.signature}')
        self.fns_present = present
        harness = self.harness
        if callable(harness):
            harness = harness()      # generated from /repo's AST (e.g. one block per function found), like callable `fns`
        if harness is None:
            if enforced_printer is None:
                raise ExtractionError(f'{self.name}: no harness and no enforced function')
            harness = self.auto_harness(enforced_printer)
        out = ['#include "nv_base.h"']
        for tu, qn in self.enums:
            en = qn.split('::')[-1]
            consts = astload.enum_constants(tu, qn)
            out.append(f'#define NV_ENUM_{en} 1\nenum {{ ' + ', '.join(f'NVE_{en}_{c} = {v}' for c, v in consts) + ' };')
            info.setdefault('enums_from_source', {})[qn] = consts
        if self.pre is not None:
            gen = self.pre() if callable(self.pre) else self.pre
            if isinstance(gen, tuple):
                gen, ginfo = gen
                info['generated_from_source'] = ginfo
            out.append(gen)
        out.append(f'#include "{os.path.join(VERIF, self.prelude)}"')
        # NV_ARG_<c_name>_<k>: the name the source gives the k-th parameter (self first): contracts written with these
        # macros do not depend on how the library spells its parameter names
        for f in present:
            for k, prm in enumerate(f.printer.params):
                pm = re.search(r'(\w+)$', prm.strip())
                if pm:
                    out.append(f'#define NV_ARG_{f.cname}_{k} {pm.group(1)}')
            for k, nm in sorted(f.printer.loop_counters.items()):
                out.append(f'#define NV_LOOPVAR_{f.cname}_{k} {nm}')
            for k, b in sorted(f.printer.loop_bounds.items()):
                out.append(f'#define NV_LOOPBOUND_{f.cname}_{k} {b}')
            for k, b in sorted(f.printer.loop_lhs.items()):
                out.append(f'#define NV_LOOPLHS_{f.cname}_{k} {b}')
        # NV_LOOPBY_<c_name>_<counter>[_<n>]: a loop contract keyed by the loop's COUNTER (n-th loop with that counter, n >= 2) instead of
        # the loop's ordinal: it follows its loop when a maintainer reorders the loops of a function (swapped if / else arms, ...)
        for f in present:
            seen = {}
            for k in range(1, f.printer.loops + 1):
                c = f.printer.loop_counters.get(k)
                if not c or not re.fullmatch(r'\w+', c):
                    continue
                seen[c] = seen.get(c, 0) + 1
                by = f'NV_LOOPBY_{f.cname}_{c}' + ('' if seen[c] == 1 else f'_{seen[c]}')
                out.append(f'#ifdef {by}\n#undef NV_LOOP_{f.cname}_{k}\n#define NV_LOOP_{f.cname}_{k} {by}\n#endif')
        for f in present:
            out.append(f'#ifndef NV_CONTRACT_{f.cname}\n#define NV_CONTRACT_{f.cname}\n#endif')
        for m in loops:
            # a loop the spec gives no contract: the contract of a canonical counting loop where the printer recognised one
            # (cxx2c.auto_loop_contract), otherwise none (the loop is then unwound, or the target does not terminate: exit 2)
            out.append(f'#ifndef {m}\n#define {m} {autoloops.get(m, "")}\n#endif')
            if m in autoloops:
                info.setdefault('auto_loop_contracts', []).append(m)
        out += list(protos.values())
        # forward declarations so extracted functions can call each other in any order
        for f in present:
            out.append(f'{f.printer.signature} NV_CONTRACT_{f.cname};')
        for f, t in zip(present, texts):
            out.append(t.replace(f'\nNV_CONTRACT_{f.cname}\n', '\n', 1))
        out.append(harness)
        cfile = os.path.join(workdir, self.name + '.c')
        with open(cfile, 'w') as fh:
            fh.write('\n'.join(out) + '\n')
        self.cfile = cfile
        # a callee under contract that the current source no longer calls has no symbol in the goto binary and DFCC
        # would abort on its --replace-call-with-contract: replace only callees that are called (recorded in the evidence)
        # (a call may also sit in the prelude: stubs / contract-level lemma wrappers that call a contracted function; the
        # prototype that carries the contract is itself followed by '(' so count occurrences beyond the declaration)
        # (the prelude may be a generated top file that only #includes the spec's headers: those are searched as well)
        ptext_all = ptext
        for inc in re.findall(r'(?m)^#include\s+"([^"]+)"', ptext):
            for cand in (inc, os.path.join(VERIF, inc), os.path.join(os.path.dirname(os.path.join(VERIF, self.prelude)), inc)):
                if os.path.isabs(cand) and os.path.exists(cand):
                    ptext_all += '\n' + open(cand).read()
                    break

        def called_in_prelude(g):
            return len(re.findall(r'\b' + re.escape(g) + r'\s*\(', ptext_all)) >= 2
        self.replace_used = [g for g in self.replace if any(re.search(r'\b' + re.escape(g) + r'\s*\(', t) for t in texts + [harness])
                             or any(g == f.cname for f in self.fns) or called_in_prelude(g)]
        info['contracts_not_called'] = [g for g in self.replace if g not in self.replace_used]
        self.info = info
        return cfile

    def verify(self, workdir):
        """returns dict(status=ok|undecided, obligations=[...], seconds=..., info=...)"""
        t0 = time.time()
        res = {'target': self.name, 'status': 'ok', 'obligations': [], 'seconds': {}, 'note': self.note}
        try:
            cfile = self.build(workdir)
        except TargetAbsent as e:
            res.update(status='absent', reason=f'optional function absent: {e}')
            return res
        except ExtractionError as e:
            res.update(status='undecided', reason=f'extraction: {e}')
            return res
        res['info'] = self.info
        res['c_file'] = cfile
        gb = cfile[:-2] + '.gb'
        gb2 = cfile[:-2] + '.dfcc.gb'
        rc, so, se, dt = run(['goto-cc', '-DNV_CBMC'] + ['-D' + d for d in self.defines] + ['-I' + os.path.join(VERIF, 'models'), '-o', gb, cfile], 120)
        res['seconds']['goto-cc'] = dt
        if rc != 0:
            res.update(status='undecided', reason='goto-cc failed: ' + (se or so)[-1500:])
            return res
        # every global (ghost state, ghost indices, witnesses) starts nondeterministic: a forgotten initialisation can
        # then never silently narrow a proof to the all-zero ghost state.  Done before DFCC adds its own statics.
        gb1 = cfile[:-2] + '.nd.gb'
        nd = ['--nondet-static'] if not self.nondet_exclude else [x for v in self.nondet_exclude for x in ('--nondet-static-exclude', v)]
        rc, so, se, dt = run(['goto-instrument'] + nd + [gb, gb1], 120)
        res['seconds']['goto-instrument'] = dt
        if rc != 0:
            res.update(status='undecided', reason='goto-instrument --nondet-static failed: ' + (so + se)[-1500:])
            return res
        gb = gb1
        if self.unwind:
            gbu = cfile[:-2] + '.unw.gb'
            rc, so, se, dt = run(['goto-instrument', '--unwind', str(self.unwind), '--unwinding-assertions', gb, gbu], 120)
            res['seconds']['goto-instrument'] += dt
            if rc != 0:
                res.update(status='undecided', reason='goto-instrument --unwind failed: ' + (so + se)[-1500:])
                return res
            gb = gbu
        if not self.dfcc:
            if self.enforce or self.replace:
                res.update(status='undecided', reason='dfcc=False excludes enforce / replace (no contracts are instrumented)')
                return res
            cmd = ['cbmc', gb] + self.checks + ['--json-ui', '--trace', '--no-standard-checks'] + self.cbmc_flags
            res['checker_cmd'] = ' '.join(['goto-cc … | goto-instrument --nondet-static | cbmc'] + self.checks + self.cbmc_flags) + ' (BOUNDED, no DFCC)'
            return self._run_cbmc(cmd, res, t0, want_loops=0)
        cmd = ['goto-instrument', '--dfcc', 'main']
        if self.enforce:
            cmd += ['--enforce-contract', self.enforce]
        for g in self.replace_used:
            if any(f.cname == g for f in self.fns) and not any(f.cname == g for f in self.fns_present):
                continue     # optional callee absent from the source: nothing to replace
            cmd += ['--replace-call-with-contract', g]
        cmd += ['--apply-loop-contracts', gb, gb2]
        rc, so, se, dt = run(cmd, 300)
        res['seconds']['goto-instrument'] += dt
        if rc != 0:
            res.update(status='undecided', reason='goto-instrument failed: ' + (so + se)[-1500:])
            return res
        cmd = ['cbmc', gb2] + self.checks + ['--json-ui', '--trace', '--no-standard-checks'] + self.cbmc_flags
        res['checker_cmd'] = ' '.join(['goto-cc … |'] + ([f'goto-instrument --unwind {self.unwind} --unwinding-assertions |'] if self.unwind else []) +
                                      ['goto-instrument --dfcc main'] +
                                      ([f'--enforce-contract {self.enforce}'] if self.enforce else []) +
                                      [f'--replace-call-with-contract {g}' for g in self.replace_used] +
                                      ['--apply-loop-contracts |'] + ['cbmc'] + self.checks + self.cbmc_flags)
        return self._run_cbmc(cmd, res, t0)

    def _run_cbmc(self, cmd, res, t0, want_loops=None):
        rc, so, se, dt = run(cmd, self.timeout)
        res['seconds']['cbmc'] = dt
        if rc == 'timeout':
            res.update(status='undecided', reason=f'cbmc timeout after {self.timeout}s')
            return res
        try:
            js = json.loads(so)
        except Exception:
            res.update(status='undecided', reason='cbmc output not parseable: ' + (so[-800:] + se[-800:]))
            return res
        results = None
        msgs = []
        for item in js:
            if 'result' in item:
                results = item['result']
            if 'messageText' in item:
                msgs.append(item['messageText'])
        if results is None:
            res.update(status='undecided', reason='cbmc produced no result: ' + ' | '.join(msgs[-6:])[-1500:])
            return res
        if any('ignoring' in m for m in msgs):
            res.update(status='undecided', reason='cbmc ignored a construct: ' + ' | '.join(m for m in msgs if 'ignoring' in m)[:600])
            return res
        steps = 0
        for r in results:
            name = r.get('property', '?')
            desc = r.get('description', '')
            st = r.get('status')
            if 'loop_invariant_step' in name or 'invariant is preserved' in desc or 'loop invariant step' in desc.lower():
                steps += 1
            ob = {'id': name, 'description': desc, 'status': st, 'target': self.name, 'backend': 'cbmc-sat',
                  'location': r.get('sourceLocation', {})}
            if 'nv_canary' in desc:
                ob['canary'] = True
            if st == 'FAILURE' and 'trace' in r:
                ob['trace'] = summarize_trace(r['trace'])
            if st == 'FAILURE':
                m = re.fullmatch(r'(\w+)\.postcondition\.(\d+)', name)
                if m:
                    # say WHICH clause: the text of the k-th __CPROVER_ensures of the function's contract macro
                    try:
                        cl = contract_clauses(os.path.join(VERIF, self.prelude), m.group(1))
                        k = int(m.group(2)) - 1
                        if 0 <= k < len(cl):
                            ob['description'] = desc + ' -- ensures ' + re.sub(r'\s+', ' ', cl[k])[:400]
                    except Exception:
                        pass
            res['obligations'].append(ob)
        nloops = sum(f['loops'] for f in self.info['functions'] if f['c_name'] not in self.replace)
        want = want_loops if want_loops is not None else (self.loops if self.loops is not None else nloops)
        res['loop_step_obligations'] = steps
        if steps < want:
            res.update(status='undecided', reason=f'{steps} loop-invariant-step obligations for {want} loops: a loop contract was dropped')
        res['wall'] = time.time() - t0
        return res


def _macro_table(path, seen=None):
    """#define table of a prelude and of the headers it includes with "..." (same directory or models/)"""
    seen = seen if seen is not None else set()
    if path in seen or not os.path.exists(path):
        return {}
    seen.add(path)
    text = open(path).read().replace('\\\n', ' ')
    text = re.sub(r'/\*.*?\*/', ' ', text, flags=re.S)
    tab = {}
    for inc in re.findall(r'^\s*#\s*include\s+"([^"]+)"', text, re.M):
        for d in (os.path.dirname(path), os.path.join(VERIF, 'models')):
            tab.update(_macro_table(os.path.join(d, inc), seen))
    for m in re.finditer(r'^\s*#\s*define\s+(\w+)(\(([^)]*)\))?[ \t]+(.*)$', text, re.M):
        params = [x.strip() for x in m.group(3).split(',')] if m.group(2) else None
        tab[m.group(1)] = (params, m.group(4).strip())
    return tab


def _balanced(text, i):
    """text[i] == '(' : index just after the matching ')' """
    depth = 0
    for j in range(i, len(text)):
        if text[j] == '(':
            depth += 1
        elif text[j] == ')':
            depth -= 1
            if depth == 0:
                return j + 1
    return len(text)


def contract_clauses(prelude, cname, kind='__CPROVER_ensures'):
    """texts of the `kind` clauses of NV_CONTRACT_<cname>, in order.  Only the macros that structure the contract (whose body
    contains a __CPROVER_ clause) are expanded; predicate macros stay as written, so the text is the one the spec author wrote"""
    tab = _macro_table(prelude)
    clause = re.compile(r'__CPROVER_(requires|ensures|assigns|loop_invariant|decreases)\b')
    structural = {k for k, (_, body) in tab.items() if clause.search(body)}
    for _ in range(6):   # macros that only combine contract macros
        structural |= {k for k, (_, body) in tab.items() if any(w in structural for w in re.findall(r'\w+', body))}
    text = 'NV_CONTRACT_' + cname
    for _ in range(12):
        changed = False
        for name in sorted(structural, key=len, reverse=True):
            params, body = tab[name]
            for m in list(re.finditer(r'\b' + name + r'\b', text))[::-1]:
                if params is None:
                    text = text[:m.start()] + ' ' + body + ' ' + text[m.end():]
                    changed = True
                elif text[m.end():m.end() + 1] == '(':
                    e = _balanced(text, m.end())
                    args = [a.strip() for a in split_args(text[m.end() + 1:e - 1])]
                    b = body
                    for pn, av in zip(params, args):
                        b = re.sub(r'\b' + re.escape(pn) + r'\b', av.replace('\\', '\\\\'), b)
                    text = text[:m.start()] + ' ' + b + ' ' + text[e:]
                    changed = True
        if not changed:
            break
    out = []
    for m in re.finditer(re.escape(kind) + r'\s*\(', text):
        e = _balanced(text, m.end() - 1)
        out.append(text[m.end():e - 1].strip())
    return out


def split_args(s):
    out, depth, cur = [], 0, ''
    for ch in s:
        if ch == '(':
            depth += 1
        if ch == ')':
            depth -= 1
        if ch == ',' and depth == 0:
            out.append(cur)
            cur = ''
        else:
            cur += ch
    out.append(cur)
    return out


def summarize_trace(trace):
    """inputs of interest from a CBMC trace: last assignment to each named lhs, skipping internals"""
    vals = {}
    order = []
    for st in trace:
        if st.get('stepType') != 'assignment':
            continue
        lhs = st.get('lhs', '')
        if not lhs or lhs.startswith('__CPROVER') or 'dfcc' in lhs or lhs.startswith('return_value___') or '$' in lhs.split('.')[0][:0]:
            continue
        if st.get('hidden') and not lhs.startswith('nv_'):
            continue
        v = st.get('value', {})
        data = v.get('data', v.get('name'))
        if v.get('name') == 'float' and v.get('width') == 64 and v.get('binary'):
            import struct
            data = struct.unpack('>d', int(v['binary'], 2).to_bytes(8, 'big'))[0]   # exact value, not the rounded print
        if data is None:
            continue
        fn = st.get('sourceLocation', {}).get('function', '')
        key = f'{fn}::{lhs}' if fn else lhs
        if key not in vals:
            order.append(key)
        vals[key] = data
    return {k: vals[k] for k in order[-400:]}


# ----------------------------------------------------------------------------- SMT verification conditions
SOLVERS = [('z3-new', ['z3-new', '-in', '-T:{t}']), ('z3', ['z3', '-in', '-T:{t}']),
           ('cvc5', ['cvc5', '--lang=smt2', '--tlimit={tms}'])]


class VC:
    """one SMT verification condition: `smt` is a complete script whose (check-sat) must answer unsat"""

    def __init__(self, name, smt, about='', source=None, solvers=None, timeout=20, expect='unsat', model_vars=(), group=None):
        self.name, self.smt, self.about, self.source = name, smt, about, source
        self.group = group or name.split('/')[0]
        self.solvers = solvers
        self.timeout = timeout
        self.expect = expect
        self.model_vars = model_vars

    def verify(self, cross=False):
        ob = {'id': self.name, 'description': self.about, 'target': self.group, 'status': 'UNKNOWN', 'backend': None,
              'location': self.source or {}}
        secs = {}
        answers = {}
        script = self.smt
        if '(check-sat)' not in script:
            script += '\n(check-sat)\n'
        for nm, cmd in SOLVERS:
            if self.solvers and nm not in self.solvers:
                continue
            c = [x.format(t=self.timeout, tms=self.timeout * 1000) for x in cmd]
            s = script
            if nm == 'cvc5' and '(set-logic' not in s:
                s = '(set-logic ALL)\n' + s
            if nm == 'cvc5':
                c = c + ['--produce-models']
            rc, so, se, dt = run(c, self.timeout + 5, stdin=s + ('\n(get-model)\n' if self.expect == 'unsat' else ''))
            secs[nm] = dt
            first = (so or '').strip().split('\n')[0].strip() if rc != 'timeout' else 'timeout'
            answers[nm] = first
            if first == 'unsat' or first == 'sat':
                ob['backend'] = 'smt-' + nm
                if first == self.expect:
                    ob['status'] = 'SUCCESS'
                else:
                    ob['status'] = 'FAILURE'
                    ob['trace'] = {'model': so[:4000]}
                if not cross:
                    break
        if cross:
            decided = {a for a in answers.values() if a in ('sat', 'unsat')}
            if len(decided) > 1:
                ob['status'] = 'UNKNOWN'
                ob['solver_disagreement'] = answers
        ob['answers'] = answers
        ob['seconds'] = secs
        return ob


# ----------------------------------------------------------------------------- known findings
def load_known(pid):
    out = []
    p = os.path.join(VERIF, 'known_findings.txt')
    if not os.path.exists(p):
        return out
    for ln in open(p):
        ln = ln.strip()
        if not ln.startswith('finding:'):
            continue
        m = re.match(r'finding:\s+property=(\S+)\s+obligation=(\S+)\s*(.*)$', ln)
        if m and m.group(1) == pid:
            out.append({'obligation': m.group(2), 'what': m.group(3)})
    return out


def parallel(jobs, workers=None):
    workers = workers or min(16, max(1, len(jobs)))
    with cf.ThreadPoolExecutor(max_workers=workers) as ex:
        return list(ex.map(lambda j: j(), jobs))
