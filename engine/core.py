"""core: targets, CBMC/DFCC pipeline, result classification, evidence, known findings."""
import concurrent.futures as cf
import json
import os
import re
import subprocess
import time

import astload
import cxx2c
from astload import ExtractionError, REPO, VERIF, SCRATCH

WORK = os.path.join(SCRATCH, 'work')
CBMC_TIMEOUT = int(os.environ.get('NV_CBMC_TIMEOUT', '240'))
MEM_KB = 12 * 1024 * 1024


class Undecided(Exception):
    pass


def run(cmd, timeout, cwd=None, stdin=None):
    t0 = time.time()
    try:
        r = subprocess.run(['bash', '-c', f'ulimit -v {MEM_KB}; exec "$@"', 'x'] + cmd, capture_output=True, text=True,
                           timeout=timeout, cwd=cwd, input=stdin)
        return r.returncode, r.stdout, r.stderr, time.time() - t0
    except subprocess.TimeoutExpired as e:
        return 'timeout', (e.stdout or b'').decode(errors='replace') if isinstance(e.stdout, bytes) else (e.stdout or ''), '', time.time() - t0


class Fn:
    """one function of /repo printed as C"""

    def __init__(self, cname, tu, name, flt=None, select=None, kinds=('CXXMethodDecl', 'FunctionDecl', 'CXXConstructorDecl'),
                 self_struct=None, types=(), calls=(), members=(), hooks=(), stmt_hooks=(), aggregates=(),
                 ret=None, lambda_index=None, extra_params=(), post=None, uf_float=True):
        self.uf_float = uf_float
        self.cname = cname
        self.tu = tu
        self.name = name
        self.flt = flt or name
        self.select = select
        self.kinds = kinds
        self.self_struct = self_struct
        self.types, self.calls, self.members = list(types), list(calls), list(members)
        self.hooks, self.stmt_hooks = list(hooks), list(stmt_hooks)
        self.aggregates = aggregates
        self.ret = ret
        self.lambda_index = lambda_index
        self.extra_params = extra_params
        self.post = post  # optional text transformation of the emitted C (must be mechanical; recorded)

    def emit(self):
        d = astload.find_definition(self.tu, self.flt, self.name, self.select, self.kinds)
        loc = d.get('loc', {})
        if self.lambda_index is not None:
            lams = astload.find_lambdas(d)
            if self.lambda_index >= len(lams):
                raise ExtractionError(f'{self.cname}: lambda #{self.lambda_index} not found ({len(lams)} lambdas)')
            lam = lams[self.lambda_index]
            ops = [m for m in astload.walk(lam) if m.get('kind') == 'CXXMethodDecl' and m.get('name') == 'operator()']
            if not ops:
                raise ExtractionError(f'{self.cname}: lambda without operator()')
            d = ops[0]
        P = cxx2c.Printer(self.cname, self.types, self.calls, self.members, self.hooks, self.self_struct,
                          self.aggregates, self.stmt_hooks, self.uf_float)
        if d.get('kind') == 'CXXConstructorDecl':
            P.field_init = lambda field, d=d: astload.field_default_init(self.tu, d, field)
        text = P.function(d, self.ret, self.extra_params)
        if self.post:
            text = self.post(text)
        self.printer = P
        self.line = loc.get('line') or loc.get('expansionLoc', {}).get('line')
        return text


class Target:
    """a CBMC/DFCC verification unit: one enforced contract over extracted functions"""

    def __init__(self, name, fns, prelude, enforce=None, replace=(), harness=None, loops=None, checks=None,
                 source=None, note='', cbmc_flags=(), timeout=None, enforce_none=False):
        self.name = name
        self.fns = fns
        self.prelude = prelude            # path relative to /verif
        self.enforce = enforce or (None if enforce_none else fns[0].cname)
        self.replace = list(replace)
        self.harness = harness            # C text of main; default: call enforced fn with nondet args
        self.loops = loops                # expected number of loop-invariant step obligations (vacuity guard)
        self.checks = checks or ['--bounds-check', '--pointer-check', '--div-by-zero-check',
                                 '--signed-overflow-check', '--pointer-overflow-check', '--conversion-check']
        self.source = source
        self.note = note
        self.cbmc_flags = list(cbmc_flags)
        self.timeout = timeout or CBMC_TIMEOUT

    def auto_harness(self, P):
        decls = []
        args = []
        for i, p in enumerate(P.params):
            m = re.match(r'(.*?)(\w+)$', p)
            ty, nm = m.group(1).strip(), m.group(2)
            decls.append(f'  {ty} {nm};')
            args.append(nm)
        return ('int main(void)\n{\n' + '\n'.join(decls) + f'\n  nv_thrown = 0;\n  {P.cname}({", ".join(args)});\n'
                '  __CPROVER_assert(0, "nv_canary: end of harness reachable");\n  return 0;\n}\n')

    def build(self, workdir):
        os.makedirs(workdir, exist_ok=True)
        texts = []
        protos = {}
        loops = []
        info = {'functions': [], 'mappings': {}, 'dropped_statements': []}
        enforced_printer = None
        for f in self.fns:
            text = f.emit()
            P = f.printer
            texts.append(text)
            protos.update(P.protos)
            loops += [f'NV_LOOP_{P.cname}_{i}' for i in range(1, P.loops + 1)]
            src = astload.resolve_tu(f.tu)
            info['functions'].append({'c_name': f.cname, 'cxx': f.name, 'file': src, 'line': f.line,
                                      'sha': astload.file_hash(src), 'loops': P.loops})
            for k, v in P.used.items():
                info['mappings'][k] = info['mappings'].get(k, 0) + v
            info['dropped_statements'] += [f'{f.tu}:{ln}' for ln in P.dropped]
            if f.cname == self.enforce:
                enforced_printer = P
        harness = self.harness
        if harness is None:
            if enforced_printer is None:
                raise ExtractionError(f'{self.name}: no harness and no enforced function')
            harness = self.auto_harness(enforced_printer)
        out = ['#include "nv_base.h"', f'#include "{os.path.join(VERIF, self.prelude)}"']
        for f in self.fns:
            out.append(f'#ifndef NV_CONTRACT_{f.cname}\n#define NV_CONTRACT_{f.cname}\n#endif')
        for m in loops:
            out.append(f'#ifndef {m}\n#define {m}\n#endif')
        out += list(protos.values())
        # forward declarations so extracted functions can call each other in any order
        for f in self.fns:
            out.append(f'{f.printer.signature} NV_CONTRACT_{f.cname};')
        for f, t in zip(self.fns, texts):
            out.append(t.replace(f'\nNV_CONTRACT_{f.cname}\n', '\n', 1))
        out.append(harness)
        cfile = os.path.join(workdir, self.name + '.c')
        with open(cfile, 'w') as fh:
            fh.write('\n'.join(out) + '\n')
        self.cfile = cfile
        self.info = info
        return cfile

    def verify(self, workdir):
        """returns dict(status=ok|undecided, obligations=[...], seconds=..., info=...)"""
        t0 = time.time()
        res = {'target': self.name, 'status': 'ok', 'obligations': [], 'seconds': {}, 'note': self.note}
        try:
            cfile = self.build(workdir)
        except ExtractionError as e:
            res.update(status='undecided', reason=f'extraction: {e}')
            return res
        res['info'] = self.info
        res['c_file'] = cfile
        gb = cfile[:-2] + '.gb'
        gb2 = cfile[:-2] + '.dfcc.gb'
        rc, so, se, dt = run(['goto-cc', '-DNV_CBMC', '-I' + os.path.join(VERIF, 'models'), '-o', gb, cfile], 120)
        res['seconds']['goto-cc'] = dt
        if rc != 0:
            res.update(status='undecided', reason='goto-cc failed: ' + (se or so)[-1500:])
            return res
        # every global (ghost state, ghost indices, witnesses) starts nondeterministic: a forgotten initialisation can
        # then never silently narrow a proof to the all-zero ghost state.  Done before DFCC adds its own statics.
        gb1 = cfile[:-2] + '.nd.gb'
        rc, so, se, dt = run(['goto-instrument', '--nondet-static', gb, gb1], 120)
        res['seconds']['goto-instrument'] = dt
        if rc != 0:
            res.update(status='undecided', reason='goto-instrument --nondet-static failed: ' + (so + se)[-1500:])
            return res
        gb = gb1
        cmd = ['goto-instrument', '--dfcc', 'main']
        if self.enforce:
            cmd += ['--enforce-contract', self.enforce]
        for g in self.replace:
            cmd += ['--replace-call-with-contract', g]
        cmd += ['--apply-loop-contracts', gb, gb2]
        rc, so, se, dt = run(cmd, 300)
        res['seconds']['goto-instrument'] += dt
        if rc != 0:
            res.update(status='undecided', reason='goto-instrument failed: ' + (so + se)[-1500:])
            return res
        cmd = ['cbmc', gb2] + self.checks + ['--json-ui', '--trace', '--no-standard-checks'] + self.cbmc_flags
        res['checker_cmd'] = ' '.join(['goto-cc … |', 'goto-instrument --dfcc main'] +
                                      ([f'--enforce-contract {self.enforce}'] if self.enforce else []) +
                                      [f'--replace-call-with-contract {g}' for g in self.replace] +
                                      ['--apply-loop-contracts |'] + ['cbmc'] + self.checks + self.cbmc_flags)
        rc, so, se, dt = run(cmd, self.timeout)
        res['seconds']['cbmc'] = dt
        if rc == 'timeout':
            res.update(status='undecided', reason=f'cbmc timeout after {self.timeout}s')
            return res
        try:
            js = json.loads(so)
        except Exception:
            res.update(status='undecided', reason='cbmc output not parseable: ' + (so[-800:] + se[-800:]))
            return res
        results = None
        msgs = []
        for item in js:
            if 'result' in item:
                results = item['result']
            if 'messageText' in item:
                msgs.append(item['messageText'])
        if results is None:
            res.update(status='undecided', reason='cbmc produced no result: ' + ' | '.join(msgs[-6:])[-1500:])
            return res
        if any('ignoring' in m for m in msgs):
            res.update(status='undecided', reason='cbmc ignored a construct: ' + ' | '.join(m for m in msgs if 'ignoring' in m)[:600])
            return res
        steps = 0
        for r in results:
            name = r.get('property', '?')
            desc = r.get('description', '')
            st = r.get('status')
            if 'loop_invariant_step' in name or 'invariant is preserved' in desc or 'loop invariant step' in desc.lower():
                steps += 1
            ob = {'id': name, 'description': desc, 'status': st, 'target': self.name, 'backend': 'cbmc-sat',
                  'location': r.get('sourceLocation', {})}
            if 'nv_canary' in desc:
                ob['canary'] = True
            if st == 'FAILURE' and 'trace' in r:
                ob['trace'] = summarize_trace(r['trace'])
            res['obligations'].append(ob)
        nloops = sum(f['loops'] for f in self.info['functions'])
        want = self.loops if self.loops is not None else nloops
        res['loop_step_obligations'] = steps
        if steps < want:
            res.update(status='undecided', reason=f'{steps} loop-invariant-step obligations for {want} loops: a loop contract was dropped')
        res['wall'] = time.time() - t0
        return res


def summarize_trace(trace):
    """inputs of interest from a CBMC trace: last assignment to each named lhs, skipping internals"""
    vals = {}
    order = []
    for st in trace:
        if st.get('stepType') != 'assignment':
            continue
        lhs = st.get('lhs', '')
        if not lhs or lhs.startswith('__CPROVER') or 'dfcc' in lhs or lhs.startswith('return_value___') or '$' in lhs.split('.')[0][:0]:
            continue
        if st.get('hidden') and not lhs.startswith('nv_'):
            continue
        v = st.get('value', {})
        data = v.get('data', v.get('name'))
        if v.get('name') == 'float' and v.get('width') == 64 and v.get('binary'):
            import struct
            data = struct.unpack('>d', int(v['binary'], 2).to_bytes(8, 'big'))[0]   # exact value, not the rounded print
        if data is None:
            continue
        fn = st.get('sourceLocation', {}).get('function', '')
        key = f'{fn}::{lhs}' if fn else lhs
        if key not in vals:
            order.append(key)
        vals[key] = data
    return {k: vals[k] for k in order[-400:]}


# ----------------------------------------------------------------------------- SMT verification conditions
SOLVERS = [('z3-new', ['z3-new', '-in', '-T:{t}']), ('z3', ['z3', '-in', '-T:{t}']),
           ('cvc5', ['cvc5', '--lang=smt2', '--tlimit={tms}'])]


class VC:
    """one SMT verification condition: `smt` is a complete script whose (check-sat) must answer unsat"""

    def __init__(self, name, smt, about='', source=None, solvers=None, timeout=20, expect='unsat', model_vars=(), group=None):
        self.name, self.smt, self.about, self.source = name, smt, about, source
        self.group = group or name.split('/')[0]
        self.solvers = solvers
        self.timeout = timeout
        self.expect = expect
        self.model_vars = model_vars

    def verify(self, cross=False):
        ob = {'id': self.name, 'description': self.about, 'target': self.group, 'status': 'UNKNOWN', 'backend': None,
              'location': self.source or {}}
        secs = {}
        answers = {}
        script = self.smt
        if '(check-sat)' not in script:
            script += '\n(check-sat)\n'
        for nm, cmd in SOLVERS:
            if self.solvers and nm not in self.solvers:
                continue
            c = [x.format(t=self.timeout, tms=self.timeout * 1000) for x in cmd]
            s = script
            if nm == 'cvc5' and '(set-logic' not in s:
                s = '(set-logic ALL)\n' + s
            if nm == 'cvc5':
                c = c + ['--produce-models']
            rc, so, se, dt = run(c, self.timeout + 5, stdin=s + ('\n(get-model)\n' if self.expect == 'unsat' else ''))
            secs[nm] = dt
            first = (so or '').strip().split('\n')[0].strip() if rc != 'timeout' else 'timeout'
            answers[nm] = first
            if first == 'unsat' or first == 'sat':
                ob['backend'] = 'smt-' + nm
                if first == self.expect:
                    ob['status'] = 'SUCCESS'
                else:
                    ob['status'] = 'FAILURE'
                    ob['trace'] = {'model': so[:4000]}
                if not cross:
                    break
        if cross:
            decided = {a for a in answers.values() if a in ('sat', 'unsat')}
            if len(decided) > 1:
                ob['status'] = 'UNKNOWN'
                ob['solver_disagreement'] = answers
        ob['answers'] = answers
        ob['seconds'] = secs
        return ob


# ----------------------------------------------------------------------------- known findings
def load_known(pid):
    out = []
    p = os.path.join(VERIF, 'known_findings.txt')
    if not os.path.exists(p):
        return out
    for ln in open(p):
        ln = ln.strip()
        if not ln.startswith('finding:'):
            continue
        m = re.match(r'finding:\s+property=(\S+)\s+obligation=(\S+)\s*(.*)$', ln)
        if m and m.group(1) == pid:
            out.append({'obligation': m.group(2), 'what': m.group(3)})
    return out


def parallel(jobs, workers=None):
    workers = workers or min(16, max(1, len(jobs)))
    with cf.ThreadPoolExecutor(max_workers=workers) as ex:
        return list(ex.map(lambda j: j(), jobs))
