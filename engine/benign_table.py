#!/usr/bin/env python3
"""benign/RESULTS.md: behaviour-preserving refactorings (false-alarm test) and what the checks said about each.
exit 0 = green (wanted), exit 2 = undecided (brittle extraction / contract names an incidental), exit 1 = FALSE ALARM"""
import glob, os, re
HERE = os.path.dirname(os.path.dirname(os.path.abspath(__file__)))
rows = []
for d in sorted(glob.glob(os.path.join(HERE, 'benign', 'C*-*'))):
    name = os.path.basename(d)
    notes = ''
    p = os.path.join(d, 'NOTES.md')
    if os.path.exists(p):
        txt = [l.strip() for l in open(p).read().split('\n') if l.strip() and not l.startswith('#')]
        notes = (txt[0] if txt else '')[:220].replace('|', '/')
    files = sorted(set(re.findall(r'^\+\+\+ b/(\S+)', open(os.path.join(d, 'patch.diff')).read(), re.M))) if os.path.exists(os.path.join(d, 'patch.diff')) else []
    def verdict_of(t, pid):
        last = [l for l in t.split('\n') if l.startswith(pid + ':')]
        und = [l for l in t.split('\n') if l.startswith('UNDECIDED')]
        if 'VIOLATION' in t or re.search(r'\b[1-9]\d* refuted', last[-1] if last else ''):
            return 'FALSE ALARM (exit 1)'
        if und or 'Traceback' in t:
            return 'undecided (exit 2): ' + (und[0][:160].replace('|', '/') if und else 'internal error')
        if last and ' 0 refuted' in last[-1] and ' 0 undecided' in last[-1]:
            return 'green'
        return '?'
    logs = sorted(glob.glob(os.path.join(d, 'check_*.log')))
    for fl in [x for x in logs if x.endswith('.first.log')]:
        if fl[:-len('.first.log')] + '.log' not in logs:      # only the first verdict is on file (the re-evaluation log was discarded)
            pid = re.search(r'check_(\w+)\.first\.log', fl).group(1)
            f2 = os.path.join(d, f'final_{pid}.txt')
            rows.append((name, ', '.join(files), notes, pid, verdict_of(open(fl).read(), pid), open(f2).read().strip() if os.path.exists(f2) else ''))
    for lg in logs:
        if lg.endswith('.first.log'):
            continue
        pid = re.search(r'check_(\w+)\.log', lg).group(1)
        t = open(lg).read()
        first = lg[:-4] + '.first.log'
        if os.path.exists(first):
            f2 = os.path.join(d, f'final_{pid}.txt')
            note = open(f2).read().strip() if os.path.exists(f2) else ''
            now = verdict_of(t, pid)
            rows.append((name, ', '.join(files), notes, pid, verdict_of(open(first).read(), pid), now + (f' ({note})' if note and now == 'green' else '')))
            continue
        last = [l for l in t.split('\n') if l.startswith(pid + ':')]
        und = [l for l in t.split('\n') if l.startswith('UNDECIDED')]
        viol = 'VIOLATION' in t or re.search(r'\b[1-9]\d* refuted', last[-1] if last else '')
        if viol:
            verdict = 'FALSE ALARM (exit 1)'
        elif und or 'Traceback' in t:
            verdict = 'undecided (exit 2): ' + (und[0][:160].replace('|', '/') if und else 'internal error')
        elif last and ' 0 refuted' in last[-1] and ' 0 undecided' in last[-1]:
            verdict = 'green'
        else:
            verdict = '?'
        final = ''
        f2 = os.path.join(d, f'final_{pid}.txt')
        if os.path.exists(f2):
            final = open(f2).read().strip()
        rows.append((name, ', '.join(files), notes, pid, verdict, final))
out = ['# Behaviour-preserving refactorings (false-alarm test)', '',
       'Each row: a refactoring produced by an independent agent that was given only the property text; the check of the property',
       'was run with the patch applied to /repo.  `first verdict` is what the check said when the patch arrived, `now` what it says after',
       'the engine / spec was made robust (empty = unchanged).  A FALSE ALARM would be a defect of the machinery; none is tolerated.', '',
       '| patch | files | what | check | first verdict | now |', '|---|---|---|---|---|---|']
for r in rows:
    out.append('| ' + ' | '.join(r) + ' |')
n = len(rows)
g = sum(1 for r in rows if (r[5] or r[4]).startswith('green'))
out += ['', f'{g} of {n} green at the last evaluation.']
open(os.path.join(HERE, 'benign', 'RESULTS.md'), 'w').write('\n'.join(out) + '\n')
print('\n'.join(out[-3:]))
