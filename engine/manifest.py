#!/usr/bin/env python3
"""regenerates /verif/MANIFEST.json from the table below (single source of truth for what is claimed)"""
import json
import os

HERE = os.path.dirname(os.path.dirname(os.path.abspath(__file__)))

CLAIMED = {
    # id: (technique, level text, level note, design_ref)
    'C01': ('CBMC/DFCC function + loop contracts over a ghost-versioned state model; update formulas as bounded SMT VCs over the reals (n <= 3); all on code extracted from /repo each run',
            'proof of the truthfulness clause for gd, cgd-*, lbfgs, bfgs/dfp/sr1/hoshino/fletcher (their four do_minimize bodies, solver_t::done, lsearch_t::get, gradient_test): a returned `converged` state passed its own gradient test max|g|/max(1,|f|) < epsilon on one consistent evaluation, for every function, line search and tolerance; the convergence-within-1500-evaluations sentence is not decided',
            'vector algebra erased (purity-checked), state constructor/update and Eigen lpNorm assumed, line search by the contract proved in C07 (refinement lemma checked)', '7/C01'),
    'C02': ('CBMC/DFCC function + loop contracts over a ghost-versioned state model (all solver bodies incl. the constrained ones), SMT lemmas over the reals for the f <= f0 chain and the gradient-sampling preconditioner, on code extracted from /repo each run',
            'proof for solver_t::done, lsearch_t::get and the do_minimize bodies shared by the 17 line-search solvers: status in {converged,max_iters,failed}; non-failed => valid (finite value and point); reported (x,f,g) is one consistent evaluation; reported counts <= evaluations performed; budget loop terminates and overshoots max_evals by at most one line search; the remaining solver bodies and the numeric clauses are not decided',
            'vector algebra erased (purity-checked), evaluation counting via ghost counter (function_t counters assumed to count evaluations), line search by the contract proved in C07', '7/C02'),
    'C03': ('CBMC/DFCC function + loop contracts (bundle invariant, stop-test protocols); ellipsoid update and bundle linearisation identities as bounded SMT VCs over the reals; on code extracted from /repo each run',
            'proof of the bundle representation invariant that every reported result of RQB/FPBA rests on: 0 < size < capacity after the constructor path, append and moveto; every index written into the bundle buffers < capacity; delete_largest reads the multipliers inside [0,size) and a full bundle loses at least `count` entries; the eps-optimality certificate itself (convex analysis on values) and the ellipsoid clauses are not decided',
            'cardinality lemma for std::nth_element + nano::remove_if assumed (stated in specs/C03/bundle.h); matrix contents, smeared_e/s and the QP solve erased', '7/C03'),
    'C04': ('CBMC/DFCC function + loop contracts over ghost value identities for the Eigen algebra (decision protocol, dispatch); SMT VCs over the reals for residual definitions, normalisation / un-scaling, interior-point invariant, Newton step, reduce (bounded shapes) and generic-coordinate versions (any size); on code extracted from /repo each run',
            'proof of the decision protocol of the primal-dual interior-point solver: done() sets converged iff the program is feasible at the returned x and each of eta, |rdual|, |rprim| is below epsilon (NaN never converges), else unbounded/unfeasible; an infeasible start is rejected without iterating; every exit sets a status and converged/unbounded/unfeasible only through done(); x, u, v advance by one common step that passed the strict-feasibility test; solve_without_inequality status logic; make_smax in (0,1] keeps u + s du >= 0; all numeric tolerances and restatement invariance are not decided',
            'Eigen operators as pure functions of operand identities; program_t::update/solve frames assumed; three IEEE facts; double as real in the make_smax VCs', '7/C04'),
    'C05': ('weakest-precondition VCs over the reals (z3/cvc5) for the penalty kernels + CBMC/DFCC loop contract for the AL solver protocol, both on code extracted from /repo each run',
            'proof (over R) that the per-constraint value and gradient coefficient of the linear, quadratic and augmented-Lagrangian penalty functions equal the defining formulas incl. gating and multiplier indexing; proof that the augmented-Lagrangian solver reports converged only for a valid state whose constraint violation is <= epsilon, with constraint values recomputed at the returned point',
            'double treated as real for the formulas; constraint value/gradient code, Eigen coefficient-wise semantics, inner solver and make_criterion lifting assumed', '7/C05'),
    'C07': ('CBMC/DFCC function + loop contracts over a ghost-versioned state model; SMT VCs over the reals for predicate formulas, step sanity, dcstep / interpolation kernels against their reference, CG_DESCENT composition; on code extracted from /repo each run',
            'proof for lsearchk_t::get/update and the backtrack, LeMarechal, Fletcher(+zoom) bodies: success is returned only right after the advertised predicates were evaluated true on the current trial point with the returned step, the state is then the valid evaluation at x+t*d, a non-descent direction is refused with the state untouched, every loop terminates',
            'state.update(x) = one evaluation at x (assumed), interpolation havocked, parameters inside their registered domains; success on quadratics and CG_DESCENT/More-Thuente bodies not decided', '7/C07'),
    'C08': ('CBMC/DFCC function + loop contracts on code extracted from /repo each run',
            'proof for the missing-value bit mask (setbit/getbit/optional/make_mask over all 2^64 sample values), the datasource iterator protocol, dataset_t::check(samples)/check(feature)/byfeature range guards (a sample or feature index outside the valid range throws and is never read), the one-hot flatten of single-label features and dataset_t::select reaching its reader only behind the guards; agreement of all dataset views, drop/shuffle histories and the other storage kinds are not decided',
            'Eigen min/max/segment/coefficient access and the dataset_t::update() bookkeeping invariant assumed (listed in the evidence)', '7/C08'),
    'C09': ('CBMC/DFCC function + loop contracts on code extracted from /repo each run; bounded SMT VCs for the regularisation terms',
            'proof that sum_reduce/min_reduce combine every per-thread accumulator exactly once and normalise once, that the linear and gboost accumulators clear/add/divide all their fields, and that the dataset iterators hand map() the sample count and batch size and each task the inputs/targets of exactly its range; regularisation formulas only bounded (|W| <= 3, reported as bounded); loss values, re-association and every concurrency effect are not decided',
            'pool_t::map by the contract proved in C17; Eigen coefficient-wise semantics assumed', '7/C09'),
    'C10': ('CBMC/DFCC function + loop contracts (predict / split consistency, fit sweeps, accumulator, clustering) + SMT lemmas over the reals for the minimum-RSS clauses, on code extracted from /repo each run',
            'proof of the consistency clauses: loop_scalar/sclass/mclass call the operator exactly once per given (non-missing) value with in-range sample positions; stump and table predict add the table row of exactly the group that split() assigns (missing or unknown values: nothing); scale multiplies row i by scale[min(i,n-1)] exactly once; merge nulls a learner only after a successful try_merge into an earlier one and keeps the rest in order; the RSS-optimality clause is not decided',
            'select_iterator loop, Eigen row operations, cluster_t::assign, try_merge, std::remove_if/lower_bound assumed; fitted-learner shape invariants assumed', '7/C10'),
    'C11': ('CBMC/DFCC function + loop contracts (monitor transition, history lemma by harness loop contract, fit protocols with ghost provenance) + SMT lemma over the reals for fold averaging, on code extracted from /repo each run',
            'proof of the early-stopping monitor transition (whole abstract state in the postcondition, frame = its three members) for every observation and prior state; statistics-equality clauses not decided',
            'mean_error assumed deterministic; clang AST + cxx2c printer + CBMC trusted', '7/C11'),
    'C12': ('weakest-precondition VCs over Int (z3/cvc5) with loop invariants on the extracted splitter/sampler bodies + CBMC/DFCC contracts for the gboost sampler and generator lambdas',
            'proof that k-fold and random splits copy every input element exactly once into exactly one of train/valid (sizes add up, both sorted), that fold f validates [f*chunk, ...) so the k folds tile the shuffled input with sizes differing by < k, that the random train size is round-half-up(p*n/100), that splits depend only on (samples, seed, folds, percentage), and that sampling with/without replacement returns count sorted (distinct) members; for all n <= 2^56',
            'std::shuffle = permutation determined by the rng state, std::sort, uniform/discrete distributions, Eigen segment copies assumed; pigeonhole step from exactly-once copy to disjoint union done on paper', '7/C12'),
    'C13': ('CBMC/DFCC function + loop contracts with a ghost grid point + weakest-precondition VCs over Int for the slot arithmetic, on code extracted from /repo each run',
            'proof that evaluate() asks the callback for a grid point iff it is a candidate not yet evaluated, rejects non-finite values before storing, returns the evaluations sorted; local_search candidates stay on the grid; both tuners evaluate a point at most once and at most max_evals-1+3^d points; ml::tune decodes (trial, fold) bijectively from the task index, passes that fold\'s split and stores under that (trial, fold); optimum_trial is the least index attaining the minimum mean validation error',
            'std::remove_if/find_if/sort/erase, combinatorial iterator, Eigen coefficient ops, pool.map (C17) assumed; interleavings not decided', '7/C13'),
    'C14': ('CBMC/DFCC function + loop contracts with Eigen coefficient-wise statements lifted to a scalar kernel at a ghost position, on code extracted from /repo each run; SMT lemmas over the reals',
            'proof for the scaling statistics: constructor, ::update, ::done (neutral scaling for N<=1 or disabled columns; div = 1/mul with the same denominator; multipliers >= eps), scale/upscale/make_scaling use the same (offset, factor) per mode with NaN->0 after scaling, and the affine up-scaling of (W, b); lemmas over R: upscale(scale(v)) = v and W\'x+b\' = upscale(W scale(x) + b) for all dimensions; rounding-error magnitudes not decided',
            'Eigen coefficient-wise operator semantics (engine/eigencw.py closed list), sqrt/min/max facts, one IEEE subtraction fact assumed; double treated as real in the lemmas', '7/C14'),
    'C15': ('CBMC/DFCC function + loop contracts over a byte-stream model with an uninterpreted content hash, plus SMT lemmas over Int, on code extracted from /repo each run',
            'proof that the tensor reader never reads at or beyond the end of the stream, accepts only after version, rank, scalar size, every dimension (non-negative, byte count not overflowing) and the content hash were checked, consumes exactly header + payload bytes (every strict prefix of an accepted stream fails), that the writer emits the same field sequence and refuses dimensions that do not fit the header; core stream readers/writers propagate failure; configurable and parameter readers throw on short or newer-version streams; bit-identical predictions of re-read models and collision-freeness of the hash are not decided',
            'istream::read / ostream::write semantics (sticky failure, no partial success), tensor resize, std::string/vector resize assumed; content hash uninterpreted', '7/C15'),
    'C16': ('weakest-precondition VCs over mathematical integers (z3/cvc5), one contract per template recursion level, overflow as explicit obligations',
            'proof that index/index0/size/dims0 and every level of get_index/get_index0/product/get_dims0 (ranks 1..5) equal the row-major spec functions without intermediate overflow, plus bijection/monotonicity lemmas on the spec functions',
            'tensor invariant (extents >= 0, suffix products <= 2^62) is a stated precondition; std::get/std::array semantics assumed', '7/C16'),
    'C17': ('CBMC/DFCC function + loop contracts (sequential, monitor semantics for condition_variable::wait), SMT VCs over Int, and a BOUNDED CBMC interleaving check of the extracted code (submitter + one worker, labelled bounded), on code extracted from /repo each run',
            'proof that pool_t::map generates tasks that tile [0,elements) exactly once for every elements/chunk size (count = reserve count), passes worker ids below the pool size, enqueues under the lock and returns only after the section waited for every task; worker loop pops only a non-empty queue and exits only on stop; constructor/destructor/section protocol; ALL interleaving claims (exactly-once execution across workers, no concurrent reuse of a worker id, completion under every schedule, deadlock-free shutdown) are NOT decided by this technique',
            'std::mutex/condition_variable/deque/packaged_task/future basics assumed; task generation and sequential worker protocol only', '7/C17'),
    'C19': ('CBMC/DFCC function contracts (check-then-assign) on code extracted from /repo each run, std::variant dispatch printed from clang\'s overload resolution',
            'proof for every parameter kind that an accepted assignment stores the converted value inside the declared domain and a rejected one throws leaving the whole record (both halves of a pair) unchanged; the domain predicate is an invariant of the storage; constructors reject out-of-domain defaults; kind-mismatched reads/assignments throw; unknown names throw and duplicate registrations leave the list unchanged; clone equality and factory ids are not decided',
            'std::variant/visit semantics, std::find/find_if, string parsing (stoll/stod) as deterministic uninterpreted functions assumed', '7/C19'),
    'C20': ('CBMC/DFCC function + loop contracts (bin rule, update, constructor / factories, mean with the accumulator typed by init, median against the sorted-array reference) + SMT VCs over Int / Real for percentile positions, on code extracted from /repo each run',
            'proof that histogram_t::bin(v) equals the counting rule #{j: t_j <= v} for every finite real v / integer |v|<=2^53 and every sorted threshold list of symbolic length',
            'std::upper_bound partition-point contract assumed (ghost index); thresholds sorted, not NaN', '7/C20'),
    'C18': ('CBMC/DFCC frame conditions (assigns clauses) on code extracted from /repo each run, struct layouts generated from clang\'s class definitions; a token-level scan of mutable/static state as a labelled lint',
            'partial: proof that the const interface the library shares across fold / trial / chunk tasks writes nothing of the shared object (solver and its owned line-search prototypes, loss, dataset and generators, iterators, fitted weak learners, tuning result accessors), and that the objects written concurrently by design are written disjointly (slot [tnum], rows [begin,end), cell (trial, fold)); the interleaving semantics itself, the pool\'s synchronisation under real concurrency and floating-point re-association of reductions are not decided',
            'two tasks race only if one writes what the other accesses: frames decide the write sets sequentially; erased callees assumed to write only what they are handed by non-const reference; C13 / C17 contracts used as preconditions', '7/C18'),
    'C06': ('SMT validity queries (z3 5.1 / z3 4.8 / cvc5) over the reals on value and gradient terms extracted from /repo each run (clang AST -> nvwp), with a syntactic derivative of the extracted value term; exp / log / sqrt / atan uninterpreted with listed facts',
            'partial: for 16 of the 17 losses, ~25 benchmark functions (symbolic dimension where the expression is coefficient-wise plus a reduction, otherwise fixed small n as labelled bounded stand-ins) and the constraint kinds: the returned gradient is the derivative of the returned value, the value with and without gradient request is the same term, declared-convex objects satisfy the convexity inequality (or, for max-of-terms functions, envelope + convex pieces + the returned gradient belongs to an ACTIVE piece), losses and errors are non-negative and depend only on their own sample row, 0-1 errors follow the arg-max / sign rule; IEEE exactness, agreement with central differences, the remaining functions and the ML objectives are not decided',
            'double treated as real; the derivative rule table and the facts about exp/log are a small trusted base (listed); bounded stand-ins are never counted as proved', '7/C06 and 11.6'),
}

NA = {}


def main():
    props = [json.loads(l) for l in open(os.path.join(HERE, 'properties.jsonl'))]
    na_extra = json.load(open(os.path.join(HERE, 'engine', 'not_applicable.json')))
    checks = []
    for p in props:
        pid = p['id']
        if pid not in CLAIMED:
            continue
        tech, text, note, ref = CLAIMED[pid]
        # the level text is regenerated from what the spec itself reports as decided / not decided (kept current by every run)
        evp = os.path.join(HERE, 'evidence', f'{pid}.json')
        if os.path.exists(evp):
            try:
                cov = json.load(open(evp)).get('coverage', {})
                dec, nd = cov.get('decided_clauses') or [], cov.get('not_decided') or []
                if dec:
                    text = ('proof, per function and for all inputs (modular contracts on code extracted from /repo on every run), of: ' +
                            ' || '.join(dec) + (' -- NOT decided (outside the contracts, never counted): ' + ' || '.join(nd) if nd else '') +
                            (' -- bounded stand-ins (labelled bounded, never counted as proved): ' + ' || '.join(f"{b.get('target')} [{b.get('bound')}]" for b in cov.get('bounded', [])) if cov.get('bounded') else ''))
            except (ValueError, OSError):
                pass
        checks.append({
            'property_id': pid,
            'quick_cmd': f'./check {pid} --tier quick',
            'thorough_cmd': f'./check {pid} --tier thorough',
            'evidence_file': f'/verif/evidence/{pid}.json',
            'replay_cmd_template': f'./check {pid} --replay {{path}}',
            'engine': 'nv-contracts',
            'level_claimed': {'category': 'proof', 'text': text, 'design_ref': 'DESIGN.md section ' + ref},
            'level_note': note,
            'technique': tech,
        })
    m = {
        'version': 1,
        'setup_cmd': './engine/setup.sh',
        'hooks': {'guard': 'NANO_VERIF',
                  'enable': 'no hooks: contracts live in /verif/specs and are attached to C / SMT extracted from /repo\'s working tree by clang on every run; /repo carries no instrumentation',
                  'baseline_off_cmd': 'cmake --build /repo/_build -j16 && ctest --test-dir /repo/_build -j8 --timeout 900',
                  'source_commits': [], 'add_only': True},
        'engines': [{'name': 'nv-contracts', 'path': '/verif/engine', 'serves_properties': sorted(CLAIMED),
                     'kind_free_text': 'contract-based deductive verification: clang JSON AST -> C (cxx2c) + CBMC 6.11 DFCC function/loop contracts; clang AST -> weakest preconditions (nvwp) -> SMT-LIB over Int/Real for z3 5.1, z3 4.8, cvc5'}],
        'checks': checks,
        'notes': 'exit 0 = all obligations discharged; exit 1 = refuted obligation (VIOLATION line); exit 2 = undecided (extraction break / timeout), never counted as either. See DESIGN.md.',
        'not_applicable': [{'property_id': p['id'], 'reason': na_extra.get(p['id'], 'check not built yet (work in progress)')}
                           for p in props if p['id'] not in CLAIMED],
    }
    json.dump(m, open(os.path.join(HERE, 'MANIFEST.json'), 'w'), indent=1)
    print('claimed:', sorted(CLAIMED), 'n/a:', [x['property_id'] for x in m['not_applicable']])


if __name__ == '__main__':
    main()
