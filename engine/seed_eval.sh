#!/bin/bash
# evaluates the registered check of property <ID> against seeded change <ID>/<k>: applies the patch to /repo, runs the
# quick check, reverts /repo straight afterwards.  usage: seed_eval.sh <ID> <k> [property-to-check]
id=$1; k=$2; pid=${3:-$id}; d=/verif/seeded/$id-$k
# EVAL_REPO=<scratch worktree of /repo>: evaluate there (through NV_REPO) instead of in /repo itself, so that /repo stays clean for
# the evidence runs and several evaluations can run side by side; the check code and the patch are the same
R=${EVAL_REPO:-/repo}
cd $R && git apply $d/patch.diff || { echo "$id-$k apply failed (library HEAD moved since the seed was made)"; exit 2; }
if [ "$R" = "/repo" ]; then cd /verif && NV_CBMC_TIMEOUT=900 ./check $pid --no-evidence > $d/check_$pid.log 2>&1; rc=$?
else cd /verif && NV_REPO=$R NV_SCRATCH=${EVAL_SCRATCH:-$R.scratch} NV_CBMC_TIMEOUT=900 ./check $pid --no-evidence > $d/check_$pid.log 2>&1; rc=$?; fi
cd $R && git checkout -- . 
echo "$id-$k check($pid) exit=$rc :: $(grep -c 'refuted:' $d/check_$pid.log) refuted, $(grep -c '^UNDECIDED' $d/check_$pid.log) undecided, $(grep -c '^VIOLATION' $d/check_$pid.log) violation lines ($(grep '^VIOLATION' $d/check_$pid.log | grep -vc no-failing-input-found) replayed)"
