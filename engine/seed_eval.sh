#!/bin/bash
# evaluates the registered check of property <ID> against seeded change <ID>/<k>: applies the patch to /repo, runs the
# quick check, reverts /repo straight afterwards.  usage: seed_eval.sh <ID> <k> [property-to-check]
id=$1; k=$2; pid=${3:-$id}; d=/verif/seeded/$id-$k
cd /repo && git apply $d/patch.diff || { echo "apply failed"; exit 2; }
cd /verif && NV_CBMC_TIMEOUT=900 ./check $pid --no-evidence > $d/check_$pid.log 2>&1; rc=$?
cd /repo && git checkout -- . 
echo "$id-$k check($pid) exit=$rc :: $(grep -c 'refuted:' $d/check_$pid.log) refuted, $(grep -c '^UNDECIDED' $d/check_$pid.log) undecided, $(grep -c '^VIOLATION' $d/check_$pid.log) violation lines ($(grep '^VIOLATION' $d/check_$pid.log | grep -vc no-failing-input-found) replayed)"
