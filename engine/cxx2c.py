"""cxx2c: print a restricted clang JSON AST as C.

Closed list of node kinds; anything else raises Unsupported (the check then reports UNDECIDED, exit 2).
All arithmetic conversions that clang made explicit in the AST are printed as explicit C casts, so the
C and C++ usual arithmetic conversions cannot diverge.  References become pointers.
Calls are resolved through the spec's maps (regex on a textual key -> C stub / template); unmapped calls abort.
"""
import re

from astload import ExtractionError, node_text, walk as astload_walk


class Unsupported(ExtractionError):
    pass


SCALARS = {
    'bool': '_Bool', 'double': 'double', 'float': 'float', 'long double': 'long double',
    'char': 'char', 'signed char': 'int8_t', 'unsigned char': 'uint8_t',
    'short': 'int16_t', 'unsigned short': 'uint16_t', 'int': 'int32_t', 'unsigned int': 'uint32_t',
    'long': 'int64_t', 'unsigned long': 'uint64_t', 'long long': 'int64_t', 'unsigned long long': 'uint64_t',
    'void': 'void',
    # aliases whose meaning is pinned by drivers/type_facts.cpp (compiled on every run)
    'nano::scalar_t': 'double', 'nano::tensor_size_t': 'int64_t', 'Eigen::Index': 'int64_t', 'size_t': 'uint64_t',
    'std::size_t': 'uint64_t', 'std::ptrdiff_t': 'int64_t', 'ptrdiff_t': 'int64_t', 'int64_t': 'int64_t',
    'uint64_t': 'uint64_t', 'int32_t': 'int32_t', 'uint32_t': 'uint32_t', 'uint8_t': 'uint8_t', 'int8_t': 'int8_t',
    'uint16_t': 'uint16_t', 'int16_t': 'int16_t', 'std::int64_t': 'int64_t', 'std::uint64_t': 'uint64_t',
    'std::int32_t': 'int32_t', 'std::uint32_t': 'uint32_t', 'std::uint8_t': 'uint8_t', 'std::int8_t': 'int8_t',
}

PASS_CASTS = {'LValueToRValue', 'NoOp', 'FunctionToPointerDecay', 'UncheckedDerivedToBase', 'DerivedToBase',
              'ArrayToPointerDecay', 'ConstructorConversion', 'UserDefinedConversion', 'BuiltinFnToFnPtr'}
ARITH_CASTS = {'IntegralCast', 'FloatingToIntegral', 'IntegralToFloating', 'FloatingCast', 'IntegralToBoolean',
               'FloatingToBoolean', 'BooleanToSignedIntegral', 'PointerToBoolean'}
TRANSPARENT = {'ExprWithCleanups', 'MaterializeTemporaryExpr', 'CXXBindTemporaryExpr', 'ConstantExpr',
               'SubstNonTypeTemplateParmExpr', 'FullExpr'}
FOPS = {'+': 'NV_FADD', '-': 'NV_FSUB', '*': 'NV_FMUL', '/': 'NV_FDIV'}
CAST_KINDS = {'ImplicitCastExpr', 'CXXStaticCastExpr', 'CStyleCastExpr', 'CXXFunctionalCastExpr', 'CXXConstCastExpr',
              'CXXReinterpretCastExpr'}


def qual(t):
    if t is None:
        return ''
    return t.get('desugaredQualType', t.get('qualType', ''))


def strip_cv(q):
    q = re.sub(r'\b(const|volatile)\b', '', q)
    return re.sub(r'\s+', ' ', q).strip()


def unwrap(n):
    """look through casts / temporaries / parens"""
    while isinstance(n, dict) and (n.get('kind') in TRANSPARENT or n.get('kind') in CAST_KINDS
                                   or n.get('kind') == 'ParenExpr') and n.get('inner'):
        if n.get('kind') in CAST_KINDS and n.get('castKind') in ARITH_CASTS:
            break
        n = n['inner'][0]
    return n


def return_type_of(fq):
    """return type of a function type string `<ret>(<params>)<quals>`; the return type itself may contain parentheses
    (`(anonymous namespace)::t &(const v &)`), so the parameter list is found from the right"""
    fq = re.sub(r'\s*noexcept(\s*\([^()]*\))?\s*$', '', fq)      # `T &(const T &) noexcept(false)` (implicitly-defined operations)
    if '->' in fq.split(')')[-1]:
        return fq.split('(')[0].strip()
    j = fq.rfind(')')
    depth = 0
    for i in range(j, -1, -1):
        if fq[i] == ')':
            depth += 1
        elif fq[i] == '(':
            depth -= 1
            if depth == 0:
                return fq[:i].strip()
    return fq.split('(')[0].strip()


def string_literal_of(n):
    """the string literal an expression is built from ("name" -> std::string_view etc.), else None"""
    seen = 0
    while isinstance(n, dict) and seen < 12:
        if n.get('kind') == 'StringLiteral':
            return n['value'].strip('"')
        inner = n.get('inner')
        if not inner or len(inner) != 1:
            if n.get('kind') == 'CXXConstructExpr' and inner:
                n = inner[0]
                seen += 1
                continue
            return None
        n = inner[0]
        seen += 1
    return None


# fallback vocabulary (used only when the spec maps nothing): semantics-preserving C spellings, so that a change that
# swaps one classification function for another is decided instead of ending as "call not mapped" (exit 2)
STD_CALLS = [
    (r'^isnan\|bool \((const )?(double|float)\)', 'NV_ISNAN({0})'),
    (r'^isinf\|bool \((const )?(double|float)\)', 'NV_ISINF({0})'),
    (r'^isfinite\|bool \((const )?(double|float)\)', 'NV_FINITE({0})'),
    (r'^signbit\|bool \((const )?(double|float)\)', '__CPROVER_signd({0})'),
    (r'^(sqrt|exp|log|log10|cbrt)\|double \((const )?double\)', None),      # -> NV_UF_<name>({0}) (filled in below)
    (r'^pow\|double \((const )?double, (const )?double\)', 'NV_UF_pow({0}, {1})'),
    # std::min / std::max of two scalars, with their exact definitions ([alg.min.max]: min(a, b) = (b < a) ? b : a, max(a, b) = (a < b) ? b : a)
    (r'^min\|const (unsigned long|long|int|unsigned int|double) &\(const \1 &, const \1 &\)', '((({1}) < ({0})) ? ({1}) : ({0}))'),
    (r'^max\|const (unsigned long|long|int|unsigned int|double) &\(const \1 &, const \1 &\)', '((({0}) < ({1})) ? ({1}) : ({0}))'),
    (r'^memcpy\|void \*\(void \*', 'memcpy((void*)({0}), (const void*)({1}), {2})'),
    (r'^operator=\|[^|]*\|std::atomic<(bool|int|long|unsigned long|unsigned int|double)>\|#2', '(*{&0} = {1})'),
]
STD_CALLS = [x for rx, m in STD_CALLS for x in ([(rx, m)] if m is not None else
                                                [(rx.replace('(sqrt|exp|log|log10|cbrt)', f), f'NV_UF_{f}({{0}})') for f in ('sqrt', 'exp', 'log10', 'log', 'cbrt')])]
# sequential view of std::atomic<scalar>: a load is the value, a store is an assignment
STD_MEMBERS = [
    (r'^(operator (bool|int|long|unsigned long|unsigned int|double)|load)\|std::atomic<(bool|int|long|unsigned long|unsigned int|double)>', '(*{self})'),
    (r'^store\|std::atomic<(bool|int|long|unsigned long|unsigned int|double)>', '(*{self} = {0})'),
]


class Printer:
    def __init__(self, cname, types=(), calls=(), members=(), hooks=(), self_struct=None, aggregates=(),
                 stmt_hooks=(), uf_float=True, opaque=(), dtors=()):
        self.cname = cname
        # scope-exit destructors (RAII): (regex on cv-stripped type, mapping).  A local of such a type gets
        # `mapping(&local)` printed wherever control leaves its scope: end of block, break / continue / return / throw
        # crossing it.  (clang's AST has no node for implicit destructor calls; this is C++'s rule, applied here.)
        self.dtors = list(dtors)
        self.scopes = []                # stack of lists of (variable name, mapping) with a registered destructor
        self.loop_scope = []            # scope depth at each enclosing loop (for break / continue)
        self.uf_float = uf_float
        self.opaque = list(opaque)      # regexes: class types erased to `struct nv_opaque` (numerics the contract does not track)
        self.erased = []                # evidence: erased statements / auto-havocked expressions
        self.types = list(types)        # (regex on cv-stripped desugared type, C type)
        self.calls = list(calls)        # (regex on 'name|fntype|argtype0', mapping)
        self.members = list(members)    # (regex on 'method|objtype|"literal"', mapping)
        self.hooks = list(hooks)        # python callables (printer, node) -> C text or None
        self.stmt_hooks = list(stmt_hooks)
        self.self_struct = self_struct
        self.aggregates = set(aggregates)  # C struct types constructible as compound literals
        self.used = {}                  # mapping usage counts (evidence)
        self.dropped = []               # dropped statements (evidence)
        self.loops = 0
        self.ret_ctype = 'void'
        self.ret_is_ref = False         # function returns a C++ reference: `return x;` prints as `return &x;`
        self.may_throw = False
        self.protos = {}
        self.tmp = 0
        self.src_cache = {}
        self.default_file = None
        self.byref_captures = set()     # decl ids of non-reference variables a lambda captures by reference
        self.renamed = {}               # decl id -> printed name, for parameters whose C++ name repeats (expanded packs)
        self.loop_lhs = {}              # loop ordinal -> printed counter side of the bounding comparison (NV_LOOPLHS_<c_name>_<k>)
        self.loop_bounds = {}           # loop ordinal -> printed bound expression of the loop condition (NV_LOOPBOUND_<c_name>_<k>)
        self.auto_loops = {}            # loop ordinal -> default contract of a canonical counting loop (NV_AUTOLOOP_<c_name>_<k>)
        self.try_stack = []             # enclosing try blocks: (handler label, scope depth at the try) -- see stmt1 CXXTryStmt
        self.tries = 0
        self.loop_counters = {}         # loop ordinal -> printed name of the loop's counter variable (NV_LOOPVAR_<c_name>_<k>)
        self.tu = None                  # translation unit of the function (set by core.Fn.emit): where unmapped /repo helpers are looked up
        self.auto_fns = {}              # (name, function type) -> C name of an auto-extracted helper (shared with nested printers)
        self.auto_texts = []            # C definitions of the auto-extracted helpers, callees first (shared with nested printers)

    # ------------------------------------------------------------------ types
    def ctype_q(self, q):
        q = strip_cv(q)
        ptr = ''
        while q.endswith('*') or q.endswith('&'):
            ptr += '*'
            q = strip_cv(q[:-2] if q.endswith('&&') else q[:-1])
        for rx, c in self.types:
            if re.search(rx, q):
                return c + ptr
        for rx in self.opaque:
            if re.search(rx, q):
                return 'struct nv_opaque' + ptr
        if q in SCALARS:
            return SCALARS[q] + ptr
        ma = re.match(r'^std::atomic<(.+)>$', q)
        if ma and strip_cv(ma.group(1)) in SCALARS:
            self.note('std::atomic<T> printed as T (sequential view of the atomic object)')
            return SCALARS[strip_cv(ma.group(1))] + ptr
        raise Unsupported(f'type {q!r} not modelled (target {self.cname})')

    def ctype(self, t):
        d = t.get('desugaredQualType')
        s = t.get('qualType')
        # a typedef that desugars to a builtin scalar (Eigen's RealScalar, Index, ...) is that scalar, unless the spec maps
        # the spelled name explicitly
        if d is not None and strip_cv(d) in SCALARS and s is not None and not any(re.search(rx, strip_cv(s)) for rx, _ in self.types):
            return SCALARS[strip_cv(d)]
        # try the spelled type first (aliases like nano::vector_t are stable names), then the desugared one
        for q in (s, d):
            if q is None:
                continue
            try:
                return self.ctype_q(q)
            except Unsupported:
                continue
        raise Unsupported(f'type {s!r} / {d!r} not modelled (target {self.cname})')

    def is_struct(self, c):
        return c.startswith('struct ') and not c.endswith('*')

    def default_value(self, c):
        if c == 'void':
            return ''
        if self.is_struct(c):
            return f'({c}){{0}}'
        return f'(({c})0)'

    # ------------------------------------------------------------------ mappings
    def note(self, what):
        self.used[what] = self.used.get(what, 0) + 1

    def apply(self, mapping, args, selfexpr=None, node=None, key='', objnode=None):
        """mapping: 'fname' | template with {0} {&0} {self} {*self} {obj} | '@drop' | '@nondet' | '@fold:g'; trailing '!' = may throw
        ({obj} = the object expression of a member call printed as a value, without taking its address first)"""
        throws = False
        hoist = False
        if getattr(self, 'drop_guard', None) is not None:
            # opt-in (frame proofs, specs/C18): arguments that the mapping does not translate must be free of effects the
            # spec gives a meaning to; the guard (set by a spec hook) raises Unsupported otherwise
            bare = mapping.rstrip('!^')
            if bare in ('@drop', '@nondet', '@throw'):
                untranslated = list(args) + ([objnode[0]] if objnode else [])
            elif '{' in bare or '(' in bare:
                used = {int(x) for x in re.findall(r'\{&?(\d+)\}', bare)}
                untranslated = [a for i, a in enumerate(args) if i not in used]
                if objnode and not re.search(r'\{(self|\*self|obj)\}', bare):
                    untranslated.append(objnode[0])
            else:
                untranslated = []
            for a in untranslated:
                self.drop_guard(self, a, key)
        if mapping.endswith('!^'):
            # may-throw callee whose result is used inside a larger expression: the call is hoisted into a temporary
            # in front of the statement, followed by the exception check (see stmt / function)
            mapping = mapping[:-2]
            if node is not None and id(node) == getattr(self, 'discard_id', None):
                throws = True     # the call IS the statement: the ordinary check after the statement is enough
            else:
                hoist = True
        elif mapping.endswith('!'):
            throws = True
            mapping = mapping[:-1]
        self.note(mapping + ('!^' if hoist else ''))
        if hoist:
            return self.hoist_call(self.apply_plain(mapping, args, selfexpr, node, key, objnode=objnode), node)
        if throws:
            self.may_throw = True
            self.pending_throw = True
        return self.apply_plain(mapping, args, selfexpr, node, key, noted=True, objnode=objnode)

    def hoist_call(self, text, node):
        if getattr(self, 'hoisted', None) is None:
            raise Unsupported('hoisted (!^) call in a context that cannot take a statement in front')
        # several hoisted calls of one statement are emitted in source order; C++ leaves the evaluation order of
        # function arguments unspecified, so the spec may mark callees '!^' only when they are independent of each
        # other (pure up to throwing), which makes every order equivalent
        self.may_throw = True
        self.tmp += 1
        t = f'nv_call{self.tmp}'
        byref = text.startswith('(*') and node.get('valueCategory') == 'lvalue'
        c = self.ctype(node['type'])
        if byref:
            text = text[2:-1]
            c += '*'
        self.hoisted.append(f'{c} {t} = {text};')
        self.hoisted.append(f'if (nv_thrown) {self.exc_exit()}')
        return f'(*{t})' if byref else t

    def apply_plain(self, mapping, args, selfexpr=None, node=None, key='', noted=False, objnode=None):
        if mapping == '@drop':
            return '((void)0)'
        if mapping == '@throw':
            # a [[noreturn]] callee that always throws; only valid as an expression statement (see stmt)
            if not getattr(self, 'in_expr_stmt', False):
                raise Unsupported(f'@throw mapping outside an expression statement ({key})')
            self.may_throw = True
            self.always_throws = True
            return '((void)0)'
        if mapping == '@nondet':
            c = self.ctype(node['type'])
            return self.nondet(c)
        if mapping.startswith('@fold:'):
            # f({a, b, c}) over a std::initializer_list of scalars -> g(g(a, b), c) with the binary stub g
            # (std::min / std::max of a list return the leftmost extremum, which is what the left fold of the
            # two-argument form computes)
            els = self.init_list_elements(args[0]) if len(args) == 1 else None
            if not els:
                raise Unsupported(f'mapping {mapping!r} needs one non-empty initializer-list argument ({key})')
            g = mapping[len('@fold:'):]
            acc = self.expr(els[0])
            for e in els[1:]:
                acc = f'{g}({acc}, {self.expr(e)})'
            return acc
        if '{' not in mapping and '(' not in mapping:
            a = ([selfexpr] if selfexpr is not None else []) + [self.arg(x) for x in args]
            text = f'{mapping}({", ".join(a)})'
            if node is not None and node.get('kind') in ('CallExpr', 'CXXMemberCallExpr') \
                    and node.get('valueCategory') in ('lvalue', 'xvalue') and id(node) != getattr(self, 'discard_id', None):
                # a by-name stub / extracted function returning a reference returns a pointer in C
                return f'(*{text})'
            return text

        def sub(m):
            w = m.group(1)
            if w == 'self':
                return selfexpr
            if w == '*self':
                return f'(*{selfexpr})'
            if w == 'obj':
                if objnode is None:
                    raise Unsupported(f'mapping {mapping!r}: {{obj}} outside a member call ({key})')
                return self.expr(objnode[0]) if not objnode[1] else f'(*{self.expr(objnode[0])})'
            if w == 'T':
                return self.ctype(node['type'])
            addr = w.startswith('&')
            i = int(w.lstrip('&'))
            if i >= len(args):
                raise Unsupported(f'mapping {mapping!r} wants arg {i} of {key}')
            return self.addr(args[i]) if addr else self.expr(args[i])
        return re.sub(r'\{(&?\d+|self|\*self|obj|T)\}', sub, mapping)

    def init_list_elements(self, n):
        """element expressions of a braced list passed as std::initializer_list<scalar>, else None"""
        u = n
        while isinstance(u, dict) and u.get('kind') in TRANSPARENT | {'CXXStdInitializerListExpr'} and u.get('inner'):
            u = u['inner'][0]
        if not isinstance(u, dict) or u.get('kind') != 'InitListExpr':
            return None
        return list(u.get('inner', []))

    def nondet(self, c):
        if c == 'void':
            return '((void)0)'
        nm = 'nv_nondet_' + re.sub(r'\W+', '_', c.replace('*', 'p'))
        if nm not in ('nv_nondet__Bool', 'nv_nondet_double', 'nv_nondet_int64_t', 'nv_nondet_uint64_t',
                      'nv_nondet_int32_t', 'nv_nondet_uint32_t'):
            # DFCC asserts that body-less functions are unreachable: nondeterministic values need a body
            self.protos[nm] = f'static {c} {nm}(void) {{ {c} x; return x; }}'
        return f'{nm}()'

    def lookup(self, table, key):
        for rx, m in table:
            if re.search(rx, key):
                return m
        return None

    # ------------------------------------------------------------------ expressions
    def addr(self, n):
        """C expression for the address of (the object denoted by) n, for binding to a reference"""
        u = n
        while u.get('kind') in TRANSPARENT or (u.get('kind') in CAST_KINDS and u.get('castKind') in PASS_CASTS) \
                or u.get('kind') == 'ParenExpr':
            if u.get('kind') == 'MaterializeTemporaryExpr':
                break
            u = u['inner'][0]
        if u.get('kind') == 'MaterializeTemporaryExpr' or u.get('valueCategory') == 'prvalue':
            c = self.ctype(u['type'])
            e = self.expr(u)
            if c.endswith('*') and u.get('kind') != 'MaterializeTemporaryExpr':
                return e
            return f'(&({c}){{{e}}})' if not self.is_struct(c) else f'(&({c}[1]){{{e}}}[0])'
        if u.get('kind') == 'ConditionalOperator' and u.get('valueCategory') == 'lvalue' and len(u.get('inner', [])) == 3:
            # `c ? a : b` is an lvalue in C++ when both operands are (a reference can be bound to it); in C the address is
            # taken per operand
            return f'({self.expr(u["inner"][0])} ? {self.addr(u["inner"][1])} : {self.addr(u["inner"][2])})'
        e = self.expr(u)
        m = re.fullmatch(r'\(\*([A-Za-z_]\w*)\)', e)
        if m:
            return m.group(1)
        if u.get('kind') in ('CXXMemberCallExpr', 'CallExpr') and re.fullmatch(r'[A-Za-z_]\w*\((?:[^()]|\([^()]*\)|\((?:[^()]|\([^()]*\))*\))*\)', e):
            # a C++ call returning a reference whose (template) mapping is a C function returning the object BY VALUE:
            # the value is materialised so that its address can be taken (by-name mappings print `(*f(..))` instead)
            try:
                c = self.ctype(u['type'])
            except Unsupported:
                c = None
            if c is not None and self.is_struct(c):
                return f'(&({c}[1]){{{e}}}[0])'
        return f'(&{e})'

    def arg(self, a):
        """default argument passing: glvalues (bound to references) by address, prvalues by value"""
        u = a
        while u.get('kind') in TRANSPARENT and u.get('kind') != 'MaterializeTemporaryExpr':
            u = u['inner'][0]
        if u.get('kind') == 'CXXDefaultArgExpr':
            raise Unsupported('default argument reached a by-name mapping; use a template mapping')
        if u.get('valueCategory') in ('lvalue', 'xvalue'):
            return self.addr(u)
        return self.expr(u)

    # ------------------------------------------------------------------ opaque (erased) numerics
    def is_opaque(self, t):
        if not self.opaque or t is None:
            return False
        for q in (t.get('qualType'), t.get('desugaredQualType')):
            if q is not None and strip_cv(strip_cv(q).rstrip('&*').strip()) in SCALARS:
                return False
        for q in (t.get('qualType'), t.get('desugaredQualType')):
            if q is None:
                continue
            q = strip_cv(q)
            while q.endswith('&') or q.endswith('*'):
                q = strip_cv(q[:-1])
            for rx, _ in self.types:
                if re.search(rx, q):
                    return False
            for rx in self.opaque:
                if re.search(rx, q):
                    return True
        return False

    def is_modelled_struct(self, t):
        try:
            c = self.ctype(t)
        except Unsupported:
            return False
        return c.startswith('struct ') and not c.startswith('struct nv_opaque')

    def check_pure(self, n, what):
        """an erased expression may not have side effects on modelled (non-opaque) objects"""
        for x in astload_walk(n):
            k = x.get('kind')
            if k == 'LambdaExpr':
                raise Unsupported(f'lambda inside an erased expression ({what})')
            if k == 'UnaryOperator' and x.get('opcode') in ('++', '--') and not self.is_opaque(x['inner'][0].get('type')):
                raise Unsupported(f'side effect (++/--) inside an erased expression ({what})')
            if (k == 'BinaryOperator' and x.get('opcode') == '=') or k == 'CompoundAssignOperator':
                raise Unsupported(f'assignment to a modelled object inside an erased expression ({what})')
            if k == 'CXXMemberCallExpr':
                me = x['inner'][0]
                if me.get('kind') == 'MemberExpr' and me.get('inner'):
                    obj = me['inner'][0]
                    ot = obj.get('type', {})
                    q = ot.get('qualType', '')
                    if self.is_modelled_struct(ot) and not re.search(r'\bconst\b', q):
                        raise Unsupported(f'non-const member call {me.get("name")} on modelled object inside an erased expression ({what})')
                for a in x['inner'][1:]:
                    at = a.get('type', {})
                    if a.get('valueCategory') == 'lvalue' and self.is_modelled_struct(at) and not re.search(r'\bconst\b', at.get('qualType', '')):
                        raise Unsupported(f'modelled object passed by possibly mutable reference inside an erased expression ({what})')
            if k in ('CallExpr', 'CXXOperatorCallExpr'):
                cname_ = unwrap(x['inner'][0]).get('referencedDecl', {}).get('name', '')
                if cname_ in ('operator()', 'operator[]'):
                    continue    # element access: not a mutation by itself (stores through it are assignments, rejected above)
                for a in x['inner'][1:]:
                    at = a.get('type', {})
                    if a.get('valueCategory') == 'lvalue' and self.is_modelled_struct(at) and not re.search(r'\bconst\b', at.get('qualType', '')):
                        raise Unsupported(f'modelled object passed by possibly mutable reference inside an erased expression ({what})')

    def havoc_value(self, n, why):
        """the value of an expression computed from erased numerics: nondeterministic (sound over-approximation)"""
        self.check_pure(n, why)
        if getattr(self, 'drop_guard', None) is not None:
            self.drop_guard(self, n, why)           # opt-in (frame proofs): nothing the spec maps may hide inside an erased expression
        line = n.get('range', {}).get('begin', {}).get('line', '?')
        self.erased.append(f'line {line}: {why}')
        self.note('auto-havoc: ' + why.split(':')[0])
        if self.is_opaque(n.get('type')):
            return 'nv_opaque_value()'
        c = self.ctype(n['type'])
        if c == 'void':
            return '((void)0)'
        return self.nondet(c)

    def any_opaque_operand(self, nodes):
        return any(self.is_opaque(a.get('type')) for a in nodes)

    def expr(self, n):
        for h in self.hooks:
            r = h(self, n)
            if r is not None:
                return r
        k = n.get('kind')
        inner = n.get('inner', [])
        if self.opaque and self.is_opaque(n.get('type')) and k not in ('DeclRefExpr', 'MemberExpr', 'ParenExpr') \
                and k not in TRANSPARENT and k not in CAST_KINDS:
            mapped = None
            if k == 'CXXMemberCallExpr' and inner and inner[0].get('kind') == 'MemberExpr':
                me = inner[0]
                # (the same key as member_call / call build, so that a mapping that tells overloads apart by their literal
                #  argument or argument count is found here too)
                lit = string_literal_of(inner[1]) if len(inner) > 1 else None
                mapped = self.lookup(self.members, f'{me["name"]}|{strip_cv(qual(me["inner"][0]["type"]))}'
                                     + (f'|"{lit}"' if lit is not None else '') + f'|#{len(inner) - 1}' + self.template_text(me, me["name"]))
            elif k in ('CallExpr', 'CXXOperatorCallExpr'):
                rd = unwrap(inner[0]).get('referencedDecl')
                if rd is not None:
                    a0 = strip_cv(qual(inner[1]['type'])) if len(inner) > 1 else ''
                    lit = string_literal_of(inner[1]) if len(inner) > 1 else None
                    mapped = self.lookup(self.calls, f'{rd["name"]}|{rd["type"]["qualType"]}|{a0}'
                                         + (f'|"{lit}"' if lit is not None else '') + f'|#{len(inner) - 1}')
            if mapped is None:
                return self.havoc_value(n, f'erased {k} of opaque type')
        if k in CAST_KINDS:
            ck = n.get('castKind')
            if ck in PASS_CASTS:
                return self.expr(inner[0])
            if ck in ARITH_CASTS:
                ct = self.ctype(n['type'])
                if ck == 'FloatingToIntegral' and ct == 'int64_t':
                    return f'NV_F2I64({self.expr(inner[0])})'
                return f'(({ct})({self.expr(inner[0])}))'
            if ck == 'NullToPointer':
                return 'NULL'
            if ck == 'ToVoid':
                return f'((void)({self.expr(inner[0])}))'
            if ck == 'BitCast' and qual(n['type']).rstrip().endswith('*'):
                # reinterpret_cast / implicit conversion between object pointer types (e.g. T* -> char*): explicit C cast
                return f'(({self.ctype(n["type"])})({self.expr(inner[0])}))'
            if ck == 'LValueBitCast':
                # reinterpret_cast<const U&>(lvalue): the same storage read as a U
                return f'(*({self.ctype(n["type"])}*)({self.addr(inner[0])}))'
            raise Unsupported(f'cast kind {ck}')
        if k == 'ParenExpr':
            return '(' + self.expr(inner[0]) + ')'
        if k == 'SubstNonTypeTemplateParmExpr':
            return self.expr(inner[-1])
        if k == 'ConstantExpr' and isinstance(n.get('value'), str):
            # a constant expression that clang already evaluated (if constexpr conditions, template constants such as
            # std::is_floating_point_v<T>): print the value instead of the (possibly unprintable) expression
            q = strip_cv(qual(n['type']))
            if q == 'bool' and n['value'] in ('true', 'false'):
                return '1' if n['value'] == 'true' else '0'
            if q in SCALARS and q not in ('double', 'float', 'long double', 'bool') and re.fullmatch(r'-?\d+', n['value']):
                return f'(({SCALARS[q]})({n["value"]}))'
        if k in TRANSPARENT:
            return self.expr(inner[0])
        if k == 'IntegerLiteral':
            q = strip_cv(qual(n['type']))
            suf = {'long': 'L', 'unsigned long': 'UL', 'unsigned int': 'U', 'long long': 'LL',
                   'unsigned long long': 'ULL'}.get(q, '')
            return n['value'] + suf
        if k == 'FloatingLiteral':
            v = n['value']
            if not re.search(r'[.eEnN]', v):
                v += '.0'
            if strip_cv(qual(n['type'])) == 'float':
                v += 'f'
            return v
        if k == 'CXXBoolLiteralExpr':
            return '1' if n['value'] else '0'
        if k == 'CharacterLiteral':
            return str(n['value'])
        if k == 'StringLiteral':
            return n['value']
        if k in ('CXXNullPtrLiteralExpr', 'GNUNullExpr'):
            return 'NULL'
        if k == 'DeclRefExpr':
            rd = n['referencedDecl']
            if rd.get('kind') == 'EnumConstantDecl':
                et = strip_cv(qual(n['type'])).split('::')[-1]
                return f'NVE_{et}_{rd["name"]}'
            if rd.get('kind') in ('FunctionDecl', 'CXXMethodDecl'):
                raise Unsupported(f'function reference {rd.get("name")} outside a call')
            ty = rd.get('type', {}).get('qualType', '').rstrip()
            nm = self.renamed.get(rd.get('id'), rd['name'])      # k-th element of an expanded parameter pack: name_k
            if ty.endswith('&') or rd.get('id') in self.byref_captures:
                return f'(*{nm})'
            return nm
        if k == 'CXXThisExpr':
            return 'self'
        if k == 'MemberExpr':
            base = self.expr(inner[0])
            if n.get('isArrow'):
                return f'{base}->{n["name"]}'
            m = re.fullmatch(r'\(\*([A-Za-z_]\w*)\)', base)
            if m:
                return f'{m.group(1)}->{n["name"]}'
            return f'{base}.{n["name"]}'
        if k in ('BinaryOperator', 'CompoundAssignOperator'):
            op = n['opcode']
            if (op == '=' or k == 'CompoundAssignOperator') and self.opaque:
                l = unwrap(inner[0])
                if l.get('kind') in ('CXXOperatorCallExpr', 'CXXMemberCallExpr', 'CallExpr') and self.any_opaque_operand(
                        l['inner'][1:] + ([l['inner'][0]['inner'][0]] if l['kind'] == 'CXXMemberCallExpr' and l['inner'][0].get('inner') else [])):
                    probe = self.havoc_value(l, 'store into an element of erased numerics')
                    if re.fullmatch(r'nv_nondet_\w+\(\)|nv_opaque_value\(\)', probe):
                        self.check_pure(inner[1], 'value stored into erased numerics')
                        return '((void)0)'
            if self.uf_float and strip_cv(qual(n['type'])) in ('double', 'float'):
                # floating-point arithmetic is kept uninterpreted (congruence only): protocol proofs then hold for
                # every interpretation of + - * /, IEEE included, and nothing is bit-blasted
                if op in FOPS:
                    return f'{FOPS[op]}({self.expr(inner[0])}, {self.expr(inner[1])})'
                if op[:-1] in FOPS and op.endswith('=') and len(op) == 2:
                    lhs = self.expr(inner[0])
                    return f'({lhs} = {FOPS[op[:-1]]}({lhs}, {self.expr(inner[1])}))'
            return f'({self.expr(inner[0])} {op} {self.expr(inner[1])})'
        if k == 'UnaryOperator':
            op = n['opcode']
            e = self.expr(inner[0])
            if op == '&':
                return self.addr(inner[0])
            if op == '-' and self.uf_float and strip_cv(qual(n['type'])) in ('double', 'float'):
                return f'NV_FNEG({e})'
            return f'({e}{op})' if n.get('isPostfix') else f'({op}{e})'
        if k == 'ConditionalOperator':
            return f'({self.expr(inner[0])} ? {self.expr(inner[1])} : {self.expr(inner[2])})'
        if k == 'ArraySubscriptExpr':
            return f'{self.expr(inner[0])}[{self.expr(inner[1])}]'
        if k == 'UnaryExprOrTypeTraitExpr':
            if n.get('name') == 'sizeof':
                t = n.get('argType') or (inner[0]['type'] if inner else None)
                return f'((uint64_t)sizeof({self.ctype(t)}))'
            raise Unsupported('type trait ' + str(n.get('name')))
        if k == 'CXXMemberCallExpr':
            return self.member_call(n)
        if k == 'CXXDynamicCastExpr':
            # dynamic_cast<T>(p): RTTI is outside the printed subset; the spec maps it like a call (key
            # `dynamic_cast|<target type>|<operand type>`) to a stub over a ghost type tag (assumed contract of RTTI)
            key = f'dynamic_cast|{strip_cv(qual(n["type"]))}|{strip_cv(qual(inner[0]["type"]))}'
            m = self.lookup(self.calls, key)
            if m is None:
                raise Unsupported(f'dynamic_cast not mapped: {key}')
            return self.apply(m, inner[:1], node=n, key=key)
        if k in ('CallExpr', 'CXXOperatorCallExpr'):
            return self.call(n)
        if k in ('CXXConstructExpr', 'CXXTemporaryObjectExpr'):
            return self.construct(n)
        if k == 'InitListExpr':
            c = self.ctype(n['type'])
            if not self.is_struct(c):
                return self.expr(inner[0]) if inner else self.default_value(c)
            return f'({c}){{{", ".join(self.expr(x) for x in inner)}}}'
        if k == 'CXXScalarValueInitExpr' or k == 'ImplicitValueInitExpr':
            return self.default_value(self.ctype(n['type']))
        if k == 'CXXDefaultInitExpr':
            return self.expr(inner[0]) if inner else self.default_value(self.ctype(n['type']))
        raise Unsupported(f'expression kind {k} (target {self.cname})')

    def template_text(self, ref, name):
        """explicit template arguments of a call as written in the source (`lpNorm<Eigen::Infinity>` -> '|<Eigen::Infinity>')"""
        txt0 = node_text(ref)      # file recovered by replaying clang's "file only when changed" rule (robust for headers)
        if txt0:
            m0 = re.search(re.escape(name) + r'\s*<(.*)>\s*$', txt0, re.S)
            return f'|<{re.sub(chr(92) + "s+", "", m0.group(1))}>' if m0 else ''
        try:
            rng = ref.get('range', {})
            b, e = rng.get('begin', {}), rng.get('end', {})
            b = b.get('spellingLoc', b.get('expansionLoc', b))
            e = e.get('spellingLoc', e.get('expansionLoc', e))
            f = b.get('file') or self.default_file
            if f is None or 'offset' not in b or 'offset' not in e:
                return ''
            if f not in self.src_cache:
                self.src_cache[f] = open(f, 'rb').read()
            txt = self.src_cache[f][b['offset']: e['offset'] + e.get('tokLen', 0)].decode(errors='replace')
            m = re.search(re.escape(name) + r'\s*<(.*)>\s*$', txt, re.S)
            return f'|<{re.sub(chr(92) + "s+", "", m.group(1))}>' if m else ''
        except OSError:
            return ''

    def member_call(self, n):
        inner = n['inner']
        me = inner[0]
        if me.get('kind') != 'MemberExpr':
            raise Unsupported('member call through ' + str(me.get('kind')))
        name = me['name']
        obj = me['inner'][0]
        objt = strip_cv(qual(obj['type']))
        lit = string_literal_of(inner[1]) if len(inner) > 1 else None
        key = f'{name}|{objt}' + (f'|"{lit}"' if lit is not None else '') + f'|#{len(inner) - 1}' + self.template_text(me, name)
        m = self.lookup(self.members, key)
        if m is None and not self.is_opaque(obj.get('type')):
            m = self.lookup(STD_MEMBERS, key)
        if m is None:
            if self.is_opaque(obj.get('type')) or self.any_opaque_operand(inner[1:]):
                return self.havoc_value(n, f'member call {name} on erased numerics')
            raise Unsupported(f'member call not mapped: {key}')
        if '{obj}' in m and '{self}' not in m and '{*self}' not in m:
            selfexpr = None     # value-only mapping: do not materialise a temporary just to take its address
        elif me.get('isArrow'):
            selfexpr = self.expr(obj)
        else:
            selfexpr = self.addr(obj)
        return self.apply(m, inner[1:], selfexpr=selfexpr, node=n, key=key, objnode=(obj, bool(me.get('isArrow'))))

    def call(self, n):
        inner = n['inner']
        callee = unwrap(inner[0])
        rd = callee.get('referencedDecl')
        if rd is None:
            raise Unsupported('indirect call')
        a0 = strip_cv(qual(inner[1]['type'])) if len(inner) > 1 else ''
        lit = string_literal_of(inner[1]) if len(inner) > 1 else None
        key = f'{rd["name"]}|{rd["type"]["qualType"]}|{a0}' + (f'|"{lit}"' if lit is not None else '') + f'|#{len(inner) - 1}'
        m = self.lookup(self.calls, key)
        if m is None and not self.any_opaque_operand(inner[1:]):
            m = self.lookup(STD_CALLS, key)     # exact C equivalents of a few libc / libm classification functions
        if m is None:
            if self.any_opaque_operand(inner[1:]):
                return self.havoc_value(n, f'call {rd["name"]} on erased numerics')
            m = self.auto_extract(rd)
            if m is None:
                raise Unsupported(f'call not mapped: {key}')
        return self.apply(m, inner[1:], node=n, key=key)

    def auto_extract(self, rd):
        """an unmapped callee that is a plain (non-member) function of /repo whose body is visible in this translation unit
        -- typically a file-local helper that a maintainer factored out of a function under contract -- is printed as C with
        the same mapping tables and called by name: it is the real code, it has no contract of its own, CBMC analyses it
        inline.  Returns the C name, or None when the callee is not such a function (then the call stays `not mapped`)."""
        import astload
        nm, ty = rd.get('name'), (rd.get('type') or {}).get('qualType')
        if not self.tu or not nm or not ty or not re.fullmatch(r'[A-Za-z_]\w*', nm):
            return None
        if (nm, ty) in self.auto_fns:
            return self.auto_fns[(nm, ty)]
        try:
            docs = astload.dump(self.tu, nm)
        except ExtractionError:
            return None
        cands = {}
        for d in docs:
            for x in astload_walk(d):
                if x.get('kind') == 'FunctionDecl' and x.get('name') == nm and (x.get('type') or {}).get('qualType') == ty \
                        and astload.has_body(x) and (x.get('_file') or '').startswith(astload.REPO + '/'):
                    cands[(x.get('_file'), x.get('_line'), x.get('mangledName'))] = x
        if len(cands) != 1:
            return None
        d = list(cands.values())[0]
        cname = f'nv_auto_{self.cname}_{nm}' + (f'_{len(self.auto_fns)}' if any(k[0] == nm for k in self.auto_fns) else '')
        sub = Printer(cname, self.types, self.calls, self.members, self.hooks, None, self.aggregates, self.stmt_hooks,
                      self.uf_float, opaque=self.opaque, dtors=self.dtors)
        sub.tu, sub.default_file = self.tu, d.get('_file')
        sub.auto_fns, sub.auto_texts = self.auto_fns, self.auto_texts
        self.auto_fns[(nm, ty)] = cname      # registered first: a recursive helper calls itself by this name
        text = sub.function(d)
        if sub.loops:
            raise Unsupported(f'auto-extracted helper {nm} contains a loop (it needs a contract of its own: map it in the spec)')
        self.auto_texts.append('static ' + sub.signature + ';')
        self.auto_texts.append('static ' + text.replace(f'\nNV_CONTRACT_{cname}\n', '\n', 1))
        self.protos.update(sub.protos)
        for k, v in sub.used.items():
            self.used[k] = self.used.get(k, 0) + v
        self.dropped += sub.dropped
        self.erased += sub.erased
        self.note(f'auto-extracted /repo helper {nm} ({d.get("_file")}:{d.get("_line")})')
        if sub.may_throw:
            self.auto_fns[(nm, ty)] = cname + '!'     # may-throw callee: the exception check follows the calling statement
        return self.auto_fns[(nm, ty)]

    def construct(self, n):
        inner = n.get('inner', [])
        c = self.ctype(n['type'])
        ct = n.get('ctorType', {}).get('qualType', '')
        q = strip_cv(qual(n['type']))
        key = f'ctor|{q}|{ct}'
        m = self.lookup(self.calls, key)
        if m is not None:
            return self.apply(m, inner, node=n, key=key)
        if len(inner) == 1:
            a = strip_cv(qual(inner[0]['type']))
            if a == q:  # copy / move construction: value copy
                return self.expr(inner[0])
        if not inner:
            return self.default_value(c)
        if c in self.aggregates:
            return f'({c}){{{", ".join(self.expr(x) for x in inner)}}}'
        if not self.is_struct(c) and len(inner) == 1:
            return f'(({c})({self.expr(inner[0])}))'
        raise Unsupported(f'constructor not mapped: {key}')

    # ------------------------------------------------------------------ statements
    def unwind(self, depth, p):
        """destructor calls for every live RAII local of the scopes deeper than `depth`, innermost and latest first"""
        out = ''
        for sc in reversed(self.scopes[depth:]):
            for nm, m in reversed(sc):
                self.note(m + ' (scope exit)')
                out += f'{p}{m}(&{nm});\n'
        return out

    def register_dtor(self, v):
        if not self.dtors:
            return
        q = strip_cv(qual(v['type']))
        for rx, m in self.dtors:
            if re.search(rx, q) or re.search(rx, strip_cv(v['type'].get('qualType', ''))):
                if v['type'].get('qualType', '').rstrip().endswith('&'):
                    return
                if not self.scopes:
                    raise Unsupported(f'RAII local {v["name"]} outside any block')
                self.scopes[-1].append((v['name'], m))
                return

    def exc_exit(self):
        """where control goes when an exception is in flight (nv_thrown set): out of the function, or -- inside a try block -- to
        the handler of the innermost enclosing try"""
        if self.try_stack:
            return f'goto {self.try_stack[-1][0]};'
        return f'return {self.default_value(self.ret_ctype)};'

    def exc_depth(self):
        return self.try_stack[-1][1] if self.try_stack else 0

    def try_stmt(self, n, ind):
        """try { B } catch (...) { H }  (one handler that catches everything: `catch (...)`):
              { B'  goto nv_try_end_k;  nv_handler_k: nv_thrown = 0; { H }  nv_try_end_k: ; }
        B' = B with every exception exit (`throw`, critical(), `if (nv_thrown) ..` after a may-throw callee) jumping to
        nv_handler_k instead of leaving the function (RAII locals of the scopes opened inside the try are destroyed first).  The
        handler runs with the flag cleared; `throw;` inside it sets the flag again and leaves through the enclosing exit.
        Sound for the callees the spec marks may-throw ('!'): an unmarked callee is assumed not to throw, as everywhere else."""
        p = '  ' * ind
        inner = n.get('inner', [])
        if len(inner) != 2 or inner[1].get('kind') != 'CXXCatchStmt':
            raise Unsupported(f'try with {len(inner) - 1} handlers (target {self.cname})')
        h = [c for c in inner[1].get('inner', []) if c.get('kind') == 'CompoundStmt']
        decl = [c for c in inner[1].get('inner', []) if c.get('kind') == 'VarDecl']
        if decl or len(h) != 1:
            raise Unsupported(f'catch handler that is not `catch (...)` (target {self.cname})')
        self.tries += 1
        k = self.tries
        self.note(f'try / catch (...) -> nv_handler_{k}')
        self.may_throw_in_try = True
        self.try_stack.append((f'nv_handler_{k}', len(self.scopes)))
        body = self.block(inner[0], ind + 1)
        self.try_stack.pop()
        hb = self.block(h[0], ind + 1)
        return (f'{p}{{\n{body}{p}  goto nv_try_end_{k};\n{p}  nv_handler_{k}: nv_thrown = 0;\n{hb}{p}  nv_try_end_{k}: ;\n{p}}}\n')

    def throw_stmt(self, p):
        self.may_throw = True
        if any(self.scopes[self.exc_depth():]):
            return f'{p}{{ nv_thrown = 1;\n{self.unwind(self.exc_depth(), p + "  ")}{p}  {self.exc_exit()} }}\n'
        return f'{p}{{ nv_thrown = 1; {self.exc_exit()} }}\n'

    def after(self, p):
        if getattr(self, 'pending_throw', False):
            self.pending_throw = False
            if any(self.scopes[self.exc_depth():]):
                return f'{p}if (nv_thrown)\n{p}{{\n{self.unwind(self.exc_depth(), p + "  ")}{p}  {self.exc_exit()}\n{p}}}\n'
            return f'{p}if (nv_thrown) {self.exc_exit()}\n'
        return ''

    def vardecl(self, v, p):
        if v['kind'] == 'DecompositionDecl':
            init = [x for x in v.get('inner', []) if x.get('kind') != 'BindingDecl'][0]
            binds = [x for x in v.get('inner', []) if x.get('kind') == 'BindingDecl']
            c = self.ctype(init['type'])
            self.tmp += 1
            t = f'nv_dec{self.tmp}'
            out = f'{p}{c} {t} = {self.expr(init)};\n' + self.after(p)
            for i, b in enumerate(binds):
                bt = self.ctype(b['inner'][0]['type']) if b.get('inner') else None
                if bt is None:
                    raise Unsupported('binding without type')
                out += f'{p}{bt} {b["name"]} = {t}._{i};\n'
            return out
        if v['kind'] in ('StaticAssertDecl', 'TypeAliasDecl', 'TypedefDecl', 'UsingDecl', 'UsingDirectiveDecl'):
            return ''
        if v['kind'] != 'VarDecl':
            raise Unsupported('declaration kind ' + v['kind'])
        if v.get('storageClass') == 'static' or v.get('tls'):
            # a function-local static keeps its value across calls and is shared by every caller.  DFCC treats a C static
            # local as part of the implicit frame of the function that declares it, which would hide exactly this sharing:
            # it is printed as a file-scope object `nv_static_<function>_<name>` (every global is nondeterministic at
            # entry), so that a write to it must be listed in the assigns clause like any other global
            if v.get('tls'):
                raise Unsupported(f'thread_local variable {v.get("name")}')
            c = self.ctype(v['type'])
            if v['type'].get('qualType', '').rstrip().endswith('&'):
                raise Unsupported(f'function-local static reference {v.get("name")}')
            g = f'nv_static_{self.cname}_{v["name"]}'
            self.protos[g] = f'{c} {g};   /* function-local static {v["name"]} of {self.cname} */'
            self.renamed[v.get('id')] = g
            self.note(f'function-local static {v.get("name")} -> global {g}')
            return ''
        init = [x for x in v.get('inner', []) if x.get('kind') not in ('FullComment',)]
        ty = v['type'].get('qualType', '').rstrip()
        if init and unwrap(init[0]).get('kind') == 'LambdaExpr':
            self.note(f'lambda variable {v["name"]} (extracted separately / passed to a stub)')
            self.__dict__.setdefault('lambda_vars', {})[v.get('id')] = unwrap(init[0])     # hooks.lambda_arg(n, P) follows `f(.., variable)`
            return ''
        c = self.ctype(v['type'])
        if c == 'struct nv_opaque' and not ty.endswith('&'):
            if init:
                u = unwrap(init[0])
                if u.get('kind') not in ('DeclRefExpr', 'MemberExpr'):
                    self.check_pure(init[0], f'initialiser of erased variable {v["name"]}')
            self.erased.append(f'line {v.get("loc", {}).get("line", "?")}: erased variable {v["name"]} (opaque numerics)')
            return f'{p}{c} {v["name"]};\n'
        if ty.endswith('&'):
            if not init:
                raise Unsupported('reference without initialiser')
            if c == 'struct nv_opaque*' and unwrap(init[0]).get('kind') not in ('DeclRefExpr', 'MemberExpr'):
                # reference to an element / temporary of erased numerics: bind it to a fresh unit object
                self.check_pure(init[0], f'initialiser of erased reference {v["name"]}')
                self.tmp += 1
                self.erased.append(f'line {v.get("loc", {}).get("line", "?")}: erased reference {v["name"]} (opaque numerics)')
                return f'{p}struct nv_opaque nv_ref{self.tmp}; {c} {v["name"]} = &nv_ref{self.tmp};\n'
            return f'{p}{c} {v["name"]} = {self.addr(init[0])};\n' + self.after(p)
        if not init:
            self.register_dtor(v)
            return f'{p}{c} {v["name"]};\n'
        e = self.expr(init[0])
        out = f'{p}{c} {v["name"]} = {e};\n' + self.after(p)
        self.register_dtor(v)
        return out

    def cond(self, n):
        e = self.expr(n)
        if getattr(self, 'pending_throw', False):
            raise Unsupported('may-throw call inside a condition')
        return e

    def loop_macro(self, cond=None, parts=()):
        self.loops += 1
        # NV_LOOPVAR_<c_name>_<k>: the loop's counter found by its ROLE (the integer variable that the condition bounds and that
        # the loop itself advances by ++ / -- / += / -=), so that loop contracts need not know what the source calls it
        name = self.find_loop_counter(cond, parts) if cond else None
        if name:
            self.loop_counters[self.loops] = name
            try:
                b = self.loop_bound_expr(cond, name)
                if b:
                    self.loop_bounds[self.loops] = b
            except Unsupported:
                pass
            try:
                auto = self.auto_loop_contract(cond, parts)
            except Unsupported:
                auto = None
            if auto:
                self.auto_loops[self.loops] = auto
        elif cond:
            # an ITERATOR loop (`for (auto it = v.begin(); it != v.end(); ++it)`, also as a while loop): the class-type variable
            # that an overloaded comparison bounds and an overloaded ++ / -- / += / -= advances; only the name is published
            # (NV_LOOPVAR_<c_name>_<k>), there is no default contract for such loops
            it = self.find_loop_iterator(cond, parts)
            if it:
                self.loop_counters[self.loops] = it
        return f'NV_LOOP_{self.cname}_{self.loops}'

    def find_loop_iterator(self, cond, parts):
        def opcall(x, names):
            if x.get('kind') != 'CXXOperatorCallExpr' or len(x.get('inner', [])) < 2:
                return None
            rd = unwrap(x['inner'][0]).get('referencedDecl') or {}
            return x['inner'][1:] if rd.get('name') in names else None
        advanced = set()
        for part in parts:
            for x in astload_walk(part or {}):
                args = opcall(x, ('operator++', 'operator--', 'operator+=', 'operator-='))
                if args:
                    u = unwrap(args[0])
                    if u.get('kind') == 'DeclRefExpr' and u['referencedDecl'].get('kind') == 'VarDecl':
                        advanced.add(u['referencedDecl'].get('id'))
        for x in astload_walk(cond):
            for side in opcall(x, ('operator!=', 'operator<', 'operator<=', 'operator>', 'operator>=')) or ():
                u = unwrap(side)
                if u.get('kind') == 'DeclRefExpr' and u['referencedDecl'].get('id') in advanced:
                    rid = u['referencedDecl'].get('id')
                    return self.renamed.get(rid, u['referencedDecl'].get('name'))
        return None

    def auto_loop_contract(self, cond, parts):
        """NV_AUTOLOOP_<c_name>_<k>: the contract of a canonical counting loop whose body writes nothing the contracts model
        except its own counter (`for (c = ..; c < B; ++c)` / `for (c = ..; c > L; --c)`, also as a while loop and with
        further conjuncts in the condition; B / L free of calls and of variables the loop assigns): frame {c}, invariant
        "c between its entry value and the bound", variant = distance to the bound.  It is the default NV_LOOP_<c_name>_<k>
        of a loop the spec gives no contract, so that auxiliary loops over erased numerics do not depend on how the source
        spells or directs them.  A body that does write modelled state fails DFCC's frame check: such loops need (and have)
        a contract in the spec."""
        assigned, steps = set(), {}
        for part in parts:
            for x in astload_walk(part or {}):
                k, op = x.get('kind'), x.get('opcode')
                if (k == 'UnaryOperator' and op in ('++', '--')) or k == 'CompoundAssignOperator' or (k == 'BinaryOperator' and op == '='):
                    u = unwrap(x['inner'][0])
                    if u.get('kind') != 'DeclRefExpr':
                        continue
                    rid = u['referencedDecl'].get('id')
                    assigned.add(rid)
                    if k == 'UnaryOperator':
                        steps.setdefault(rid, []).append(+1 if op == '++' else -1)
                    else:
                        steps.setdefault(rid, []).append(0)
        conj = []

        def split(n):
            u = unwrap(n)
            if u.get('kind') == 'BinaryOperator' and u.get('opcode') == '&&':
                split(u['inner'][0])
                split(u['inner'][1])
            else:
                conj.append(u)
        split(cond)
        for c in conj:
            if c.get('kind') != 'BinaryOperator' or c.get('opcode') not in ('<', '>'):
                continue
            for ci, bi, flip in ((0, 1, False), (1, 0, True)):
                u = unwrap(c['inner'][ci])
                if u.get('kind') != 'DeclRefExpr' or u['referencedDecl'].get('kind') != 'VarDecl':
                    continue
                rid = u['referencedDecl'].get('id')
                if steps.get(rid) not in ([+1], [-1]):
                    continue
                up = steps[rid] == [+1]
                less = (c['opcode'] == '<') != flip          # counter < bound ?
                if up != less:
                    continue
                bound = c['inner'][bi]
                if any(y.get('kind') in ('CallExpr', 'CXXMemberCallExpr', 'CXXOperatorCallExpr', 'UnaryOperator', 'CompoundAssignOperator')
                       and (y.get('kind') != 'UnaryOperator' or y.get('opcode') in ('++', '--', '*', '&')) for y in astload_walk(bound)):
                    continue
                if any(y.get('kind') == 'DeclRefExpr' and (y.get('referencedDecl') or {}).get('id') in assigned for y in astload_walk(bound)):
                    continue
                cn = self.renamed.get(rid, u['referencedDecl'].get('name'))
                b = self.expr(bound)
                cc = self.expr(c['inner'][ci])
                if up:
                    return (f'__CPROVER_assigns({cn}) __CPROVER_loop_invariant(__CPROVER_loop_entry({cn}) <= {cn} && '
                            f'({cc} <= {b} || {cn} == __CPROVER_loop_entry({cn}))) __CPROVER_decreases(({cc} <= {b}) ? ({b}) - ({cc}) : 0)')
                return (f'__CPROVER_assigns({cn}) __CPROVER_loop_invariant({cn} <= __CPROVER_loop_entry({cn}) && '
                        f'({cc} >= {b} || {cn} == __CPROVER_loop_entry({cn}))) __CPROVER_decreases(({cc} >= {b}) ? ({cc}) - ({b}) : 0)')
        return None

    def loop_bound_expr(self, cond, counter):
        """NV_LOOPBOUND_<c_name>_<k> / NV_LOOPLHS_<c_name>_<k>: the two sides of the comparison of the loop condition that bounds the
        counter, printed from the current source: `kbest <= max_kbest` -> (kbest, max_kbest); `bin + 1 < bins` -> ((bin + 1), bins).
        A contract that says "LHS <= BOUND" keeps following the loop when a maintainer renames the bound, moves it into a local, or
        peels the last iteration off the loop"""
        def mentions(n):
            return any(y.get('kind') == 'DeclRefExpr' and self.renamed.get((y.get('referencedDecl') or {}).get('id'),
                       (y.get('referencedDecl') or {}).get('name')) == counter for y in astload_walk(n))
        def pure(n):
            return not any(y.get('kind') in ('CallExpr', 'CXXMemberCallExpr', 'CXXOperatorCallExpr', 'CompoundAssignOperator') or
                           (y.get('kind') == 'UnaryOperator' and y.get('opcode') in ('++', '--')) for y in astload_walk(n))
        for x in astload_walk(cond):
            if x.get('kind') == 'BinaryOperator' and x.get('opcode') in ('<', '<=', '>', '>=', '!='):
                for ci, bi in ((0, 1), (1, 0)):
                    if mentions(x['inner'][ci]) and not mentions(x['inner'][bi]) and pure(x['inner'][ci]) and pure(x['inner'][bi]):
                        self.loop_lhs[self.loops] = '(' + self.expr(x['inner'][ci]) + ')'
                        return '(' + self.expr(x['inner'][bi]) + ')'
        return None

    def find_loop_counter(self, cond, parts):
        advanced = set()
        for part in parts:
            for x in astload_walk(part or {}):
                if (x.get('kind') == 'UnaryOperator' and x.get('opcode') in ('++', '--')) or \
                        (x.get('kind') == 'CompoundAssignOperator' and x.get('opcode') in ('+=', '-=')):
                    u = unwrap(x['inner'][0])
                    if u.get('kind') == 'DeclRefExpr':
                        advanced.add(u['referencedDecl'].get('id'))
        for x in astload_walk(cond):
            if x.get('kind') == 'BinaryOperator' and x.get('opcode') in ('<', '<=', '>', '>=', '!='):
                for side in x['inner']:
                    u = unwrap(side)
                    if u.get('kind') == 'DeclRefExpr' and u['referencedDecl'].get('id') in advanced \
                            and u['referencedDecl'].get('kind') == 'VarDecl':
                        rid = u['referencedDecl'].get('id')
                        return self.renamed.get(rid, u['referencedDecl'].get('name'))
        # the counter inside a small arithmetic expression (`bin + 1 < bins`)
        for x in astload_walk(cond):
            if x.get('kind') == 'BinaryOperator' and x.get('opcode') in ('<', '<=', '>', '>=', '!='):
                for side in x['inner']:
                    refs = {(y['referencedDecl'].get('id'), y['referencedDecl'].get('name')) for y in astload_walk(side)
                            if y.get('kind') == 'DeclRefExpr' and (y.get('referencedDecl') or {}).get('id') in advanced
                            and y['referencedDecl'].get('kind') == 'VarDecl'}
                    if len(refs) == 1 and not any(y.get('kind') in ('CallExpr', 'CXXMemberCallExpr', 'CXXOperatorCallExpr') for y in astload_walk(side)):
                        rid, nm = list(refs)[0]
                        return self.renamed.get(rid, nm)
        return None

    HOIST_OK = {'DeclStmt', 'ReturnStmt', 'CallExpr', 'CXXMemberCallExpr', 'CXXOperatorCallExpr', 'BinaryOperator',
                'CompoundAssignOperator', 'ExprWithCleanups'}

    def stmt(self, n, ind):
        outer = getattr(self, 'hoisted', None)
        self.hoisted = []
        try:
            r = self.stmt1(n, ind)
            mine = self.hoisted
        finally:
            self.hoisted = outer
        if mine:
            if n.get('kind') not in self.HOIST_OK:
                raise Unsupported(f'hoisted (!^) call inside a {n.get("kind")}')
            p = '  ' * ind
            r = ''.join(f'{p}{h}\n' for h in mine) + r
        return r

    def stmt1(self, n, ind):
        for h in self.stmt_hooks:
            r = h(self, n, ind)
            if r is not None:
                return r
        k = n.get('kind')
        inner = n.get('inner', [])
        p = '  ' * ind
        if k == 'CompoundStmt':
            self.scopes.append([])
            body = ''
            last = None
            for c in inner:
                body += self.stmt(c, ind + 1)
                last = c.get('kind')
            sc = self.scopes[-1]
            if sc and last not in ('BreakStmt', 'ContinueStmt', 'ReturnStmt', 'CXXThrowExpr'):
                body += self.unwind(len(self.scopes) - 1, p + '  ')
            self.scopes.pop()
            return p + '{\n' + body + p + '}\n'
        if k == 'DeclStmt':
            return ''.join(self.vardecl(v, p) for v in inner)
        if k == 'AttributedStmt':
            # `[[fallthrough]];` / `[[likely]] stmt`: the attributes carry no semantics, the sub-statement is printed
            subs = [c for c in inner if not c.get('kind', '').endswith('Attr')]
            if len(subs) != 1:
                raise Unsupported('attributed statement with %d sub-statements' % len(subs))
            return self.stmt(subs[0], ind)
        if k == 'IfStmt':
            parts = list(inner)
            pre = ''
            if n.get('hasInit'):
                pre = self.stmt(parts.pop(0), ind + 1)
            if n.get('hasVar'):
                # if (T x = init): clang lists the declaration, then the condition (x converted to bool); the variable
                # is scoped to the whole if statement
                if parts[0].get('kind') != 'DeclStmt' or n.get('isConstexpr'):
                    raise Unsupported('if with condition variable of unexpected shape')
                pre += self.stmt(parts.pop(0), ind + 1)
            if n.get('isConstexpr'):
                # `if constexpr` in an instantiation: clang has evaluated the condition (ConstantExpr value) and
                # discarded the other branch; only the taken branch is printed
                cv = parts[0].get('value') if parts[0].get('kind') == 'ConstantExpr' else None
                if cv not in ('true', 'false') or pre:
                    raise Unsupported('if constexpr whose condition clang did not evaluate')
                self.note('if constexpr -> taken branch')
                if cv == 'true':
                    return self.block(parts[1], ind)
                return self.block(parts[2], ind) if len(parts) > 2 else ''
            ce = self.expr(parts[0])
            hoist = ''
            if getattr(self, 'pending_throw', False):
                # a may-throw callee inside the condition: the condition is evaluated once into a temporary, the
                # exception flag is tested, then the branch is taken on the temporary (same evaluation order)
                self.pending_throw = False
                self.tmp += 1
                t = f'nv_cond{self.tmp}'
                hoist = f'{p}_Bool {t} = {ce};\n{p}if (nv_thrown) {self.exc_exit()}\n'
                ce = t
            s = f'{p}if ({ce})\n' + self.block(parts[1], ind)
            if len(parts) > 2:
                s += f'{p}else\n' + self.block(parts[2], ind)
            if hoist:
                s = f'{p}{{\n{hoist}{s}{p}}}\n'
            if pre:
                s = f'{p}{{\n{pre}' + ''.join('  ' + ln + '\n' for ln in s.rstrip('\n').split('\n')) + f'{p}}}\n'
            return s
        if k == 'ForStmt':
            init, condvar, cond, inc, body = inner
            if condvar:
                raise Unsupported('for with condition variable')
            s = f'{p}{{\n'
            self.scopes.append([])
            if init:
                s += self.stmt(init, ind + 1)
            c = self.cond(cond) if cond else '1'
            i = self.cond(inc) if inc else ''
            mac = self.loop_macro(cond, [inc, body])
            self.loop_scope.append(len(self.scopes))
            s += f'{p}  for (; {c}; {i})\n{p}  {mac}\n' + self.block(body, ind + 1)
            self.loop_scope.pop()
            s += self.unwind(len(self.scopes) - 1, p + '  ') + f'{p}}}\n'
            self.scopes.pop()
            return s
        if k == 'WhileStmt':
            if len(inner) != 2:
                raise Unsupported('while with condition variable')
            mac = self.loop_macro(inner[0], [inner[1]])
            self.loop_scope.append(len(self.scopes))
            s = f'{p}while ({self.cond(inner[0])})\n{p}{mac}\n' + self.block(inner[1], ind)
            self.loop_scope.pop()
            return s
        if k == 'DoStmt':
            mac = self.loop_macro()
            self.loop_scope.append(len(self.scopes))
            s = f'{p}do\n{p}{mac}\n' + self.block(inner[0], ind) + f'{p}while ({self.cond(inner[1])});\n'
            self.loop_scope.pop()
            return s
        if k == 'ReturnStmt':
            if self.try_stack:
                raise Unsupported(f'return inside a try block (target {self.cname})')
            if not inner:
                return self.unwind(0, p) + f'{p}return;\n'
            # a function returning a reference returns the address of the denoted object (references print as pointers)
            e = self.addr(inner[0]) if getattr(self, 'ret_is_ref', False) else self.expr(inner[0])
            if any(self.scopes):
                # the return value is computed first, then the RAII locals are destroyed (C++ order)
                self.tmp += 1
                t = f'nv_ret{self.tmp}'
                thr = ''
                if getattr(self, 'pending_throw', False):
                    self.pending_throw = False
                    thr = f'if (nv_thrown) {t} = {self.default_value(self.ret_ctype)}; '
                return f'{p}{{ {self.ret_ctype} {t} = {e}; {thr}\n{self.unwind(0, p + "  ")}{p}  return {t}; }}\n'
            if getattr(self, 'pending_throw', False):
                self.pending_throw = False
                self.tmp += 1
                t = f'nv_ret{self.tmp}'
                return (f'{p}{{ {self.ret_ctype} {t} = {e}; if (nv_thrown) return {self.default_value(self.ret_ctype)}; '
                        f'return {t}; }}\n')
            return f'{p}return {e};\n'
        if k in ('BreakStmt', 'ContinueStmt'):
            word = 'break' if k == 'BreakStmt' else 'continue'
            if any(self.scopes):
                if not self.loop_scope or getattr(self, 'in_switch', 0):
                    raise Unsupported(f'{word} with live RAII locals outside a plain loop')
                return self.unwind(self.loop_scope[-1], p) + f'{p}{word};\n'
            return f'{p}{word};\n'
        if k == 'NullStmt':
            return f'{p};\n'
        if k == 'SwitchStmt':
            parts = list(inner)
            pre = ''
            if n.get('hasInit'):
                # switch (init; cond): the init statement is scoped to the switch, printed as `{ init; switch (cond) .. }`
                pre = self.stmt(parts.pop(0), ind + 1)
            if n.get('hasVar') or len(parts) != 2:
                raise Unsupported('switch with a condition variable')
            self.in_switch = getattr(self, 'in_switch', 0) + 1
            s = f'{p}switch ({self.cond(parts[0])})\n' + self.block(parts[1], ind)
            self.in_switch -= 1
            if pre:
                s = f'{p}{{\n{pre}' + ''.join('  ' + ln + '\n' for ln in s.rstrip('\n').split('\n')) + f'{p}}}\n'
            return s
        if k == 'CaseStmt':
            return f'{p}case {self.expr(inner[0])}:\n' + self.stmt(inner[1], ind + 1)
        if k == 'DefaultStmt':
            return f'{p}default:\n' + self.stmt(inner[0], ind + 1)
        if k == 'CXXThrowExpr':
            return self.throw_stmt(p)
        if self.critical0_call(n):
            self.note('critical0(...) -> throw')
            return self.throw_stmt(p)
        crit = self.critical_call(n)
        if crit is not None:
            self.may_throw = True
            self.note('critical(cond, ...) -> conditional throw')
            return f'{p}if ({self.cond(crit)})\n' + self.throw_stmt(p + '  ')
        if k == 'CXXForRangeStmt':
            return self.range_for(n, ind)
        if k in ('ExprWithCleanups',) and inner and inner[0].get('kind') == 'CXXThrowExpr':
            return self.throw_stmt(p)
        if k == 'CXXTryStmt':
            return self.try_stmt(n, ind)
        if k in ('CXXCatchStmt', 'GotoStmt', 'LabelStmt', 'LambdaExpr'):
            raise Unsupported(f'statement kind {k} (target {self.cname})')
        # expression statement
        self.always_throws = False
        self.in_expr_stmt = True
        top = n
        while top.get('kind') in TRANSPARENT and top.get('inner'):
            top = top['inner'][0]
        self.discard_id = id(top)     # value of the statement's top-level call is discarded (no dereference)
        try:
            e = self.expr(n)
        finally:
            self.in_expr_stmt = False
            self.discard_id = None
        if self.always_throws:
            self.always_throws = False
            if e != '((void)0)':
                raise Unsupported('@throw mapping used inside a larger expression')
            return self.throw_stmt(p)
        if e in ('nv_opaque_value()',) or re.fullmatch(r'nv_nondet_\w+\(\)', e):
            e = '((void)0)'
        if e == '((void)0)':
            self.dropped.append(n.get('range', {}).get('begin', {}).get('line', '?'))
            return self.after(p)
        return f'{p}{e};\n' + self.after(p)

    def critical_call(self, n):
        """nano::critical(condition, message...) used as a statement: returns the condition node (messages are only
        formatted into the exception text and are not translated)"""
        u = n
        while u.get('kind') in TRANSPARENT and u.get('inner'):
            u = u['inner'][0]
        if u.get('kind') != 'CallExpr' or not u.get('inner'):
            return None
        rd = unwrap(u['inner'][0]).get('referencedDecl', {})
        if rd.get('name') != 'critical' or len(u['inner']) < 2:
            return None
        return u['inner'][1]

    def critical0_call(self, n):
        """nano::critical0(message...) used as a statement: [[noreturn]], always throws (messages are not translated)"""
        u = n
        while u.get('kind') in TRANSPARENT and u.get('inner'):
            u = u['inner'][0]
        if u.get('kind') != 'CallExpr' or not u.get('inner'):
            return False
        return unwrap(u['inner'][0]).get('referencedDecl', {}).get('name') == 'critical0'

    def range_for(self, n, ind):
        """range-based for, printed from clang's own desugaring (__range, __begin, __end, condition, increment, loop
        variable); the container's begin/end/iterator operations go through the spec's mappings"""
        inner = n['inner']
        if len(inner) != 8:
            raise Unsupported('range-for with unexpected shape')
        init, rng, beg, end, cond, inc, var, body = inner
        p = '  ' * ind
        s = f'{p}{{\n'
        self.scopes.append([])
        for d in (init, rng, beg, end):
            if d:
                s += self.stmt(d, ind + 1)
        mac = self.loop_macro()
        # the range-for's own iterator variable (`__begin1`), published like any other loop counter: a loop contract written with
        # NV_LOOPVAR_<c_name>_<k> then also fits the same loop written with an explicit iterator
        bv = [x for x in (beg or {}).get('inner', []) if x.get('kind') == 'VarDecl']
        if bv and bv[0].get('name'):
            self.loop_counters[self.loops] = bv[0]['name']
        self.loop_scope.append(len(self.scopes))
        s += f'{p}  for (; {self.cond(cond)}; {self.cond(inc)})\n{p}  {mac}\n{p}  {{\n'
        self.scopes.append([])
        s += self.stmt(var, ind + 2)
        s += self.block(body, ind + 2)
        s += self.unwind(len(self.scopes) - 1, p + '    ')
        self.scopes.pop()
        self.loop_scope.pop()
        s += f'{p}  }}\n' + self.unwind(len(self.scopes) - 1, p + '  ') + f'{p}}}\n'
        self.scopes.pop()
        return s

    def block(self, n, ind):
        if n.get('kind') == 'CompoundStmt':
            return self.stmt(n, ind)
        p = '  ' * ind
        return p + '{\n' + self.stmt(n, ind + 1) + p + '}\n'

    # ------------------------------------------------------------------ functions
    def function(self, d, ret_override=None, extra_params=()):
        params = [c for c in d['inner'] if c['kind'] == 'ParmVarDecl']
        body = [c for c in d['inner'] if c['kind'] == 'CompoundStmt'][0]
        fq = d['type']['qualType']
        rett = return_type_of(fq)
        if d.get('kind') == 'CXXConstructorDecl':
            rc = 'void'
        elif ret_override:
            rc = ret_override
        else:
            rc = self.ctype_q(rett)
        self.ret_ctype = rc
        # a function returning a reference returns the address of the returned glvalue
        self.ret_is_ref = (not ret_override and d.get('kind') != 'CXXConstructorDecl' and rett.endswith('&')
                           and rc.endswith('*'))
        if ret_override and ret_override.rstrip().endswith('&'):
            # `Fn(..., ret='T&')`: a reference return type that clang prints through a dependent alias
            # (`typename tbase::tmutableref`): returns the address of the returned glvalue, like any other reference
            rc = self.ret_ctype = ret_override.rstrip()[:-1].rstrip() + '*'
            self.ret_is_ref = True
        ps = []
        if self.self_struct:
            ps.append(f'{self.self_struct}* self')
        names = [q.get('name') for q in params]
        seen = {}
        for k, q in enumerate(params):
            nm = q.get('name', f'nv_unnamed{k}')
            if not q.get('name'):
                # unnamed parameter that the body still refers to (implicitly-defined / defaulted copy and move operations)
                self.renamed[q.get('id')] = nm
            if nm in names and names.count(nm) > 1:
                # an expanded parameter pack (`tindices... indices`) repeats one name: the j-th element prints as name_j
                j = seen.get(nm, 0)
                seen[nm] = j + 1
                self.renamed[q.get('id')] = f'{nm}_{j}'
                nm = f'{nm}_{j}'
            ps.append(f'{self.ctype(q["type"])} {nm}')
        ps += list(extra_params)
        text = self.stmt(body, 0)
        inits = [c for c in d['inner'] if c.get('kind') == 'CXXCtorInitializer']
        if inits:
            pre = ''
            for c in inits:
                any_ = c.get('anyInit')
                if not any_ or not c.get('inner'):
                    if c.get('delegatingInit') and c.get('inner'):
                        # delegating constructor `T(a) : T(f(a), g(a)) {}`: the target constructor is a `calls` mapping on
                        # `ctor|<type>|<ctorType>` that names {self} (an extracted constructor or its contract): `target(self, args..);`
                        e = c['inner'][0]
                        while e.get('kind') in ('ExprWithCleanups', 'MaterializeTemporaryExpr', 'CXXBindTemporaryExpr') and e.get('inner'):
                            e = e['inner'][0]
                        if e.get('kind') != 'CXXConstructExpr':
                            raise Unsupported(f'delegating initialiser of kind {e.get("kind")}')
                        key = f'ctor|{strip_cv(qual(e["type"]))}|{e.get("ctorType", {}).get("qualType", "")}'
                        m = self.lookup(self.calls, key)
                        if m is None or '{self}' not in m:
                            raise Unsupported(f'delegating constructor not mapped (the mapping must name {{self}}): {key}')
                        self.hoisted = []
                        call = self.apply(m, e.get('inner', []), selfexpr='self', node=e, key=key)
                        pre += ''.join(f'  {h}\n' for h in self.hoisted)
                        self.hoisted = None
                        pre += f'  {call};\n' + self.after('  ')
                        continue
                    if c.get('baseInit'):
                        e = self.expr(c['inner'][0]) if c.get('inner') else '((void)0)'
                        pre += f'  {e};\n' if e != '((void)0)' else ''
                        continue
                    raise Unsupported('constructor initialiser without a member')
                e = c['inner'][0]
                dflt_type = None
                if e.get('kind') == 'CXXDefaultInitExpr':
                    dflt_type = e.get('type')
                    e = e['inner'][0] if e.get('inner') else None
                    if e is None and getattr(self, 'field_init', None):
                        # clang does not repeat the default member initialiser (`bool m_stop{false};`) under the
                        # constructor: it is read from the field's own declaration in the same TU
                        e = self.field_init(d.get('name'), any_['name'])
                    if e is None:
                        raise Unsupported(f'default member initialiser of {any_["name"]} is not in the dump')
                self.hoisted = []
                # opt-in (Fn(..., ref_member_pointers=True)): a reference member (`const T& m;`) modelled as a pointer field is
                # bound, not copied: the initialiser is the address of the object (default: the member is a copy of the object)
                is_ref_field = getattr(self, 'ref_member_pointers', False) and any_.get('type', {}).get('qualType', '').rstrip().endswith('&')
                if dflt_type is not None and e.get('kind') == 'InitListExpr' and not e.get('inner') and qual(e.get('type')) in ('void', '<dependent type>'):
                    # `T m{};` read from the class TEMPLATE's field declaration (type-dependent there): value-initialisation
                    ie = self.default_value(self.ctype(dflt_type))
                else:
                    ie = self.addr(e) if is_ref_field else self.expr(e)
                pre += ''.join(f'  {h}\n' for h in self.hoisted)
                self.hoisted = None
                pre += f'  self->{any_["name"]} = {ie};\n' + self.after('  ')
            text = text.replace('{\n', '{\n' + pre, 1)
        sig = f'{rc} {self.cname}({", ".join(ps) if ps else "void"})'
        self.signature = sig
        self.params = ps
        return f'{sig}\nNV_CONTRACT_{self.cname}\n{text}'
