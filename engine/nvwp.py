"""nvwp: forward symbolic execution of a clang AST (the same extraction front end as cxx2c) into SMT-LIB
verification conditions over mathematical integers / reals.

* machine integers are modelled as Int **plus** one explicit no-overflow obligation per arithmetic node and
  per narrowing conversion (so "machine = mathematical" is proved under the contract's size bound, not assumed);
* `double` is modelled as Real only when the target says so (assumption recorded in the evidence);
* calls are resolved through the spec: other extracted functions are replaced by their contracts
  (precondition becomes an obligation at the call site, postcondition an assumption on a fresh result);
* every `return` site gets the postconditions as obligations under its path condition; loops need an invariant.

One VC per obligation:  preconditions /\ path facts /\ guard /\ not(claim)  must be unsat.
"""
import os
import re

import astload
from astload import ExtractionError
from cxx2c import (Unsupported, strip_cv, qual, TRANSPARENT, CAST_KINDS, PASS_CASTS, unwrap, string_literal_of)
from core import VC

INT_RANGES = {
    'bool': (0, 1), 'char': (-128, 127), 'signed char': (-128, 127), 'unsigned char': (0, 255),
    'short': (-2 ** 15, 2 ** 15 - 1), 'unsigned short': (0, 2 ** 16 - 1), 'int': (-2 ** 31, 2 ** 31 - 1),
    'unsigned int': (0, 2 ** 32 - 1), 'long': (-2 ** 63, 2 ** 63 - 1), 'unsigned long': (0, 2 ** 64 - 1),
    'long long': (-2 ** 63, 2 ** 63 - 1), 'unsigned long long': (0, 2 ** 64 - 1),
}
ALIASES = {'nano::tensor_size_t': 'long', 'Eigen::Index': 'long', 'size_t': 'unsigned long', 'std::size_t': 'unsigned long',
           'nano::scalar_t': 'double', 'std::ptrdiff_t': 'long', 'int64_t': 'long', 'uint64_t': 'unsigned long',
           'int32_t': 'int', 'uint32_t': 'unsigned int', 'std::int64_t': 'long', 'std::uint64_t': 'unsigned long',
           'difference_type': 'long'}

PRELUDE = """
(define-fun cdiv ((a Int) (b Int)) Int (ite (>= a 0) (ite (> b 0) (div a b) (- (div a (- b)))) (ite (> b 0) (- (div (- a) b)) (div (- a) (- b)))))
(define-fun cmod ((a Int) (b Int)) Int (- a (* b (cdiv a b))))
(define-fun rfloor ((x Real)) Real (to_real (to_int x)))
(define-fun rceil ((x Real)) Real (- (to_real (to_int (- x)))))
(define-fun rtrunc ((x Real)) Int (ite (>= x 0.0) (to_int x) (- (to_int (- x)))))
(define-fun rabs ((x Real)) Real (ite (>= x 0.0) x (- x)))
(define-fun rmax ((x Real) (y Real)) Real (ite (>= x y) x y))
(define-fun rmin ((x Real) (y Real)) Real (ite (<= x y) x y))
(define-fun imax ((x Int) (y Int)) Int (ite (>= x y) x y))
(define-fun imin ((x Int) (y Int)) Int (ite (<= x y) x y))
"""



# ---------------------------------------------------------------- fallback vocabulary for calls no spec maps: min / max /
# abs over the reals or integers are exact; nano::epsilon0..3<double>() are positive constants (their values are not used),
# so that a change that introduces one of them is decided instead of ending as "call not mapped" (exit 2)
def _std_minmax(op):
    def h(wp, n, args, callee):
        a, b = wp.ev(args[0]), wp.ev(args[1])
        if a.s != b.s or a.s not in ('Real', 'Int'):
            raise Unsupported(f'{wp.name}: std::min/max of {a.s} and {b.s}')
        return V(f'(ite ({op} {a.t} {b.t}) {a.t} {b.t})', a.s, a.c)
    return h


def _std_abs(wp, n, args, callee):
    a = wp.ev(args[0])
    if a.s not in ('Real', 'Int'):
        raise Unsupported(f'{wp.name}: std::abs of {a.s}')
    zero = '0.0' if a.s == 'Real' else '0'
    return V(f'(ite (>= {a.t} {zero}) {a.t} (- {a.t}))', a.s, a.c)


def _std_epsilon(wp, n, args, callee):
    name = 'nv_' + unwrap(n['inner'][0]).get('referencedDecl', {}).get('name', 'epsilon')
    if not any(d.startswith(f'(declare-const {name} ') for d in wp.decls):
        wp.decls.append(f'(declare-const {name} Real)')
        wp.facts.append(f'(> {name} 0.0)')
    return V(name, 'Real', 'double')


STD_CALLS = [
    (r'^max\|const (double|long|int) &\(const \1 &, const \1 &\)', _std_minmax('>=')),
    (r'^min\|const (double|long|int) &\(const \1 &, const \1 &\)', _std_minmax('<=')),
    (r'^(fabs|abs)\|(double \(double\)|long \(long\)|int \(int\))', _std_abs),
    (r'^epsilon[0-3]?\|double \(\)', _std_epsilon),
]

class V:
    __slots__ = ('t', 's', 'c')

    def __init__(self, t, s, c=None):
        self.t, self.s, self.c = t, s, c   # term, sort, C base type (for ranges)

    def __repr__(self):
        return f'V({self.t}:{self.s})'


def lit(n):
    return str(n) if n >= 0 else f'(- {-n})'


def AND(*xs):
    xs = [x for x in xs if x != 'true']
    if not xs:
        return 'true'
    if 'false' in xs:
        return 'false'
    return xs[0] if len(xs) == 1 else '(and ' + ' '.join(xs) + ')'


def OR(*xs):
    xs = [x for x in xs if x != 'false']
    if not xs:
        return 'false'
    if 'true' in xs:
        return 'true'
    return xs[0] if len(xs) == 1 else '(or ' + ' '.join(xs) + ')'


def NOT(x):
    if x == 'true':
        return 'false'
    if x == 'false':
        return 'true'
    return f'(not {x})'


def IMP(a, b):
    if a == 'true':
        return b
    return f'(=> {a} {b})'


def ITE(c, a, b):
    if a == b:
        return a
    if c == 'true':
        return a
    if c == 'false':
        return b
    return f'(ite {c} {a} {b})'


class WP:
    def __init__(self, name, real=False, calls=(), members=(), hooks=(), bindings=None, unsigned_wrap_check=True,
                 invariants=None, this=None):
        self.name = name
        self.real = real
        self.calls = list(calls)      # (regex on key, handler(wp, node, argnodes) -> V | None)
        self.members = list(members)
        self.hooks = list(hooks)
        self.bindings = bindings or {}  # template parameter name -> value (for template args read from source)
        self.unsigned_wrap_check = unsigned_wrap_check
        self.invariants = invariants or {}   # loop ordinal -> callable(wp) -> list of (label, term)
        self.decls = []
        self.facts = []               # global assumptions (preconditions, callee postconditions)
        self.obligations = []         # (label, guard, claim, line)
        self.env = {}
        self.n = 0
        self.loops = 0
        self.post = None              # callable(wp, retV) -> list of (label, term)
        self.used = {}
        self.src_cache = {}
        self.loop_exits, self.inline_rets, self.inlining = [], [], []

    # ------------------------------------------------------------ basics
    def fresh(self, sort, hint='v', ctype=None):
        self.n += 1
        nm = f'{re.sub(r"[^A-Za-z0-9_]", "_", hint)}!{self.n}'
        nm = f'|{nm}|'
        self.decls.append(f'(declare-const {nm} {sort})')
        return V(nm, sort, ctype)

    def const(self, name, sort, ctype=None):
        self.decls.append(f'(declare-const {name} {sort})')
        return V(name, sort, ctype)

    def assume(self, term):
        self.facts.append(IMP(self.guard, term) if getattr(self, 'guard', 'true') != 'true' else term)

    def oblige(self, label, claim, node=None):
        line = None
        if node is not None:
            b = node.get('range', {}).get('begin', {})
            line = b.get('line') or b.get('expansionLoc', {}).get('line') or b.get('spellingLoc', {}).get('line')
        self.obligations.append((label, self.guard, claim, line, list(self.facts)))

    def note(self, k):
        self.used[k] = self.used.get(k, 0) + 1

    # ------------------------------------------------------------ types
    def base(self, t):
        for q in (t.get('desugaredQualType'), t.get('qualType')):
            if q is None:
                continue
            q = strip_cv(q).rstrip('&').strip()
            q = strip_cv(q)
            q = ALIASES.get(q, q)
            if q in INT_RANGES or q in ('double', 'float'):
                return q
        return None

    def sort_of(self, t):
        b = self.base(t)
        if b == 'bool':
            return 'Bool', b
        if b in INT_RANGES:
            return 'Int', b
        if b in ('double', 'float'):
            if not self.real:
                raise Unsupported(f'{self.name}: floating-point value in an integer-only target')
            return 'Real', b
        raise Unsupported(f'{self.name}: type {t.get("qualType")!r} has no SMT sort')

    def in_range(self, term, cty):
        lo, hi = INT_RANGES[cty]
        return f'(and (<= {lit(lo)} {term}) (<= {term} {lit(hi)}))'

    # ------------------------------------------------------------ template arguments read from the source text
    def source_of(self, node):
        rng = node.get('range', {})
        b = rng.get('begin', {})
        e = rng.get('end', {})
        b = b.get('spellingLoc', b.get('expansionLoc', b))
        e = e.get('spellingLoc', e.get('expansionLoc', e))
        f = b.get('file') or self.default_file
        if f not in self.src_cache:
            self.src_cache[f] = open(f, 'rb').read()
        return self.src_cache[f][b['offset']: e['offset'] + e.get('tokLen', 0)].decode()

    def call_template_args(self, callee_ref):
        """explicit template arguments of a call, evaluated under the enclosing instantiation's bindings"""
        txt = self.source_of(callee_ref)
        m = re.search(r'<(.*)>\s*$', txt, re.S)
        if not m:
            return []
        out = []
        for part in split_top(m.group(1)):
            e = re.sub(r'(\d+)[uUlL]+\b', r'\1', part.strip())
            e = re.sub(r'sizeof\.\.\.\s*\(\s*(\w+)\s*\)', lambda mm: str(self.bindings['sizeof...' + mm.group(1)]), e)
            try:
                out.append(int(eval(e, {'__builtins__': {}}, dict(self.bindings))))
            except Exception as ex:
                raise Unsupported(f'{self.name}: cannot evaluate template argument {part!r} with {self.bindings}: {ex}')
        return out

    # ------------------------------------------------------------ expressions
    def conv(self, v, sort, cty, node=None, explicit=False):
        if v.s == sort:
            if sort == 'Int' and cty != v.c and cty in INT_RANGES:
                lo, hi = INT_RANGES[cty]
                vlo, vhi = INT_RANGES.get(v.c, (None, None))
                if vlo is None or vlo < lo or vhi > hi:
                    self.oblige(f'conversion to {cty} preserves the value', self.in_range(v.t, cty), node)
                return V(v.t, 'Int', cty)
            return V(v.t, sort, cty)
        if v.s == 'Int' and sort == 'Real':
            return V(f'(to_real {v.t})', 'Real', cty)
        if v.s == 'Real' and sort == 'Int':
            t = f'(rtrunc {v.t})'
            self.oblige(f'floating value converted to {cty} is in range', self.in_range(t, cty), node)
            return V(t, 'Int', cty)
        if v.s == 'Bool' and sort == 'Int':
            return V(f'(ite {v.t} 1 0)', 'Int', cty)
        if v.s == 'Int' and sort == 'Bool':
            return V(f'(not (= {v.t} 0))', 'Bool', cty)
        if v.s == 'Real' and sort == 'Bool':
            return V(f'(not (= {v.t} 0.0))', 'Bool', cty)
        if v.s == 'Bool' and sort == 'Real':
            return V(f'(ite {v.t} 1.0 0.0)', 'Real', cty)
        raise Unsupported(f'conversion {v.s}->{sort}')

    def lookup(self, table, key):
        for rx, h in table:
            if re.search(rx, key):
                return h
        return None

    def ev(self, n):
        for h in self.hooks:
            r = h(self, n)
            if r is not None:
                return r
        k = n.get('kind')
        inner = n.get('inner', [])
        if k in CAST_KINDS:
            ck = n.get('castKind')
            if ck in PASS_CASTS:
                return self.ev(inner[0])
            if ck in ('IntegralCast', 'FloatingToIntegral', 'IntegralToFloating', 'FloatingCast', 'IntegralToBoolean',
                      'FloatingToBoolean', 'BooleanToSignedIntegral'):
                s, c = self.sort_of(n['type'])
                return self.conv(self.ev(inner[0]), s, c, n)
            if ck == 'ToVoid':
                self.ev(inner[0])
                return V('0', 'Int', 'int')
            raise Unsupported(f'cast kind {ck}')
        if k == 'ConstantExpr' and str(n.get('value')) in ('true', 'false'):
            return V(str(n['value']), 'Bool', 'bool')
        if k == 'ConstantExpr' and 'value' in n and re.fullmatch(r'-?\d+', str(n['value'])) and self.base(n['type']) in INT_RANGES:
            b = self.base(n['type'])
            if b == 'bool':
                return V('true' if int(n['value']) else 'false', 'Bool', 'bool')
            return V(lit(int(n['value'])), 'Int', b)
        if k == 'SubstNonTypeTemplateParmExpr':
            return self.ev(inner[-1])
        if k == 'ParenExpr' or k in TRANSPARENT:
            return self.ev(inner[0])
        if k == 'IntegerLiteral':
            return V(lit(int(n['value'])), 'Int', self.base(n['type']))
        if k == 'FloatingLiteral':
            if not self.real:
                raise Unsupported('floating literal in an integer-only target')
            return V(real_lit(n['value']), 'Real', 'double')
        if k == 'CXXBoolLiteralExpr':
            return V('true' if n['value'] else 'false', 'Bool', 'bool')
        if k == 'DeclRefExpr':
            nm = n['referencedDecl']['name']
            if nm not in self.env:
                raise Unsupported(f'{self.name}: unknown variable {nm}')
            return self.env[nm]
        if k == 'MemberExpr':
            nm = self.member_name(n)
            if nm not in self.env:
                raise Unsupported(f'{self.name}: unknown member {nm}')
            return self.env[nm]
        if k == 'BinaryOperator':
            return self.binop(n)
        if k == 'CompoundAssignOperator':
            op = n['opcode'][:-1]
            lhs = self.ev(inner[0])
            rhs = self.ev(inner[1])
            s, c = self.sort_of(n.get('computeResultType', n['type']))
            r = self.arith(op, self.conv(lhs, s, c), self.conv(rhs, s, c), c, n)
            ls, lc = self.sort_of(inner[0]['type'])
            r = self.conv(r, ls, lc, n)
            self.assign(inner[0], r)
            return r
        if k == 'UnaryOperator':
            op = n['opcode']
            if op in ('++', '--'):
                v = self.ev(inner[0])
                r = self.arith('+' if op == '++' else '-', v, V('1', 'Int', v.c), v.c, n)
                self.assign(inner[0], r)
                return v if n.get('isPostfix') else r
            v = self.ev(inner[0])
            if op == '!':
                return V(NOT(self.conv(v, 'Bool', 'bool').t), 'Bool', 'bool')
            if op == '-':
                if v.s == 'Real':
                    return V(f'(- {v.t})', 'Real', v.c)
                s, c = self.sort_of(n['type'])
                return self.arith('-', V('0', 'Int', c), self.conv(v, s, c), c, n)
            if op == '+':
                return v
            if op == '*':
                return self.deref(inner[0])
            raise Unsupported('unary ' + op)
        if k == 'ConditionalOperator':
            c = self.conv(self.ev(inner[0]), 'Bool', 'bool').t
            g = self.guard
            env0 = dict(self.env)
            self.guard = AND(g, c)
            a = self.ev(inner[1])
            envA = self.env
            self.env = dict(env0)
            self.guard = AND(g, NOT(c))
            b = self.ev(inner[2])
            envB = self.env
            self.env = self.merge(c, envA, envB)     # side effects of the selected branch only
            self.guard = g
            return V(ITE(c, a.t, b.t), a.s, a.c)
        if k in ('CallExpr', 'CXXOperatorCallExpr'):
            return self.call(n)
        if k == 'CXXMemberCallExpr':
            return self.member_call(n)
        if k in ('CXXConstructExpr', 'CXXFunctionalCastExpr', 'InitListExpr') and len(inner) == 1:
            return self.ev(inner[0])
        raise Unsupported(f'{self.name}: expression kind {k}')

    def deref(self, n):
        raise Unsupported('pointer dereference')

    def member_name(self, n):
        base = unwrap(n['inner'][0])
        if base.get('kind') == 'CXXThisExpr':
            return 'self.' + n['name']
        if base.get('kind') == 'DeclRefExpr':
            return base['referencedDecl']['name'] + '.' + n['name']
        raise Unsupported('member access on ' + str(base.get('kind')))

    def arith(self, op, a, b, cty, node):
        if a.s == 'Real' or b.s == 'Real':
            a = self.conv(a, 'Real', 'double')
            b = self.conv(b, 'Real', 'double')
            if op == '/':
                if self.real_div_check:
                    self.oblige('real-model division is defined (divisor non-zero)', f'(not (= {b.t} 0.0))', node)
                return V(f'(/ {a.t} {b.t})', 'Real', 'double')
            return V(f'({op} {a.t} {b.t})', 'Real', 'double')
        if op in ('+', '-', '*'):
            t = f'({op} {a.t} {b.t})'
            lo, hi = INT_RANGES[cty]
            if lo < 0 or self.unsigned_wrap_check:
                kind = 'signed overflow' if lo < 0 else 'unsigned wrap-around'
                self.oblige(f'no {kind} in {cty} {op}', self.in_range(t, cty), node)
            else:
                t = f'(mod {t} {hi + 1})'
            return V(t, 'Int', cty)
        if op == '/':
            self.oblige('integer division by non-zero', f'(not (= {b.t} 0))', node)
            t = f'(cdiv {a.t} {b.t})'
            lo, hi = INT_RANGES[cty]
            if lo < 0:
                self.oblige(f'no signed overflow in {cty} /', self.in_range(t, cty), node)
            return V(t, 'Int', cty)
        if op == '%':
            self.oblige('integer modulo by non-zero', f'(not (= {b.t} 0))', node)
            return V(f'(cmod {a.t} {b.t})', 'Int', cty)
        raise Unsupported('arithmetic operator ' + op)

    def binop(self, n):
        op = n['opcode']
        inner = n['inner']
        if op == '=':
            v = self.ev(inner[1])
            self.assign(inner[0], v)
            return v
        if op == ',':
            self.ev(inner[0])
            return self.ev(inner[1])
        if op in ('&&', '||'):
            a = self.conv(self.ev(inner[0]), 'Bool', 'bool').t
            g = self.guard
            env0 = dict(self.env)
            evald = a if op == '&&' else NOT(a)
            self.guard = AND(g, evald)
            b = self.conv(self.ev(inner[1]), 'Bool', 'bool').t
            self.env = self.merge(evald, self.env, env0)   # the right operand (and its side effects) only when evaluated
            self.guard = g
            return V(AND(a, b) if op == '&&' else OR(a, b), 'Bool', 'bool')
        a = self.ev(inner[0])
        b = self.ev(inner[1])
        if op in ('<', '<=', '>', '>=', '==', '!='):
            if a.s != b.s:
                if 'Real' in (a.s, b.s):
                    a, b = self.conv(a, 'Real', 'double'), self.conv(b, 'Real', 'double')
                else:
                    a, b = self.conv(a, 'Int', a.c or 'long'), self.conv(b, 'Int', b.c or 'long')
            if op == '==':
                return V(f'(= {a.t} {b.t})', 'Bool', 'bool')
            if op == '!=':
                return V(f'(not (= {a.t} {b.t}))', 'Bool', 'bool')
            return V(f'({op} {a.t} {b.t})', 'Bool', 'bool')
        s, c = self.sort_of(n['type'])
        return self.arith(op, a, b, c, n)

    def call_key(self, n):
        inner = n['inner']
        callee = unwrap(inner[0])
        rd = callee.get('referencedDecl')
        if rd is None:
            raise Unsupported('indirect call')
        a0 = strip_cv(qual(inner[1]['type'])) if len(inner) > 1 else ''
        return f'{rd["name"]}|{rd["type"]["qualType"]}|{a0}', callee

    def call(self, n):
        key, callee = self.call_key(n)
        h = self.lookup(self.calls, key)
        if h is None:
            h = self.lookup(STD_CALLS, key)      # small fallback vocabulary (exact over the reals / integers)
        if h is None:
            r = self.inline_call(n, callee)
            if r is not None:
                return r
            raise Unsupported(f'{self.name}: call not mapped: {key}')
        self.note(key.split('|')[0])
        return h(self, n, n['inner'][1:], callee)

    def inline_call(self, n, callee):
        """an unmapped callee that is a plain (non-member) function of /repo with its body in this translation unit and scalar
        by-value / const-reference parameters -- typically a file-local helper factored out of the function under contract --
        is executed symbolically in place (the real code; obligations inside it are generated under the call's path
        condition).  Returns the value, or None when the callee is not such a function (the call stays `not mapped`)."""
        rd = callee.get('referencedDecl') or {}
        nm, ty = rd.get('name'), (rd.get('type') or {}).get('qualType')
        tu = getattr(self, 'tu', None)
        if not tu or not nm or not ty or not re.fullmatch(r'[A-Za-z_]\w*', nm):
            return None
        try:
            docs = astload.dump(tu, nm)
        except ExtractionError:
            return None
        cands = {}
        for d in docs:
            for x in astload.walk(d):
                if x.get('kind') == 'FunctionDecl' and x.get('name') == nm and (x.get('type') or {}).get('qualType') == ty \
                        and astload.has_body(x) and (x.get('_file') or '').startswith(astload.REPO + '/'):
                    cands[(x.get('_file'), x.get('_line'), x.get('mangledName'))] = x
        if len(cands) != 1:
            return None
        d = list(cands.values())[0]
        params = [c for c in d['inner'] if c['kind'] == 'ParmVarDecl']
        args = n['inner'][1:]
        if len(params) != len(args) or nm in self.inlining:
            return None
        body = [c for c in d['inner'] if c['kind'] == 'CompoundStmt'][0]
        if any(x.get('kind') in ('ForStmt', 'WhileStmt', 'DoStmt', 'CXXForRangeStmt') for x in astload.walk(body)):
            raise Unsupported(f'{self.name}: unmapped helper {nm} contains a loop (it needs a contract of its own)')
        vals = []
        for p, a in zip(params, args):
            q = p['type'].get('qualType', '')
            if q.rstrip().endswith('&') and not re.match(r'^\s*const\b', q):
                raise Unsupported(f'{self.name}: unmapped helper {nm} takes a mutable reference')
            try:
                s_, c_ = self.sort_of(p['type'])
            except Unsupported:
                # class-typed parameter (by value or const reference) bound to a variable the spec models by dotted keys
                # (`u.t`, `u.f`, ...): the parameter is a read-only alias of those entries
                ua = unwrap(a)
                while ua.get('kind') in ('CXXConstructExpr',) and len(ua.get('inner', [])) == 1:
                    ua = unwrap(ua['inner'][0])
                if ua.get('kind') not in ('DeclRefExpr', 'MemberExpr'):
                    raise Unsupported(f'{self.name}: unmapped helper {nm}: class-typed argument of kind {ua.get("kind")}')
                base = self.loc(ua)
                ali = {k[len(base):]: v for k, v in self.env.items() if k == base or k.startswith(base + '.')}
                if not ali:
                    raise Unsupported(f'{self.name}: unmapped helper {nm}: argument {base} is not modelled')
                vals.append(ali)
                continue
            vals.append(self.conv(self.ev(a), s_, c_, a))
        saved = (self.env, self.ret_sort, getattr(self, 'idmap', None))
        g_call = self.guard
        self.env = {}
        if saved[2] is not None:
            self.idmap = dict(saved[2])
        for p, v in zip(params, vals):
            key = p.get('name', f'_arg{p.get("id")}')
            if isinstance(v, dict):
                for suffix, vv in v.items():
                    self.env[key + suffix] = vv
            else:
                self.env[key] = v
            if saved[2] is not None:
                self.idmap[p.get('id')] = key
        rett = {'qualType': ty.split('(')[0].strip()}
        try:
            self.ret_sort = self.sort_of(rett)
        except Unsupported:
            self.ret_sort = None
        self.inlining.append(nm)
        self.inline_rets.append([])
        try:
            self.ex(body)
            rets = self.inline_rets[-1]
            if self.guard != 'false':
                if self.ret_sort is not None:
                    self.oblige(f'end of the non-void helper {nm} is unreachable', 'false', d)
                else:
                    rets.append((self.guard, None))
        finally:
            self.inline_rets.pop()
            self.inlining.pop()
            self.env, self.ret_sort = saved[0], saved[1]
            if saved[2] is not None:
                self.idmap = saved[2]
            self.guard = g_call
        self.note(f'inlined /repo helper {nm}')
        if self.ret_sort_of(rett) is None:
            return V('0', 'Int', 'int')
        if not rets:
            raise Unsupported(f'{self.name}: helper {nm} has no return path')
        out = rets[-1][1]
        for g, v in reversed(rets[:-1]):
            out = V(ITE(g, v.t, out.t), v.s, v.c)
        return out

    def ret_sort_of(self, rett):
        try:
            return self.sort_of(rett)
        except Unsupported:
            return None

    def member_call(self, n):
        inner = n['inner']
        me = inner[0]
        name = me.get('name')
        obj = me['inner'][0]
        objt = strip_cv(qual(obj['type']))
        lit_ = string_literal_of(inner[1]) if len(inner) > 1 else None
        key = f'{name}|{objt}' + (f'|"{lit_}"' if lit_ is not None else '')
        h = self.lookup(self.members, key)
        if h is None:
            raise Unsupported(f'{self.name}: member call not mapped: {key}')
        self.note(name)
        return h(self, n, inner[1:], obj)

    # ------------------------------------------------------------ locations
    def loc(self, n):
        """location of an lvalue expression: a key of self.env"""
        n = unwrap(n)
        k = n.get('kind')
        if k == 'DeclRefExpr':
            return n['referencedDecl']['name']
        if k == 'MemberExpr':
            return self.member_name(n)
        if k in ('CallExpr', 'CXXOperatorCallExpr', 'CXXMemberCallExpr'):
            self.want_loc = True
            try:
                r = self.call(n) if k != 'CXXMemberCallExpr' else self.member_call(n)
            finally:
                self.want_loc = False
            if isinstance(r, str):
                return r
            raise Unsupported('call does not yield a location')
        raise Unsupported(f'lvalue kind {k}')

    def assign(self, lhs, v):
        key = self.loc(lhs)
        old = self.env.get(key)
        if old is not None and old.s != v.s:
            v = self.conv(v, old.s, old.c)
        self.env[key] = V(v.t, v.s, old.c if old is not None and old.c else v.c)

    # ------------------------------------------------------------ statements
    def merge(self, c, envA, envB):
        out = {}
        for k in set(envA) | set(envB):
            a, b = envA.get(k), envB.get(k)
            if a is None or b is None:
                continue   # declared in one branch only: out of scope after the if
            out[k] = a if a.t == b.t else V(ITE(c, a.t, b.t), a.s, a.c)
        return out

    def ex(self, n):
        """execute a statement under self.guard; self.guard becomes the fall-through condition"""
        k = n.get('kind')
        inner = n.get('inner', [])
        if k == 'CompoundStmt':
            for c in inner:
                self.ex(c)
                if self.guard == 'false':
                    break
            return
        if k == 'DeclStmt':
            for v in inner:
                if v['kind'] in ('StaticAssertDecl', 'TypeAliasDecl', 'TypedefDecl', 'UsingDecl'):
                    continue
                if v['kind'] not in ('VarDecl', 'DecompositionDecl'):
                    raise Unsupported('declaration ' + v['kind'])
                init = [x for x in v.get('inner', []) if x.get('kind') != 'FullComment']
                handled = False
                for h in self.decl_hooks:
                    if h(self, v, init):
                        handled = True
                        break
                if handled:
                    continue
                if v['kind'] != 'VarDecl':      # structured bindings exist only through a spec's declaration hook
                    raise Unsupported('declaration ' + v['kind'])
                s, c = self.sort_of(v['type'])
                if init:
                    val = self.conv(self.ev(init[0]), s, c, v)
                else:
                    val = self.fresh(s, v['name'], c)
                self.env[v['name']] = val
            return
        if k == 'IfStmt':
            parts = list(inner)
            if n.get('hasInit'):
                self.ex(parts.pop(0))
            c = self.conv(self.ev(parts[0]), 'Bool', 'bool').t
            g = self.guard
            env0 = dict(self.env)
            self.guard = AND(g, c)
            self.ex(parts[1])
            gA, envA = self.guard, self.env
            self.env = dict(env0)
            self.guard = AND(g, NOT(c))
            if len(parts) > 2:
                self.ex(parts[2])
            gB, envB = self.guard, self.env
            self.env = self.merge(c, envA, envB)
            self.guard = OR(gA, gB)
            return
        if k == 'ReturnStmt':
            rv = None
            if inner:
                rv = self.ev(inner[0])
                if self.ret_sort and rv.s != self.ret_sort[0]:
                    rv = self.conv(rv, self.ret_sort[0], self.ret_sort[1], n)
            if self.inline_rets:
                self.inline_rets[-1].append((self.guard, rv))     # return of an inlined helper: back to the call site
                self.guard = 'false'
                return
            self.returns += 1
            if self.post:
                for label, claim in self.post(self, rv):
                    self.oblige(f'postcondition: {label}', claim, n)
            self.guard = 'false'
            return
        if k == 'NullStmt':
            return
        if k in ('ForStmt', 'WhileStmt', 'CXXForRangeStmt'):
            return self.loop(n)
        if k in ('BreakStmt', 'ContinueStmt') and self.loop_exits:
            # the path leaves the iteration here: its (path condition, state) is merged at the loop exit (break) or in front of
            # the increment / invariant check (continue)
            self.loop_exits[-1]['breaks' if k == 'BreakStmt' else 'continues'].append((self.guard, dict(self.env)))
            self.guard = 'false'
            return
        if k in ('BreakStmt', 'ContinueStmt', 'DoStmt', 'SwitchStmt', 'CXXTryStmt', 'GotoStmt'):
            raise Unsupported(f'{self.name}: statement kind {k}')
        for h in self.stmt_hooks:
            if h(self, n):
                return
        self.ev(n)

    def assigned_vars(self, n):
        out = set()
        for x in astload.walk(n):
            k = x.get('kind')
            if k == 'BinaryOperator' and x.get('opcode') == '=' or k == 'CompoundAssignOperator':
                try:
                    out.add(self.loc_static(x['inner'][0]))
                except Unsupported:
                    out.add('*')
            if k == 'UnaryOperator' and x.get('opcode') in ('++', '--'):
                out.add(self.loc_static(x['inner'][0]))
        return out

    def loc_static(self, n):
        n = unwrap(n)
        if n.get('kind') == 'DeclRefExpr':
            return n['referencedDecl']['name']
        if n.get('kind') == 'MemberExpr':
            return self.member_name(n)
        raise Unsupported('assignment through a call inside a loop')

    def find_counter(self, cond, mod):
        for x in astload.walk(cond):
            if x.get('kind') == 'BinaryOperator' and x.get('opcode') in ('<', '<=', '>', '>=', '!='):
                sides = x['inner'] if x['opcode'] in ('<', '<=', '!=') else list(reversed(x['inner']))
                u = unwrap(sides[0])
                if u.get('kind') == 'DeclRefExpr':
                    try:
                        key = self.loc(u)
                    except Unsupported:
                        continue
                    v = self.env.get(key)
                    if key in mod and v is not None and v.s == 'Int':
                        return key
        return None

    def loop(self, n):
        self.loops += 1
        inv = self.invariants.get(self.loops)
        if inv is None:
            raise Unsupported(f'{self.name}: loop #{self.loops} has no invariant')
        inner = n['inner']
        rangevar = None
        if n['kind'] == 'ForStmt':
            init, condvar, cond, inc, body = inner
        elif n['kind'] == 'CXXForRangeStmt':
            # iteration over an opaque container: unknown number of iterations, the element is bound by the decl hooks
            init, cond, inc, rangevar, body = inner[0], None, None, inner[6], inner[7]
        else:
            init, cond, inc, body = None, inner[0], None, inner[1]
        if init:
            self.ex(init)
        mod = self.assigned_vars(body) | (self.assigned_vars(inc) if inc else set())
        # the loop's counter, found by its role (the integer variable the condition bounds from above and the loop itself
        # advances), so that invariants need not know what the source calls it: `wp.env[wp.loop_counter]`
        self.loop_counter = self.find_counter(cond, mod) if cond else None
        for label, claim in inv(self):
            self.oblige(f'loop {self.loops} invariant holds on entry: {label}', claim, n)
        extra = getattr(inv, 'havoc', ())
        if '*' in mod:
            raise Unsupported('loop assigns through an unknown location')
        for v in list(mod) + list(extra):
            if v in self.env:
                old = self.env[v]
                self.env[v] = self.fresh(old.s, v, old.c)
                if old.s == 'Int' and old.c in INT_RANGES:
                    self.assume(self.in_range(self.env[v].t, old.c))
        g0 = self.guard
        env_head = dict(self.env)
        facts_head = len(self.facts)
        invs = inv(self)
        for _, claim in invs:
            self.assume(claim)
        for f in getattr(inv, 'assume_only', ()):     # stated assumptions at the loop head (listed in the spec's assumptions)
            self.assume(f(self) if callable(f) else f)
        if rangevar is not None:
            c = self.fresh('Bool', 'more_elements').t
        else:
            c = self.conv(self.ev(cond), 'Bool', 'bool').t if cond else 'true'
        # arbitrary iteration
        self.guard = AND(g0, c)
        if rangevar is not None:
            self.ex(rangevar)
        env_body0 = dict(self.env)
        self.loop_exits.append({'breaks': [], 'continues': []})
        try:
            self.ex(body)
        finally:
            exits = self.loop_exits.pop()
        for gc, envc in exits['continues']:       # `continue`: joins the fall-through path in front of the increment
            self.env = self.merge(gc, envc, self.env)
            self.guard = OR(self.guard, gc)
        if inc:
            self.ev(inc)
        body_post = getattr(inv, 'body_post', None)
        if body_post:
            for label, claim in body_post(self, env_body0, self.env):
                self.oblige(f'loop {self.loops} body: {label}', claim, n)
        # frame check: a location that survives the loop and was changed by the body (e.g. ghost state updated by a
        # call handler) must have been havocked at the loop head, otherwise the head state would be too specific
        for key, v0 in env_head.items():
            v1 = self.env.get(key)
            if v1 is not None and v1.t != v0.t and key not in mod and key not in extra:
                raise Unsupported(f'{self.name}: loop #{self.loops} changes {key}, which is not havocked at the loop head')
        for label, claim in inv(self):
            self.oblige(f'loop {self.loops} invariant preserved: {label}', claim, n)
        dec = getattr(inv, 'decreases', None)
        if dec:
            before = dec(self, env_head)
            after = dec(self, self.env)
            self.oblige(f'loop {self.loops} variant decreases and is bounded below', f'(and (< {after} {before}) (>= {before} 0))', n)
        # after the loop: the head exit (condition false in a state satisfying the invariant) and every `break` path
        self.env = env_head
        self.guard = AND(g0, NOT(c))
        for gb, envb in exits['breaks']:
            self.env = self.merge(gb, envb, self.env)
            self.guard = OR(self.guard, gb)

    # ------------------------------------------------------------ driver
    decl_hooks = ()
    stmt_hooks = ()
    real_div_check = True
    want_loc = False
    loop_counter = None
    tu = None            # translation unit for looking up unmapped /repo helpers (set by run() from the function's own file)

    def run(self, fn, file=None):
        self.default_file = file
        self.guard = 'true'
        self.returns = 0
        self.loop_exits, self.inline_rets, self.inlining = [], [], []
        if self.tu is None:
            for cand in (fn.get('_file'), file):
                if cand and str(cand).endswith(('.cpp', '.cc', '.cxx')):
                    self.tu = cand if os.path.isabs(cand) else astload.resolve_tu(cand)
                    break
        fq = fn['type']['qualType']
        rett = {'qualType': fq.split('(')[0].strip()}
        try:
            self.ret_sort = self.sort_of(rett)
        except Unsupported:
            self.ret_sort = None
        body = [c for c in fn['inner'] if c['kind'] == 'CompoundStmt'][0]
        self.ex(body)
        if self.guard != 'false' and self.post:
            # falling off the end of a void function
            if self.ret_sort is not None or not rett['qualType'].startswith('void'):
                self.oblige('end of a non-void function is unreachable', 'false', fn)
            else:
                self.returns += 1
                for label, claim in self.post(self, None):
                    self.oblige(f'postcondition: {label}', claim, fn)
        return self

    def vcs(self, prefix, file=None, about=''):
        out = []
        counts = {}
        for label, guard, claim, line, facts in self.obligations:
            counts[label] = counts.get(label, 0) + 1
            nm = f'{prefix}/{label}' + (f' @line {line}' if line else '') + (f' #{counts[label]}' if counts[label] > 1 else '')
            smt = PRELUDE + '\n'.join(self.decls) + '\n' + '\n'.join(f'(assert {f})' for f in facts) + \
                f'\n(assert {guard})\n(assert (not {claim}))\n(check-sat)\n'
            out.append(VC(nm, smt, about=about or label, source={'file': file, 'line': line}))
        return out


def split_top(s):
    out, depth, cur = [], 0, ''
    for ch in s:
        if ch in '<([':
            depth += 1
        if ch in '>)]':
            depth -= 1
        if ch == ',' and depth == 0:
            out.append(cur)
            cur = ''
        else:
            cur += ch
    if cur.strip():
        out.append(cur)
    return out


def real_lit(v):
    from fractions import Fraction
    f = Fraction(float(v))
    if f.denominator == 1:
        return f'{f.numerator}.0' if f >= 0 else f'(- {-f.numerator}.0)'
    t = f'(/ {abs(f.numerator)}.0 {f.denominator}.0)'
    return t if f >= 0 else f'(- {t})'


def template_bindings(docs, spec_decl):
    """names of the template parameters of the template a specialisation belongs to, bound to its arguments"""
    for d in docs:
        for n in astload.walk(d):
            if n.get('kind') == 'FunctionTemplateDecl':
                inner = n.get('inner', [])
                if any(x is spec_decl or x.get('id') == spec_decl.get('id') for x in inner):
                    names = [(x.get('name'), x.get('isParameterPack', False)) for x in inner
                             if x.get('kind') in ('NonTypeTemplateParmDecl', 'TemplateTypeParmDecl')]
                    args = [c for c in spec_decl.get('inner', []) if c.get('kind') == 'TemplateArgument']
                    b = {}
                    for (nm, pack), a in zip(names, args):
                        if 'value' in a:
                            b[nm] = int(a['value'])
                        elif a.get('isPack'):
                            b['sizeof...' + nm] = len(a.get('inner', []))
                    return b
    return {}
