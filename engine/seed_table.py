#!/usr/bin/env python3
"""writes seeded/<id>-<k>/meta.json and seeded/RESULTS.md from the confirmation and check logs"""
import glob
import json
import os
import re

HERE = os.path.dirname(os.path.dirname(os.path.abspath(__file__)))
NEEDS = {
    'C12-4': ('random splitter rounds the VALIDATION size and takes the training size as the remainder', 'percentage*n % 100 == 50 (never with the default 80%): 83 of 3159 configurations'),
    'C12-5': ('weighted sampling falls back to uniform sampling when weights.sum() < machine epsilon', 'zero weights next to non-zero weights whose total is below 2.2e-16'),
    'C12-6': ('k-fold: end of the validation chunk clamped with min() instead of taking the remainder in the last fold', 'n % folds != 0 and a check that looks across folds'),
    'C17-4': ('section_t::block() moves the pending futures into a local vector before waiting', 'pool size >= 2, raise = true, a throwing task while siblings are still queued / running'),
    'C17-5': ('section_t::block() skips futures that are already ready', 'raise = true and a task that threw and finished before block() reaches its future'),
    'C17-6': ('chunked map: chunksize >= elements handled by one direct call', 'elements == 0: the operator is invoked once with the empty chunk [0, 0)'),
    'C15-4': ('tensor reader skips resize when the destination already holds the same number of elements', 'a re-used destination with equal element count but another shape (rank >= 2)'),
    'C15-5': ('parameter_t::read: the arm of the empty parameter no longer resets the storage', 'an untyped parameter in the stream read into an object that already holds a typed one'),
    'C15-6': ('tensor reader overflow guard divides by the running product', 'rank >= 2 with a zero dimension followed by a positive one (also a header byte corrupted to 0): SIGFPE'),
    'C14-4': ('done(): multipliers use x > 0 ? x : epsilon while the divisors keep max(x, epsilon)', 'a nearly constant column (spread strictly between 0 and 1e-8)'),
    'C14-5': ('done(): min / max / mean reset to 0 also for single-sample columns', 'a column with exactly one valid value and a scaling other than none'),
    'C14-6': ('done(): m_max assigned twice, m_min keeps the constructor sentinel for all-missing columns', 'a continuous column with no valid value, min-max scaling, a non-zero weight on it'),
    'C19-4': ('from_string<enum> lost its exact-match pass (prefix pass only)', 'an enumerator whose name has another one as a proper prefix (wlearner_criterion aic / aicc)'),
    'C19-5': ('check() evaluates a <= b as !(b < a) and the scalar update drops its isfinite test', 'NaN assigned to a real parameter whose bounds are both <='),
    'C19-6': ('pinball_loss_t::clone() returns a default-constructed object', 'a pinball loss with a non-default alpha, then clone()'),
    'C20-4': ('histogram bin means accumulated in the sample type', 'integer samples whose per-bin sum overflows that type (int8 / int16 / large int32)'),
    'C20-5': ('unsorted median() via one nth_element and *std::prev(middle)', 'an even number (>= 4) of unsorted values whose partition leaves a non-maximal element left of the middle'),
    'C20-6': ('histogram constructor no longer sorts the thresholds', 'thresholds handed to make_from_thresholds in non-ascending order'),
    'C04-4': ('reduce(): FullPivLU threshold set to epsilon3 (1e-5)', 'a badly scaled [A|b] (one equality row x100, another x0.01, b of a few thousand)'),
    'C04-5': ('solve_with_inequality: the exit after an exhausted stage-2 line search calls done() with sqrt(epsilon)', 'degenerate LP vertices with a near-singular KKT system'),
    'C04-6': ('done(): the dual-residual conjunct tests rcent instead of rdual', 'a program unbounded along a recession direction with c.d < 0'),
    'C18-4': ('elemwise_gradient_t::process: the kernel becomes a function-local static', 'two gradient generators with different kernel types in one process'),
    'C18-5': ('learner_t::evaluate hoists the predictions tensor out of the parallel loop body', 'evaluate() on more than 100 samples with a dataset pool of at least 2 threads'),
    'C18-6': ('gboost_model_t::features() caches the selected features in a mutable member', 'first features() calls on a fresh / loaded / copied model from two threads at once'),
    'C09-7': ('linear objective: l1 sub-gradient normalised by W.cols() instead of W.size()', 'l1 > 0 and more than one output'),
    'C09-8': ('linear objective: l2 value term 0.5*l2*squaredNorm()/W.cols()', 'l2 > 0 and more than one output'),
    'C09-9': ('non-const linear::function_t::bias(x) maps the bias at offset isize instead of isize*tsize', 'more than one output'),
    'C05-7': ('make_criterion: max(g, -miu/ro) became max(g, -miu)/ro', 'ro > 1 and an active inequality that is the last constraint to become feasible, |x*| of a few tens'),
    'C05-8': ('kkt_optimality_test2 returns lpNorm<1> instead of lpNorm<Infinity> of the equality values', 'two or more equality constraints with non-zero residuals'),
    'C05-9': ("quadratic constraint gradient P*x + q instead of 0.5*(P+P')*x + q (revert of an earlier repair)", 'a non-symmetric P'),
    'C08-7': ('dataset_t::drop reads the feature mapping before byfeature() validates the index', 'an out-of-range feature index handed to drop(): out-of-bounds heap read before the exception'),
    'C08-8': ('sclass_identity_t::process clamps the column width to max(classes - 1, 1)', 'a single-label feature with exactly one class followed by further columns'),
    'C08-9': ('const datasource_t::visit reads m_storage_u08 on the 16-bit single-label path', 'a single-label feature or target with more than 256 classes'),
    'C16-7': ('cross-storage tensor assignment skips the copy when data() and size() agree', 'an owning tensor assigned from a view of all its own elements with another shape'),
    'C16-8': ('gather copies rows through reshape(n, -1).matrix()', 'an empty index list (division by zero in the -1 inference)'),
    'C16-9': ('gather fast path: sorted full-length list starting at 0 and ending at n-1 => plain copy', 'a sorted full-length index list with duplicates'),
    'C01-4': ('quasi-Newton solvers accept a gradient test exactly equal to epsilon (<=)', 'a gradient test bit-for-bit equal to epsilon'),
    'C01-5': ('BFGS update rank-one term divided by dg.dg instead of dx.dg', 'curvature scale well above 1 (s ~ 1e2..1e3)'),
    'C01-6': ('L-BFGS initial scaling s.y/s.s instead of s.y/y.y', 'lowest curvature scale, large condition number, many dimensions'),
    'C02-4': ('gradient-sampling LBFGS preconditioner admits negative-curvature pairs (fabs(dy))', 'a non-convex function, lsearch_beta ~ 0.5, a budget ending right after the uphill step'),
    'C02-5': ('curve search falls through after a rejected trial (continue dropped)', 'rqb, a first trial that overshoots, max_evals in 10..14'),
    'C02-6': ('RQB outer loop <= against the curve search\'s <', 'rqb with an even max_evals that is reached without convergence (never returns)'),
    'C03-4': ('ellipsoid dimension kept as an integer: (n*n)/(n*n-1) truncates to 1', 'n = 2 and a minimiser just outside the under-sized ellipsoid'),
    'C03-5': ('degenerate-ellipsoid guard reports converged only if sqrt(gHg) < epsilon', 'epsilon below sqrt(DBL_EPSILON) (the default 1e-8)'),
    'C03-6': ('solver_status enumerators reordered: value-initialised status is converged', 'rqb / fpba budget exhausted before the stopping test is met'),
    'C05-4': ('penalty activity test fc > epsilon1 instead of fc > 0', 'an inequality violated by at most 1e-10'),
    'C05-5': ('augmented-Lagrangian reads inequality multipliers as max(miu, 0)', 'a negative inequality multiplier at a point violating that constraint'),
    'C05-6': ('done() moved before the state update in the augmented-Lagrangian loop', 'constraint gradients larger than 1'),
    'C07-4': ('Fletcher bracketing: Armijo test reads the stale initial step', 'c1 > 0.3 and an extrapolated point passing strong Wolfe but failing Armijo'),
    'C07-5': ('has_strong_wolfe gets an absolute slack epsilon1', 'a start slope of ~1e-10 or below'),
    'C07-6': ('initial-step sanitisation loses its isfinite test', 't0 = NaN'),
    'C08-4': ('one-hot flatten guard class_index <= segment.size()', 'a single-label feature owning the last flatten columns and a sample with the last label'),
    'C08-5': ('check(samples) takes the first / last index as min / max', 'an unsorted list with an out-of-range index in the middle'),
    'C08-6': ('check(feature): feature > features()', 'feature == features() exactly'),
    'C09-4': ('gboost grads: outputs not sliced for the loss value call', 'more than one chunk and outputs differing between samples'),
    'C09-5': ('sum_reduce returns early (unnormalised) for a single accumulator', 'a dataset built with one thread'),
    'C09-6': ('linear objective: l1 / l2 terms became if / else if', 'l1 > 0 and l2 > 0 (elastic net)'),
    'C10-4': ('stump threshold fallback guard <= instead of <', 'two consecutive feature values one ulp apart with the best split between them'),
    'C10-5': ('accumulator sort gain (sum r)^2/x0 instead of sum r^2/x0', 'two or more outputs with mixed-sign residual sums'),
    'C10-6': ('hinge split assigns by position instead of sample index', 'a sample list that is not the ordered prefix 0..n-1'),
    'C11-4': ('gboost fit does not clear the weak learners of a previous fit', 'fit() called on an already fitted model'),
    'C11-5': ('early stopping accepts an improvement of exactly epsilon (<=)', 'a validation error lower than the best by exactly epsilon'),
    'C11-6': ('right hinge prediction overwrites instead of accumulating', 'a right-type hinge after a non-zero bias or an earlier learner'),
    'C13-4': ('per-trial value becomes a sample-weighted mean over folds', 'folds of different sizes and two trials ranked differently by the two averages'),
    'C13-5': ('fold\'s training and validation indices swapped in the tune task', '3 or more folds or the random splitter'),
    'C13-6': ('local-search refinement counts iterations instead of evaluations', 'a small budget, a large grid, a minimum far from the centre'),
    'C16-4': ('dims product via std::accumulate with an int initial value', 'a shape with >= 2^31 elements or strides'),
    'C16-5': ('owning storage resize returns early when the dims are unchanged', 'move out, resize to the identical shape, access'),
    'C16-6': ('integral guard tests only the first extent', 'a shape whose last axis is zero while the earlier ones are not'),
    'C18-1': ('tuning warm start may read a sibling trial still being evaluated', 'two tuned hyper-parameters (elastic net) and more than one thread'),
    'C18-2': ('select iterator chunk loop reads features(begin) instead of features(index)', 'a chunk holding more than one feature (>= 24 scalar features on 16 threads)'),
    'C18-3': ('make_lsearch configures the shared prototypes before cloning', 'one solver shared by two threads calling minimize()'),
    'C04-1': ('normalize() returns the un-floored norm while dividing by the floored one', 'an objective with max(||Q||_F, ||c||_2) < 1e-3'),
    'C04-2': ('duality-gap conjunct dropped from the convergence test of done()', 'an iteration that breaks down early with tiny residuals but eta ~1e-5..1e-3'),
    'C04-3': ('solve_without_inequality accepts on the LDLT status alone', 'no inequalities and a singular KKT system that LDLT does not flag'),
    'C17-1': ('m_stop made atomic and set by the destructor without the queue lock', 'pool size 1 and the destructor landing between the worker\'s predicate test and its wait'),
    'C17-2': ('unnamed scoped_lock temporary in the by-index map', 'several threads submitting to the same pool'),
    'C17-3': ('section.block(raise) dropped from the chunked map', 'chunked overload, pool size above 1, a throwing operator'),
    'C08-1': ('datasource_t::resize storage-width thresholds use < while visit() uses <=', 'a single-label feature with exactly 256 classes plus another 8-bit-stored feature at the colliding row'),
    'C08-2': ('pairwise_product_t::process multiplies in the sources\' storage types before the cast', 'unsigned x negative, int32 products above 32 bits, or a float32 source'),
    'C08-3': ('generator_t::drop / shuffle set the flag byte with |= while the readers compare the whole byte', 'shuffle(f); drop(f) (or the reverse) on the same feature without a reset in between'),
    'C09-1': ('gboost scale function normalises by the cluster\'s sample count instead of the iterator\'s', 'an iterator over a strict subset of the dataset (the train split)'),
    'C09-2': ('linear function normalises the data term by the dataset\'s sample count', 'a flatten iterator over a strict subset of the samples'),
    'C09-3': ('targets_iterator_t::targets skips the scaling wrapper in the uncached branch', 'targets not cached, a scaling other than none, a regression target'),
    'C10-1': ('stump prediction uses value > threshold ? hi : lo', 'an unseen sample whose feature value lies exactly on the fitted mid-point threshold'),
    'C10-2': ('table try_merge guard compares only hash2tables().dims()', 'two k-split tables on one feature with equal hashes and group counts but different clusterings'),
    'C10-3': ('stump do_fit compares (value, sample) pairs instead of values', 'tied feature values among different fitting samples with residuals varying inside the tie'),
    'C12-1': ('weighted sampling clamps every weight to max(weight, epsilon0)', 'non-zero weights of magnitude ~1e-12 or below together with exactly-zero weights'),
    'C12-2': ('std::sample replaces copy + shuffle + slice + sort in sample_without_replacement', 'an input index list that is not in increasing order'),
    'C12-3': ('k-fold chunk size computed with the rounding division idiv', 'folds >= 6 and fewer than ~3.5 x folds samples (27 of the 374 pairs of the stated domain)'),
    'C13-1': ('coarse-phase loop condition rewritten as an unsigned remaining budget', 'a small tuner::max_evals with large grids so that the step count jumps over max_evals/2'),
    'C13-2': ('optimum_trial scans from trial 1', 'the best mean validation error attained by the first trial'),
    'C13-3': ('evaluate rejects only NaN instead of every non-finite value', 'a callback returning +-inf with the local-search tuner'),
    'C14-1': ('variance clamp rewritten as max(sqrt(variance), 0.0)', 'a constant column with an inexact value (rounded variance slightly negative), standard scaling'),
    'C14-2': ('the disable-scaling block of categorical columns moved into the N > 1 branch', 'a categorical feature given for exactly one sample'),
    'C14-3': ('sample-count guard N > 1 became N > 2', 'a column with exactly two finite values'),
    'C15-1': ('nano::read(istream, string) returns early for zero-length strings, skipping the resize', 'an empty string in the stream read into a re-used object that already holds a non-empty string'),
    'C15-2': ('content hash of floating-point tensors covers only the low 4 bytes of each element', 'a double tensor and a corruption in bytes 4..7 of an element'),
    'C15-3': ('gboost_model_t::read drops the trailing prototypes field', 'inspecting prototypes() / re-saving the loaded model, or truncating inside the stream\'s tail'),
    'C01-1': ('gradient_test normalised by 1+|f| instead of max(1,|f|)', 'a returned point whose function value is of order one (factor (1+|f|)/max(1,|f|) up to 2)'),
    'C01-2': ('&& -> || in the status guard of solver_t::done', 'a line-search failure at a valid state whose gradient test is not satisfied'),
    'C01-3': ('solver_status enumerators reordered so that the value-initialised status is converged', 'a run that ends without the terminal branch of done(): budget exhausted, or fallback to the previous state'),
    'C02-1': ('penalty solvers store the inner (penalised) value and gradient instead of re-evaluating the objective', 'a constrained function and a returned point at which the penalty term is not exactly zero'),
    'C02-2': ('FPBA accepts the serious step unconditionally (update instead of update_if_better)', 'a Nesterov momentum point worse than the best point found so far when the run ends'),
    'C02-3': ('OSGA selects best point and best value through two different comparisons', 'both trial points of one iteration improve on the incumbent, the second being worse than the first, and the run ends before a later improvement'),
    'C03-1': ('ellipsoid centre update uses the already updated shape matrix', 'minimiser close to the boundary of the initial ball (tight solver::ellipsoid::R)'),
    'C03-2': ('bundle stopping tolerance scaled by sqrt(bundle size) instead of sqrt(dimension)', 'more than 4n points in the bundle when the criterion fires (n <= 3, large bundle::max_size) and a gap in the window'),
    'C03-3': ('curve search pre-scales epsilon by sqrt(N) before the bundle scales it again', 'n >= 5 and a true gap in (2 eps sqrt(n), eps n]'),
    'C05-1': ('augmented-Lagrangian feasibility test compares against epsilon0 instead of epsilon', 'solver::epsilon below solver::augmented::epsilon0 (non-default)'),
    'C05-2': ('feasibility test made relative to max(1,|x|_inf)', 'a solution outside the unit box and a violation in (eps, eps |x|_inf]'),
    'C05-3': ('augmented-Lagrangian value shifted by -miu_i^2/(2 ro) per inequality', 'an inequality constraint with a non-zero multiplier'),
    'C19-1': ('solver copy constructor re-creates the line-search objects from their ids instead of cloning them', 'a solver given a line-search object with non-default parameters, then clone()'),
    'C19-2': ('integer parameters parse strings through std::stod', 'an integer parameter whose domain extends past 2^53, assigned through the string overload'),
    'C19-3': ('integer range update checks the domain on the incoming double before converting', 'a non-integral float within one unit of a strict bound'),
    'C07-1': ('More-Thuente stage switch loses its slope condition (g >= 0)', 'c1 > 0.5 with c2 just above it and a short first step; every default and every unit test uses c1 <= 0.5'),
    'C07-2': ('descent guard rewritten so that a NaN slope passes', 'a direction whose slope <g,d> is NaN (NaN component, inf - inf)'),
    'C07-3': ('backtracking safeguard bounds rewritten: lower clamp bound becomes 0', 'interpolation returning exactly 0 (overflowing secant slope on a very steep objective)'),
    'C11-1': ('final statistics of gboost_model_t::fit computed over all dataset samples instead of the samples given to fit()', 'fit() called on a strict subset of the dataset'),
    'C11-2': ('table_wlearner_t::try_merge guard weakened to the size of hash2tables', 'k-split tables on one feature with equally many but different groups, merged across rounds/folds'),
    'C11-3': ('early-stopping monitor tests "no validation samples" before "training error < epsilon"', 'empty validation set and a round whose training error is below epsilon'),
    'C16-1': ('owning storage assigned from a constant-mapping view: resize before copy', 'the source view aliases the destination tensor and has a different size'),
    'C16-2': ('summed-area table accumulates in the input scalar type', 'output scalar wider than the input and a prefix sum that does not fit the input type'),
    'C16-3': ('index-gather skips the resize when the element count already matches', 'a reused output buffer with equal element count but a different shape, or an empty result'),
    'C20-1': ('percentile position computed as (p/100)*(n-1)', 'specific (p, n) pairs where the two floating-point formulas round differently (first at n = 26)'),
    'C20-2': ('histogram_t::bin via lower_bound + equality step', 'a duplicated threshold and a query exactly on it'),
    'C20-3': ('histogram_t::update via lower_bound on the threshold cast to the value type', 'integer-typed value list, positive non-integer threshold, a value equal to floor(threshold)'),
}


def main():
    rows = []
    for d in sorted(glob.glob(os.path.join(HERE, 'seeded', 'C*-*'))):
        key = os.path.basename(d)
        pid = key.split('-')[0]
        patch = open(os.path.join(d, 'patch.diff')).read() if os.path.exists(os.path.join(d, 'patch.diff')) else ''
        files = sorted(set(re.findall(r'^\+\+\+ b/(\S+)', patch, re.M)))
        conf = open(os.path.join(d, 'confirm.log')).read() if os.path.exists(os.path.join(d, 'confirm.log')) else ''
        confirmed = 'RESULT confirmed' in conf
        checks = {}
        for lg in glob.glob(os.path.join(d, 'check_*.log')):
            cid = os.path.basename(lg)[6:-4]
            t = open(lg).read()
            refuted = re.findall(r'^\s+refuted: (\S+)', t, re.M)
            vio = re.findall(r'^VIOLATION .*$', t, re.M)
            und = re.findall(r'^UNDECIDED .*$', t, re.M)
            verdict = 'caught' if vio else ('undecided (exit 2)' if und else 'missed')
            if vio and all('no-failing-input-found' in v for v in vio):
                verdict += ', no native replay'
            elif vio:
                verdict += ', replayed on the real code'
            checks[cid] = {'verdict': verdict, 'refuted_obligations': refuted[:8]}
        what, needs = NEEDS.get(key, ('', ''))
        meta = {'id': key, 'breaks_property': pid, 'change': what, 'needs_to_manifest': needs, 'files': files,
                'source': 'independent sub-agent given only the property text and a scratch worktree of /repo',
                'confirmed_by_me': confirmed,
                'confirmation': 'engine/confirm_seed.sh: patch applies, library builds, full ctest suite passes with the change (flaky test_program_linear/quadratic ignored), demo exits non-zero with the change and 0 without it',
                'confirmation_log_tail': conf.strip().split('\n')[-4:],
                'check_results': checks,
                'evaluated_with': 'engine/seed_eval.sh (git -C /repo apply; ./check <id>; git -C /repo checkout -- .)'}
        json.dump(meta, open(os.path.join(d, 'meta.json'), 'w'), indent=1)
        for cid, c in sorted(checks.items()):
            rows.append((key, what, needs, cid, c['verdict'], ', '.join(c['refuted_obligations'][:2])))
    with open(os.path.join(HERE, 'seeded', 'RESULTS.md'), 'w') as f:
        f.write('# Seeded breaking changes and the checks that catch them\n\n| seed | change | needs | check | verdict | first refuted obligations |\n|---|---|---|---|---|---|\n')
        for r in rows:
            f.write('| ' + ' | '.join(x.replace('|', '/') for x in r) + ' |\n')
    print(f'{len(rows)} rows')


if __name__ == '__main__':
    main()
