#!/usr/bin/env python3
"""writes seeded/<id>-<k>/meta.json and seeded/RESULTS.md from the confirmation and check logs"""
import glob
import json
import os
import re

HERE = os.path.dirname(os.path.dirname(os.path.abspath(__file__)))
NEEDS = {
    'C04-1': ('normalize() returns the un-floored norm while dividing by the floored one', 'an objective with max(||Q||_F, ||c||_2) < 1e-3'),
    'C04-2': ('duality-gap conjunct dropped from the convergence test of done()', 'an iteration that breaks down early with tiny residuals but eta ~1e-5..1e-3'),
    'C04-3': ('solve_without_inequality accepts on the LDLT status alone', 'no inequalities and a singular KKT system that LDLT does not flag'),
    'C17-1': ('m_stop made atomic and set by the destructor without the queue lock', 'pool size 1 and the destructor landing between the worker\'s predicate test and its wait'),
    'C17-2': ('unnamed scoped_lock temporary in the by-index map', 'several threads submitting to the same pool'),
    'C17-3': ('section.block(raise) dropped from the chunked map', 'chunked overload, pool size above 1, a throwing operator'),
    'C08-1': ('datasource_t::resize storage-width thresholds use < while visit() uses <=', 'a single-label feature with exactly 256 classes plus another 8-bit-stored feature at the colliding row'),
    'C08-2': ('pairwise_product_t::process multiplies in the sources\' storage types before the cast', 'unsigned x negative, int32 products above 32 bits, or a float32 source'),
    'C08-3': ('generator_t::drop / shuffle set the flag byte with |= while the readers compare the whole byte', 'shuffle(f); drop(f) (or the reverse) on the same feature without a reset in between'),
    'C09-1': ('gboost scale function normalises by the cluster\'s sample count instead of the iterator\'s', 'an iterator over a strict subset of the dataset (the train split)'),
    'C09-2': ('linear function normalises the data term by the dataset\'s sample count', 'a flatten iterator over a strict subset of the samples'),
    'C09-3': ('targets_iterator_t::targets skips the scaling wrapper in the uncached branch', 'targets not cached, a scaling other than none, a regression target'),
    'C10-1': ('stump prediction uses value > threshold ? hi : lo', 'an unseen sample whose feature value lies exactly on the fitted mid-point threshold'),
    'C10-2': ('table try_merge guard compares only hash2tables().dims()', 'two k-split tables on one feature with equal hashes and group counts but different clusterings'),
    'C10-3': ('stump do_fit compares (value, sample) pairs instead of values', 'tied feature values among different fitting samples with residuals varying inside the tie'),
    'C12-1': ('weighted sampling clamps every weight to max(weight, epsilon0)', 'non-zero weights of magnitude ~1e-12 or below together with exactly-zero weights'),
    'C12-2': ('std::sample replaces copy + shuffle + slice + sort in sample_without_replacement', 'an input index list that is not in increasing order'),
    'C12-3': ('k-fold chunk size computed with the rounding division idiv', 'folds >= 6 and fewer than ~3.5 x folds samples (27 of the 374 pairs of the stated domain)'),
    'C13-1': ('coarse-phase loop condition rewritten as an unsigned remaining budget', 'a small tuner::max_evals with large grids so that the step count jumps over max_evals/2'),
    'C13-2': ('optimum_trial scans from trial 1', 'the best mean validation error attained by the first trial'),
    'C13-3': ('evaluate rejects only NaN instead of every non-finite value', 'a callback returning +-inf with the local-search tuner'),
    'C14-1': ('variance clamp rewritten as max(sqrt(variance), 0.0)', 'a constant column with an inexact value (rounded variance slightly negative), standard scaling'),
    'C14-2': ('the disable-scaling block of categorical columns moved into the N > 1 branch', 'a categorical feature given for exactly one sample'),
    'C14-3': ('sample-count guard N > 1 became N > 2', 'a column with exactly two finite values'),
    'C15-1': ('nano::read(istream, string) returns early for zero-length strings, skipping the resize', 'an empty string in the stream read into a re-used object that already holds a non-empty string'),
    'C15-2': ('content hash of floating-point tensors covers only the low 4 bytes of each element', 'a double tensor and a corruption in bytes 4..7 of an element'),
    'C15-3': ('gboost_model_t::read drops the trailing prototypes field', 'inspecting prototypes() / re-saving the loaded model, or truncating inside the stream\'s tail'),
    'C01-1': ('gradient_test normalised by 1+|f| instead of max(1,|f|)', 'a returned point whose function value is of order one (factor (1+|f|)/max(1,|f|) up to 2)'),
    'C01-2': ('&& -> || in the status guard of solver_t::done', 'a line-search failure at a valid state whose gradient test is not satisfied'),
    'C01-3': ('solver_status enumerators reordered so that the value-initialised status is converged', 'a run that ends without the terminal branch of done(): budget exhausted, or fallback to the previous state'),
    'C02-1': ('penalty solvers store the inner (penalised) value and gradient instead of re-evaluating the objective', 'a constrained function and a returned point at which the penalty term is not exactly zero'),
    'C02-2': ('FPBA accepts the serious step unconditionally (update instead of update_if_better)', 'a Nesterov momentum point worse than the best point found so far when the run ends'),
    'C02-3': ('OSGA selects best point and best value through two different comparisons', 'both trial points of one iteration improve on the incumbent, the second being worse than the first, and the run ends before a later improvement'),
    'C03-1': ('ellipsoid centre update uses the already updated shape matrix', 'minimiser close to the boundary of the initial ball (tight solver::ellipsoid::R)'),
    'C03-2': ('bundle stopping tolerance scaled by sqrt(bundle size) instead of sqrt(dimension)', 'more than 4n points in the bundle when the criterion fires (n <= 3, large bundle::max_size) and a gap in the window'),
    'C03-3': ('curve search pre-scales epsilon by sqrt(N) before the bundle scales it again', 'n >= 5 and a true gap in (2 eps sqrt(n), eps n]'),
    'C05-1': ('augmented-Lagrangian feasibility test compares against epsilon0 instead of epsilon', 'solver::epsilon below solver::augmented::epsilon0 (non-default)'),
    'C05-2': ('feasibility test made relative to max(1,|x|_inf)', 'a solution outside the unit box and a violation in (eps, eps |x|_inf]'),
    'C05-3': ('augmented-Lagrangian value shifted by -miu_i^2/(2 ro) per inequality', 'an inequality constraint with a non-zero multiplier'),
    'C19-1': ('solver copy constructor re-creates the line-search objects from their ids instead of cloning them', 'a solver given a line-search object with non-default parameters, then clone()'),
    'C19-2': ('integer parameters parse strings through std::stod', 'an integer parameter whose domain extends past 2^53, assigned through the string overload'),
    'C19-3': ('integer range update checks the domain on the incoming double before converting', 'a non-integral float within one unit of a strict bound'),
    'C07-1': ('More-Thuente stage switch loses its slope condition (g >= 0)', 'c1 > 0.5 with c2 just above it and a short first step; every default and every unit test uses c1 <= 0.5'),
    'C07-2': ('descent guard rewritten so that a NaN slope passes', 'a direction whose slope <g,d> is NaN (NaN component, inf - inf)'),
    'C07-3': ('backtracking safeguard bounds rewritten: lower clamp bound becomes 0', 'interpolation returning exactly 0 (overflowing secant slope on a very steep objective)'),
    'C11-1': ('final statistics of gboost_model_t::fit computed over all dataset samples instead of the samples given to fit()', 'fit() called on a strict subset of the dataset'),
    'C11-2': ('table_wlearner_t::try_merge guard weakened to the size of hash2tables', 'k-split tables on one feature with equally many but different groups, merged across rounds/folds'),
    'C11-3': ('early-stopping monitor tests "no validation samples" before "training error < epsilon"', 'empty validation set and a round whose training error is below epsilon'),
    'C16-1': ('owning storage assigned from a constant-mapping view: resize before copy', 'the source view aliases the destination tensor and has a different size'),
    'C16-2': ('summed-area table accumulates in the input scalar type', 'output scalar wider than the input and a prefix sum that does not fit the input type'),
    'C16-3': ('index-gather skips the resize when the element count already matches', 'a reused output buffer with equal element count but a different shape, or an empty result'),
    'C20-1': ('percentile position computed as (p/100)*(n-1)', 'specific (p, n) pairs where the two floating-point formulas round differently (first at n = 26)'),
    'C20-2': ('histogram_t::bin via lower_bound + equality step', 'a duplicated threshold and a query exactly on it'),
    'C20-3': ('histogram_t::update via lower_bound on the threshold cast to the value type', 'integer-typed value list, positive non-integer threshold, a value equal to floor(threshold)'),
}


def main():
    rows = []
    for d in sorted(glob.glob(os.path.join(HERE, 'seeded', 'C*-*'))):
        key = os.path.basename(d)
        pid = key.split('-')[0]
        patch = open(os.path.join(d, 'patch.diff')).read() if os.path.exists(os.path.join(d, 'patch.diff')) else ''
        files = sorted(set(re.findall(r'^\+\+\+ b/(\S+)', patch, re.M)))
        conf = open(os.path.join(d, 'confirm.log')).read() if os.path.exists(os.path.join(d, 'confirm.log')) else ''
        confirmed = 'RESULT confirmed' in conf
        checks = {}
        for lg in glob.glob(os.path.join(d, 'check_*.log')):
            cid = os.path.basename(lg)[6:-4]
            t = open(lg).read()
            refuted = re.findall(r'^\s+refuted: (\S+)', t, re.M)
            vio = re.findall(r'^VIOLATION .*$', t, re.M)
            und = re.findall(r'^UNDECIDED .*$', t, re.M)
            verdict = 'caught' if vio else ('undecided (exit 2)' if und else 'missed')
            if vio and all('no-failing-input-found' in v for v in vio):
                verdict += ', no native replay'
            elif vio:
                verdict += ', replayed on the real code'
            checks[cid] = {'verdict': verdict, 'refuted_obligations': refuted[:8]}
        what, needs = NEEDS.get(key, ('', ''))
        meta = {'id': key, 'breaks_property': pid, 'change': what, 'needs_to_manifest': needs, 'files': files,
                'source': 'independent sub-agent given only the property text and a scratch worktree of /repo',
                'confirmed_by_me': confirmed,
                'confirmation': 'engine/confirm_seed.sh: patch applies, library builds, full ctest suite passes with the change (flaky test_program_linear/quadratic ignored), demo exits non-zero with the change and 0 without it',
                'confirmation_log_tail': conf.strip().split('\n')[-4:],
                'check_results': checks,
                'evaluated_with': 'engine/seed_eval.sh (git -C /repo apply; ./check <id>; git -C /repo checkout -- .)'}
        json.dump(meta, open(os.path.join(d, 'meta.json'), 'w'), indent=1)
        for cid, c in sorted(checks.items()):
            rows.append((key, what, needs, cid, c['verdict'], ', '.join(c['refuted_obligations'][:2])))
    with open(os.path.join(HERE, 'seeded', 'RESULTS.md'), 'w') as f:
        f.write('# Seeded breaking changes and the checks that catch them\n\n| seed | change | needs | check | verdict | first refuted obligations |\n|---|---|---|---|---|---|\n')
        for r in rows:
            f.write('| ' + ' | '.join(x.replace('|', '/') for x in r) + ' |\n')
    print(f'{len(rows)} rows')


if __name__ == '__main__':
    main()
