#!/bin/bash
# false-alarm test: applies each behaviour-preserving refactoring of /tmp/benign_<ID>/out/<k> to /repo, runs the check of
# <ID> (expected: exit 0), reverts. Stores patch, notes and check log under /verif/benign/<ID>-<k>/.  usage: benign_eval.sh <ID> [check-id]
id=$1; pid=${2:-$id}; root=/tmp/benign_$id
for k in 1 2 3 4 5 6; do
  d=/verif/benign/$id-$k
  p=$root/out/$k/patch.diff; [ -f $p ] || p=$d/patch.diff; [ -f $p ] || continue      # re-evaluation: the stored patch
  mkdir -p $d
  [ "$p" = "$d/patch.diff" ] || { cp $p $d/patch.diff; cp $root/out/$k/README.md $d/NOTES.md 2>/dev/null; }
  R=${EVAL_REPO:-/repo}
  cd $R && git apply $d/patch.diff || { echo "$id-$k apply failed"; continue; }
  # a re-evaluation keeps the first verdict: check_<pid>.first.log is written once, check_<pid>.log is the latest run
  [ -f $d/check_$pid.log ] && [ ! -f $d/check_$pid.first.log ] && cp $d/check_$pid.log $d/check_$pid.first.log
  if [ "$R" = "/repo" ]; then cd /verif && NV_CBMC_TIMEOUT=900 ./check $pid --no-evidence > $d/check_$pid.log 2>&1; rc=$?
  else cd /verif && NV_REPO=$R NV_SCRATCH=${EVAL_SCRATCH:-$R.scratch} NV_CBMC_TIMEOUT=900 ./check $pid --no-evidence > $d/check_$pid.log 2>&1; rc=$?; fi
  cd $R && git checkout -- .
  echo "$id-$k check($pid) exit=$rc :: $(grep -c 'refuted:' $d/check_$pid.log) refuted, $(grep -c '^UNDECIDED' $d/check_$pid.log) undecided"
done
