#!/bin/sh
# creates the scratch area used by the checks (outside /repo, /verif and /tmp); builds nothing
set -e
mkdir -p /var/tmp/nv_scratch
exit 0
