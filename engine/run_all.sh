#!/bin/bash
# runs every claimed check (quick tier) and prints one line per property; evidence files are rewritten
cd "$(dirname "$0")/.."
ids=$(python3 -c "import json; print(' '.join(c['property_id'] for c in json.load(open('MANIFEST.json'))['checks']))")
tier=${1:-quick}
for i in $ids; do ( ./check $i --tier $tier > /var/tmp/nv_scratch/run_$i.log 2>&1; echo "$i exit=$? $(tail -1 /var/tmp/nv_scratch/run_$i.log)" ) & 
  while [ $(jobs -r | wc -l) -ge 3 ]; do sleep 0.5; done
done; wait
