#!/bin/bash
# confirms a seeded breaking change in the seeder's scratch worktree: applies, builds, full suite passes, demo fails
# with the change and passes without it.  usage: confirm_seed.sh <ID> <k>   (log: /tmp/seed_<ID>/out/<k>/confirm.log)
id=$1; k=$2; root=${SEED_ROOT:-/tmp/seed_$id}; out=$root/out/$k; log=$out/confirm.log
cd $root || exit 2
git checkout -q -- . ; : > $log
git apply --check $out/patch.diff >> $log 2>&1 || { echo "RESULT apply-failed" >> $log; exit 1; }
git apply $out/patch.diff
cmake --build $root/_build -j8 >> $log 2>&1 || { echo "RESULT build-failed" >> $log; git checkout -q -- .; exit 1; }
ctest --test-dir $root/_build -j8 --timeout 900 2>&1 | grep -E "tests passed|\*\*\*Failed" >> $log
failed=$(ctest --test-dir $root/_build -j8 --timeout 900 2>&1 | grep "\*\*\*Failed" | grep -v "test_program_linear\|test_program_quadratic" | wc -l)
echo "suite_nonflaky_failures_with_change=$failed" >> $log
build_demo() {
  if [ -f $out/demo.sh ]; then bash $out/demo.sh >> $log 2>&1; return $?; fi
  g++ -std=c++17 -O1 -DNDEBUG -I$root/include -I$root/src -I$root/_build -isystem /usr/include/eigen3 $out/demo.cpp -o $out/demo.bin \
     -Wl,--start-group $root/_build/src/*.a -Wl,--end-group -lpthread >> $log 2>&1 || return 99
  $out/demo.bin >> $log 2>&1
}
build_demo; with=$?
echo "demo_exit_with_change=$with" >> $log
git checkout -q -- .
cmake --build $root/_build -j8 >> $log 2>&1
build_demo; without=$?
echo "demo_exit_without_change=$without" >> $log
if [ "$failed" = "0" ] && [ "$with" != "0" ] && [ "$with" != "99" ] && [ "$without" = "0" ]; then echo "RESULT confirmed" >> $log; else echo "RESULT not-confirmed" >> $log; fi
tail -1 $log
