"""AST pattern hooks shared by several specs (cxx2c side)"""
import re

from cxx2c import unwrap, string_literal_of, strip_cv, qual, Unsupported, TRANSPARENT


def param_hook(prefix='nv_param_'):
    """configurable_t::parameter("a::b::name").value<T>() / value_pair<T>()  ->  nv_param_name()"""
    def h(P, n):
        if n.get('kind') != 'CXXMemberCallExpr':
            return None
        me = n['inner'][0]
        if me.get('kind') != 'MemberExpr' or me.get('name') not in ('value', 'value_pair'):
            return None
        obj = unwrap(me['inner'][0])
        if obj.get('kind') != 'CXXMemberCallExpr':
            return None
        ome = obj['inner'][0]
        if ome.get('name') != 'parameter' or len(obj['inner']) < 2:
            return None
        lit = string_literal_of(obj['inner'][1])
        if lit is None:
            return None
        nm = prefix + re.sub(r'\W+', '_', lit.split('::')[-1])
        P.note(f'parameter("{lit}") -> {nm}()')
        return f'{nm}()'
    return h


def update_along_hook(fname='nv_state_update_along'):
    """state.update(state0.x() + step * descent)  ->  nv_state_update_along(&state, &state0, step, &descent)
    (the ghost step of the new point is whatever scalar the code multiplies the direction with)"""
    def h(P, n):
        if n.get('kind') != 'CXXMemberCallExpr':
            return None
        me = n['inner'][0]
        if me.get('name') != 'update' or 'solver_state_t' not in qual(me['inner'][0]['type']):
            return None
        if len(n['inner']) < 2:
            return None
        a = unwrap(n['inner'][1])
        if a.get('kind') != 'CXXOperatorCallExpr':
            return None
        cal = unwrap(a['inner'][0])
        if cal.get('referencedDecl', {}).get('name') != 'operator+':
            return None
        lhs, rhs = unwrap(a['inner'][1]), unwrap(a['inner'][2])
        if lhs.get('kind') != 'CXXMemberCallExpr' or lhs['inner'][0].get('name') != 'x':
            raise Unsupported('state.update(<expr>): left operand is not origin.x()')
        if rhs.get('kind') != 'CXXOperatorCallExpr' or unwrap(rhs['inner'][0]).get('referencedDecl', {}).get('name') != 'operator*':
            raise Unsupported('state.update(<expr>): right operand is not step * descent')
        origin = lhs['inner'][0]['inner'][0]
        step, direction = rhs['inner'][1], rhs['inner'][2]
        if 'double' not in qual(step['type']) and 'scalar_t' not in qual(step['type']):
            raise Unsupported('state.update(<expr>): scalar factor not on the left of the product')
        obj = me['inner'][0]
        selfexpr = P.expr(obj) if me.get('isArrow') else P.addr(obj)
        P.note('state.update(x0 + t*d)')
        P.pending_throw = False
        return f'{fname}({selfexpr}, {P.addr(origin)}, {P.expr(step)}, {P.addr(direction)})'
    return h


def lambda_arg(n, P=None):
    """the LambdaExpr an argument expression is (looking through temporaries / casts), else None.  With the printer `P`: also the
    lambda a LOCAL VARIABLE of the function was initialised with (`const auto callback = [&](..) {..}; f(.., callback);`), which the
    printer records when it meets the declaration (`P.lambda_vars`)."""
    u = n
    while isinstance(u, dict) and u.get('kind') in ('MaterializeTemporaryExpr', 'CXXBindTemporaryExpr', 'ExprWithCleanups',
                                                    'ImplicitCastExpr', 'CXXFunctionalCastExpr', 'CXXConstructExpr') \
            and len(u.get('inner', [])) == 1:
        u = u['inner'][0]
    if P is not None and isinstance(u, dict) and u.get('kind') == 'DeclRefExpr':
        return getattr(P, 'lambda_vars', {}).get((u.get('referencedDecl') or {}).get('id'))
    return u if isinstance(u, dict) and u.get('kind') == 'LambdaExpr' else None


def lambda_captures(lam):
    """[(captured variable name or None, init expression, field type)] of a LambdaExpr, in capture order.
    clang lists the closure record first, then one initialiser per capture, then the body."""
    inner = lam.get('inner', [])
    rec = inner[0]
    fields = [f for f in rec.get('inner', []) if f.get('kind') == 'FieldDecl']
    inits = inner[1:-1]
    if len(fields) != len(inits):
        raise Unsupported(f'lambda with {len(fields)} closure fields and {len(inits)} capture initialisers')
    out = []
    for f, e in zip(fields, inits):
        u = unwrap(e)
        while u.get('kind') == 'CXXConstructExpr' and len(u.get('inner', [])) == 1:
            u = unwrap(u['inner'][0])
        name = u['referencedDecl']['name'] if u.get('kind') == 'DeclRefExpr' else ('this' if u.get('kind') == 'CXXThisExpr' else None)
        out.append((name, e, f['type']))
    return out


def task_lambda_hook(method, stub, names):
    """obj.<method>([.., <names>..](..) {..})  ->  stub(&obj, <all named captures are by copy>, <value of each named capture>)

    A lambda handed to a task queue is modelled by the values it captures: the stub's assumed contract records them in
    ghost state, the body of the lambda is a separate extracted function (Fn(..., lambda_index=k)) whose extra
    parameters are the same named captures.  Every capture that is not named must be of class type (an opaque
    callable); a scalar capture that the spec does not name is an extraction error, never silently dropped."""
    def h(P, n):
        if n.get('kind') != 'CXXMemberCallExpr':
            return None
        me = n['inner'][0]
        if me.get('kind') != 'MemberExpr' or me.get('name') != method or len(n['inner']) != 2:
            return None
        lam = lambda_arg(n['inner'][1])
        if lam is None:
            return None
        caps = lambda_captures(lam)
        byname = {}
        for name, e, ft in caps:
            q = strip_cv(qual(ft))
            if name in names:
                byname[name] = (e, ft)
                continue
            try:
                c = P.ctype_q(q.rstrip('&').strip())
            except Unsupported:
                continue            # class-type capture (opaque callable / object): not part of the model
            if c.startswith('struct '):
                continue            # modelled class type (opaque callable): identity is not part of the task model
            raise Unsupported(f'lambda passed to {method} captures scalar {name!r} that the spec does not name')
        missing = [x for x in names if x not in byname]
        if missing:
            raise Unsupported(f'lambda passed to {method} does not capture {missing}')
        by_copy = all(not byname[x][1].get('qualType', '').rstrip().endswith('&') for x in names)
        obj = me['inner'][0]
        selfexpr = P.expr(obj) if me.get('isArrow') else P.addr(obj)
        P.note(f'{method}(lambda capturing {", ".join(names)}) -> {stub}')
        vals = []
        for x in names:
            e, ft = byname[x]
            u = unwrap(e)
            vals.append(P.expr(u) if ft.get('qualType', '').rstrip().endswith('&') else P.expr(e))
        return f'{stub}({selfexpr}, {1 if by_copy else 0}, {", ".join(vals)})'
    return h
def lambda_call_hook(callee, stub, member=False):
    """callee(a0, .., ak, [captures](..) {..})  ->  <stub>_<j>(a0, .., ak, <captures in capture order>)
    (member=True: the member call `obj.callee(a0, .., [captures](..) {..})` -> `<stub>_<j>(&obj, a0, .., <captures>)`)

    A lambda passed as the LAST argument of the free function `callee` is not translated.  j is the position of that
    lambda among the lambda-taking calls of `callee` printed so far in this function (source order = the `lambda_index`
    of the separately extracted body, when the function has no other lambdas; the prelude prototypes of the extracted
    bodies pin the pairing: a capture list that does not fit the prototype breaks the C compile).  The other arguments
    use default passing (glvalues by address).  Captures follow exactly Fn(..., captures=True): `this` -> self, by-reference
    -> the address of the captured variable, by-copy -> its value, in clang's capture order (explicit captures as
    written, implicit ones in order of first use)."""
    from astload import lambda_captures as caps_of

    def h(P, n):
        if n.get('kind') != ('CXXMemberCallExpr' if member else 'CallExpr') or len(n.get('inner', [])) < 2:
            return None
        if member:
            me = n['inner'][0]
            if me.get('kind') != 'MemberExpr' or me.get('name') != callee or not me.get('inner'):
                return None
        else:
            rd = unwrap(n['inner'][0]).get('referencedDecl') or {}
            if rd.get('name') != callee:
                return None
        lam = lambda_arg(n['inner'][-1])
        if lam is None:
            return None
        seen = P.__dict__.setdefault('_lambda_calls', {}).setdefault(callee, [])
        if lam.get('id') not in seen:
            seen.append(lam.get('id'))
        j = seen.index(lam.get('id'))
        args = [P.arg(a) for a in n['inner'][1:-1]]
        if member:
            obj = n['inner'][0]['inner'][0]
            args.insert(0, P.expr(obj) if n['inner'][0].get('isArrow') else P.addr(obj))
        for c in caps_of(lam):
            if c['this']:
                args.append('self')
            elif c['byref']:
                args.append(c['name'] if c['var_type'].get('qualType', '').rstrip().endswith('&') or c['id'] in P.byref_captures
                            else f'&{c["name"]}')
            else:
                if c['var_type'].get('qualType', '').rstrip().endswith('&'):
                    raise Unsupported(f'by-copy capture of the reference {c["name"]}')
                args.append(c['name'])
        P.note(f'{callee}(.., lambda #{j}) -> {stub}_{j}')
        return f'{stub}_{j}({", ".join(args)})'
    return h


def lambda_stub_hook(callee, stub, lambda_cnames, body, member=False, lead=None, ret='void', lambda_rets=None):
    """callee(a0, .., ak, [captures](..) {..})  ->  <stub>_<j>(a0, .., ak, [self,] <captures in capture order>), AND the C text of that
    stub is GENERATED (into the unit's prototypes) from the lambda as it is in the source now, so that a change of the capture
    list changes stub, call and the extracted body together (nothing is pinned by a hand-written prototype):

        <ret> <lambda_cnames[j]>([S* self,] <operator() parameters>, <capture parameters>);      // = the signature Fn(.., lambda_index=j,
        static void <stub>_<j>(T0 nv_a0, .., Tk nv_ak, [S* self,] <capture parameters>) { <body> }   //   captures=True) prints

    `body` is the spec's C statement for the callee's contract (e.g. "the callback runs once, at the ghost position, iff the
    value is given"); in it nv_a0..nv_ak are the callee's other arguments (default passing: glvalues by address) and
    `@CALL(x, y)` is the call of the lambda body with operator() arguments x, y.  `self` is passed whenever the enclosing
    function has a self struct (the lambda Fn must be declared with the same self_struct), whether or not `this` is captured.
    member=True: the member call `obj.callee(a0, .., lambda)`; the stub's first parameter is then `<C type of obj>* nv_obj`.
    lead=[k, ..]: only these of the callee's other arguments are handed to the stub (as nv_a<k>; the rest is never translated: names,
    loggers); ret='C type': the stub returns a value (the callee's result; `body` then ends in a return statement); lambda_rets=['C type', ..]:
    return type of the j-th lambda body where clang's deduced type is a dependent spelling (the same override as `Fn(.., ret=..)`).  The lambda may also
    be a local lambda VARIABLE of the function handed over by name (`lambda_arg(.., P)`)."""
    from astload import lambda_captures as caps_of, lambda_call_operator
    from cxx2c import return_type_of

    def h(P, n):
        if n.get('kind') != ('CXXMemberCallExpr' if member else 'CallExpr') or len(n.get('inner', [])) < 2:
            return None
        if member:
            me = n['inner'][0]
            if me.get('kind') != 'MemberExpr' or me.get('name') != callee or not me.get('inner'):
                return None
        else:
            rd = unwrap(n['inner'][0]).get('referencedDecl') or {}
            if rd.get('name') != callee:
                return None
        lam = lambda_arg(n['inner'][-1], P)
        if lam is None:
            return None
        seen = P.__dict__.setdefault('_lambda_calls', {}).setdefault(callee, [])
        if lam.get('id') not in seen:
            seen.append(lam.get('id'))
        j = seen.index(lam.get('id'))
        if j >= len(lambda_cnames):
            raise Unsupported(f'{callee}: lambda #{j} has no extracted body in the spec')
        op = lambda_call_operator(lam)
        if op is None:
            raise Unsupported(f'{callee}: lambda without a call operator')
        lead_params, lead_args = [], []
        if member:      # the object of the member call comes first: `<its C type>* nv_obj`
            obj = n['inner'][0]['inner'][0]
            ot = dict(obj['type'])
            if n['inner'][0].get('isArrow'):
                ot = {k: re.sub(r'\s*\*\s*(const)?\s*$', '', v) for k, v in ot.items() if isinstance(v, str)}
            lead_params.append(f'{P.ctype(ot)}* nv_obj')
            lead_args.append(P.expr(obj) if n['inner'][0].get('isArrow') else P.addr(obj))
        for k, a in enumerate(n['inner'][1:-1]):
            if lead is not None and k not in lead:
                continue
            u = a           # the same decision as Printer.arg: glvalues (bound to references) by address, prvalues by value
            while u.get('kind') in TRANSPARENT and u.get('kind') != 'MaterializeTemporaryExpr':
                u = u['inner'][0]
            c = P.ctype(u['type'])
            if u.get('valueCategory') in ('lvalue', 'xvalue'):
                c += '*'
            lead_params.append(f'{c} nv_a{k}')
            lead_args.append(P.arg(a))
        op_params = [f'{P.ctype(q["type"])} {q.get("name", f"nv_unnamed{k}")}' for k, q in enumerate(c for c in op['inner'] if c['kind'] == 'ParmVarDecl')]
        cap_params, cap_args, cap_names = [], [], []
        for c in caps_of(lam):
            if c['this']:
                continue
            vt = c['var_type'].get('qualType', '').rstrip()
            ct = P.ctype(c['var_type'])
            if c['byref']:
                if not vt.endswith('&'):
                    ct += '*'
                    cap_args.append(c['name'] if c['id'] in P.byref_captures else f'&{c["name"]}')
                else:
                    cap_args.append(c['name'])
            else:
                if vt.endswith('&'):
                    raise Unsupported(f'by-copy capture of the reference {c["name"]}')
                cap_args.append(c['name'])
            cap_params.append(f'{ct} {c["name"]}')
            cap_names.append(c['name'])
        selfp = [f'{P.self_struct}* self'] if P.self_struct else []
        selfa = ['self'] if P.self_struct else []
        lname = lambda_cnames[j]
        lret = lambda_rets[j] if lambda_rets and lambda_rets[j] else P.ctype_q(return_type_of(op['type']['qualType']))
        proto = f'{lret} {lname}({", ".join(selfp + op_params + cap_params)});'
        call = lambda m: f'{lname}({", ".join(selfa + [x.strip() for x in m.group(1).split(",")] + cap_names)})'
        text = re.sub(r'@CALL\(([^()]*)\)', call, body)
        P.protos[f'{stub}_{j}'] = f'{proto}\nstatic {ret} {stub}_{j}({", ".join(lead_params + selfp + cap_params)})\n{{ {text} }}'
        P.note(f'{callee}(.., lambda #{j}) -> generated {stub}_{j} calling {lname}')
        return f'{stub}_{j}({", ".join(lead_args + selfa + cap_args)})'
    return h


# ----------------------------------------------------------------------------- std::variant
# C model convention (written by the spec's prelude): struct { uint8_t index; T0 a0; T1 a1; ... } -- `index` is
# variant::index(), `a<k>` the storage of alternative k (alternatives without state, e.g. std::monostate, need no member).
# The alternative order is always read from clang's type of the variant expression, never from the spec.
def split_top(s):
    out, depth, cur = [], 0, ''
    for ch in s:
        if ch in '<([':
            depth += 1
        elif ch in '>)]':
            depth -= 1
        if ch == ',' and depth == 0:
            out.append(cur.strip())
            cur = ''
        else:
            cur += ch
    if cur.strip():
        out.append(cur.strip())
    return out


def _norm(t):
    return re.sub(r'\s+', '', strip_cv(t))


def variant_alternatives(t):
    """alternative types of a std::variant type (clang type object or string), or None"""
    q = t if isinstance(t, str) else qual(t)
    q = strip_cv(q)
    while q.endswith('&') or q.endswith('*'):
        q = strip_cv(q[:-1])
    m = re.match(r'^(?:std::)?variant<(.*)>$', q, re.S)
    if not m:
        return None
    return [_norm(a) for a in split_top(m.group(1))]


def _alt_exact(alts, t, what):
    t = _norm(t)
    hits = [i for i, a in enumerate(alts) if a == t]
    if len(hits) != 1:
        raise Unsupported(f'{what}: type {t!r} is not exactly one alternative of variant<{", ".join(alts)}>')
    return hits[0]


def _alt_suffix(alts, t, what):
    t = _norm(t).lstrip(':')
    hits = [i for i, a in enumerate(alts) if a == t or a.endswith('::' + t)]
    if len(hits) != 1:
        raise Unsupported(f'{what}: spelled type {t!r} does not name exactly one alternative of variant<{", ".join(alts)}>')
    return hits[0]


def _strip_transparent(n):
    from cxx2c import TRANSPARENT
    while isinstance(n, dict) and n.get('kind') in TRANSPARENT and n.get('inner'):
        n = n['inner'][0]
    return n


def _callee_name(n):
    if n.get('kind') != 'CallExpr' or not n.get('inner'):
        return None
    return unwrap(n['inner'][0]).get('referencedDecl', {}).get('name')


def _callee_param_alternatives(n):
    """alternatives of the variant a std:: accessor (holds_alternative / get_if) was instantiated for, read from the
    callee's function type `R (const variant<...> &|*) noexcept` (used when the argument's type is an undesugared alias)"""
    ft = unwrap(n['inner'][0]).get('referencedDecl', {}).get('type', {}).get('qualType', '')
    i = ft.find('(')
    if i < 0:
        return None
    depth, j = 0, i
    for j in range(i, len(ft)):
        if ft[j] in '(<':
            depth += 1
        elif ft[j] in ')>':
            depth -= 1
            if depth == 0 and ft[j] == ')':
                break
    args = split_top(ft[i + 1:j])
    return variant_alternatives(args[0]) if len(args) == 1 else None


def variant_expr_hook():
    """std::holds_alternative<T>(v) -> (v.index == k);  std::get_if<T>(&v) -> (v.index == k ? &v.a<k> : NULL);
    variant{alternative value} (converting constructor, argument type exactly an alternative) -> {.index = k, .a<k> = e}"""
    import astload

    def h(P, n):
        k = n.get('kind')
        if k == 'CallExpr':
            nm = _callee_name(n)
            if nm == 'holds_alternative' and len(n['inner']) == 2:
                arg = n['inner'][1]
                alts = variant_alternatives(arg['type']) or _callee_param_alternatives(n)
                if alts is None:
                    raise Unsupported('holds_alternative on a non-variant')
                src = astload.node_source(n['inner'][0]) or ''
                m = re.search(r'holds_alternative\s*<(.*)>\s*$', src, re.S)
                if not m:
                    raise Unsupported(f'holds_alternative: template argument not found in source text {src!r}')
                idx = _alt_suffix(alts, m.group(1), 'holds_alternative')
                P.note(f'holds_alternative<{m.group(1).strip()}> -> index == {idx}')
                return f'({P.expr(arg)}.index == {idx})'
            if nm == 'get_if' and len(n['inner']) == 2:
                arg = n['inner'][1]
                alts = variant_alternatives(arg['type']) or _callee_param_alternatives(n)
                if alts is None:
                    raise Unsupported('get_if on a non-variant')
                # the alternative asked for is the pointee of the result type (several spellings of it are around)
                ft = unwrap(n['inner'][0]).get('referencedDecl', {}).get('type', {}).get('qualType', '')
                cands = [n['type'].get('desugaredQualType', ''), n['type'].get('qualType', ''), ft[:ft.find('(')] if '(' in ft else '']
                found = set()
                for rt in cands:
                    rt = strip_cv(rt)
                    m = re.match(r'^(?:std::)?add_pointer_t<(.*)>$', rt, re.S)
                    pointee = m.group(1) if m else (rt[:-1] if rt.endswith('*') else None)
                    if pointee is not None:
                        found |= {i for i, a in enumerate(alts) if a == _norm(pointee)}
                if len(found) != 1:
                    raise Unsupported(f'get_if: result type {cands!r} does not name exactly one alternative')
                idx = found.pop()
                P.note(f'get_if<{alts[idx]}> -> index == {idx} ? &a{idx} : NULL')
                v = P.expr(arg)
                return f'({v}->index == {idx} ? &{v}->a{idx} : NULL)'
            return None
        if k in ('CXXConstructExpr', 'CXXTemporaryObjectExpr'):
            alts = variant_alternatives(n['type'])
            if alts is None or len(n.get('inner', [])) != 1:
                return None
            a = n['inner'][0]
            at = _norm(qual(a['type']))
            if variant_alternatives(at) is not None:
                return None     # copy / move of the variant itself
            idx = _alt_exact(alts, at, 'variant converting constructor')
            c = P.ctype(n['type'])
            P.note(f'variant{{{alts[idx]}}} -> index {idx}')
            return f'({c}){{.index = {idx}, .a{idx} = {P.expr(a)}}}'
        return None
    return h


def _visit_parts(call):
    """(lambdas, variant argument) of std::visit(overloaded{lambda...}, variant), else None"""
    if _callee_name(call) != 'visit' or len(call['inner']) != 3:
        return None
    vis, var = call['inner'][1], call['inner'][2]
    if 'overloaded<' not in qual(vis['type']):
        raise Unsupported('std::visit with a visitor that is not overloaded{lambdas...}')
    il = vis
    while il.get('kind') != 'InitListExpr':
        if len(il.get('inner', [])) != 1:
            raise Unsupported('std::visit: visitor is not a braced list of lambdas')
        il = il['inner'][0]
    lams = []
    for e in il['inner']:
        u = e
        while u.get('kind') != 'LambdaExpr':
            if len(u.get('inner', [])) != 1:
                raise Unsupported('std::visit: visitor element is not a lambda')
            u = u['inner'][0]
        lams.append(u)
    return lams, var


def _lambda_overloads(lam):
    """[(parameter type normalised, operator() decl with a body)] -- for a generic lambda: the instantiations clang
    made WITH a body, i.e. exactly those selected by overload resolution inside std::visit"""
    rec = [c for c in lam['inner'] if c.get('kind') == 'CXXRecordDecl'][0]
    out = []
    for c in rec.get('inner', []):
        if c.get('kind') == 'CXXMethodDecl' and c.get('name') == 'operator()':
            out.append(c)
        if c.get('kind') == 'FunctionTemplateDecl' and c.get('name') == 'operator()':
            for m in c.get('inner', []):
                if m.get('kind') == 'CXXMethodDecl' and any(x.get('kind') == 'TemplateArgument' for x in m.get('inner', [])):
                    out.append(m)
    res = []
    for m in out:
        ps = [x for x in m.get('inner', []) if x.get('kind') == 'ParmVarDecl']
        body = [x for x in m.get('inner', []) if x.get('kind') == 'CompoundStmt']
        if len(ps) != 1:
            raise Unsupported('visitor lambda with other than one parameter')
        if not body:
            continue    # declared for overload resolution only, never selected
        q = strip_cv(qual(ps[0]['type']))
        byref = q.endswith('&')
        q = q.rstrip('&')
        if 'desugaredQualType' not in ps[0]['type']:
            # clang does not desugar a reference-to-alias parameter type; a use of the parameter carries it
            for x in walk_stmts(body[0]):
                if x.get('kind') == 'DeclRefExpr' and x.get('referencedDecl', {}).get('id') == ps[0].get('id'):
                    q = qual(x['type'])
                    break
        res.append((_norm(q), ps[0], body[0], byref))
    return res


def variant_visit_hook():
    """statement hook:  std::visit(overloaded{lambda...}, v);  and  return std::visit(overloaded{lambda...}, v);
    -> switch (v.index) with, per alternative, the body of the one lambda overload that clang selected for it
    (exact-parameter lambdas by type; generic lambdas by the instantiations that have a body).  The lambda bodies are
    printed in place (captures are the enclosing function's own variables).  A valueless variant throws
    (std::bad_variant_access), as std::visit does."""
    def h(P, n, ind):
        u = _strip_transparent(n)
        ret = False
        if u.get('kind') == 'ReturnStmt' and u.get('inner'):
            u = _strip_transparent(u['inner'][0])
            ret = True
        if not isinstance(u, dict) or u.get('kind') != 'CallExpr' or _callee_name(u) != 'visit':
            return None
        lams, var = _visit_parts(u)
        alts = variant_alternatives(var['type'])
        if alts is None:
            raise Unsupported('std::visit on a non-variant')
        table = []
        for lam in lams:
            table += _lambda_overloads(lam)
        p = '  ' * ind
        v = P.expr(var)
        s = f'{p}switch ({v}.index)\n{p}{{\n'
        for k, a in enumerate(alts):
            hits = [t for t in table if t[0] == a]
            if len(hits) != 1:
                raise Unsupported(f'std::visit: {len(hits)} visitor overloads selected for alternative {a}')
            _, parm, body, byref = hits[0]
            if not ret and any(x.get('kind') == 'ReturnStmt' and x.get('inner') for x in walk_stmts(body)):
                raise Unsupported('std::visit used as a statement with a value-returning visitor')
            s += f'{p}  case {k}:\n{p}  {{\n'
            if parm.get('name'):
                c = P.ctype(parm['type'])
                s += f'{p}    {c} {parm["name"]} = {"&" if byref else ""}{v}.a{k};\n'
            s += P.stmt(body, ind + 2)
            s += f'{p}    break;\n{p}  }}\n'
        s += f'{p}  default:\n' + P.throw_stmt(p + '    ') + f'{p}}}\n'
        P.note(f'std::visit(overloaded{{{len(lams)} lambdas}}, variant<{len(alts)}>) -> switch')
        return s
    return h


def walk_stmts(n):
    stack = [n]
    while stack:
        x = stack.pop()
        if isinstance(x, dict):
            yield x
            if x.get('kind') != 'LambdaExpr':
                stack.extend(reversed(x.get('inner', [])))


def member_default_args_hook(name, objtype_rx, cname, callee_decl):
    """`obj.name(a, b)` of a method with default arguments -> `cname(&obj, a, b, <default>)`: clang prints an omitted argument
    as a bare CXXDefaultArgExpr; its value is read from the default of the callee's own ParmVarDecl (`callee_decl()` returns the
    method's declaration from the current source), so a change of the default flows into every call site."""
    def h(P, n):
        if n.get('kind') != 'CXXMemberCallExpr':
            return None
        me = n['inner'][0]
        if me.get('kind') != 'MemberExpr' or me.get('name') != name or not re.search(objtype_rx, qual(me['inner'][0]['type'])):
            return None
        params = [c for c in callee_decl()['inner'] if c.get('kind') == 'ParmVarDecl']
        args = n['inner'][1:]
        if len(args) != len(params):
            raise Unsupported(f'{name}: {len(args)} arguments for {len(params)} parameters')
        out = []
        for a, p in zip(args, params):
            u = a
            while u.get('kind') in ('ExprWithCleanups', 'MaterializeTemporaryExpr', 'CXXBindTemporaryExpr') and u.get('inner'):
                u = u['inner'][0]
            if u.get('kind') == 'CXXDefaultArgExpr':
                init = [c for c in p.get('inner', []) if c.get('kind') != 'FullComment']
                if not init:
                    raise Unsupported(f'{name}: default of parameter {p.get("name")} is not in the dump')
                out.append(P.expr(init[0]))
            else:
                out.append(P.arg(a))
        obj = me['inner'][0]
        P.note(f'{name}(...) with default arguments -> {cname}')
        return f'{cname}({P.expr(obj) if me.get("isArrow") else P.addr(obj)}{"".join(", " + x for x in out)})'
    return h


# ----------------------------------------------------------------------------- overloaded member functions
def member_overload_hook(table):
    """member calls whose overloads share a name (getter `x()` / setters `x(const string&)`, `x(const T&)`): the `members=`
    key 'name|object type' cannot tell them apart, so this hook keys on 'name|object type|(argument types)' (desugared,
    cv- and reference-stripped, comma separated; `()` for no argument).  table: [(regex, mapping)] with the usual mapping
    forms; calls that match no entry fall through to the ordinary member table."""
    def h(P, n):
        if n.get('kind') != 'CXXMemberCallExpr':
            return None
        me = n['inner'][0]
        if me.get('kind') != 'MemberExpr':
            return None
        obj = me['inner'][0]
        objt = re.sub(r'\s*\*$', '', strip_cv(qual(obj['type'])))     # x.f() and p->f() have the same key
        args = n['inner'][1:]
        at = ', '.join(re.sub(r'\s*&+$', '', strip_cv(qual(a['type']))) for a in args if a.get('kind') != 'CXXDefaultArgExpr')
        key = f'{me["name"]}|{objt}|({at})|' + ','.join(a.get('valueCategory', '?') for a in args if a.get('kind') != 'CXXDefaultArgExpr')
        for rx, m in table:
            if re.search(rx, key):
                selfexpr = P.expr(obj) if me.get('isArrow') else P.addr(obj)
                return P.apply(m, args, selfexpr=selfexpr, node=n, key=key)
        return None
    return h
