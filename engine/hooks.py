"""AST pattern hooks shared by several specs (cxx2c side)"""
import re

from cxx2c import unwrap, string_literal_of, strip_cv, qual, Unsupported


def param_hook(prefix='nv_param_'):
    """configurable_t::parameter("a::b::name").value<T>() / value_pair<T>()  ->  nv_param_name()"""
    def h(P, n):
        if n.get('kind') != 'CXXMemberCallExpr':
            return None
        me = n['inner'][0]
        if me.get('kind') != 'MemberExpr' or me.get('name') not in ('value', 'value_pair'):
            return None
        obj = unwrap(me['inner'][0])
        if obj.get('kind') != 'CXXMemberCallExpr':
            return None
        ome = obj['inner'][0]
        if ome.get('name') != 'parameter' or len(obj['inner']) < 2:
            return None
        lit = string_literal_of(obj['inner'][1])
        if lit is None:
            return None
        nm = prefix + re.sub(r'\W+', '_', lit.split('::')[-1])
        P.note(f'parameter("{lit}") -> {nm}()')
        return f'{nm}()'
    return h


def update_along_hook(fname='nv_state_update_along'):
    """state.update(state0.x() + step * descent)  ->  nv_state_update_along(&state, &state0, step, &descent)
    (the ghost step of the new point is whatever scalar the code multiplies the direction with)"""
    def h(P, n):
        if n.get('kind') != 'CXXMemberCallExpr':
            return None
        me = n['inner'][0]
        if me.get('name') != 'update' or 'solver_state_t' not in qual(me['inner'][0]['type']):
            return None
        if len(n['inner']) < 2:
            return None
        a = unwrap(n['inner'][1])
        if a.get('kind') != 'CXXOperatorCallExpr':
            return None
        cal = unwrap(a['inner'][0])
        if cal.get('referencedDecl', {}).get('name') != 'operator+':
            return None
        lhs, rhs = unwrap(a['inner'][1]), unwrap(a['inner'][2])
        if lhs.get('kind') != 'CXXMemberCallExpr' or lhs['inner'][0].get('name') != 'x':
            raise Unsupported('state.update(<expr>): left operand is not origin.x()')
        if rhs.get('kind') != 'CXXOperatorCallExpr' or unwrap(rhs['inner'][0]).get('referencedDecl', {}).get('name') != 'operator*':
            raise Unsupported('state.update(<expr>): right operand is not step * descent')
        origin = lhs['inner'][0]['inner'][0]
        step, direction = rhs['inner'][1], rhs['inner'][2]
        if 'double' not in qual(step['type']) and 'scalar_t' not in qual(step['type']):
            raise Unsupported('state.update(<expr>): scalar factor not on the left of the product')
        obj = me['inner'][0]
        selfexpr = P.expr(obj) if me.get('isArrow') else P.addr(obj)
        P.note('state.update(x0 + t*d)')
        P.pending_throw = False
        return f'{fname}({selfexpr}, {P.addr(origin)}, {P.expr(step)}, {P.addr(direction)})'
    return h


def lambda_arg(n):
    """the LambdaExpr an argument expression is (looking through temporaries / casts), else None"""
    u = n
    while isinstance(u, dict) and u.get('kind') in ('MaterializeTemporaryExpr', 'CXXBindTemporaryExpr', 'ExprWithCleanups',
                                                    'ImplicitCastExpr', 'CXXFunctionalCastExpr', 'CXXConstructExpr') \
            and len(u.get('inner', [])) == 1:
        u = u['inner'][0]
    return u if isinstance(u, dict) and u.get('kind') == 'LambdaExpr' else None


def lambda_captures(lam):
    """[(captured variable name or None, init expression, field type)] of a LambdaExpr, in capture order.
    clang lists the closure record first, then one initialiser per capture, then the body."""
    inner = lam.get('inner', [])
    rec = inner[0]
    fields = [f for f in rec.get('inner', []) if f.get('kind') == 'FieldDecl']
    inits = inner[1:-1]
    if len(fields) != len(inits):
        raise Unsupported(f'lambda with {len(fields)} closure fields and {len(inits)} capture initialisers')
    out = []
    for f, e in zip(fields, inits):
        u = unwrap(e)
        while u.get('kind') == 'CXXConstructExpr' and len(u.get('inner', [])) == 1:
            u = unwrap(u['inner'][0])
        name = u['referencedDecl']['name'] if u.get('kind') == 'DeclRefExpr' else ('this' if u.get('kind') == 'CXXThisExpr' else None)
        out.append((name, e, f['type']))
    return out


def task_lambda_hook(method, stub, names):
    """obj.<method>([.., <names>..](..) {..})  ->  stub(&obj, <all named captures are by copy>, <value of each named capture>)

    A lambda handed to a task queue is modelled by the values it captures: the stub's assumed contract records them in
    ghost state, the body of the lambda is a separate extracted function (Fn(..., lambda_index=k)) whose extra
    parameters are the same named captures.  Every capture that is not named must be of class type (an opaque
    callable); a scalar capture that the spec does not name is an extraction error, never silently dropped."""
    def h(P, n):
        if n.get('kind') != 'CXXMemberCallExpr':
            return None
        me = n['inner'][0]
        if me.get('kind') != 'MemberExpr' or me.get('name') != method or len(n['inner']) != 2:
            return None
        lam = lambda_arg(n['inner'][1])
        if lam is None:
            return None
        caps = lambda_captures(lam)
        byname = {}
        for name, e, ft in caps:
            q = strip_cv(qual(ft))
            if name in names:
                byname[name] = (e, ft)
                continue
            try:
                c = P.ctype_q(q.rstrip('&').strip())
            except Unsupported:
                continue            # class-type capture (opaque callable / object): not part of the model
            if c.startswith('struct '):
                continue            # modelled class type (opaque callable): identity is not part of the task model
            raise Unsupported(f'lambda passed to {method} captures scalar {name!r} that the spec does not name')
        missing = [x for x in names if x not in byname]
        if missing:
            raise Unsupported(f'lambda passed to {method} does not capture {missing}')
        by_copy = all(not byname[x][1].get('qualType', '').rstrip().endswith('&') for x in names)
        obj = me['inner'][0]
        selfexpr = P.expr(obj) if me.get('isArrow') else P.addr(obj)
        P.note(f'{method}(lambda capturing {", ".join(names)}) -> {stub}')
        vals = []
        for x in names:
            e, ft = byname[x]
            u = unwrap(e)
            vals.append(P.expr(u) if ft.get('qualType', '').rstrip().endswith('&') else P.expr(e))
        return f'{stub}({selfexpr}, {1 if by_copy else 0}, {", ".join(vals)})'
    return h
