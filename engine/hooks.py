"""AST pattern hooks shared by several specs (cxx2c side)"""
import re

from cxx2c import unwrap, string_literal_of, strip_cv, qual, Unsupported


def param_hook(prefix='nv_param_'):
    """configurable_t::parameter("a::b::name").value<T>() / value_pair<T>()  ->  nv_param_name()"""
    def h(P, n):
        if n.get('kind') != 'CXXMemberCallExpr':
            return None
        me = n['inner'][0]
        if me.get('kind') != 'MemberExpr' or me.get('name') not in ('value', 'value_pair'):
            return None
        obj = unwrap(me['inner'][0])
        if obj.get('kind') != 'CXXMemberCallExpr':
            return None
        ome = obj['inner'][0]
        if ome.get('name') != 'parameter' or len(obj['inner']) < 2:
            return None
        lit = string_literal_of(obj['inner'][1])
        if lit is None:
            return None
        nm = prefix + re.sub(r'\W+', '_', lit.split('::')[-1])
        P.note(f'parameter("{lit}") -> {nm}()')
        return f'{nm}()'
    return h


def update_along_hook(fname='nv_state_update_along'):
    """state.update(state0.x() + step * descent)  ->  nv_state_update_along(&state, &state0, step, &descent)
    (the ghost step of the new point is whatever scalar the code multiplies the direction with)"""
    def h(P, n):
        if n.get('kind') != 'CXXMemberCallExpr':
            return None
        me = n['inner'][0]
        if me.get('name') != 'update' or 'solver_state_t' not in qual(me['inner'][0]['type']):
            return None
        if len(n['inner']) < 2:
            return None
        a = unwrap(n['inner'][1])
        if a.get('kind') != 'CXXOperatorCallExpr':
            return None
        cal = unwrap(a['inner'][0])
        if cal.get('referencedDecl', {}).get('name') != 'operator+':
            return None
        lhs, rhs = unwrap(a['inner'][1]), unwrap(a['inner'][2])
        if lhs.get('kind') != 'CXXMemberCallExpr' or lhs['inner'][0].get('name') != 'x':
            raise Unsupported('state.update(<expr>): left operand is not origin.x()')
        if rhs.get('kind') != 'CXXOperatorCallExpr' or unwrap(rhs['inner'][0]).get('referencedDecl', {}).get('name') != 'operator*':
            raise Unsupported('state.update(<expr>): right operand is not step * descent')
        origin = lhs['inner'][0]['inner'][0]
        step, direction = rhs['inner'][1], rhs['inner'][2]
        if 'double' not in qual(step['type']) and 'scalar_t' not in qual(step['type']):
            raise Unsupported('state.update(<expr>): scalar factor not on the left of the product')
        obj = me['inner'][0]
        selfexpr = P.expr(obj) if me.get('isArrow') else P.addr(obj)
        P.note('state.update(x0 + t*d)')
        P.pending_throw = False
        return f'{fname}({selfexpr}, {P.addr(origin)}, {P.expr(step)}, {P.addr(direction)})'
    return h
