#!/bin/bash
# confirms, stores and evaluates the three changes of a seeding agent: take_seeds.sh <ID> <round> [check-id]
# round 1 -> /tmp/seed_<ID>, seeds <ID>-1..3; round R -> /tmp/seed<R>_<ID>, seeds <ID>-(3R-2)..(3R)
id=$1; r=${2:-1}; pid=${3:-$id}
if [ "$r" = "1" ]; then root=/tmp/seed_$id; else root=/tmp/seed${r}_$id; fi
off=$(ls -d /verif/seeded/$id-* 2>/dev/null | wc -l)   # numbering continues after the seeds already stored
[ -n "$SEED_OFF" ] && off=$SEED_OFF
for k in 1 2 3; do
  [ -f $root/out/$k/patch.diff ] || { echo "$id round $r slot $k: no patch"; continue; }
  res=$(SEED_ROOT=$root /verif/engine/confirm_seed.sh $id $k)
  n=$((k + off)); d=/verif/seeded/$id-$n
  echo "$id-$n: $res"
  [ "$res" = "RESULT confirmed" ] || continue
  mkdir -p $d
  cp $root/out/$k/patch.diff $root/out/$k/confirm.log $d/
  cp $root/out/$k/demo.* $root/out/$k/*.h $d/ 2>/dev/null
  cp $root/out/$k/README.md $d/SEEDER_README.md
  rm -f $d/demo.bin $d/demo
  /verif/engine/seed_eval.sh $id $n $pid
done
