#!/bin/bash
# creates an isolated workspace for a spec-writing collaborator: own worktree of /verif (branch agent-<id>) and own
# scratch worktree of /repo, so that hand mutations never touch /repo itself
set -e
id=$1
root=/var/tmp/nv_agents/$id
mkdir -p $root
git -C /verif worktree add -q -b agent-$id $root/verif HEAD
git -C /repo worktree add -q --detach $root/repo HEAD
mkdir -p $root/scratch
echo "export NV_REPO=$root/repo NV_SCRATCH=$root/scratch" > $root/env.sh
echo $root
