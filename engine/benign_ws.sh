#!/bin/bash
# workspace + prompt for an agent producing behaviour-preserving refactorings (false-alarm test): /tmp/benign_<ID>
set -e
id=$1; root=/tmp/benign_$id
git -C /repo worktree add -q --detach $root HEAD
mkdir -p $root/out
python3 - "$id" "$root" <<'PY'
import json, sys
pid, root = sys.argv[1:3]
prop = [json.loads(l) for l in open('/verif/properties.jsonl') if json.loads(l)['id'] == pid][0]
text = f"{prop['title']}\n\n{prop['statement']}\n\nAnchored in: {', '.join(prop['anchors']['files'])}"
t = open('/verif/engine/benign_prompt_template.md').read().replace('<ROOT>', root).replace('<PROPERTY>', text)
open(root + '/PROMPT.md', 'w').write(t)
PY
echo $root
