"""eigencw: mechanical lifting of Eigen *coefficient-wise expression statements* to a scalar kernel applied at one ghost
position (DESIGN 3.1 step 7, 4.3).  Used as a cxx2c statement hook:  Fn(..., stmt_hooks=[eigencw.hook(...)]).

Array model required from the spec's prelude ("ghost-element views": an array is its shape plus ONE coefficient):
    1-D view   struct { double* g; int64_t n, k; }                 g points to coefficient k   (meaningful iff 0 <= k < n)
    2-D view   struct { double* g; int64_t rows, cols, kr, kc; }   g points to coefficient (kr, kc)
The spec maps the C++ view types (Eigen::ArrayWrapper<Map<..>>, Eigen::Map<..>, nano::tensor*_map_t ...) to these two C
types through the ordinary `types` table and the view-producing members (.array(), .vector(), .matrix(), .array(i)) through
`members`; this module never looks inside them.

Recognised statements (closed list, anything else that starts like one raises Unsupported -> exit 2):
    D = E;   D += E;   D -= E;   D *= E;   D /= E;
  where D is  a 1-D view | a 2-D view | X.colwise() | X.rowwise()  (X a 2-D view; Eigen::VectorwiseOp: the 1-D operand is
  broadcast over the columns resp. rows, i.e. indexed by the row resp. column of the coefficient).
Recognised expressions E:
    leaf                      any sub-expression whose C++ type the spec maps to the 1-D / 2-D view type
    E1 + E2, E1 - E2, E1 * E2, E1 / E2
                              overloaded operator whose result type is Eigen::CwiseBinaryOp<scalar_{sum,difference,product,
                              quotient}_op<double, double>, ..>  (the functor is checked against the operator)
    -E                        Eigen::CwiseUnaryOp<scalar_opposite_op<double>, ..>
    E.square()                Eigen::CwiseUnaryOp<scalar_square_op<double>, ..>: the coefficient times itself
    I.cast<double>()          (only with hook(int_view=<C type>)) Eigen::CwiseUnaryOp<scalar_cast_op<long|int, double>, ..> of a 1-D
                              INTEGER view leaf I (through .array() / .matrix()); the spec maps the C++ type of I to the C type
                              `int_view` = struct { int64_t* g | int64_t g...; int64_t n, k; } whose `(*I.g)` is the tracked coefficient:
                              the coefficient converted to double (a real C cast, not uninterpreted)
    E * s, s * E, E + s ...   (only with hook(scalars=True)) an operand of C++ type double: Eigen's broadcast constant
    (E), E.array(), E.matrix(), E.transpose()
                              coefficient-preserving adaptors (transpose only on a 1-D operand of rowwise())
    A * v   (Eigen::Product)  A a 2-D view leaf, v a 1-D view leaf: coefficient r is (row r of A) . v, delegated to the
                              spec's stub `matvec(A, v)` (value at row A.kr)
ASSUMED contract of Eigen relied on (recorded by the spec under `assumptions`): the statement stores, for every position p
of D, kernel(operand coefficients at p as they were before the statement); operands must have D's shape (the size
agreement is emitted as an assertion, it is Eigen's own precondition); no other object is written.
Emitted C (one block per statement): every leaf is evaluated once into a local view, shape agreement and "tracked at the
same ghost position" are asserted, and  *D.g = kernel  is executed iff the ghost position lies inside D.
"""
import re

from cxx2c import Unsupported, TRANSPARENT, CAST_KINDS, PASS_CASTS, FOPS, strip_cv, qual, unwrap

ASSIGN_OPS = {'operator=': None, 'operator+=': '+', 'operator-=': '-', 'operator*=': '*', 'operator/=': '/'}
BINARY = {'operator+': ('+', 'scalar_sum_op'), 'operator-': ('-', 'scalar_difference_op'),
          'operator*': ('*', 'scalar_product_op'), 'operator/': ('/', 'scalar_quotient_op')}
ADAPTORS = ('array', 'matrix', 'transpose')


def _strip(n):
    while isinstance(n, dict) and n.get('inner') and (
            n.get('kind') in TRANSPARENT or n.get('kind') == 'ParenExpr'
            or (n.get('kind') in CAST_KINDS and n.get('castKind') in PASS_CASTS)):
        n = n['inner'][0]
    return n


def _callee(n):
    return unwrap(n['inner'][0]).get('referencedDecl', {}).get('name')


def hook(view1, view2=None, matvec=None, dest=(), scalars=False, int_view=None):
    """dest: further regexes on the (cv-stripped) C++ type of a destination this hook owns (default: ArrayWrapper /
    VectorwiseOp only), e.g. r'^Eigen::Map<Eigen::Matrix<double, -1, 1' for `tensor.vector(i) += ...`;
    scalars=True: an operand of C++ type double of a coefficient-wise binary operator is Eigen's broadcast constant
    (`array * 2.0`, result type CwiseBinaryOp<op, .., CwiseNullaryOp<scalar_constant_op<double>, ..>>)"""
    def ctype_or_none(P, n):
        try:
            return P.ctype(n['type'])
        except Unsupported:
            return None

    def arith(P, op, a, b):
        if P.uf_float:
            return f'{FOPS[op]}({a}, {b})'
        return f'({a} {op} {b})'

    class Ctx:
        def __init__(self, P, p):
            self.P, self.p, self.pre, self.checks, self.k = P, p, '', '', 0
            self.in_binary = False      # inside an operand of a coefficient-wise binary operator (scalars=True)
            P.tmp += 1
            self.tag = f'nv_cw{P.tmp}'

        def bind(self, ctype, expr):
            self.k += 1
            nm = f'{self.tag}_{self.k}'
            self.pre += f'{self.p}  {ctype} {nm} = {expr};\n'
            return nm

        def check(self, cond, what):
            self.checks += f'{self.p}  __CPROVER_assert({cond}, "{what}");\n'

    def kernel(cx, n, n_expr, k_expr, d2=None):
        """scalar value of the array expression n at the ghost position; the expression must have length n_expr and be
        tracked at index k_expr (1-D), or be a 2-D view shaped and tracked like d2"""
        P = cx.P
        u = _strip(n)
        c = ctype_or_none(P, u)
        if c == view1 and d2 is None:
            v = cx.bind(view1, P.expr(u))
            cx.check(f'{v}.n == {n_expr}', 'Eigen coefficient-wise operation: operand sizes agree')
            cx.check(f'{v}.k == {k_expr}', 'nv ghost-element model: operands are tracked at the same position')
            return f'(*{v}.g)'
        if c == view2 and d2 is not None:
            v = cx.bind(view2, P.expr(u))
            cx.check(f'{v}.rows == {d2}.rows && {v}.cols == {d2}.cols', 'Eigen coefficient-wise operation: operand sizes agree')
            cx.check(f'{v}.kr == {d2}.kr && {v}.kc == {d2}.kc', 'nv ghost-element model: operands are tracked at the same position')
            return f'(*{v}.g)'
        k = u.get('kind')
        t = strip_cv(qual(u.get('type')))
        if int_view is not None and d2 is None and k == 'CXXMemberCallExpr' and u['inner'][0].get('kind') == 'MemberExpr' \
                and u['inner'][0].get('name') == 'cast' and len(u['inner']) == 1:
            if not re.match(r'Eigen::CwiseUnaryOp<Eigen::internal::scalar_cast_op<(long|int), double>,', t):
                raise Unsupported(f'eigencw: cast() with result type {t[:90]}')
            leaf = int_leaf(P, u['inner'][0]['inner'][0])
            if leaf is None:
                raise Unsupported('eigencw: cast<double>() of something that is not an integer 1-D view')
            v = cx.bind(int_view, P.expr(leaf))
            cx.check(f'{v}.n == {n_expr}', 'Eigen coefficient-wise operation: operand sizes agree')
            cx.check(f'{v}.k == {k_expr}', 'nv ghost-element model: operands are tracked at the same position')
            P.note('eigencw: cast<double>() of an integer view -> the tracked coefficient converted to double')
            return f'((double)(*{v}.g))'
        if scalars and c == 'double' and cx.in_binary:
            P.note('eigencw: scalar operand broadcast over the coefficients')
            return cx.bind('double', P.expr(u))
        if k == 'CXXOperatorCallExpr':
            name = _callee(u)
            args = u['inner'][1:]
            if name in BINARY and len(args) == 2:
                op, functor = BINARY[name]
                if t.startswith('Eigen::Product<') and name == 'operator*':
                    if matvec is None or d2 is not None:
                        raise Unsupported('eigencw: matrix product in this position')
                    a, b = _strip(args[0]), _strip(args[1])
                    if ctype_or_none(P, a) != view2 or ctype_or_none(P, b) != view1:
                        raise Unsupported('eigencw: product operands are not a 2-D view and a 1-D view')
                    va, vb = cx.bind(view2, P.expr(a)), cx.bind(view1, P.expr(b))
                    cx.check(f'{va}.cols == {vb}.n', 'Eigen matrix * vector: inner dimensions agree')
                    cx.check(f'{va}.rows == {n_expr}', 'Eigen coefficient-wise operation: operand sizes agree')
                    cx.check(f'{va}.kr == {k_expr} && {va}.kc == {vb}.k', 'nv ghost-element model: operands are tracked at the same position')
                    P.note(f'eigencw: matrix * vector -> {matvec}')
                    return f'{matvec}({va}, {vb})'
                if not re.match(r'Eigen::CwiseBinaryOp<Eigen::internal::' + functor + r'<double(, double)?>,', t):
                    raise Unsupported(f'eigencw: {name} with result type {t[:90]}')
                outer, cx.in_binary = cx.in_binary, True
                a, b = kernel(cx, args[0], n_expr, k_expr, d2), kernel(cx, args[1], n_expr, k_expr, d2)
                cx.in_binary = outer
                return arith(P, op, a, b)
            if name == 'operator-' and len(args) == 1:
                if not re.match(r'Eigen::CwiseUnaryOp<Eigen::internal::scalar_opposite_op<double>,', t):
                    raise Unsupported(f'eigencw: unary minus with result type {t[:90]}')
                a = kernel(cx, args[0], n_expr, k_expr, d2)
                return f'NV_FNEG({a})' if P.uf_float else f'(-{a})'
            raise Unsupported(f'eigencw: operator {name} is not in the recognised list')
        if k == 'CXXMemberCallExpr':
            me = u['inner'][0]
            if me.get('kind') == 'MemberExpr' and me.get('name') in ADAPTORS and len(u['inner']) == 1:
                return kernel(cx, me['inner'][0], n_expr, k_expr, d2)
            if me.get('kind') == 'MemberExpr' and me.get('name') == 'square' and len(u['inner']) == 1:
                if not re.match(r'Eigen::CwiseUnaryOp<Eigen::internal::scalar_square_op<double>,', t):
                    raise Unsupported(f'eigencw: square() with result type {t[:90]}')
                a = cx.bind('double', kernel(cx, me['inner'][0], n_expr, k_expr, d2))
                return arith(P, '*', a, a)
        raise Unsupported(f'eigencw: expression kind {k} of type {t[:90]} is not in the recognised list')

    def int_leaf(P, n):
        """the integer 1-D view under coefficient-preserving adaptors, or None"""
        u = _strip(n)
        if ctype_or_none(P, u) == int_view:
            return u
        if u.get('kind') == 'CXXMemberCallExpr' and u['inner'][0].get('kind') == 'MemberExpr' and len(u['inner']) == 1 \
                and u['inner'][0].get('name') in ADAPTORS:
            return int_leaf(P, u['inner'][0]['inner'][0])
        return None

    def first_leaf(P, n):
        """the first 1-D view leaf of a coefficient-wise expression (evaluation order), or None"""
        u = _strip(n)
        if ctype_or_none(P, u) == view1:
            return u
        if int_view is not None and u.get('kind') == 'CXXMemberCallExpr' and u['inner'][0].get('kind') == 'MemberExpr' \
                and len(u['inner']) == 1 and u['inner'][0].get('name') == 'cast':
            return int_leaf(P, u['inner'][0]['inner'][0])
        if u.get('kind') == 'CXXOperatorCallExpr':
            for a in u['inner'][1:]:
                r = first_leaf(P, a)
                if r is not None:
                    return r
        if u.get('kind') == 'CXXMemberCallExpr' and u['inner'][0].get('kind') == 'MemberExpr' and len(u['inner']) == 1 \
                and u['inner'][0].get('name') in ADAPTORS + ('square',):
            return first_leaf(P, u['inner'][0]['inner'][0])
        return None

    def lifted(P, e, wrap):
        """C statement-expression for a coefficient-wise expression e used as a VALUE: every leaf evaluated once, shape and
        tracking agreement asserted against the first leaf, wrap(kernel at the ghost position, n, k) as the result"""
        ref_node = first_leaf(P, e)
        if ref_node is None:
            return None
        cx = Ctx(P, '')
        ref = cx.bind(ctype_or_none(P, ref_node) or view1, P.expr(ref_node))
        val = kernel(cx, e, f'{ref}.n', f'{ref}.k')
        inside = f'(0 <= {ref}.k && {ref}.k < {ref}.n)'
        z = '0.0'
        return '({ ' + cx.pre.replace('\n', ' ') + cx.checks.replace('\n', ' ') + wrap(f'({inside} ? {val} : {z})', f'{ref}.n', f'{ref}.k') + '; })'

    def reduce_hook(fname='nv_reduce_sum'):
        """expression hook: E.sum() for a coefficient-wise 1-D expression E  ->  fname(<summand at the ghost position>, <length>).
        ASSUMED contract of Eigen: sum() adds the coefficients of E; a reduction is determined by its summand at every position,
        which the spec's stub receives at the one ghost position (a reduction of a square is NOT the square of a reduction:
        the summands differ)"""
        def rh(P, n):
            if n.get('kind') != 'CXXMemberCallExpr' or len(n.get('inner', [])) != 1:
                return None
            me = n['inner'][0]
            if me.get('kind') != 'MemberExpr' or me.get('name') != 'sum':
                return None
            ty = n.get('type', {})
            if strip_cv(ty.get('desugaredQualType', ty.get('qualType', ''))) != 'double':
                return None
            r = lifted(P, me['inner'][0], lambda v, nn, kk: f'{fname}({v}, {nn})')
            if r is None:
                return None
            P.note(f'eigencw: sum() of a coefficient-wise expression -> {fname}(summand at the ghost position, length)')
            return r
        return rh

    def value_hook(value_struct):
        """expression hook: a coefficient-wise operator expression used as a value, e.g. RETURNED from a function (`return r1(bin) /
        x0(bin);` with a deduced Eigen expression type; statements `D = E` are taken by the statement hook before) -> (value_struct){ coefficient at the ghost position, length, ghost position }; the spec maps
        the Eigen expression type to value_struct = struct { double g; int64_t n, k; }"""
        def vh(P, n):
            if n.get('kind') != 'CXXOperatorCallExpr':
                return None
            if ctype_or_none(P, n) != value_struct:
                return None
            r = lifted(P, n, lambda v, nn, kk: f'({value_struct}){{ {v}, {nn}, {kk} }}')
            if r is not None:
                P.note('eigencw: returned coefficient-wise expression -> value at the ghost position')
            return r
        return vh

    def h(P, n, ind):
        u = n
        while u.get('kind') in TRANSPARENT and u.get('inner'):
            u = u['inner'][0]
        if u.get('kind') != 'CXXOperatorCallExpr' or len(u.get('inner', [])) != 3:
            return None
        name = _callee(u)
        if name not in ASSIGN_OPS:
            return None
        dst, rhs = u['inner'][1], u['inner'][2]
        dt = strip_cv(qual(_strip(dst).get('type')))
        if not (dt.startswith('Eigen::ArrayWrapper<') or dt.startswith('Eigen::VectorwiseOp<') or any(re.search(rx, dt) for rx in dest)):
            return None
        # from here on the statement is ours: anything unrecognised is an extraction break
        p = '  ' * ind
        cx = Ctx(P, p)
        d = _strip(dst)
        c = ctype_or_none(P, d)
        line = u.get('_line', '?')
        if c == view1:
            dv = cx.bind(view1, P.expr(d))
            val = kernel(cx, rhs, f'{dv}.n', f'{dv}.k')
            inside = f'0 <= {dv}.k && {dv}.k < {dv}.n'
            shape = '1-D'
        elif view2 is not None and c == view2:
            dv = cx.bind(view2, P.expr(d))
            val = kernel(cx, rhs, None, None, d2=dv)
            inside = f'0 <= {dv}.kr && {dv}.kr < {dv}.rows && 0 <= {dv}.kc && {dv}.kc < {dv}.cols'
            shape = '2-D'
        elif view2 is not None and d.get('kind') == 'CXXMemberCallExpr' and d['inner'][0].get('name') in ('colwise', 'rowwise') \
                and dt.startswith('Eigen::VectorwiseOp<'):
            which = d['inner'][0]['name']
            x = _strip(d['inner'][0]['inner'][0])
            if ctype_or_none(P, x) != view2:
                raise Unsupported(f'eigencw: {which}() of something that is not a 2-D view')
            dv = cx.bind(view2, P.expr(x))
            if which == 'colwise':      # every column combined with the operand: coefficient (r, c) meets operand[r]
                val = kernel(cx, rhs, f'{dv}.rows', f'{dv}.kr')
            else:                       # every row combined with the operand: coefficient (r, c) meets operand[c]
                val = kernel(cx, rhs, f'{dv}.cols', f'{dv}.kc')
            inside = f'0 <= {dv}.kr && {dv}.kr < {dv}.rows && 0 <= {dv}.kc && {dv}.kc < {dv}.cols'
            shape = which
        else:
            raise Unsupported(f'eigencw: destination of type {dt[:90]} is not a recognised view')
        op = ASSIGN_OPS[name]
        if op is not None:
            val = arith(P, op, f'(*{dv}.g)', val)
        P.note(f'eigencw: {shape} {name} lifted to the ghost position')
        return (f'{p}{{ /* eigencw: coefficient-wise statement at line {line} */\n{cx.pre}{cx.checks}'
                f'{p}  if ({inside}) *{dv}.g = {val};\n{p}}}\n')
    h.reduce_hook = reduce_hook
    h.value_hook = value_hook
    return h
