// instantiation-only driver for the C08 header code (no logic): include/nano/datasource/mask.h (make_mask) and
// include/nano/datasource/iterator.h (base_datasource_iterator_t is a plain class: including the header is enough)
#include <nano/datasource/iterator.h>
#include <nano/datasource/mask.h>
namespace nvdrv
{
using namespace nano;
auto make_mask_1(const tensor_dims_t<1>& d) { return make_mask(d); }
auto make_mask_2(const tensor_dims_t<2>& d) { return make_mask(d); }
} // namespace nvdrv
