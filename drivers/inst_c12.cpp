// instantiation-only driver for include/nano/core/numeric.h (no logic): idiv as used by random_splitter_t::split
#include <nano/core/numeric.h>
#include <nano/tensor/index.h>
namespace nvdrv
{
using namespace nano;
tensor_size_t idiv_l_i(tensor_size_t a, int b) { return idiv(a, b); }
} // namespace nvdrv
