// instantiation-only driver for include/nano/core/numeric.h (no logic): idiv as used by random_splitter_t::split
#include <nano/core/numeric.h>
#include <nano/tensor/index.h>
namespace nvdrv
{
using namespace nano;
tensor_size_t idiv_l_i(tensor_size_t a, int b) { return idiv(a, b); }
tensor_size_t idiv_l_l(tensor_size_t a, tensor_size_t b) { return idiv(a, b); }
} // namespace nvdrv
// enum values the C model of gboost::sampler_t::sample relies on (specs/C12/gsampler.h)
#include <nano/gboost/enums.h>
static_assert(static_cast<int>(nano::gboost_subsample::off) == 0 && static_cast<int>(nano::gboost_subsample::subsample) == 1 &&
              static_cast<int>(nano::gboost_subsample::bootstrap) == 2 && static_cast<int>(nano::gboost_subsample::wei_loss_bootstrap) == 3 &&
              static_cast<int>(nano::gboost_subsample::wei_grad_bootstrap) == 4 && sizeof(nano::gboost_subsample) == 1);
