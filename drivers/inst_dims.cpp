// instantiation-only driver for include/nano/tensor/dims.h (no logic): forces the specialisations that the
// C16 contracts are attached to, for ranks 1..5 and every prefix length
#include <nano/tensor/dims.h>
namespace nvdrv
{
using namespace nano;
using ts = tensor_size_t;
ts index_1(const tensor_dims_t<1>& d, ts a) { return index(d, a); }
ts index_2(const tensor_dims_t<2>& d, ts a, ts b) { return index(d, a, b); }
ts index_3(const tensor_dims_t<3>& d, ts a, ts b, ts c) { return index(d, a, b, c); }
ts index_4(const tensor_dims_t<4>& d, ts a, ts b, ts c, ts e) { return index(d, a, b, c, e); }
ts index_5(const tensor_dims_t<5>& d, ts a, ts b, ts c, ts e, ts f) { return index(d, a, b, c, e, f); }
ts index0_1_0(const tensor_dims_t<1>& d) { return index0(d); }
ts index0_1_1(const tensor_dims_t<1>& d, ts a) { return index0(d, a); }
ts index0_2_0(const tensor_dims_t<2>& d) { return index0(d); }
ts index0_2_1(const tensor_dims_t<2>& d, ts a) { return index0(d, a); }
ts index0_2_2(const tensor_dims_t<2>& d, ts a, ts b) { return index0(d, a, b); }
ts index0_3_0(const tensor_dims_t<3>& d) { return index0(d); }
ts index0_3_1(const tensor_dims_t<3>& d, ts a) { return index0(d, a); }
ts index0_3_2(const tensor_dims_t<3>& d, ts a, ts b) { return index0(d, a, b); }
ts index0_3_3(const tensor_dims_t<3>& d, ts a, ts b, ts c) { return index0(d, a, b, c); }
ts index0_4_0(const tensor_dims_t<4>& d) { return index0(d); }
ts index0_4_1(const tensor_dims_t<4>& d, ts a) { return index0(d, a); }
ts index0_4_2(const tensor_dims_t<4>& d, ts a, ts b) { return index0(d, a, b); }
ts index0_4_3(const tensor_dims_t<4>& d, ts a, ts b, ts c) { return index0(d, a, b, c); }
ts index0_4_4(const tensor_dims_t<4>& d, ts a, ts b, ts c, ts e) { return index0(d, a, b, c, e); }
ts index0_5_0(const tensor_dims_t<5>& d) { return index0(d); }
ts index0_5_1(const tensor_dims_t<5>& d, ts a) { return index0(d, a); }
ts index0_5_2(const tensor_dims_t<5>& d, ts a, ts b) { return index0(d, a, b); }
ts index0_5_3(const tensor_dims_t<5>& d, ts a, ts b, ts c) { return index0(d, a, b, c); }
ts index0_5_4(const tensor_dims_t<5>& d, ts a, ts b, ts c, ts e) { return index0(d, a, b, c, e); }
ts index0_5_5(const tensor_dims_t<5>& d, ts a, ts b, ts c, ts e, ts f) { return index0(d, a, b, c, e, f); }
auto dims0_1_0(const tensor_dims_t<1>& d) { return dims0(d); }
auto dims0_2_0(const tensor_dims_t<2>& d) { return dims0(d); }
auto dims0_2_1(const tensor_dims_t<2>& d, ts a) { return dims0(d, a); }
auto dims0_3_0(const tensor_dims_t<3>& d) { return dims0(d); }
auto dims0_3_1(const tensor_dims_t<3>& d, ts a) { return dims0(d, a); }
auto dims0_3_2(const tensor_dims_t<3>& d, ts a, ts b) { return dims0(d, a, b); }
auto dims0_4_0(const tensor_dims_t<4>& d) { return dims0(d); }
auto dims0_4_1(const tensor_dims_t<4>& d, ts a) { return dims0(d, a); }
auto dims0_4_2(const tensor_dims_t<4>& d, ts a, ts b) { return dims0(d, a, b); }
auto dims0_4_3(const tensor_dims_t<4>& d, ts a, ts b, ts c) { return dims0(d, a, b, c); }
auto dims0_5_0(const tensor_dims_t<5>& d) { return dims0(d); }
auto dims0_5_1(const tensor_dims_t<5>& d, ts a) { return dims0(d, a); }
auto dims0_5_2(const tensor_dims_t<5>& d, ts a, ts b) { return dims0(d, a, b); }
auto dims0_5_3(const tensor_dims_t<5>& d, ts a, ts b, ts c) { return dims0(d, a, b, c); }
auto dims0_5_4(const tensor_dims_t<5>& d, ts a, ts b, ts c, ts e) { return dims0(d, a, b, c, e); }
ts size_1(const tensor_dims_t<1>& d) { return size(d); }
ts size_2(const tensor_dims_t<2>& d) { return size(d); }
ts size_3(const tensor_dims_t<3>& d) { return size(d); }
ts size_4(const tensor_dims_t<4>& d) { return size(d); }
ts size_5(const tensor_dims_t<5>& d) { return size(d); }
// ---- make_dims / cat_dims (ranks 1..4 / source ranks 1..4)
auto make_dims_1(ts a) { return make_dims(a); }
auto make_dims_2(ts a, ts b) { return make_dims(a, b); }
auto make_dims_3(ts a, ts b, ts c) { return make_dims(a, b, c); }
auto make_dims_4(ts a, ts b, ts c, ts e) { return make_dims(a, b, c, e); }
auto make_dims_5(ts a, ts b, ts c, ts e, ts f) { return make_dims(a, b, c, e, f); }
auto cat_dims_1(ts n, const tensor_dims_t<1>& d) { return cat_dims(n, d); }
auto cat_dims_2(ts n, const tensor_dims_t<2>& d) { return cat_dims(n, d); }
auto cat_dims_3(ts n, const tensor_dims_t<3>& d) { return cat_dims(n, d); }
auto cat_dims_4(ts n, const tensor_dims_t<4>& d) { return cat_dims(n, d); }
} // namespace nvdrv
