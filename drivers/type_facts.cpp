// scalar aliases the C printer relies on; re-checked against /repo's headers on every run (no logic here)
#include <nano/tensor/index.h>
#include <nano/scalar.h>
#include <type_traits>
#include <cstdint>
static_assert(std::is_same_v<nano::scalar_t, double>);
static_assert(std::is_same_v<nano::tensor_size_t, std::int64_t>);
static_assert(std::is_same_v<Eigen::Index, std::int64_t>);
static_assert(std::is_same_v<std::size_t, std::uint64_t>);
static_assert(sizeof(long) == 8 && sizeof(int) == 4);
