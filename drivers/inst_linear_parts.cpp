// instantiation-only driver for include/nano/linear/function.h (no logic): the four accessors weights / bias (const and non-const
// overloads) of linear::function_t for the parameter-vector types the library hands to them (vector_t, vector_map_t, vector_cmap_t)
#include <nano/linear/function.h>
namespace nvdrv
{
using namespace nano;
auto weights_mut_map(const linear::function_t& f, vector_map_t& x) { return f.weights(x); }
auto weights_mut_cmap(const linear::function_t& f, vector_cmap_t& x) { return f.weights(x); }
auto weights_mut_vec(const linear::function_t& f, vector_t& x) { return f.weights(x); }
auto weights_const_map(const linear::function_t& f, const vector_map_t& x) { return f.weights(x); }
auto weights_const_cmap(const linear::function_t& f, const vector_cmap_t& x) { return f.weights(x); }
auto weights_const_vec(const linear::function_t& f, const vector_t& x) { return f.weights(x); }
auto bias_mut_map(const linear::function_t& f, vector_map_t& x) { return f.bias(x); }
auto bias_mut_cmap(const linear::function_t& f, vector_cmap_t& x) { return f.bias(x); }
auto bias_mut_vec(const linear::function_t& f, vector_t& x) { return f.bias(x); }
auto bias_const_map(const linear::function_t& f, const vector_map_t& x) { return f.bias(x); }
auto bias_const_cmap(const linear::function_t& f, const vector_cmap_t& x) { return f.bias(x); }
auto bias_const_vec(const linear::function_t& f, const vector_t& x) { return f.bias(x); }
} // namespace nvdrv
