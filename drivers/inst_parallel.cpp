// instantiation-only driver for include/nano/core/parallel.h (no logic): forces pool_t::map (chunked and un-chunked)
// for the element types libnano uses (tensor_size_t: dataset iterators / tune.cpp, size_t: apps and tests, int).
// The operators are opaque callables (declared, never defined): the contracts treat them as the observer of the
// (begin, end, tnum) / (index, tnum) sequence.
#include <nano/core/parallel.h>
#include <nano/tensor/index.h>
namespace nvdrv
{
using namespace nano;
using pool_t = nano::parallel::pool_t;
template <class tsize>
struct op_range_t
{
    void operator()(tsize begin, tsize end, size_t tnum) const;
};
template <class tsize>
struct op_index_t
{
    void operator()(tsize index, size_t tnum) const;
};
struct fn_t
{
    void operator()(size_t tnum) const;
};
nano::parallel::future_t enqueue_fn(pool_t& p, const fn_t& f) { return p.enqueue(f); }
void map_chunk_i64(pool_t& p, tensor_size_t n, tensor_size_t c, const op_range_t<tensor_size_t>& op, bool raise) { p.map(n, c, op, raise); }
void map_chunk_u64(pool_t& p, size_t n, size_t c, const op_range_t<size_t>& op, bool raise) { p.map(n, c, op, raise); }
void map_chunk_i32(pool_t& p, int n, int c, const op_range_t<int>& op, bool raise) { p.map(n, c, op, raise); }
void map_index_i64(pool_t& p, tensor_size_t n, const op_index_t<tensor_size_t>& op, bool raise) { p.map(n, op, raise); }
void map_index_u64(pool_t& p, size_t n, const op_index_t<size_t>& op, bool raise) { p.map(n, op, raise); }
void map_index_i32(pool_t& p, int n, const op_index_t<int>& op, bool raise) { p.map(n, op, raise); }
} // namespace nvdrv
