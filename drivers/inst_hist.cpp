// instantiation-only driver for include/nano/core/histogram.h and stats.h (no logic)
#include <nano/core/histogram.h>
namespace nvdrv
{
using namespace nano;
tensor_size_t bin_f64(const histogram_t& h, double v) { return h.bin(v); }
tensor_size_t bin_i64(const histogram_t& h, tensor_size_t v) { return h.bin(v); }
histogram_t   make_thr(double* b, double* e, tensor_mem_t<scalar_t, 1> t) { return histogram_t::make_from_thresholds(b, e, t); }
histogram_t   make_thr_i64(tensor_size_t* b, tensor_size_t* e, tensor_mem_t<scalar_t, 1> t) { return histogram_t::make_from_thresholds(b, e, t); }
histogram_t   make_pct(double* b, double* e, tensor_mem_t<scalar_t, 1> t) { return histogram_t::make_from_percentiles(b, e, t); }
histogram_t   make_rat(double* b, double* e, tensor_mem_t<scalar_t, 1> t) { return histogram_t::make_from_ratios(b, e, t); }
// integer sample types: the histogram helpers (mean, median_sorted, update, update_bin) and the constructor per element type
histogram_t   make_thr_i8(int8_t* b, int8_t* e, tensor_mem_t<scalar_t, 1> t) { return histogram_t::make_from_thresholds(b, e, t); }
histogram_t   make_thr_i16(int16_t* b, int16_t* e, tensor_mem_t<scalar_t, 1> t) { return histogram_t::make_from_thresholds(b, e, t); }
histogram_t   make_thr_i32(int32_t* b, int32_t* e, tensor_mem_t<scalar_t, 1> t) { return histogram_t::make_from_thresholds(b, e, t); }
histogram_t   make_pct_i64(tensor_size_t* b, tensor_size_t* e, tensor_mem_t<scalar_t, 1> t) { return histogram_t::make_from_percentiles(b, e, t); }
histogram_t   make_rat_i64(tensor_size_t* b, tensor_size_t* e, tensor_mem_t<scalar_t, 1> t) { return histogram_t::make_from_ratios(b, e, t); }
histogram_t   make_pct_n(double* b, double* e, tensor_size_t bins) { return histogram_t::make_from_percentiles(b, e, bins); }
histogram_t   make_rat_n(double* b, double* e, tensor_size_t bins) { return histogram_t::make_from_ratios(b, e, bins); }
histogram_t   make_exp(double* b, double* e, scalar_t base) { return histogram_t::make_from_exponents(b, e, base); }
double        pct_sorted(const double* b, const double* e, double p) { return percentile_sorted(b, e, p); }
double        pct(double* b, double* e, double p) { return percentile(b, e, p); }
double        med_sorted(const double* b, const double* e) { return median_sorted(b, e); }
double        med(double* b, double* e) { return median(b, e); }
} // namespace nvdrv
