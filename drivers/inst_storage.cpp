// instantiation-only driver for include/nano/tensor/storage.h (no logic): forces every constructor, assignment operator,
// resize and data() of the three storage classes (owning vector, constant mapping, mutable mapping) and the converting
// constructors / assignment of tensor_t, for scalar double and ranks 1, 2 and 3
#include <nano/tensor/tensor.h>
#include <utility>
namespace nvdrv
{
using namespace nano;
using ts = tensor_size_t;
template <size_t R>
using VS = tensor_vector_storage_t<double, R>;
template <size_t R>
using CS = tensor_carray_storage_t<double, R>;
template <size_t R>
using MS = tensor_marray_storage_t<double, R>;
// ---- default construction (an empty tensor)
template <size_t R> void vs_default_ctor() { VS<R> s; }
template <size_t R> void cs_default_ctor() { CS<R> s; }
template <size_t R> void ms_default_ctor() { MS<R> s; }
// ---- owning storage
void vs_ctor_sizes_1(ts a) { VS<1> s(a); }
void vs_ctor_sizes_2(ts a, ts b) { VS<2> s(a, b); }
void vs_ctor_sizes_3(ts a, ts b, ts c) { VS<3> s(a, b, c); }
template <size_t R> void vs_ctor_dims(const tensor_dims_t<R>& d) { VS<R> s(d); }
template <size_t R> void vs_from_c(const CS<R>& c) { VS<R> s(c); }
template <size_t R> void vs_from_m(const MS<R>& m) { VS<R> s(m); }
template <size_t R> void vs_assign_c(VS<R>& s, const CS<R>& c) { s = c; }
template <size_t R> void vs_assign_m(VS<R>& s, const MS<R>& m) { s = m; }
template <size_t R> void vs_copy_ctor(const VS<R>& o) { VS<R> s(o); }
template <size_t R> void vs_move_ctor(VS<R>& o) { VS<R> s(std::move(o)); }
template <size_t R> void vs_copy_assign(VS<R>& s, const VS<R>& o) { s = o; }
template <size_t R> void vs_move_assign(VS<R>& s, VS<R>& o) { s = std::move(o); }
void vs_resize_sizes_1(VS<1>& s, ts a) { s.resize(a); }
void vs_resize_sizes_2(VS<2>& s, ts a, ts b) { s.resize(a, b); }
void vs_resize_sizes_3(VS<3>& s, ts a, ts b, ts c) { s.resize(a, b, c); }
template <size_t R> void vs_resize_dims(VS<R>& s, const tensor_dims_t<R>& d) { s.resize(d); }
template <size_t R> auto vs_data(VS<R>& s) { return s.data(); }
template <size_t R> auto vs_cdata(const VS<R>& s) { return s.data(); }
// ---- constant mapping storage
void cs_ctor_sizes_1(const double* p, ts a) { CS<1> s(p, a); }
void cs_ctor_sizes_2(const double* p, ts a, ts b) { CS<2> s(p, a, b); }
void cs_ctor_sizes_3(const double* p, ts a, ts b, ts c) { CS<3> s(p, a, b, c); }
template <size_t R> void cs_ctor_dims(const double* p, const tensor_dims_t<R>& d) { CS<R> s(p, d); }
template <size_t R> void cs_from_v(const VS<R>& v) { CS<R> s(v); }
template <size_t R> void cs_from_m(const MS<R>& m) { CS<R> s(m); }
template <size_t R> void cs_copy_ctor(const CS<R>& o) { CS<R> s(o); }
template <size_t R> void cs_move_assign(CS<R>& s, CS<R>& o) { s = std::move(o); }
template <size_t R> auto cs_data(const CS<R>& s) { return s.data(); }
// ---- mutable mapping storage
void ms_ctor_sizes_1(double* p, ts a) { MS<1> s(p, a); }
void ms_ctor_sizes_2(double* p, ts a, ts b) { MS<2> s(p, a, b); }
void ms_ctor_sizes_3(double* p, ts a, ts b, ts c) { MS<3> s(p, a, b, c); }
template <size_t R> void ms_ctor_dims(double* p, const tensor_dims_t<R>& d) { MS<R> s(p, d); }
template <size_t R> void ms_from_v(VS<R>& v) { MS<R> s(v); }
template <size_t R> void ms_copy_ctor(const MS<R>& o) { MS<R> s(o); }
template <size_t R> void ms_assign_v(MS<R>& s, const VS<R>& v) { s = v; }
template <size_t R> void ms_assign_c(MS<R>& s, const CS<R>& c) { s = c; }
template <size_t R> void ms_assign_m(MS<R>& s, const MS<R>& m) { s = m; }
template <size_t R> void ms_move_assign(MS<R>& s, MS<R>& m) { s = std::move(m); }
template <size_t R> auto ms_data(const MS<R>& s) { return s.data(); }
// ---- tensor_t: converting constructors and assignment between storages
template <size_t R> void t_mem_from_cmap(const tensor_cmap_t<double, R>& c) { tensor_mem_t<double, R> t(c); }
template <size_t R> void t_mem_from_map(const tensor_map_t<double, R>& m) { tensor_mem_t<double, R> t(m); }
template <size_t R> void t_cmap_from_mem(const tensor_mem_t<double, R>& v) { tensor_cmap_t<double, R> t(v); }
template <size_t R> void t_cmap_from_map(const tensor_map_t<double, R>& m) { tensor_cmap_t<double, R> t(m); }
template <size_t R> void t_map_from_mem(tensor_mem_t<double, R>& v) { tensor_map_t<double, R> t(v); }
template <size_t R> void t_mem_assign_cmap(tensor_mem_t<double, R>& t, const tensor_cmap_t<double, R>& c) { t = c; }
template <size_t R> void t_mem_assign_map(tensor_mem_t<double, R>& t, const tensor_map_t<double, R>& m) { t = m; }
template <size_t R> void t_map_assign_mem(tensor_map_t<double, R>& t, const tensor_mem_t<double, R>& v) { t = v; }
template <size_t R> void t_map_assign_cmap(tensor_map_t<double, R>& t, const tensor_cmap_t<double, R>& c) { t = c; }
template <size_t R> void t_map_assign_map(tensor_map_t<double, R>& t, const tensor_map_t<double, R>& m) { t = m; }
template <size_t R> void t_mem_resize(tensor_mem_t<double, R>& t, const tensor_dims_t<R>& d) { t.resize(d); }
template <size_t R> void t_map_move_assign(tensor_map_t<double, R>& t, tensor_map_t<double, R>& m) { t = std::move(m); }
#define NV_ALL(R)                                                                                                          \
    template void vs_default_ctor<R>(); template void cs_default_ctor<R>(); template void ms_default_ctor<R>();            \
    template void vs_ctor_dims<R>(const tensor_dims_t<R>&); template void vs_from_c<R>(const CS<R>&);                      \
    template void vs_from_m<R>(const MS<R>&); template void vs_assign_c<R>(VS<R>&, const CS<R>&);                          \
    template void vs_assign_m<R>(VS<R>&, const MS<R>&); template void vs_copy_ctor<R>(const VS<R>&);                       \
    template void vs_move_ctor<R>(VS<R>&); template void vs_copy_assign<R>(VS<R>&, const VS<R>&);                          \
    template void vs_move_assign<R>(VS<R>&, VS<R>&); template void vs_resize_dims<R>(VS<R>&, const tensor_dims_t<R>&);     \
    template auto vs_data<R>(VS<R>&); template auto vs_cdata<R>(const VS<R>&);                                             \
    template void cs_ctor_dims<R>(const double*, const tensor_dims_t<R>&); template void cs_from_v<R>(const VS<R>&);       \
    template void cs_from_m<R>(const MS<R>&); template void cs_copy_ctor<R>(const CS<R>&);                                 \
    template void cs_move_assign<R>(CS<R>&, CS<R>&); template auto cs_data<R>(const CS<R>&);                               \
    template void ms_ctor_dims<R>(double*, const tensor_dims_t<R>&); template void ms_from_v<R>(VS<R>&);                   \
    template void ms_copy_ctor<R>(const MS<R>&); template void ms_assign_v<R>(MS<R>&, const VS<R>&);                       \
    template void ms_assign_c<R>(MS<R>&, const CS<R>&); template void ms_assign_m<R>(MS<R>&, const MS<R>&);                \
    template void ms_move_assign<R>(MS<R>&, MS<R>&); template auto ms_data<R>(const MS<R>&);                               \
    template void t_mem_from_cmap<R>(const tensor_cmap_t<double, R>&); template void t_mem_from_map<R>(const tensor_map_t<double, R>&); \
    template void t_cmap_from_mem<R>(const tensor_mem_t<double, R>&); template void t_cmap_from_map<R>(const tensor_map_t<double, R>&); \
    template void t_map_from_mem<R>(tensor_mem_t<double, R>&);                                                             \
    template void t_mem_assign_cmap<R>(tensor_mem_t<double, R>&, const tensor_cmap_t<double, R>&);                         \
    template void t_mem_assign_map<R>(tensor_mem_t<double, R>&, const tensor_map_t<double, R>&);                           \
    template void t_map_assign_mem<R>(tensor_map_t<double, R>&, const tensor_mem_t<double, R>&);                           \
    template void t_map_assign_cmap<R>(tensor_map_t<double, R>&, const tensor_cmap_t<double, R>&);                         \
    template void t_map_assign_map<R>(tensor_map_t<double, R>&, const tensor_map_t<double, R>&);                           \
    template void t_mem_resize<R>(tensor_mem_t<double, R>&, const tensor_dims_t<R>&);                                      \
    template void t_map_move_assign<R>(tensor_map_t<double, R>&, tensor_map_t<double, R>&);
NV_ALL(1)
NV_ALL(2)
NV_ALL(3)
} // namespace nvdrv
