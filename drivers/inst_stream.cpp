// instantiation-only driver for include/nano/tensor/stream.h and include/nano/core/stream.h (no logic): forces the
// specialisations that the C15 contracts are attached to
#include <nano/tensor/stream.h>
namespace nvdrv
{
using namespace nano;
std::istream& read_f64_1(std::istream& s, tensor_mem_t<double, 1>& t) { return ::nano::read(s, t); }
std::istream& read_f64_2(std::istream& s, tensor_mem_t<double, 2>& t) { return ::nano::read(s, t); }
std::istream& read_f64_4(std::istream& s, tensor_mem_t<double, 4>& t) { return ::nano::read(s, t); }
std::istream& read_i64_1(std::istream& s, tensor_mem_t<int64_t, 1>& t) { return ::nano::read(s, t); }
std::istream& read_f64_3(std::istream& s, tensor_mem_t<double, 3>& t) { return ::nano::read(s, t); }
std::istream& read_i8_1(std::istream& s, tensor_mem_t<int8_t, 1>& t) { return ::nano::read(s, t); }
std::istream& read_i8_3(std::istream& s, tensor_mem_t<int8_t, 3>& t) { return ::nano::read(s, t); }
std::ostream& write_f64_1(std::ostream& s, const tensor_mem_t<double, 1>& t) { return ::nano::write(s, t); }
std::ostream& write_f64_2(std::ostream& s, const tensor_mem_t<double, 2>& t) { return ::nano::write(s, t); }
std::ostream& write_f64_4(std::ostream& s, const tensor_mem_t<double, 4>& t) { return ::nano::write(s, t); }
std::ostream& write_i64_1(std::ostream& s, const tensor_mem_t<int64_t, 1>& t) { return ::nano::write(s, t); }
std::ostream& write_i8_1(std::ostream& s, const tensor_mem_t<int8_t, 1>& t) { return ::nano::write(s, t); }
std::istream& read_string(std::istream& s, std::string& v) { return ::nano::read(s, v); }
std::istream& read_vec_i32(std::istream& s, std::vector<int32_t>& v) { return ::nano::read(s, v); }
std::istream& read_vec_str(std::istream& s, std::vector<std::string>& v) { return ::nano::read(s, v); }
std::ostream& write_string(std::ostream& s, const std::string& v) { return ::nano::write(s, v); }
std::ostream& write_vec_i32(std::ostream& s, const std::vector<int32_t>& v) { return ::nano::write(s, v); }
} // namespace nvdrv
