// instantiation-only driver for include/nano/core/combinatorial.h (no logic): forces every member of
// combinatorial_iterator_t<tensor_size_t> that the C13 contracts are attached to
#include <nano/core/combinatorial.h>
namespace nvdrv
{
using namespace nano;
using comb_t = combinatorial_iterator_t<tensor_size_t>;
comb_t        comb_make(const tensor_mem_t<tensor_size_t, 1>& counts) { return comb_t{counts}; }
bool          comb_valid(const comb_t& it) { return static_cast<bool>(it); }
comb_t&       comb_next(comb_t& it) { return ++it; }
const tensor_mem_t<tensor_size_t, 1>& comb_deref(const comb_t& it) { return *it; }
tensor_size_t comb_index(const comb_t& it) { return it.index(); }
tensor_size_t comb_size(const comb_t& it) { return it.size(); }
} // namespace nvdrv
