// instantiation-only driver for include/nano/factory.h (no logic): forces every non-template member of one factory
// (has, get, ids, size, description, find); the add<T> instantiations are taken from the real src/lsearch0.cpp
#include <nano/lsearch0.h>
template class nano::factory_t<nano::lsearch0_t>;
