// instantiation-only driver: makes the inline accessors of include/nano/solver/bundle.h visible to the AST dump
#include <nano/solver/bundle.h>
namespace nvdrv
{
nano::tensor_size_t size_of(const nano::bundle_t& b) { return b.size(); }
} // namespace nvdrv
