// instantiation-only driver for include/nano/wlearner/util.h (no logic): names one instantiation of each loop_*
// template with an opaque operator type, so that clang prints the instantiated bodies
#include <nano/dataset/hash.h>
#include <nano/wlearner/util.h>
namespace nvdrv
{
using namespace nano;
struct op_scalar_t
{
    void operator()(tensor_size_t, scalar_t) const;
};
struct op_sclass_t
{
    void operator()(tensor_size_t, int32_t) const;
};
struct op_mclass_t
{
    template <class tvalues>
    void operator()(tensor_size_t, const tvalues&) const;
};
void inst_scalar(const dataset_t& d, const indices_t& s, tensor_size_t f, const op_scalar_t& op) { wlearner::loop_scalar(d, s, f, op); }
void inst_sclass(const dataset_t& d, const indices_t& s, tensor_size_t f, const op_sclass_t& op) { wlearner::loop_sclass(d, s, f, op); }
void inst_mclass(const dataset_t& d, const indices_t& s, tensor_size_t f, const op_mclass_t& op) { wlearner::loop_mclass(d, s, f, op); }
tensor_size_t inst_find_sclass(const hashes_t& h, const int32_t& v) { return find(h, v); }
} // namespace nvdrv
// enumerator values used as `case` labels in the C rendering of table.cpp's process() (specs/C10/table.h)
static_assert(static_cast<int>(nano::feature_type::sclass) == 10, "NVE_feature_type_sclass");
static_assert(static_cast<int>(nano::feature_type::mclass) == 11, "NVE_feature_type_mclass");
