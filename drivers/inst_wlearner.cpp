// instantiation-only driver for include/nano/wlearner/util.h (no logic): names one instantiation of each loop_*
// template with an opaque operator type, so that clang prints the instantiated bodies
#include <nano/dataset/hash.h>
#include <nano/wlearner/util.h>
namespace nvdrv
{
using namespace nano;
struct op_scalar_t
{
    void operator()(tensor_size_t, scalar_t) const;
};
struct op_sclass_t
{
    void operator()(tensor_size_t, int32_t) const;
};
struct op_mclass_t
{
    template <class tvalues>
    void operator()(tensor_size_t, const tvalues&) const;
};
void inst_scalar(const dataset_t& d, const indices_t& s, tensor_size_t f, const op_scalar_t& op) { wlearner::loop_scalar(d, s, f, op); }
void inst_sclass(const dataset_t& d, const indices_t& s, tensor_size_t f, const op_sclass_t& op) { wlearner::loop_sclass(d, s, f, op); }
void inst_mclass(const dataset_t& d, const indices_t& s, tensor_size_t f, const op_mclass_t& op) { wlearner::loop_mclass(d, s, f, op); }
tensor_size_t inst_find_sclass(const hashes_t& h, const int32_t& v) { return find(h, v); }
} // namespace nvdrv
// enumerator values used as `case` labels in the C rendering of table.cpp's process() (specs/C10/table.h)
static_assert(static_cast<int>(nano::feature_type::sclass) == 10, "NVE_feature_type_sclass");
static_assert(static_cast<int>(nano::feature_type::mclass) == 11, "NVE_feature_type_mclass");
// enumerator values of the hinge direction used by specs/C10/linear.h
#include <nano/wlearner/dtree.h>
#include <nano/wlearner/hinge.h>
#include <nano/wlearner/stump.h>
#include <type_traits>
static_assert(static_cast<int>(nano::hinge_type::left) == 0, "NVE_hinge_type_left");
static_assert(static_cast<int>(nano::hinge_type::right) == 1, "NVE_hinge_type_right");
// stump, hinge and dtree inherit wlearner_t::try_merge (a class that declared its own override would make the member
// pointer a pointer to member of that class): the contract proved for the base implementation (specs/C10/trymerge.h) is
// the contract of these three learners
using nv_base_try_merge_t = bool (nano::wlearner_t::*)(const nano::rwlearner_t&);
static_assert(std::is_same_v<decltype(&nano::stump_wlearner_t::try_merge), nv_base_try_merge_t>, "stump_wlearner_t overrides try_merge");
static_assert(std::is_same_v<decltype(&nano::hinge_wlearner_t::try_merge), nv_base_try_merge_t>, "hinge_wlearner_t overrides try_merge");
static_assert(std::is_same_v<decltype(&nano::dtree_wlearner_t::try_merge), nv_base_try_merge_t>, "dtree_wlearner_t overrides try_merge");
// default member initialisers of dtree_node_t: the C rendering of `dtree_node_t node;` in dtree.cpp's do_fit is the all-zero
// struct with m_feature / m_threshold / m_table assigned before use; m_next == 0 ("leaf until linked") is relied on
static_assert(nano::dtree_node_t{}.m_next == 0U && nano::dtree_node_t{}.m_table == -1 && nano::dtree_node_t{}.m_feature == -1,
              "dtree_node_t default member initialisers");
// enumerator values used as `case` labels in the C rendering of wlearner::make_score (specs/C10/criterion.h)
#include <nano/wlearner/criterion.h>
static_assert(static_cast<int>(nano::wlearner_criterion::rss) == 0 && static_cast<int>(nano::wlearner_criterion::aic) == 1 &&
                  static_cast<int>(nano::wlearner_criterion::aicc) == 2 && static_cast<int>(nano::wlearner_criterion::bic) == 3,
              "NVE_wlearner_criterion_*");
