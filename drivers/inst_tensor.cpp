// instantiation-only driver for include/nano/tensor/{base,tensor,range,algorithm,integral}.h (no logic): forces the
// member / function template specialisations that the extended C16 contracts are attached to (ranks 1..4)
#include <nano/tensor/algorithm.h>
#include <nano/tensor/integral.h>
#include <nano/tensor/tensor.h>
namespace nvdrv
{
using namespace nano;
using ts = tensor_size_t;
template <size_t R>
using T = tensor_mem_t<double, R>;
// ---- rank 1
auto base_size_1(const T<1>& t) { return t.size(); }
auto base_offset_1(const T<1>& t, ts a) { return t.offset(a); }
auto base_offset0_1_0(const T<1>& t) { return t.offset0(); }
auto base_offset0_1_1(const T<1>& t, ts a) { return t.offset0(a); }
auto base_dims0_1_0(const T<1>& t) { return t.dims0(); }
auto& at_1(T<1>& t, ts a) { return t(a); }
auto& cat_1(const T<1>& t, ts a) { return t(a); }
auto vector_1_0(T<1>& t) { return t.vector(); }
auto tensor_1_0(T<1>& t) { return t.tensor(); }
auto slice_1(T<1>& t, ts b, ts e) { return t.slice(b, e); }
auto slice_range_1(T<1>& t, const tensor_range_t& r) { return t.slice(r); }
void resize_1(T<1>& t, const tensor_dims_t<1>& d) { t.resize(d); }
void indexed_mem_1(const T<1>& t, indices_cmap_t i, T<1>& s) { t.indexed(i, s); }
void indexed_map_1(const T<1>& t, indices_cmap_t i, tensor_map_t<double, 1> s) { t.indexed(i, s); }
auto indexed_ret_1(const T<1>& t, indices_cmap_t i) { return t.indexed(i); }
// ---- rank 2
auto base_size_2(const T<2>& t) { return t.size(); }
auto base_offset_2(const T<2>& t, ts a, ts b) { return t.offset(a, b); }
auto base_offset0_2_0(const T<2>& t) { return t.offset0(); }
auto base_offset0_2_1(const T<2>& t, ts a) { return t.offset0(a); }
auto base_offset0_2_2(const T<2>& t, ts a, ts b) { return t.offset0(a, b); }
auto base_dims0_2_0(const T<2>& t) { return t.dims0(); }
auto base_dims0_2_1(const T<2>& t, ts a) { return t.dims0(a); }
auto& at_2(T<2>& t, ts a, ts b) { return t(a, b); }
auto& cat_2(const T<2>& t, ts a, ts b) { return t(a, b); }
auto vector_2_0(T<2>& t) { return t.vector(); }
auto tensor_2_0(T<2>& t) { return t.tensor(); }
auto vector_2_1(T<2>& t, ts a) { return t.vector(a); }
auto tensor_2_1(T<2>& t, ts a) { return t.tensor(a); }
auto matrix_2(T<2>& t) { return t.matrix(); }
auto rows_2(const T<2>& t) { return t.rows(); }
auto cols_2(const T<2>& t) { return t.cols(); }
auto slice_2(T<2>& t, ts b, ts e) { return t.slice(b, e); }
auto slice_range_2(T<2>& t, const tensor_range_t& r) { return t.slice(r); }
void resize_2(T<2>& t, const tensor_dims_t<2>& d) { t.resize(d); }
void indexed_mem_2(const T<2>& t, indices_cmap_t i, T<2>& s) { t.indexed(i, s); }
void indexed_map_2(const T<2>& t, indices_cmap_t i, tensor_map_t<double, 2> s) { t.indexed(i, s); }
auto indexed_ret_2(const T<2>& t, indices_cmap_t i) { return t.indexed(i); }
// ---- rank 3
auto base_size_3(const T<3>& t) { return t.size(); }
auto base_offset_3(const T<3>& t, ts a, ts b, ts c) { return t.offset(a, b, c); }
auto base_offset0_3_0(const T<3>& t) { return t.offset0(); }
auto base_offset0_3_1(const T<3>& t, ts a) { return t.offset0(a); }
auto base_offset0_3_2(const T<3>& t, ts a, ts b) { return t.offset0(a, b); }
auto base_offset0_3_3(const T<3>& t, ts a, ts b, ts c) { return t.offset0(a, b, c); }
auto base_dims0_3_0(const T<3>& t) { return t.dims0(); }
auto base_dims0_3_1(const T<3>& t, ts a) { return t.dims0(a); }
auto base_dims0_3_2(const T<3>& t, ts a, ts b) { return t.dims0(a, b); }
auto& at_3(T<3>& t, ts a, ts b, ts c) { return t(a, b, c); }
auto& cat_3(const T<3>& t, ts a, ts b, ts c) { return t(a, b, c); }
auto vector_3_0(T<3>& t) { return t.vector(); }
auto tensor_3_0(T<3>& t) { return t.tensor(); }
auto vector_3_1(T<3>& t, ts a) { return t.vector(a); }
auto tensor_3_1(T<3>& t, ts a) { return t.tensor(a); }
auto vector_3_2(T<3>& t, ts a, ts b) { return t.vector(a, b); }
auto tensor_3_2(T<3>& t, ts a, ts b) { return t.tensor(a, b); }
auto matrix_3(T<3>& t, ts a) { return t.matrix(a); }
auto rows_3(const T<3>& t) { return t.rows(); }
auto cols_3(const T<3>& t) { return t.cols(); }
auto slice_3(T<3>& t, ts b, ts e) { return t.slice(b, e); }
auto slice_range_3(T<3>& t, const tensor_range_t& r) { return t.slice(r); }
void resize_3(T<3>& t, const tensor_dims_t<3>& d) { t.resize(d); }
void indexed_mem_3(const T<3>& t, indices_cmap_t i, T<3>& s) { t.indexed(i, s); }
void indexed_map_3(const T<3>& t, indices_cmap_t i, tensor_map_t<double, 3> s) { t.indexed(i, s); }
auto indexed_ret_3(const T<3>& t, indices_cmap_t i) { return t.indexed(i); }
// ---- rank 4
auto base_size_4(const T<4>& t) { return t.size(); }
auto base_offset_4(const T<4>& t, ts a, ts b, ts c, ts d) { return t.offset(a, b, c, d); }
auto base_offset0_4_0(const T<4>& t) { return t.offset0(); }
auto base_offset0_4_1(const T<4>& t, ts a) { return t.offset0(a); }
auto base_offset0_4_2(const T<4>& t, ts a, ts b) { return t.offset0(a, b); }
auto base_offset0_4_3(const T<4>& t, ts a, ts b, ts c) { return t.offset0(a, b, c); }
auto base_offset0_4_4(const T<4>& t, ts a, ts b, ts c, ts d) { return t.offset0(a, b, c, d); }
auto base_dims0_4_0(const T<4>& t) { return t.dims0(); }
auto base_dims0_4_1(const T<4>& t, ts a) { return t.dims0(a); }
auto base_dims0_4_2(const T<4>& t, ts a, ts b) { return t.dims0(a, b); }
auto base_dims0_4_3(const T<4>& t, ts a, ts b, ts c) { return t.dims0(a, b, c); }
auto& at_4(T<4>& t, ts a, ts b, ts c, ts d) { return t(a, b, c, d); }
auto& cat_4(const T<4>& t, ts a, ts b, ts c, ts d) { return t(a, b, c, d); }
auto vector_4_0(T<4>& t) { return t.vector(); }
auto tensor_4_0(T<4>& t) { return t.tensor(); }
auto vector_4_1(T<4>& t, ts a) { return t.vector(a); }
auto tensor_4_1(T<4>& t, ts a) { return t.tensor(a); }
auto vector_4_2(T<4>& t, ts a, ts b) { return t.vector(a, b); }
auto tensor_4_2(T<4>& t, ts a, ts b) { return t.tensor(a, b); }
auto vector_4_3(T<4>& t, ts a, ts b, ts c) { return t.vector(a, b, c); }
auto tensor_4_3(T<4>& t, ts a, ts b, ts c) { return t.tensor(a, b, c); }
auto matrix_4(T<4>& t, ts a, ts b) { return t.matrix(a, b); }
auto rows_4(const T<4>& t) { return t.rows(); }
auto cols_4(const T<4>& t) { return t.cols(); }
auto slice_4(T<4>& t, ts b, ts e) { return t.slice(b, e); }
auto slice_range_4(T<4>& t, const tensor_range_t& r) { return t.slice(r); }
void resize_4(T<4>& t, const tensor_dims_t<4>& d) { t.resize(d); }
void indexed_mem_4(const T<4>& t, indices_cmap_t i, T<4>& s) { t.indexed(i, s); }
void indexed_map_4(const T<4>& t, indices_cmap_t i, tensor_map_t<double, 4> s) { t.indexed(i, s); }
auto indexed_ret_4(const T<4>& t, indices_cmap_t i) { return t.indexed(i); }
// ---- reshape: source rank x target rank
auto reshape_2_1(T<2>& t, ts a) { return t.reshape(a); }
auto reshape_2_2(T<2>& t, ts a, ts b) { return t.reshape(a, b); }
auto reshape_2_3(T<2>& t, ts a, ts b, ts c) { return t.reshape(a, b, c); }
auto reshape_2_4(T<2>& t, ts a, ts b, ts c, ts d) { return t.reshape(a, b, c, d); }
auto reshape_1_2(T<1>& t, ts a, ts b) { return t.reshape(a, b); }
auto reshape_3_1(T<3>& t, ts a) { return t.reshape(a); }
auto reshape_4_2(T<4>& t, ts a, ts b) { return t.reshape(a, b); }
// ---- range.h
auto range_make(ts b, ts e) { return make_range(b, e); }
auto range_size(const tensor_range_t& r) { return r.size(); }
auto range_begin(const tensor_range_t& r) { return r.begin(); }
auto range_end(const tensor_range_t& r) { return r.end(); }
auto range_valid(const tensor_range_t& r, ts n) { return r.valid(n); }
// ---- algorithm.h: remove_if with an opaque predicate (declared, never defined) on one rank-1 tensor and on the
// (rank 1, rank 2, rank 1) triple of slices that solver/bundle.h passes
struct op_t
{
    bool operator()(ts) const;
};
auto remove_if_1(const op_t& op, T<1>& x) { return remove_if(op, x); }
auto remove_if_121(const op_t& op, T<1>& e, T<2>& s, T<1>& a) { return remove_if(op, e.slice(0, 1), s.slice(0, 1), a.slice(0, 1)); }
void detail_copy_3(ts a, ts b, tensor_map_t<double, 3>& t) { detail::copy(a, b, t); }
// ---- integral.h: input scalar narrower than the output scalar
void integral_int8_int64_1(tensor_cmap_t<int8_t, 1> i, tensor_map_t<int64_t, 1> o) { integral(i, o); }
void integral_int8_int64_2(tensor_cmap_t<int8_t, 2> i, tensor_map_t<int64_t, 2> o) { integral(i, o); }
void integral_int8_int64_3(tensor_cmap_t<int8_t, 3> i, tensor_map_t<int64_t, 3> o) { integral(i, o); }
void integral_int32_int64_1(tensor_cmap_t<int32_t, 1> i, tensor_map_t<int64_t, 1> o) { integral(i, o); }
void integral_int32_int64_2(tensor_cmap_t<int32_t, 2> i, tensor_map_t<int64_t, 2> o) { integral(i, o); }
void integral_int32_int64_3(tensor_cmap_t<int32_t, 3> i, tensor_map_t<int64_t, 3> o) { integral(i, o); }
} // namespace nvdrv
