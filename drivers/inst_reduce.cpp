// instantiation-only driver for include/nano/core/reduce.h (no logic): sum_reduce for the two accumulator types of C09
#include <nano/core/reduce.h>
#include <nano/gboost/accumulator.h>
#include <nano/linear/accumulator.h>
namespace nvdrv
{
using namespace nano;
const auto& sum_linear(linear::accumulators_t& a, tensor_size_t samples) { return sum_reduce(a, samples); }
const auto& sum_gboost(gboost::accumulators_t& a, tensor_size_t samples) { return sum_reduce(a, samples); }
} // namespace nvdrv
