// instantiation-only driver for include/nano/parameter.h (no logic): forces the value<>/value_pair<> accessors and
// the make_* factories that the C19 contracts are attached to
#include <nano/parameter.h>
namespace nvdrv
{
using namespace nano;
int64_t  value_i64(const parameter_t& p) { return p.value<int64_t>(); }
scalar_t value_f64(const parameter_t& p) { return p.value<scalar_t>(); }
string_t value_str(const parameter_t& p) { return p.value<string_t>(); }
std::tuple<int64_t, int64_t>   pair_i64(const parameter_t& p) { return p.value_pair<int64_t>(); }
std::tuple<scalar_t, scalar_t> pair_f64(const parameter_t& p) { return p.value_pair<scalar_t>(); }
} // namespace nvdrv
#include <nano/solver/status.h>
namespace nvdrv
{
using namespace nano;
parameter_t& assign_enum(parameter_t& p, solver_status v) { return p = v; }
} // namespace nvdrv
