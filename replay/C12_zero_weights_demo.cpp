// C12 demonstration (not a replay of a solver model): the loss-weighted bootstrap of gboost with ALL-ZERO weights.
// The REAL components are composed in the order src/gboost/model.cpp uses them in its boosting loop:
//   values(0,:) / values(1,:) = loss->error / loss->value of (targets, outputs)      [gboost::evaluate does exactly this per batch]
//   early_stopping_t::done(values, train, valid, wlearners, epsilon, patience)        [the guard that precedes every sampler.sample()]
//   sampler_t{train, wei_loss_bootstrap, seed, ratio}.sample(values, gradients)
// Scenario: cauchy loss, every training residual is 5e-9: value = 0.5 * log(1 + 2.5e-17) == 0.0 exactly (1 + 2.5e-17 == 1 in
// double) while the error |t - o| = 5e-9 is >= gboost::epsilon = 1e-12 (inside the registered domain [1e-12, 1]).
#include <nano/core/sampling.h>
#include <nano/gboost/early_stopping.h>
#include <nano/gboost/sampler.h>
#include <nano/loss.h>
#include <cstdio>
#include <cstdlib>

using namespace nano;

int main(int argc, char** argv)
{
    const auto residual = argc > 1 ? std::atof(argv[1]) : 5e-9;
    const auto epsilon  = argc > 2 ? std::atof(argv[2]) : 1e-12;
    const auto lossname = argc > 3 ? argv[3] : "cauchy";
    const tensor_size_t samples = 20;

    const auto loss = loss_t::all().get(lossname);
    if (!loss) { std::printf("unknown loss\n"); return 2; }

    auto targets = tensor4d_t{make_dims(samples, 1, 1, 1)};
    auto outputs = tensor4d_t{make_dims(samples, 1, 1, 1)};
    for (tensor_size_t i = 0; i < samples; ++i)
    {
        targets(i, 0, 0, 0) = 0.25 * static_cast<scalar_t>(i);
        outputs(i, 0, 0, 0) = targets(i, 0, 0, 0) + residual;
    }
    auto values = tensor2d_t{2, samples};
    loss->error(targets, outputs, values.tensor(0));
    loss->value(targets, outputs, values.tensor(1));
    auto gradients = tensor4d_t{make_dims(samples, 1, 1, 1)};
    loss->vgrad(targets, outputs, gradients);

    const auto train = arange(0, 15);
    const auto valid = arange(15, samples);
    scalar_t maxloss = 0.0, minerr = 1e300;
    for (tensor_size_t i = 0; i < train.size(); ++i)
    {
        maxloss = std::max(maxloss, values(1, train(i)));
        minerr  = std::min(minerr, values(0, train(i)));
    }
    std::printf("loss=%s residual=%g: max training loss=%g, min training error=%g, gboost::epsilon=%g\n", lossname, residual, maxloss, minerr, epsilon);

    auto initial = tensor2d_t{2, samples};
    initial.full(1.0);
    auto       optimum = gboost::early_stopping_t{initial};
    const auto done    = optimum.done(values, train, valid, rwlearners_t{}, epsilon, 10);
    std::printf("early_stopping_t::done(...) = %s  (false: the boosting loop goes on to sampler.sample)\n", done ? "true" : "false");

    auto sampler = gboost::sampler_t{train, gboost_subsample::wei_loss_bootstrap, 42, 1.0};
    const auto sel = sampler.sample(values, gradients);
    std::printf("sampler.sample ->");
    tensor_size_t distinct = 0;
    for (tensor_size_t i = 0; i < sel.size(); ++i)
    {
        std::printf(" %ld", static_cast<long>(sel(i)));
        distinct += (i == 0 || sel(i) != sel(i - 1)) ? 1 : 0;
    }
    std::printf("\n%ld distinct sample(s) among %ld drawn\n", static_cast<long>(distinct), static_cast<long>(sel.size()));
    const bool defect = !done && maxloss == 0.0 && distinct == 1;
    std::printf(defect ? "REPRODUCED: all weights are 0 (std::discrete_distribution precondition violated), the bootstrap is one sample repeated\n"
                       : "not reproduced\n");
    return defect ? 1 : 0;
}
