// native replay for C09 (objective protocol and access paths): runs the REAL linear::function_t and gboost bias / scale
// objectives of the working tree on a small synthetic dataset and checks two consequences of the property that need no
// re-implementation of any loss:
//   MEAN   the objective over the iterator samples [first, last) (no regularisation) is the mean of the objectives over the
//          single-sample iterators {i}, i in [first, last)  -- "equals mean_i loss(...)" over exactly the iterator's samples;
//   CACHE  for every scaling mode, the value with cached inputs / targets equals the value computed on the fly.
// usage: C09_objective_replay <first> <last> <threads> <batch>      (dataset: 30 samples; exit 1 = a clause is violated)
#include <cmath>
#include <cstdio>
#include <cstdlib>
#include <nano/dataset.h>
#include <nano/dataset/iterator.h>
#include <nano/datasource/linear.h>
#include <nano/generator/elemwise_identity.h>
#include <nano/gboost/function.h>
#include <nano/linear/function.h>
#include <nano/loss.h>
#include <nano/wlearner/util.h>

using namespace nano;

static int failures = 0;

static void expect_close(const char* clause, const char* what, const scalar_t got, const scalar_t expected)
{
    const auto tol = 1e-9 * std::max(1.0, std::fabs(expected));
    const auto ok  = std::fabs(got - expected) <= tol;
    std::printf("{\"clause\": \"%s\", \"what\": \"%s\", \"got\": %.12g, \"expected\": %.12g, \"ok\": %s}\n", clause, what, got, expected,
                ok ? "true" : "false");
    failures += ok ? 0 : 1;
}

template <class tmake>
static void check_mean(const char* what, const tensor_size_t first, const tensor_size_t last, const tmake& make_value)
{
    const auto whole = make_value(arange(first, last));
    scalar_t   sum   = 0.0;
    for (tensor_size_t i = first; i < last; ++i)
    {
        sum += make_value(arange(i, i + 1));
    }
    expect_close("MEAN", what, whole, sum / static_cast<scalar_t>(last - first));
}

int main(int argc, char** argv)
{
    if (argc != 5) return 2;
    const auto first = static_cast<tensor_size_t>(std::atol(argv[1])), last = static_cast<tensor_size_t>(std::atol(argv[2]));
    const auto threads = static_cast<size_t>(std::atol(argv[3]));
    const auto batch   = static_cast<tensor_size_t>(std::atol(argv[4]));
    if (!(0 <= first && first < last && last <= 30 && batch >= 1)) return 2;

    auto datasource                                      = linear_datasource_t{};
    datasource.parameter("datasource::linear::samples")  = 30;
    datasource.parameter("datasource::linear::targets")  = 2;
    datasource.parameter("datasource::linear::features") = 4;
    datasource.parameter("datasource::linear::missing")  = 10;
    datasource.parameter("datasource::linear::noise")    = 0.1;
    datasource.load();
    auto dataset = dataset_t{datasource, threads};
    dataset.add<sclass_identity_generator_t>();
    dataset.add<mclass_identity_generator_t>();
    dataset.add<scalar_identity_generator_t>();
    dataset.add<struct_identity_generator_t>();

    const auto loss  = loss_t::all().get("mse");
    const auto total = dataset.samples();

    // linear objective (no regularisation), gboost bias and scale objectives: mean over exactly the iterator's samples
    {
        const auto isize = dataset.columns();
        const auto tsize = ::nano::size(dataset.target_dims());
        const vector_t x = make_random_vector<scalar_t>((isize + 1) * tsize, -1.0, +1.0, 7U);
        check_mean("linear objective", first, last,
                   [&](const indices_t& samples)
                   {
                       auto iterator = flatten_iterator_t{dataset, samples};
                       iterator.batch(batch);
                       iterator.scaling(scaling_type::none);
                       const auto function = linear::function_t{iterator, *loss, 0.0, 0.0};
                       return function.vgrad(x);
                   });
        const vector_t xb = make_random_vector<scalar_t>(tsize, -1.0, +1.0, 19U);
        check_mean("gboost bias objective", first, last,
                   [&](const indices_t& samples)
                   {
                       auto iterator = targets_iterator_t{dataset, samples};
                       iterator.batch(batch);
                       iterator.scaling(scaling_type::none);
                       const auto function = gboost::bias_function_t{iterator, *loss};
                       return function.vgrad(xb);
                   });
        const auto soutputs = make_random_tensor<scalar_t>(cat_dims(total, dataset.target_dims()), -1.0, +1.0, 3U);
        const auto woutputs = make_random_tensor<scalar_t>(cat_dims(total, dataset.target_dims()), -1.0, +1.0, 5U);
        auto       cluster  = cluster_t{total, 3};
        for (tensor_size_t sample = 0; sample < total; ++sample)
        {
            if (sample % 4 != 3) { cluster.assign(sample, (sample * 7 + 1) % 3); }
        }
        const vector_t xs = make_random_vector<scalar_t>(3, +0.5, +2.0, 17U);
        check_mean("gboost scale objective", first, last,
                   [&](const indices_t& samples)
                   {
                       auto iterator = targets_iterator_t{dataset, samples};
                       iterator.batch(batch);
                       iterator.scaling(scaling_type::none);
                       const auto function = gboost::scale_function_t{iterator, *loss, cluster, soutputs, woutputs};
                       return function.vgrad(xs);
                   });
    }

    // cached == on-the-fly, for every scaling mode
    for (const auto scaling : {scaling_type::none, scaling_type::mean, scaling_type::minmax, scaling_type::standard})
    {
        const auto samples = arange(first, last);
        const auto isize   = dataset.columns();
        const auto tsize   = ::nano::size(dataset.target_dims());
        const vector_t x   = make_random_vector<scalar_t>((isize + 1) * tsize, -1.0, +1.0, 11U);
        scalar_t values[2] = {0.0, 0.0}, bvalues[2] = {0.0, 0.0};
        for (const int cached : {0, 1})
        {
            auto iterator = flatten_iterator_t{dataset, samples};
            iterator.batch(batch);
            iterator.scaling(scaling);
            if (cached != 0)
            {
                iterator.cache_flatten(tensor_size_t{1} << 30);
                iterator.cache_targets(tensor_size_t{1} << 30);
            }
            values[cached] = linear::function_t{iterator, *loss, 0.0, 0.0}.vgrad(x);

            auto titerator = targets_iterator_t{dataset, samples};
            titerator.batch(batch);
            titerator.scaling(scaling);
            if (cached != 0) { titerator.cache_targets(tensor_size_t{1} << 30); }
            const vector_t xb = make_random_vector<scalar_t>(tsize, -1.0, +1.0, 19U);
            bvalues[cached]   = gboost::bias_function_t{titerator, *loss}.vgrad(xb);
        }
        char what[96];
        std::snprintf(what, sizeof(what), "linear objective, scaling mode %d: cached vs on the fly", static_cast<int>(scaling));
        expect_close("CACHE", what, values[1], values[0]);
        std::snprintf(what, sizeof(what), "gboost bias objective, scaling mode %d: cached vs on the fly", static_cast<int>(scaling));
        expect_close("CACHE", what, bvalues[1], bvalues[0]);
    }
    return failures > 0 ? 1 : 0;
}
