// C02 finding "a failed line search can end in status converged above the starting value" (specs/C02/FINDING_failed_lsearch_converged.md).
// Smooth 1-D function f(x) = c (x^4/4 - x^2/2 + b x^3): local maximum at 0 (f = 0), start x0 = -1.3 on the far side of the left valley
// (f(x0) < 0).  c is chosen so that x0 - 0.5 f'(x0) = 0.  Line search: initial step 1 (lsearch0 constant), backtracking with bisection and
// max_iterations = 1: the trial at t = 1 violates Armijo, the next trial t = 0.5 is evaluated and the budget of the line search is exhausted:
// lsearchk_t::get returns {false, 0.5} and leaves the state at x0 + 0.5 d = 0, where the gradient test holds.  solver_t::done(state, iter_ok =
// false, converged = true) then reports `converged`.
#include <nano/function.h>
#include <nano/solver.h>
#include <cmath>
#include <cstdio>
using namespace nano;
static const double B = 0.1;
static double W(double x) { return x * x * x * x / 4 - x * x / 2 + B * x * x * x; }
static double dW(double x) { return x * x * x - x + 3 * B * x * x; }
struct hill_t final : public function_t
{
    double c;
    explicit hill_t(double c_) : function_t("hill", 1), c(c_) { convex(convexity::no); smooth(smoothness::yes); }
    rfunction_t clone() const override { return std::make_unique<hill_t>(*this); }
    scalar_t    do_vgrad(vector_cmap_t x, vector_map_t gx) const override
    {
        if (gx.size() == x.size()) { gx(0) = c * dW(x(0)); }
        return c * W(x(0));
    }
};
int main()
{
    const double xs = -1.3;
    const double c  = 2.0 * (-xs) / (-dW(xs));      // x0 + 0.5 * (-c dW(x0)) == 0
    int bad = 0;
    for (const auto& id : {"gd", "cgd-pr", "lbfgs", "bfgs"})
    {
        auto solver = solver_t::all().get(id);
        solver->lsearch0("constant");
        solver->lsearchk("backtrack");
        auto lsk = solver->lsearchk().clone();
        lsk->parameter("lsearchk::max_iterations") = 1;
        lsk->parameter("lsearchk::backtrack::interpolation") = interpolation_type::bisection;
        solver->lsearchk(*lsk);
        hill_t   f(c);
        vector_t x0(1);
        x0(0) = xs;
        const auto f0    = c * W(xs);
        const auto state = solver->minimize(f, x0, make_null_logger());
        const bool v     = state.status() != solver_status::failed && state.fx() > f0;
        bad += v ? 1 : 0;
        std::printf("%s: status=%d (0 max_iters, 1 converged, 2 failed) x=%.3g f(x)=%.6g f(x0)=%.6g calls=%d|%d  %s\n", id, static_cast<int>(state.status()),
                    state.x()(0), state.fx(), f0, static_cast<int>(state.fcalls()), static_cast<int>(state.gcalls()), v ? "VIOLATES f <= f0" : "ok");
    }
    return bad ? 1 : 0;
}
