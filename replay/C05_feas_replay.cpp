// native replay for C05 (feasibility measures), two modes:
//   kkt        solver_state_t::kkt_optimality_test1..5 / kkt_optimality_test on a state of a linearly constrained quadratic with given
//              multipliers, against the documented infinity norms recomputed by hand from the problem data;
//   criterion  the real augmented-Lagrangian solver on projections onto a half-space whose solution lies far from the origin
//              (ro grows above 1): status == converged  =>  max(0, g) <= epsilon and |h| <= epsilon at the returned point.
// exit 1 = the property is violated on the real code, exit 0 = not reproduced.
#include <nano/function/constraint.h>
#include <nano/function/lambda.h>
#include <nano/solver/augmented.h>
#include <cmath>
#include <cstdio>
#include <cstring>

using namespace nano;
using namespace nano::constraint;

static int check(const char* what, const double stored, const double expected, const double tol)
{
    if (!(std::fabs(stored - expected) <= tol))
    {
        std::printf("FAIL %s: library=%.17g recomputed=%.17g\n", what, stored, expected);
        return 1;
    }
    return 0;
}

static int run_kkt()
{
    // f(x) = 1/2 |x - 2|^2, equalities A x = b (3 rows), inequalities C x <= d (2 rows)
    const double A[3][4] = {{1.0, 1.0, 1.0, 1.0}, {1.0, -1.0, 2.0, 0.0}, {0.0, 1.0, 1.0, -3.0}};
    const double b[3]    = {1.0, 0.5, -2.0};
    const double C[2][4] = {{1.0, 0.0, 0.0, 0.0}, {0.0, 1.0, -1.0, 0.5}};
    const double d[2]    = {0.5, 4.0};
    const auto objective = [](vector_cmap_t x, vector_map_t gx)
    {
        if (gx.size() == x.size())
        {
            gx.array() = x.array() - 2.0;
        }
        return 0.5 * (x.array() - 2.0).square().sum();
    };
    auto function = make_function(4, convexity::yes, smoothness::yes, 1.0, objective);
    for (int j = 0; j < 3; ++j)
    {
        function.constrain(linear_equality_t{make_vector<scalar_t>(A[j][0], A[j][1], A[j][2], A[j][3]), -b[j]});
    }
    for (int i = 0; i < 2; ++i)
    {
        function.constrain(linear_inequality_t{make_vector<scalar_t>(C[i][0], C[i][1], C[i][2], C[i][3]), -d[i]});
    }
    const double xs[2][4]   = {{3.0, -1.0, 0.5, 2.0}, {0.25, 1.5, -0.75, 1.0}};
    const double meqs[2][3] = {{0.5, -1.25, 2.0}, {-0.3, 0.7, 0.1}};
    const double mins[2][2] = {{1.5, -0.75}, {-2.0, 0.25}};
    int          bad        = 0;
    for (int k = 0; k < 2; ++k)
    {
        const auto x     = make_vector<scalar_t>(xs[k][0], xs[k][1], xs[k][2], xs[k][3]);
        const auto meq   = make_vector<scalar_t>(meqs[k][0], meqs[k][1], meqs[k][2]);
        const auto mineq = make_vector<scalar_t>(mins[k][0], mins[k][1]);
        auto       state = solver_state_t{function, x};
        state.update(x, meq, mineq);

        double h[3], g[2], lg[4];
        for (int c = 0; c < 4; ++c)
        {
            lg[c] = xs[k][c] - 2.0;
        }
        for (int j = 0; j < 3; ++j)
        {
            h[j] = -b[j];
            for (int c = 0; c < 4; ++c)
            {
                h[j] += A[j][c] * xs[k][c];
                lg[c] += meqs[k][j] * A[j][c];
            }
        }
        for (int i = 0; i < 2; ++i)
        {
            g[i] = -d[i];
            for (int c = 0; c < 4; ++c)
            {
                g[i] += C[i][c] * xs[k][c];
                lg[c] += mins[k][i] * C[i][c];
            }
        }
        double t1 = 0, t2 = 0, t3 = 0, t4 = 0, t5 = 0;
        for (int i = 0; i < 2; ++i)
        {
            t1 = std::max(t1, std::max(g[i], 0.0));
            t3 = std::max(t3, std::max(-mins[k][i], 0.0));
            t4 = std::max(t4, std::fabs(mins[k][i] * g[i]));
        }
        for (int j = 0; j < 3; ++j)
        {
            t2 = std::max(t2, std::fabs(h[j]));
        }
        for (int c = 0; c < 4; ++c)
        {
            t5 = std::max(t5, std::fabs(lg[c]));
        }
        bad += check("kkt_optimality_test1 = |max(g,0)|_inf", state.kkt_optimality_test1(), t1, 1e-12);
        bad += check("kkt_optimality_test2 = |h|_inf", state.kkt_optimality_test2(), t2, 1e-12);
        bad += check("kkt_optimality_test3 = |max(-lambda,0)|_inf", state.kkt_optimality_test3(), t3, 1e-12);
        bad += check("kkt_optimality_test4 = |lambda .* g|_inf", state.kkt_optimality_test4(), t4, 1e-12);
        bad += check("kkt_optimality_test5 = |grad Lagrangian|_inf", state.kkt_optimality_test5(), t5, 1e-12);
        bad += check("kkt_optimality_test = max of the five", state.kkt_optimality_test(),
                     std::max({t1, t2, t3, t4, t5}), 1e-12);
    }
    std::printf("%s\n", bad ? "KKT residuals differ from their documented definitions" : "OK: KKT residuals match");
    return bad ? 1 : 0;
}

static int run_criterion()
{
    int bad = 0, runs = 0;
    for (const auto shift : {30.0, 100.0, 300.0})
    {
        for (const auto epsilon : {1e-4, 1e-5, 1e-7, 1e-8})
        {
            for (const auto with_equality : {false, true})
            {
                const auto a0 = shift + 2.0, a1 = shift + 1.5, a2 = shift - 1.0, b = 1.0 + 2.0 * shift;
                const auto objective = [=](vector_cmap_t x, vector_map_t gx)
                {
                    if (gx.size() == x.size())
                    {
                        gx(0) = x(0) - a0;
                        gx(1) = x(1) - a1;
                        gx(2) = x(2) - a2;
                    }
                    return 0.5 * (square(x(0) - a0) + square(x(1) - a1) + square(x(2) - a2));
                };
                auto function = make_function(3, convexity::yes, smoothness::yes, 1.0, objective);
                function.constrain(linear_inequality_t{make_vector<scalar_t>(1.0, 1.0, 0.0), -b});
                if (with_equality)
                {
                    function.constrain(constant_t{shift, 2});
                }
                auto solver                         = solver_augmented_lagrangian_t{};
                solver.parameter("solver::epsilon") = epsilon;
                const auto  state = solver.minimize(function, make_vector<scalar_t>(0.0, 0.0, 0.0), make_null_logger());
                const auto& x     = state.x();
                const auto  g     = x(0) + x(1) - b;
                const auto  h     = with_equality ? (x(2) - shift) : 0.0;
                ++runs;
                if (state.status() == solver_status::converged && (std::max(0.0, g) > epsilon || std::fabs(h) > epsilon))
                {
                    std::printf("FAIL shift=%g epsilon=%g equality=%d: converged at x=(%.9g, %.9g, %.9g) but max(0,g)=%.3g (%.2f x "
                                "epsilon), |h|=%.3g\n",
                                shift, epsilon, with_equality ? 1 : 0, x(0), x(1), x(2), std::max(0.0, g), std::max(0.0, g) / epsilon,
                                std::fabs(h));
                    ++bad;
                }
            }
        }
    }
    std::printf("%d of %d runs report converged at an infeasible point\n", bad, runs);
    return bad ? 1 : 0;
}

int main(int argc, char* argv[])
{
    if (argc > 1 && std::strcmp(argv[1], "kkt") == 0)
    {
        return run_kkt();
    }
    return run_criterion();
}
