// native replay for C09 (reduce.h): runs the REAL nano::sum_reduce / nano::min_reduce on a vector of k probe accumulators that
// record what happens to them, and checks: accumulator 0 absorbs accumulators 1..k-1 exactly once each, in no other
// accumulator anything is absorbed, accumulator 0 is normalised exactly once, by `samples`, after everything was absorbed;
// min_reduce returns an element with the minimum m_score.     usage: C09_replay <k> <samples>
#include <nano/core/reduce.h>
#include <cstdio>
#include <cstdlib>
#include <vector>

struct probe_t
{
    int              m_id{0};
    std::vector<int> m_absorbed;
    int              m_norms{0};
    long             m_norm_samples{0};
    int              m_absorbed_at_norm{-1};
    double           m_score{0};
    probe_t& operator+=(const probe_t& other) { m_absorbed.push_back(other.m_id); return *this; }
    probe_t& operator/=(const nano::tensor_size_t samples)
    {
        ++m_norms; m_norm_samples = samples; m_absorbed_at_norm = static_cast<int>(m_absorbed.size());
        return *this;
    }
};

int main(int argc, char** argv)
{
    if (argc != 3) return 2;
    const int  k       = std::atoi(argv[1]);
    const long samples = std::atol(argv[2]);
    if (k < 1 || k > 100000) return 2;
    std::vector<probe_t> accs(static_cast<size_t>(k));
    for (int i = 0; i < k; ++i) { accs[static_cast<size_t>(i)].m_id = i; accs[static_cast<size_t>(i)].m_score = static_cast<double>((i * 7919 + 13) % 101); }
    const auto& ret = nano::sum_reduce(accs, samples);
    bool ok = &ret == &accs[0] && accs[0].m_norms == 1 && accs[0].m_norm_samples == samples && accs[0].m_absorbed_at_norm == k - 1 &&
              static_cast<int>(accs[0].m_absorbed.size()) == k - 1;
    std::vector<int> seen(static_cast<size_t>(k), 0);
    for (const auto id : accs[0].m_absorbed) { if (id < 1 || id >= k) { ok = false; } else { ++seen[static_cast<size_t>(id)]; } }
    for (int i = 1; i < k; ++i) { ok = ok && seen[static_cast<size_t>(i)] == 1 && accs[static_cast<size_t>(i)].m_absorbed.empty() && accs[static_cast<size_t>(i)].m_norms == 0; }
    const auto& best = nano::min_reduce(accs);
    bool okmin = true;
    for (const auto& a : accs) { okmin = okmin && !(a.m_score < best.m_score); }
    std::printf("{\"k\": %d, \"absorbed\": %zu, \"norms\": %d, \"sum_reduce_ok\": %s, \"min_reduce_ok\": %s}\n", k, accs[0].m_absorbed.size(),
                accs[0].m_norms, ok ? "true" : "false", okmin ? "true" : "false");
    return (ok && okmin) ? 0 : 1;
}
