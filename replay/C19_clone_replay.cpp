// native replay for C19 (clones of objects with owned sub-objects): real objects from the real factories, every owned
// sub-object given NON-default parameters (each numeric parameter moved to another value of its own domain), then the real
// clone() / copy constructor / copy assignment, and a comparison of ids and parameters of the copy and of each owned sub-object
// with the source's.  usage: C19_clone_replay <solver|mlparams|functional|gboost|factories>      exit 1: some copy differs
#include <nano/function.h>
#include <nano/function/constraint.h>
#include <nano/gboost/model.h>
#include <nano/machine/params.h>
#include <nano/solver.h>
#include <nano/splitter.h>
#include <nano/tuner.h>
#include <nano/wlearner.h>
#include <nano/datasource.h>
#include <nano/generator.h>
#include <nano/linear.h>
#include <nano/loss.h>
#include <nano/lsearch0.h>
#include <nano/lsearchk.h>
#include <iostream>

using namespace nano;

namespace
{
int failures = 0;

void expect(const bool ok, const string_t& what)
{
    if (!ok)
    {
        ++failures;
        if (failures <= 12) { std::cout << "FAIL: " << what << std::endl; }
    }
}

// move every integer / scalar parameter to a different value of its domain (first accepted candidate)
void perturb(configurable_t& object)
{
    for (const auto& param : object.parameters())
    {
        auto& target = object.parameter(param.name());
        if (const auto* ir = std::get_if<parameter_t::irange_t>(&param.storage()))
        {
            for (const int64_t c : {ir->m_value + 1, ir->m_value - 1, ir->m_min, ir->m_max, ir->m_min + 1, ir->m_max - 1})
            {
                if (c == ir->m_value) { continue; }
                try { target = c; break; } catch (std::exception&) {}
            }
        }
        else if (const auto* fr = std::get_if<parameter_t::frange_t>(&param.storage()))
        {
            for (const scalar_t c : {(fr->m_value + fr->m_max) / 2, (fr->m_value + fr->m_min) / 2, fr->m_min, fr->m_max})
            {
                if (c == fr->m_value) { continue; }
                try { target = c; break; } catch (std::exception&) {}
            }
        }
    }
}

bool same(const configurable_t& lhs, const configurable_t& rhs)
{
    return lhs.parameters() == rhs.parameters();
}

void check_solver_copy(const solver_t& solver, const solver_t& copy, const string_t& what)
{
    expect(&solver != &copy, what + ": not a new object");
    expect(solver.type_id() == copy.type_id(), what + ": id " + copy.type_id() + " vs " + solver.type_id());
    expect(solver.type() == copy.type(), what + ": solver type");
    expect(same(solver, copy), what + ": solver parameters differ");
    expect(solver.lsearch0().type_id() == copy.lsearch0().type_id(), what + ": lsearch0 id");
    expect(solver.lsearchk().type_id() == copy.lsearchk().type_id(), what + ": lsearchk id");
    expect(same(solver.lsearch0(), copy.lsearch0()), what + ": parameters of the owned lsearch0 differ");
    expect(same(solver.lsearchk(), copy.lsearchk()), what + ": parameters of the owned lsearchk differ");
    expect(&solver.lsearch0() != &copy.lsearch0() && &solver.lsearchk() != &copy.lsearchk(), what + ": line searches shared");
}

rsolver_t make_solver(const string_t& id, const string_t& id0, const string_t& idk)
{
    auto solver   = solver_t::all().get(id);
    auto lsearch0 = lsearch0_t::all().get(id0);
    auto lsearchk = lsearchk_t::all().get(idk);
    perturb(*lsearch0);
    perturb(*lsearchk);
    solver->lsearch0(*lsearch0);
    solver->lsearchk(*lsearchk);
    perturb(*solver);
    return solver;
}

void replay_solver()
{
    const auto ids0 = lsearch0_t::all().ids();
    const auto idsk = lsearchk_t::all().ids();
    size_t     k    = 0;
    for (const auto& id : solver_t::all().ids())
    {
        const auto& id0    = ids0[k % ids0.size()];
        const auto& idk    = idsk[k % idsk.size()];
        const auto  solver = make_solver(id, id0, idk);
        const auto  clone  = solver->clone();
        check_solver_copy(*solver, *clone, scat("clone of solver ", id, " with lsearch0 ", id0, " / lsearchk ", idk));
        ++k;
    }
}

void check_params_copy(const ml::params_t& p, const ml::params_t& q, const string_t& what)
{
    expect(p.tuner().type_id() == q.tuner().type_id() && same(p.tuner(), q.tuner()), what + ": tuner differs");
    expect(p.splitter().type_id() == q.splitter().type_id() && same(p.splitter(), q.splitter()), what + ": splitter differs");
    check_solver_copy(p.solver(), q.solver(), what + ": solver");
    expect(&p.tuner() != &q.tuner() && &p.splitter() != &q.splitter(), what + ": sub-objects shared");
}

void replay_mlparams()
{
    const auto ids0 = lsearch0_t::all().ids();
    const auto idsk = lsearchk_t::all().ids();
    for (const auto& tid : tuner_t::all().ids())
    {
        for (const auto& sid : splitter_t::all().ids())
        {
            auto tuner    = tuner_t::all().get(tid);
            auto splitter = splitter_t::all().get(sid);
            perturb(*tuner);
            perturb(*splitter);
            auto params = ml::params_t{};
            params.tuner(*tuner).splitter(*splitter).solver(*make_solver("lbfgs", ids0.back(), idsk.front()));
            const auto copy = params;
            check_params_copy(params, copy, scat("copy of params(", tid, ",", sid, ")"));
            auto assigned = ml::params_t{};
            assigned      = params;
            check_params_copy(params, assigned, scat("assignment of params(", tid, ",", sid, ")"));
            auto byptr = ml::params_t{};
            byptr.tuner(tuner).splitter(splitter);
            expect(same(byptr.tuner(), *tuner) && same(byptr.splitter(), *splitter), "params setters by owner: parameters differ");
        }
    }
}

// function_t is not a configurable: its observable configuration is its id, name (which spells its settings) and size
bool same_function(const function_t& lhs, const function_t& rhs)
{
    return lhs.type_id() == rhs.type_id() && lhs.name() == rhs.name() && lhs.size() == rhs.size();
}

void replay_functional()
{
    for (const auto& id : function_t::all().ids())
    {
        const auto function = function_t::all().get(id);
        const auto a        = constraint::functional_t{*function};
        expect(a.m_function && a.m_function != function && same_function(*a.m_function, *function), scat("functional from ", id));
        const auto b = a;
        expect(b.m_function && b.m_function != a.m_function && same_function(*b.m_function, *function), scat("copy of functional ", id));
        auto c = constraint::functional_t{*function_t::all().get(function_t::all().ids().front())};
        c      = a;
        expect(c.m_function && c.m_function != a.m_function && same_function(*c.m_function, *function), scat("assignment of functional ", id));
    }
}

void replay_gboost()
{
    auto prototypes = rwlearners_t{};
    for (const auto& id : wlearner_t::all().ids())
    {
        prototypes.emplace_back(wlearner_t::all().get(id));
        perturb(*prototypes.back());
    }
    auto model = gboost_model_t{};
    perturb(model);
    model.prototypes(prototypes);
    const auto check = [&](const gboost_model_t& copy, const string_t& what)
    {
        expect(same(model, copy), what + ": model parameters differ");
        expect(copy.prototypes().size() == prototypes.size(), what + ": number of prototypes");
        for (size_t i = 0; i < prototypes.size() && i < copy.prototypes().size(); ++i)
        {
            expect(copy.prototypes()[i] && copy.prototypes()[i] != prototypes[i] && (&copy == &model || copy.prototypes()[i] != model.prototypes()[i]) &&
                       copy.prototypes()[i]->type_id() == prototypes[i]->type_id() && same(*copy.prototypes()[i], *prototypes[i]),
                   scat(what, ": prototype ", prototypes[i]->type_id(), " differs"));
        }
    };
    check(model, "prototypes setter");
    const auto copy = model;
    check(copy, "copy of gboost model");
    auto assigned = gboost_model_t{};
    assigned      = model;
    check(assigned, "assignment of gboost model");
}
// every id of one factory: the object reports the id it was registered under; with every numeric parameter moved to a non-default
// value its clone() is a new object with the same id and equal parameters, and modifying the clone leaves the original untouched
template <class tobject>
void replay_factory(const string_t& what)
{
    for (const auto& id : tobject::all().ids())
    {
        auto object = tobject::all().get(id);
        expect(static_cast<bool>(object), what + " <" + id + ">: get() returned null for a listed id");
        if (!object) { continue; }
        expect(object->type_id() == id, what + " <" + id + ">: reports the id <" + object->type_id() + ">");
        if constexpr (std::is_base_of_v<configurable_t, tobject>) { perturb(*object); }
        const auto clone = object->clone();
        expect(clone && clone.get() != object.get(), what + " <" + id + ">: clone() is not a new object");
        if (!clone) { continue; }
        expect(clone->type_id() == object->type_id(), what + " <" + id + ">: the clone reports the id <" + clone->type_id() + ">");
        if constexpr (std::is_base_of_v<configurable_t, tobject>)
        {
            expect(same(*object, *clone), what + " <" + id + "> (non-default parameters): the clone's parameters differ");
            const auto before = object->parameters();
            perturb(*clone);
            expect(object->parameters() == before, what + " <" + id + ">: modifying the clone changed the original");
        }
    }
    expect(!tobject::all().get("no-such-id"), what + ": get() of an unknown id is not null");
}

void replay_factories()
{
    replay_factory<solver_t>("solver");
    replay_factory<lsearch0_t>("lsearch0");
    replay_factory<lsearchk_t>("lsearchk");
    replay_factory<loss_t>("loss");
    replay_factory<splitter_t>("splitter");
    replay_factory<tuner_t>("tuner");
    replay_factory<generator_t>("generator");
    replay_factory<wlearner_t>("wlearner");
    replay_factory<linear_t>("linear");
    replay_factory<datasource_t>("datasource");
    replay_factory<function_t>("function");
}
} // namespace

int main(int argc, char** argv)
{
    const auto what = string_t{argc > 1 ? argv[1] : "all"};
    if (what == "solver" || what == "all") { replay_solver(); }
    if (what == "mlparams" || what == "all") { replay_mlparams(); }
    if (what == "functional" || what == "all") { replay_functional(); }
    if (what == "gboost" || what == "all") { replay_gboost(); }
    if (what == "factories" || what == "all") { replay_factories(); }
    std::cout << (failures == 0 ? "OK" : "FAILED") << ": " << failures << " difference(s)" << std::endl;
    return failures == 0 ? 0 : 1;
}
